/* Native reproducer (observation, property C14/C08): md_xmd_sh256 computes ell = (buf_len + 32 - 1) / 32 in signed int BEFORE it checks the
   length; for buf_len > INT_MAX - 32 the addition overflows (undefined behaviour; UBSan reports it).  The header include/relic_md.h declares the
   length parameters as size_t while the definition takes int, so every value >= 2^31 a caller passes is silently reinterpreted as well.
   build:  gcc -fsanitize=undefined -I/repo/include -I/repo/include/low -I/repo/_build/include -I/repo/src/md c14x_repro_xmd_overflow.c \
               /repo/src/md/relic_md_xmd.c /repo/src/md/sha224-256.c /repo/src/md/sha384-512.c -o repro && ./repro */
#include <stdio.h>
#include <stdint.h>
#include <limits.h>
#include "relic_core.h"
static ctx_t the_ctx;
ctx_t *core_get(void) { return &the_ctx; }
void err_full_msg(const char *f, const char *file, int line, int e) { (void)f; (void)file; (void)line; (void)e; }
void err_simple_msg(int e) { (void)e; }
void md_xmd_sh256(uint8_t *buf, int buf_len, const uint8_t *in, int in_len, const uint8_t *dst, int dst_len);
int main(void) {
	uint8_t out[1], msg[1] = {0}, dst[1] = {0};
	md_xmd_sh256(out, INT_MAX - 5, msg, 1, dst, 1);
	printf("returned, error code = %d (RLC_ERR = %d)\n", the_ctx.code, RLC_ERR);
	return 0;
}
