/* Native reproducers for the C07 observations made while writing the c07x contracts.
   Build:  gcc -I/repo/include -I/repo/include/low -I<build>/include c07x_findings.c <build>/lib/librelic_s.a -o c07x_findings */
#include <stdio.h>
#include <string.h>
#include "relic.h"

static int err(void) { int e = (core_get()->code != RLC_OK); core_get()->code = RLC_OK; core_get()->last = NULL; return e; }

int main(void) {
	if (core_init() != RLC_OK) return 2;
	int bad = 0;

	/* F-A: fb_read_bin accepts bits at or above the field degree m (RLC_FB_BITS): not a reduced field element */
	{
		uint8_t in[RLC_FB_BYTES], out[RLC_FB_BYTES]; fb_t a;
		memset(in, 0, sizeof in); in[0] = 0xFF;                  /* top byte: bits m .. 8*RLC_FB_BYTES-1 set */
		fb_read_bin(a, in, sizeof in);
		int e = err();
		printf("F-A fb_read_bin(top byte 0xFF, m=%d, %d bytes): error=%d, degree bits of result=%d (valid: <= %d)\n", RLC_FB_BITS, (int)RLC_FB_BYTES, e, (int)fb_bits(a), RLC_FB_BITS);
		if (!e && fb_bits(a) > RLC_FB_BITS) { bad++; printf("    -> ACCEPTED a non-reduced element\n"); }
		(void)out;
	}
	/* F-B: fp2_read_bin, compressed form (RLC_FP_BYTES+1 bytes): sign byte other than 0/1 accepted; failed decompression not reported */
	{
		if (ep_param_set_any_pairf() != RLC_OK) { printf("no pairing-friendly curve\n"); return 2; }
		uint8_t in[RLC_FP_BYTES + 1], out[2 * RLC_FP_BYTES + 2]; fp2_t a, b;
		/* a unitary element: (x + iy)/(x - iy) style: take random element, map to cyclotomic subgroup of Fp2 */
		fp2_rand(a); fp2_conv_cyc(a, a);
		int l = fp2_size_bin(a, 1);
		fp2_write_bin(in, l, a, 1);
		printf("F-B encode unitary fp2 element with pack=1: %d bytes, sign byte %d, error=%d\n", l, in[RLC_FP_BYTES], err());
		in[RLC_FP_BYTES] = (uint8_t)(in[RLC_FP_BYTES] | 2);       /* non-canonical sign byte 2 or 3 */
		fp2_read_bin(b, in, l);
		int e = err();
		memset(out, 0, sizeof out);
		int l2 = fp2_size_bin(b, 1);
		fp2_write_bin(out, l2, b, 1);
		printf("    decode with sign byte %d: error=%d; re-encoding: %d bytes, sign byte %d, same bytes=%d\n", in[RLC_FP_BYTES], e, l2, out[RLC_FP_BYTES], l2 == l && memcmp(in, out, l) == 0);
		if (!e && !(l2 == l && memcmp(in, out, l) == 0)) { bad++; printf("    -> ACCEPTED a string that does not re-encode to itself\n"); }
		/* a first coefficient for which 1 - a0^2 is a non-residue: decompression fails, result ignored */
		for (int t = 0; t < 64; t++) {
			fp_t s; fp2_t c; uint8_t in2[RLC_FP_BYTES + 1];
			fp_rand(c[0]); fp_sqr(s, c[0]); fp_sub_dig(s, s, 1); fp_neg(s, s);
			if (fp_srt(s, s)) continue;
			fp_write_bin(in2, RLC_FP_BYTES, c[0]); in2[RLC_FP_BYTES] = 0;
			fp2_read_bin(b, in2, RLC_FP_BYTES + 1);
			e = err();
			printf("    decode (a0 with 1-a0^2 a non-residue, sign 0): error=%d, result unitary=%d, re-encoded length=%d (input %d)\n", e, fp2_test_cyc(b), fp2_size_bin(b, 1), RLC_FP_BYTES + 1);
			if (!e) { bad++; printf("    -> ACCEPTED a string that is not the compression of any element\n"); }
			break;
		}
	}
	/* F-C: fp12_size_bin / fp12_write_bin disagree for pack=1 on a non-unitary element; fp12_read_bin(8B) has no subgroup test */
	{
		fp12_t a, b; uint8_t buf[12 * RLC_FP_BYTES], buf2[12 * RLC_FP_BYTES];
		fp12_rand(a);
		int adv = fp12_size_bin(a, 1);
		memset(buf, 0xAA, sizeof buf);
		fp12_write_bin(buf, adv, a, 1);
		int e1 = err();
		fp12_write_bin(buf, 8 * RLC_FP_BYTES, a, 1);
		int e2 = err();
		fp12_read_bin(b, buf, 8 * RLC_FP_BYTES);
		int e3 = err();
		printf("F-C random (non-unitary) fp12, pack=1: advertised %d bytes; write with that length: error=%d; write with %d bytes: error=%d; decode of that: error=%d, equals original=%d, result unitary=%d\n",
			adv, e1, 8 * RLC_FP_BYTES, e2, e3, fp12_cmp(a, b) == RLC_EQ, fp12_test_cyc(b));
		if (e1 || (!e2 && !e3 && fp12_cmp(a, b) != RLC_EQ)) { bad++; printf("    -> advertised length refused / lossy encoding accepted\n"); }
		/* arbitrary 8B-byte string of reduced coefficients */
		memset(buf2, 0, sizeof buf2);
		for (int i = 0; i < 8; i++) buf2[i * RLC_FP_BYTES + RLC_FP_BYTES - 1] = (uint8_t)(i + 1);
		fp12_read_bin(b, buf2, 8 * RLC_FP_BYTES);
		e3 = err();
		int l2 = fp12_size_bin(b, 1);
		printf("    decode arbitrary %d-byte string (coefficients 1..8): error=%d, result unitary=%d, re-encoding length with pack=1: %d\n", 8 * RLC_FP_BYTES, e3, fp12_test_cyc(b), l2);
		if (!e3 && l2 != 8 * RLC_FP_BYTES) { bad++; printf("    -> ACCEPTED a string that does not re-encode to the same length\n"); }
	}
	/* F-D: ep_write_bin with a buffer LONGER than the advertised length succeeds (zero padded); the decoder refuses that length */
	{
		ep_t p, q; uint8_t buf[2 * RLC_FP_BYTES + 5];
		ep_curve_get_gen(p);
		int adv = ep_size_bin(p, 0);
		ep_write_bin(buf, adv + 2, p, 0);
		int e1 = err();
		ep_read_bin(q, buf, adv + 2);
		int e2 = err();
		printf("F-D ep_write_bin(len = advertised %d + 2): error=%d; ep_read_bin of those %d bytes: error=%d\n", adv, e1, adv + 2, e2);
	}
	printf("%d property violations reproduced\n", bad);
	core_clean();
	return bad ? 1 : 0;
}
