/* cp_bbs_ver / cp_zss_ver do not validate the public key q.  With q = identity (not a key the scheme's key generation can
   output: the secret exponent is taken from Z_r^*), ANYONE can sign: s = [1/H(m)] g  satisfies e(s, [H(m)]g' + O) = e(g, g') = z.
   No secret is used below. */
#include <stdio.h>
#include "relic.h"

int main(void) {
	bn_t m, n; g1_t s1, q1; g2_t s2, q2; gt_t z; uint8_t h[RLC_MD_LEN];
	uint8_t msg[] = "pay 1000 to mallory";
	if (core_init() != RLC_OK || pc_param_set_any() != RLC_OK) return 2;
	bn_new(m); bn_new(n); g1_new(s1); g1_new(q1); g2_new(s2); g2_new(q2); gt_new(z);
	gt_get_gen(z);                               /* public: z = e(g1, g2) */
	pc_get_ord(n);
	md_map(h, msg, sizeof msg); bn_read_bin(m, h, RLC_MD_LEN); bn_mod(m, m, n); bn_mod_inv(m, m, n);   /* 1/H(msg) mod r */

	g2_set_infty(q2);                            /* BBS public key = identity of G2 */
	g1_mul_gen(s1, m);
	int v1 = cp_bbs_ver(s1, msg, sizeof msg, 0, q2, z);
	printf("BBS: g2_is_valid(q)=%d g2_is_infty(q)=%d  forged signature without any secret: cp_bbs_ver=%d\n", g2_is_valid(q2), g2_is_infty(q2), v1);

	g1_set_infty(q1);                            /* ZSS public key = identity of G1 */
	g2_mul_gen(s2, m);
	int v2 = cp_zss_ver(s2, msg, sizeof msg, 0, q1, z);
	printf("ZSS: g1_is_valid(q)=%d g1_is_infty(q)=%d  forged signature without any secret: cp_zss_ver=%d\n", g1_is_valid(q1), g1_is_infty(q1), v2);
	core_clean();
	return (v1 == 1 || v2 == 1) ? 1 : 0;
}
