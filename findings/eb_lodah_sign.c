/* eb_mul_lodah ("constant-time Lopez-Dahab point multiplication"): the ladder itself is regular (padded to the order length), but a final
   eb_neg is executed iff k < 0: k and -k give different operation sequences.  Link with -Wl,--wrap=eb_neg_projc,--wrap=fb_mul_lodah */
#include <stdio.h>
#include "relic.h"
static int nneg, nmul;
void __real_eb_neg_projc(eb_t r, const eb_t p); void __real_fb_mul_lodah(fb_t c, const fb_t a, const fb_t b);
void __wrap_eb_neg_projc(eb_t r, const eb_t p) { nneg++; __real_eb_neg_projc(r, p); }
void __wrap_fb_mul_lodah(fb_t c, const fb_t a, const fb_t b) { nmul++; __real_fb_mul_lodah(c, a, b); }
int main(void) {
	eb_t p, r; bn_t k;
	if (core_init() != RLC_OK) return 2;
	if (eb_param_set_any() != RLC_OK) { printf("no binary curve\n"); return 2; }
	eb_null(p); eb_null(r); bn_null(k); eb_new(p); eb_new(r); bn_new(k);
	eb_curve_get_gen(p);
	bn_set_2b(k, 200); bn_add_dig(k, k, 77);
	nneg = nmul = 0; eb_mul_lodah(r, p, k); printf("k =  2^200+77 : fb_mul=%d eb_neg=%d\n", nmul, nneg);
	bn_neg(k, k);
	nneg = nmul = 0; eb_mul_lodah(r, p, k); printf("k = -2^200-77 : fb_mul=%d eb_neg=%d\n", nmul, nneg);
	bn_set_dig(k, 5);
	nneg = nmul = 0; eb_mul_lodah(r, p, k); printf("k =  5        : fb_mul=%d eb_neg=%d   (ladder length independent of the scalar length)\n", nmul, nneg);
	core_clean();
	return 0;
}
