/* ed_mul_monty ("constant-time Montgomery ladder"): the sequence of group operations depends on the VALUE of the scalar:
   (a) the ladder runs bn_bits(k) times - the bit length of the scalar itself, not of the group order (ep_mul_monty pads k to the order length);
   (b) a final ed_neg is executed iff k < 0.
   Link with -Wl,--wrap=ed_add_projc,--wrap=ed_dbl_projc,--wrap=ed_neg_projc,--wrap=dv_swap_sec : the operation trace is printed. */
#include <stdio.h>
#include <string.h>
#include "relic.h"
static char trace[1 << 16]; static int tn, nadd, ndbl, nneg, nswap;
void __real_ed_add_projc(ed_t r, const ed_t p, const ed_t q); void __real_ed_dbl_projc(ed_t r, const ed_t p);
void __real_ed_neg_projc(ed_t r, const ed_t p); void __real_dv_swap_sec(dig_t *c, dig_t *a, size_t n, dig_t bit);
void __wrap_ed_add_projc(ed_t r, const ed_t p, const ed_t q) { trace[tn++] = 'A'; nadd++; __real_ed_add_projc(r, p, q); }
void __wrap_ed_dbl_projc(ed_t r, const ed_t p) { trace[tn++] = 'D'; ndbl++; __real_ed_dbl_projc(r, p); }
void __wrap_ed_neg_projc(ed_t r, const ed_t p) { trace[tn++] = 'N'; nneg++; __real_ed_neg_projc(r, p); }
void __wrap_dv_swap_sec(dig_t *c, dig_t *a, size_t n, dig_t bit) { trace[tn++] = 's'; nswap++; __real_dv_swap_sec(c, a, n, bit); }
static void run(const char *name, ed_t p, bn_t k) {
	ed_t r; ed_null(r); ed_new(r);
	tn = nadd = ndbl = nneg = nswap = 0; memset(trace, 0, sizeof(trace));
	ed_mul_monty(r, p, k);
	printf("%-28s bits(k)=%3d sign=%s : add=%3d dbl=%3d swap=%4d neg=%d  tail of trace ...%s\n", name, (int)bn_bits(k), bn_sign(k) == RLC_NEG ? "-" : "+",
		nadd, ndbl, nswap, nneg, tn > 12 ? trace + tn - 12 : trace);
}
int main(void) {
	ed_t p; bn_t k;
	if (core_init() != RLC_OK) return 2;
	fp_param_set_any();
	ed_null(p); bn_null(k); ed_new(p); bn_new(k);
	fp_set_dig(p->x, 3); fp_set_dig(p->y, 5); fp_set_dig(p->z, 1); fp_mul(p->t, p->x, p->y); p->coord = BASIC;
	bn_set_2b(k, 199); bn_add_dig(k, k, 77); run("k =  2^199 + 77", p, k);
	bn_neg(k, k);                             run("k = -(2^199 + 77)", p, k);
	bn_set_dig(k, 5);                         run("k =  5 (same field/order)", p, k);
	bn_set_2b(k, 250);                        run("k =  2^250", p, k);
	core_clean();
	return 0;
}
