/* cp_pss_ver / cp_psb_ver check only "a is not the identity".  With the degenerate public key X = Y = identity (never validated)
   the pair (a, b) = (any point, identity) is accepted for EVERY message; off-curve a, b are not rejected before the pairing. */
#include <stdio.h>
#include "relic.h"

int main(void) {
	bn_t u, v, m; g1_t a, b; g2_t g, x, y;
	if (core_init() != RLC_OK || pc_param_set_any() != RLC_OK) return 2;
	bn_new(u); bn_new(v); bn_new(m); g1_new(a); g1_new(b); g2_new(g); g2_new(x); g2_new(y);
	cp_pss_gen(u, v, g, x, y);
	bn_set_dig(m, 42);
	cp_pss_sig(a, b, m, u, v);
	printf("honest: cp_pss_ver=%d\n", cp_pss_ver(a, b, m, g, x, y));
	g2_set_infty(x); g2_set_infty(y); g1_set_infty(b); g1_rand(a);
	for (int i = 1; i <= 3; i++) {
		bn_set_dig(m, 1000 + i);
		printf("X = Y = identity, b = identity (g1_is_valid(b)=%d), a random, m=%d: cp_pss_ver=%d\n", g1_is_valid(b), 1000 + i, cp_pss_ver(a, b, m, g, x, y));
	}
	/* honest key again, off-curve components: not rejected by a guard (the verdict below comes from the pairing equation only) */
	cp_pss_gen(u, v, g, x, y); bn_set_dig(m, 42); cp_pss_sig(a, b, m, u, v);
	fp_add_dig(a->y, a->y, 1);
	printf("honest key, a off the curve (g1_on_curve=%d): cp_pss_ver=%d\n", g1_on_curve(a), cp_pss_ver(a, b, m, g, x, y));
	core_clean();
	return 0;
}
