/* gt_exp_sec ("exponentiates an element from G_T by a secret integer"): an exponent of at most RLC_DIG = 64 bits is handed to gt_exp_dig, a
   plain NAF square-and-multiply whose multiplications depend on the digits of the exponent; a negative exponent adds one inversion.
   Two exponents of the SAME bit length give different operation sequences.
   Link with -Wl,--wrap=fp12_mul_lazyr,--wrap=fp12_sqr_lazyr,--wrap=fp12_inv_cyc */
#include <stdio.h>
#include "relic.h"
static int nmul, nsqr, ninv;
void __real_fp12_mul_lazyr(fp12_t c, const fp12_t a, const fp12_t b); void __real_fp12_sqr_lazyr(fp12_t c, const fp12_t a); void __real_fp12_inv_cyc(fp12_t c, const fp12_t a);
void __wrap_fp12_mul_lazyr(fp12_t c, const fp12_t a, const fp12_t b) { nmul++; __real_fp12_mul_lazyr(c, a, b); }
void __wrap_fp12_sqr_lazyr(fp12_t c, const fp12_t a) { nsqr++; __real_fp12_sqr_lazyr(c, a); }
void __wrap_fp12_inv_cyc(fp12_t c, const fp12_t a) { ninv++; __real_fp12_inv_cyc(c, a); }
static void run(const char *name, gt_t a, bn_t b) {
	gt_t c; gt_null(c); gt_new(c);
	nmul = nsqr = ninv = 0;
	gt_exp_sec(c, a, b);
	printf("%-26s bits=%3d sign=%s : gt_mul=%3d gt_sqr=%3d gt_inv=%d\n", name, (int)bn_bits(b), bn_sign(b) == RLC_NEG ? "-" : "+", nmul, nsqr, ninv);
}
int main(void) {
	gt_t a; bn_t b;
	if (core_init() != RLC_OK) return 2;
	if (pc_param_set_any() != RLC_OK) { printf("no pairing curve\n"); return 2; }
	gt_null(a); bn_null(b); gt_new(a); bn_new(b);
	gt_rand(a);
	bn_read_str(b, "8000000000000001", 16, 16); run("b = 0x8000000000000001", a, b);
	bn_read_str(b, "AAAAAAAAAAAAAAAB", 16, 16); run("b = 0xAAAAAAAAAAAAAAAB", a, b);
	bn_read_str(b, "FFFFFFFFFFFFFFFF", 16, 16); run("b = 0xFFFFFFFFFFFFFFFF", a, b);
	bn_neg(b, b);                               run("b = -0xFFFFFFFFFFFFFFFF", a, b);
	bn_read_str(b, "10000000000000001", 17, 16); run("b = 2^64 + 1 (regular path)", a, b);
	bn_read_str(b, "1AAAAAAAAAAAAAAAB", 17, 16); run("b = 0x1AAAA...B (regular)", a, b);
	core_clean();
	return 0;
}
