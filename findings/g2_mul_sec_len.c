/* g2_mul_sec = ep2_mul_lwreg -> ep2_mul_reg_gls -> bn_rec_sac(..., cof = 1 on BN curves): the recoding length, and with it the number of
   point doublings / additions, depends on the bit lengths of the SECRET subscalars.  Link with -Wl,--wrap=ep2_dbl_projc,--wrap=ep2_add_projc */
#include <stdio.h>
#include "relic.h"
static int nadd, ndbl;
void __real_ep2_add_projc(ep2_t r, const ep2_t p, const ep2_t q); void __real_ep2_dbl_projc(ep2_t r, const ep2_t p);
void __wrap_ep2_add_projc(ep2_t r, const ep2_t p, const ep2_t q) { nadd++; __real_ep2_add_projc(r, p, q); }
void __wrap_ep2_dbl_projc(ep2_t r, const ep2_t p) { ndbl++; __real_ep2_dbl_projc(r, p); }
int main(void) {
	g2_t a, c; bn_t b, n; int hist[400] = {0};
	if (core_init() != RLC_OK) return 2;
	if (pc_param_set_any() != RLC_OK) { printf("no pairing curve\n"); return 2; }
	g2_null(a); g2_null(c); bn_null(b); bn_null(n); g2_new(a); g2_new(c); bn_new(b); bn_new(n);
	g2_rand(a); pc_get_ord(n);
	printf("order bits %d\n", (int)bn_bits(n));
	for (int i = 0; i < 200; i++) {
		do { bn_rand_mod(b, n); } while (bn_bits(b) != bn_bits(n) - 1);   /* all scalars have the same bit length */
		nadd = ndbl = 0;
		g2_mul_sec(c, a, b);
		if (!hist[ndbl]) { printf("first scalar with %d doublings / %d additions: ", ndbl, nadd); bn_print(b); }
		hist[ndbl]++;
	}
	for (int i = 0; i < 400; i++) if (hist[i]) printf("%d scalars of %d bits: %d doublings\n", hist[i], (int)bn_bits(n) - 1, i);
	core_clean();
	return 0;
}
