/* CP_RSAPD=PKCS1 build: pad_pkcs1(RSA_DEC) does not enforce the minimum length of the padding string.  RFC 8017 7.2.2 step 3:
   "If ... the length of PS is less than 8 octets, output 'decryption error'".  Encoded messages 00 02 00 M (PS empty) and
   00 02 PS(3) 00 M are decrypted and M is returned; for an honest k-byte modulus the plaintext may then be up to k - 3 bytes
   although cp_rsa_enc admits at most k - 11.
   build: gcc -O1 -w -I/repo/include -I/tmp/c06x-build-pkcs1/include /tmp/c06x-repro/rsa_pkcs1_dec_shortps.c /tmp/c06x-build-pkcs1/lib/librelic_s.a -o /tmp/c06x-repro/rsa_pkcs1_dec_shortps */
#include <stdio.h>
#include <string.h>
#include "relic.h"
static int try(rsa_t pub, rsa_t prv, size_t ps) {
	bn_t c; uint8_t em[300], ct[300], pt[300]; size_t k = bn_size_bin(pub->crt->n), pl = sizeof(pt); int r;
	bn_null(c); bn_new(c);
	memset(em, 0, sizeof(em)); em[0] = 0x00; em[1] = 0x02;
	for (size_t i = 0; i < ps; i++) em[2 + i] = 0xA5;                    /* PS: ps nonzero octets */
	em[2 + ps] = 0x00;
	for (size_t i = 3 + ps; i < k; i++) em[i] = 'A' + (i % 26);          /* M: k - 3 - ps octets */
	bn_read_bin(c, em, k); bn_mxp(c, c, pub->e, pub->crt->n);            /* textbook RSA with the PUBLIC key */
	bn_write_bin(ct, k, c);
	memset(pt, 0, sizeof(pt));
	r = cp_rsa_dec(pt, &pl, ct, k, prv);
	printf("EM = 00 02 PS(%zu octets) 00 M(%zu octets): cp_rsa_dec = %s", ps, k - 3 - ps, r == RLC_OK ? "RLC_OK" : "RLC_ERR");
	if (r == RLC_OK) printf(", *out_len = %zu, M recovered: %s%s\n", pl, (pl == k - 3 - ps && memcmp(pt, em + 3 + ps, pl) == 0) ? "yes" : "no", ps < 8 ? "  -> INVALID PADDING ACCEPTED" : "");
	else printf("\n");
	bn_free(c);
	return r == RLC_OK && ps < 8;
}
int main(void) {
	if (core_init() != RLC_OK) return 2;
	rsa_t pub, prv; int bad = 0;
	rsa_null(pub); rsa_null(prv); rsa_new(pub); rsa_new(prv);
	cp_rsa_gen(pub, prv, 1024);
	printf("modulus: %zu bytes (cp_rsa_enc admits plaintexts of at most %zu bytes)\n", bn_size_bin(pub->crt->n), bn_size_bin(pub->crt->n) - 11);
	bad += try(pub, prv, 8); bad += try(pub, prv, 7); bad += try(pub, prv, 3); bad += try(pub, prv, 0);
	core_clean();
	return bad ? 1 : 0;
}
