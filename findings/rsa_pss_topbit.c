/* Shipped configuration (PSS).  RFC 8017 9.1.2 step 6: "If the leftmost 8emLen - emBits bits of the leftmost octet in maskedDB
   are not all equal to zero, output 'inconsistent'" (emBits = modBits - 1).  pad_pkcs2 tests bits modBits .. 8*emLen-1 only
   (always zero for EM < n) and then CLEARS bit modBits-1 of DB, so an encoded message with bit modBits-1 set is accepted.
   Needs the private key to construct (agreement with the standard on arbitrary inputs, not a forgery).
   build: gcc -O1 -w -I/repo/include -I/tmp/c05x-build/include /tmp/c05x-repro/rsa_pss_topbit.c /tmp/c05x-build/lib/librelic_s.a -o /tmp/c05x-repro/rsa_pss_topbit */
#include <stdio.h>
#include "relic.h"
int main(void) {
	if (core_init() != RLC_OK) return 2;
	rsa_t pub, prv; bn_t em, t, d; uint8_t sig[140], alt[140], msg[5] = "hello"; size_t sl; int r = 0, tries = 0;
	rsa_null(pub); rsa_null(prv); rsa_new(pub); rsa_new(prv); bn_null(em); bn_new(em); bn_null(t); bn_new(t); bn_null(d); bn_new(d);
	do {
		cp_rsa_gen(pub, prv, 1016);
		sl = sizeof(sig);
		cp_rsa_sig(sig, &sl, msg, 5, 0, prv);
		bn_read_bin(em, sig, sl); bn_mxp(em, em, pub->e, pub->crt->n);
		bn_set_2b(t, bn_bits(pub->crt->n) - 1);
		bn_add(em, em, t);                       /* EM' = EM with bit modBits-1 set */
		tries++;
	} while ((bn_cmp(em, pub->crt->n) != RLC_LT || (bn_bits(pub->crt->n) - 1) % 8 == 0) && tries < 50);
	/* s' = EM'^d mod n, d recomputed from e and the primes */
	bn_sub_dig(t, prv->crt->p, 1); bn_sub_dig(d, prv->crt->q, 1); bn_mul(t, t, d);
	bn_mod_inv(d, pub->e, t);
	bn_mxp(t, em, d, pub->crt->n);
	bn_write_bin(alt, sl, t);
	r = cp_rsa_ver(alt, sl, msg, 5, 0, pub);
	printf("modBits = %zu, genuine: ver = %d; s' with EM' = EM + 2^(modBits-1) (bit %zu of EM' set, EM' < n): ver = %d   [RFC 8017 9.1.2 step 6: inconsistent]\n",
		bn_bits(pub->crt->n), cp_rsa_ver(sig, sl, msg, 5, 0, pub), bn_bits(pub->crt->n) - 1, r);
	core_clean();
	return r;
}
