/* gt_exp_sec, regular path (gt_exp_reg_sac -> bn_rec_sac): on curves with cofactor 1 (BN) the recoding length is
   max(ceil(bits(n)/f) + 1, bits(u) + 1, bits(subscalar_i) + 1): it depends on the bit lengths of the SECRET subscalars, and the main loop of
   the exponentiation runs that many times.  Full-size exponents of the same bit length therefore give different numbers of squarings.
   Link with -Wl,--wrap=fp12_sqr_lazyr,--wrap=fp12_mul_lazyr */
#include <stdio.h>
#include "relic.h"
static int nmul, nsqr;
void __real_fp12_mul_lazyr(fp12_t c, const fp12_t a, const fp12_t b); void __real_fp12_sqr_lazyr(fp12_t c, const fp12_t a);
void __wrap_fp12_mul_lazyr(fp12_t c, const fp12_t a, const fp12_t b) { nmul++; __real_fp12_mul_lazyr(c, a, b); }
void __wrap_fp12_sqr_lazyr(fp12_t c, const fp12_t a) { nsqr++; __real_fp12_sqr_lazyr(c, a); }
int main(void) {
	gt_t a, c; bn_t b, n; int hist[200] = {0};
	if (core_init() != RLC_OK) return 2;
	if (pc_param_set_any() != RLC_OK) { printf("no pairing curve\n"); return 2; }
	gt_null(a); gt_null(c); bn_null(b); bn_null(n); gt_new(a); gt_new(c); bn_new(b); bn_new(n);
	gt_rand(a); gt_get_ord(n);
	printf("order bits %d\n", (int)bn_bits(n));
	for (int i = 0; i < 200; i++) {
		do { bn_rand_mod(b, n); } while (bn_bits(b) != bn_bits(n) - 1);   /* all exponents have the same bit length */
		nmul = nsqr = 0;
		gt_exp_sec(c, a, b);
		if (!hist[nsqr]) { printf("first exponent with %d squarings / %d multiplications: ", nsqr, nmul); bn_print(b); }
		hist[nsqr]++;
	}
	for (int i = 0; i < 200; i++) if (hist[i]) printf("%d exponents of %d bits: %d squarings\n", hist[i], (int)bn_bits(n) - 1, i);
	core_clean();
	return 0;
}
