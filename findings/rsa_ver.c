/* Native demonstrations for cp_rsa_ver (shipped configuration: CP_RSAPD=PKCS2 / PSS), library built unmodified from /repo.
   build: gcc -O1 -I/repo/include -I/tmp/c05x-build/include /tmp/c05x-repro/rsa_ver.c /tmp/c05x-build/lib/librelic_s.a -o /tmp/c05x-repro/rsa_ver */
#include <stdio.h>
#include <string.h>
#include "relic.h"

int main(void) {
	if (core_init() != RLC_OK) return 2;
	rsa_t pub, prv;
	bn_t s, n;
	uint8_t sig[RLC_BN_BITS / 8 + 1], alt[RLC_BN_BITS / 8 + 10];
	size_t sl, al;
	uint8_t msg[5] = "hello", other[7] = "goodbye";
	int bad = 0;
	rsa_null(pub); rsa_null(prv); rsa_new(pub); rsa_new(prv); bn_null(s); bn_null(n); bn_new(s); bn_new(n);

	/* ---- A. 1016-bit key (so that s + n still fits the 1024-bit precision) ------------------------------------------ */
	cp_rsa_gen(pub, prv, 1016);
	sl = sizeof(sig);
	if (cp_rsa_sig(sig, &sl, msg, 5, 0, prv) != RLC_OK) return 3;
	printf("A0 genuine signature (%zu bytes, modulus %zu bytes): ver = %d\n", sl, bn_size_bin(pub->crt->n), cp_rsa_ver(sig, sl, msg, 5, 0, pub));

	/* A1: signature representative s + n >= n (RSAVP1 step 1 demands rejection) */
	bn_read_bin(s, sig, sl);
	bn_add(s, s, pub->crt->n);
	al = bn_size_bin(s);
	bn_write_bin(alt, al, s);
	int r = cp_rsa_ver(alt, al, msg, 5, 0, pub);
	printf("A1 signature s+n (%zu bytes, differs from the genuine one: %d): ver = %d   [standard: reject, representative out of range]\n", al, memcmp(alt, sig, sl) != 0, r);
	bad |= r;
	/* A2: wrong length - four zero bytes in front */
	memset(alt, 0, 4); memcpy(alt + 4, sig, sl);
	r = cp_rsa_ver(alt, sl + 4, msg, 5, 0, pub);
	printf("A2 signature with 4 leading zero bytes (%zu bytes): ver = %d   [standard: reject, length != k]\n", sl + 4, r);
	bad |= r;
	/* A3: digest supplied by the caller with length 0: the comparison is over 0 bytes, every message 'verifies' */
	r = cp_rsa_ver(sig, sl, other, 0, 1, pub);
	printf("A3 genuine signature on \"hello\" checked against a caller digest of length 0 (hash=1): ver = %d   [the digest is not compared at all]\n", r);
	bad |= r;
	uint8_t h[RLC_MD_LEN];
	md_map(h, other, 7);
	r = cp_rsa_ver(sig, sl, h, 0, 1, pub);
	printf("A3' same with msg = SHA256(\"goodbye\"), msg_len = 0: ver = %d\n", r);

	/* ---- B. completeness: modulus of 8j+1 bits ---------------------------------------------------------------------- */
	int tries = 0;
	do {
		cp_rsa_gen(pub, prv, 506);
		tries++;
	} while (bn_bits(pub->crt->n) % 8 != 1 && tries < 200);
	sl = sizeof(sig);
	int rs = cp_rsa_sig(sig, &sl, msg, 5, 0, prv);
	r = cp_rsa_ver(sig, sl, msg, 5, 0, pub);
	printf("B  modulus of %zu bits (= 8*%zu+1): sig = %s, ver of the signer's own signature = %d   [expected 1]\n", bn_bits(pub->crt->n), bn_bits(pub->crt->n) / 8, rs == RLC_OK ? "RLC_OK" : "RLC_ERR", r);
	bad |= (r == 0) << 1;
	do {
		cp_rsa_gen(pub, prv, 506);
	} while (bn_bits(pub->crt->n) % 8 == 1);
	sl = sizeof(sig);
	cp_rsa_sig(sig, &sl, msg, 5, 0, prv);
	printf("B' modulus of %zu bits: ver of the signer's own signature = %d\n", bn_bits(pub->crt->n), cp_rsa_ver(sig, sl, msg, 5, 0, pub));
	core_clean();
	printf(bad ? "DEFECTS REPRODUCED (mask %d)\n" : "nothing reproduced\n", bad);
	return bad ? 1 : 0;
}
