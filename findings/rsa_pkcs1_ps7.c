/* CP_RSAPD=PKCS1 build: a 61-byte modulus leaves room for only 7 padding bytes FF.  RFC 8017 9.2 step 3: "If emLen < tLen + 11,
   output 'intended encoded message length too short'" (tLen = 51 for SHA-256, so emLen >= 62); pad_pkcs1 accepts (counter >= 8
   counts the terminating 00 as well).
   build: gcc -O1 -w -I/repo/include -I/tmp/c05x-build-pkcs1/include /tmp/c05x-repro/rsa_pkcs1_ps7.c /tmp/c05x-build-pkcs1/lib/librelic_s.a -o /tmp/c05x-repro/rsa_pkcs1_ps7 */
#include <stdio.h>
#include "relic.h"
int main(void) {
	if (core_init() != RLC_OK) return 2;
	rsa_t pub, prv; bn_t em; uint8_t sig[128], buf[128], msg[5] = "hello"; size_t sl;
	rsa_null(pub); rsa_null(prv); rsa_new(pub); rsa_new(prv); bn_null(em); bn_new(em);
	do { cp_rsa_gen(pub, prv, 488); } while (bn_size_bin(pub->crt->n) != 61);
	sl = sizeof(sig);
	int rs = cp_rsa_sig(sig, &sl, msg, 5, 0, prv);
	int rv = cp_rsa_ver(sig, sl, msg, 5, 0, pub);
	bn_read_bin(em, sig, sl); bn_mxp(em, em, pub->e, pub->crt->n);
	bn_write_bin(buf, 61, em);
	printf("modulus: %zu bytes; cp_rsa_sig = %s; cp_rsa_ver = %d\nEM = ", bn_size_bin(pub->crt->n), rs == RLC_OK ? "RLC_OK" : "RLC_ERR", rv);
	int ff = 0;
	for (int i = 0; i < 12; i++) { printf("%02x ", buf[i]); if (i >= 2 && buf[i] == 0xff) ff++; }
	printf("...\npadding bytes FF: %d (standard minimum 8) -> %s\n", ff, (rv == 1 && ff < 8) ? "ACCEPTED WITH SHORT PADDING" : "ok");
	core_clean();
	return (rv == 1 && ff < 8) ? 1 : 0;
}
