/* cp_vbnn_ver: the scratch buffer is sized from ec_size_bin(R, 1) TWICE (id_len + msg_len + 2 * |R|) but receives R and then the recomputed point Z,
   written with ITS OWN size ec_size_bin(Z, 1).  R is never validated: for R = identity |R| = 1, the buffer has id_len + msg_len + 2 bytes and the
   33-byte encoding of Z is written 1 + id_len + msg_len bytes into it: a 32-byte overflow of the alloca'ed stack buffer, driven entirely by the
   (attacker-supplied) signature.  Property C05 ("identity ... points are rejected") / C08.
   build: gcc -g -O1 -w -fsanitize=address -I/repo/include -I/repo/include/low -I/tmp/c05xpair-build/include vbnn_identity_r_overflow.c \
          /repo/src/cp/relic_cp_vbnn.c /tmp/c05xpair-build/lib/librelic_s.a -o vbnn_identity_r_overflow
   (the verifier itself is compiled from /repo with the sanitizer, everything else comes from the plain static library) */
#include <stdio.h>
#include "relic.h"
int main(void) {
	bn_t z, h; ec_t mpk, r; uint8_t id[] = { 'a', 'l', 'i', 'c', 'e' }, msg[] = { 'h', 'e', 'l', 'l', 'o' };
	if (core_init() != RLC_OK || ec_param_set_any() != RLC_OK) return 2;
	bn_new(z); bn_new(h); ec_new(mpk); ec_new(r);
	ec_curve_get_gen(mpk);                       /* any master key */
	ec_set_infty(r);                             /* R = identity: encoded in 1 byte */
	bn_set_dig(z, 5); bn_set_dig(h, 7);          /* Z = [5]P - [7]([c]P0 + O) is a finite point: encoded in 33 bytes */
	printf("sizes: R %d byte, finite point %d bytes; buffer = %d bytes\n", (int)ec_size_bin(r, 1), (int)ec_size_bin(mpk, 1), (int)(sizeof id + sizeof msg + 2 * ec_size_bin(r, 1)));
	fflush(stdout);
	int v = cp_vbnn_ver(r, z, h, id, sizeof id, msg, sizeof msg, mpk);
	printf("cp_vbnn_ver = %d (no sanitizer report: not reproduced)\n", v);
	core_clean();
	return 0;
}
