/* Shipped configuration (PSS verify, pad_pkcs2).  RFC 8017 9.1.2 steps 7-10: DB = maskedDB xor MGF1(H), leftmost bits cleared, must be 00..00 01 (sLen = 0).
   pad_pkcs2 computes the xor digit by digit over the MASK's length (for i < t->used: m->dp[i] ^= t->dp[i]) without raising m->used: when maskedDB has fewer
   digits than the mask (its leading bytes are zero), the mask's high digits land beyond m->used and bn_is_zero / bn_set_bit never look at them.
   So EM' = 00..00 | (low 8 bytes of mask, last bit flipped) | H | BC  is accepted although DB = maskedDB xor mask != 00..01.
   Needs the private key to construct (agreement with the standard on arbitrary inputs, not a forgery).
   build: gcc -O1 -w -I/repo/include -I/repo/include/low -I/tmp/c05xpair-build/include rsa_pss_short_maskeddb.c /tmp/c05xpair-build/lib/librelic_s.a -o rsa_pss_short_maskeddb */
#include <stdio.h>
#include <string.h>
#include "relic.h"
int main(void) {
	if (core_init() != RLC_OK) return 2;
	rsa_t pub, prv; bn_t em, t, d; uint8_t sig[140], alt[140], msg[5] = "hello", mp[8 + RLC_MD_LEN], H[RLC_MD_LEN], mask[140], EM[140]; size_t sl, k; int r;
	rsa_null(pub); rsa_null(prv); rsa_new(pub); rsa_new(prv); bn_null(em); bn_new(em); bn_null(t); bn_new(t); bn_null(d); bn_new(d);
	cp_rsa_gen(pub, prv, 1024);
	k = bn_size_bin(pub->crt->n);
	sl = sizeof(sig); cp_rsa_sig(sig, &sl, msg, 5, 0, prv);
	/* H = Hash(00^8 | Hash(msg)), sLen = 0 */
	memset(mp, 0, 8); md_map(mp + 8, msg, 5); md_map(H, mp, sizeof mp);
	md_mgf(mask, k - RLC_MD_LEN - 1, H, RLC_MD_LEN);
	memset(EM, 0, k);
	memcpy(EM + k - RLC_MD_LEN - 1 - 8, mask + k - RLC_MD_LEN - 1 - 8, 8);      /* maskedDB' = 00 .. 00 | last 8 bytes of the mask */
	EM[k - RLC_MD_LEN - 2] ^= 0x01;
	memcpy(EM + k - RLC_MD_LEN - 1, H, RLC_MD_LEN); EM[k - 1] = 0xBC;
	bn_read_bin(em, EM, k);
	bn_sub_dig(t, prv->crt->p, 1); bn_sub_dig(d, prv->crt->q, 1); bn_mul(t, t, d); bn_mod_inv(d, pub->e, t);
	bn_mxp(t, em, d, pub->crt->n);
	bn_write_bin(alt, sl, t);
	r = cp_rsa_ver(alt, sl, msg, 5, 0, pub);
	int nz = 0; for (size_t i = 0; i + 8 < k - RLC_MD_LEN - 1; i++) nz |= mask[i] & (i == 0 ? 0x7F : 0xFF);
	printf("modBits = %zu, genuine signature: ver = %d\n", bn_bits(pub->crt->n), cp_rsa_ver(sig, sl, msg, 5, 0, pub));
	printf("EM' = 00^%zu | 8 bytes | H | BC: DB = maskedDB xor MGF1(H) has non-zero bytes in PS: %s;  cp_rsa_ver = %d   [RFC 8017 9.1.2 step 10: inconsistent]\n",
		k - RLC_MD_LEN - 1 - 8, nz ? "yes" : "no", r);
	core_clean();
	return r;
}
