/* cp_zss_ver never validates the signature s (a G2 point).  Try: s' = s + T with T on the twist E'(Fp2) but outside the order-r
   subgroup (T = [r]R for a random R of E'(Fp2)), the identity, an off-curve point.  g2_is_valid(s') == 0 in every case. */
#include <stdio.h>
#include <string.h>
#include "relic.h"

static void show(const char *what, g2_t s, const uint8_t *msg, size_t len, g1_t q, gt_t z) {
	printf("%-58s on_curve=%d g2_is_valid=%d  cp_zss_ver=%d\n", what, g2_on_curve(s), g2_is_valid(s), cp_zss_ver(s, msg, len, 0, q, z));
}

int main(void) {
	bn_t d, n, h; g1_t q; g2_t s, t, r, s2; gt_t z; fp2_t x, y;
	uint8_t msg[5] = { 'h', 'e', 'l', 'l', 'o' };
	if (core_init() != RLC_OK || pc_param_set_any() != RLC_OK) { printf("init failed\n"); return 2; }
	pc_param_print();
	bn_new(d); bn_new(n); bn_new(h); g1_new(q); g2_new(s); g2_new(t); g2_new(r); g2_new(s2); gt_new(z); fp2_new(x); fp2_new(y);
	cp_zss_gen(d, q, z);
	cp_zss_sig(s, msg, 5, 0, d);
	show("honest signature s", s, msg, 5, q, z);
	pc_get_ord(n);
	int accepted = 0;
	for (int trial = 0; trial < 8; trial++) {
		/* random point R of E'(Fp2) */
		do { fp2_rand(x); ep2_rhs(y, x); } while (!fp2_srt(y, y));
		fp2_copy(r->x, x); fp2_copy(r->y, y); fp2_set_dig(r->z, 1); r->coord = BASIC;
		if (!ep2_on_curve(r)) { printf("construction error\n"); return 2; }
		ep2_mul_basic(t, r, n);             /* T = [r]R: order divides the cofactor, T is not in G2 unless it is O */
		ep2_norm(t, t);
		if (ep2_is_infty(t)) continue;
		ep2_add(s2, s, t); ep2_norm(s2, s2);
		char lbl[80]; snprintf(lbl, sizeof lbl, "s' = s + T, T in the cofactor subgroup of E'(Fp2) (#%d)", trial);
		int v = cp_zss_ver(s2, msg, 5, 0, q, z);
		show(lbl, s2, msg, 5, q, z);
		accepted |= (v == 1 && !g2_is_valid(s2));
	}
	/* non-affine representation of the same honest point is fine; an off-curve point and the identity: */
	ep2_copy(s2, s); fp2_add_dig(s2->y, s2->y, 1);
	show("s' = (x, y+1): off the curve", s2, msg, 5, q, z);
	ep2_set_infty(s2);
	show("s' = identity", s2, msg, 5, q, z);
	printf(accepted ? "RESULT: an invalid G2 element was ACCEPTED as a signature\n" : "RESULT: no invalid element accepted in these trials (the guard is still absent: nothing rejected them before the pairing)\n");
	core_clean();
	return accepted ? 1 : 0;
}
