/* cp_vbnn_ver: (1) no range check on z: (R, z + n, h) is accepted as well as (R, z, h);  (2) the master public key is not
   validated: with mpk = identity anyone can sign for any identity (plain Schnorr under a key the forger chooses). */
#include <stdio.h>
#include <string.h>
#include "relic.h"

int main(void) {
	bn_t msk, sk, z, h, n, z2, k, y, t; ec_t mpk, pk, r, R, Y;
	uint8_t id[] = { 'a', 'l', 'i', 'c', 'e' }, msg[] = { 'h', 'e', 'l', 'l', 'o' };
	if (core_init() != RLC_OK || ec_param_set_any() != RLC_OK) return 2;
	bn_new(msk); bn_new(sk); bn_new(z); bn_new(h); bn_new(n); bn_new(z2); bn_new(k); bn_new(y); bn_new(t);
	ec_new(mpk); ec_new(pk); ec_new(r); ec_new(R); ec_new(Y);
	ec_curve_get_ord(n);

	/* (1) malleability */
	cp_vbnn_gen(msk, mpk);
	cp_vbnn_gen_prv(sk, pk, msk, id, sizeof id);
	cp_vbnn_sig(r, z, h, id, sizeof id, msg, sizeof msg, sk, pk);
	int v0 = cp_vbnn_ver(r, z, h, id, sizeof id, msg, sizeof msg, mpk);
	bn_add(z2, z, n);
	int v1 = cp_vbnn_ver(r, z2, h, id, sizeof id, msg, sizeof msg, mpk);
	printf("honest (R, z, h): cp_vbnn_ver=%d;   altered (R, z + n, h) with z + n >= n: cp_vbnn_ver=%d\n", v0, v1);
	bn_sub(z2, z, n);                                                           /* z - n < 0 */
	int v2 = cp_vbnn_ver(r, z2, h, id, sizeof id, msg, sizeof msg, mpk);
	printf("altered (R, z - n, h) with z - n < 0 (sign=%d): cp_vbnn_ver=%d\n", bn_sign(z2) == RLC_NEG, v2);

	/* (2) identity master key: forge without any secret of the system */
	ec_set_infty(mpk);
	bn_rand_mod(k, n); ec_mul_gen(R, k);                      /* forger's own R = [k]P */
	bn_rand_mod(y, n); ec_mul_gen(Y, y);                      /* commitment Y = [y]P: the verifier will recompute Z = [z]P - [h]R = Y */
	{
		uint8_t buf[5 + 5 + 2 * 33 + 8], hash[RLC_MD_LEN]; size_t o = 0;
		memcpy(buf, id, sizeof id); o += sizeof id; memcpy(buf + o, msg, sizeof msg); o += sizeof msg;
		ec_write_bin(buf + o, ec_size_bin(R, 1), R, 1); o += ec_size_bin(R, 1);
		ec_write_bin(buf + o, ec_size_bin(Y, 1), Y, 1); o += ec_size_bin(Y, 1);
		md_map(hash, buf, o); bn_read_bin(h, hash, RLC_MD_LEN); bn_mod(h, h, n);
	}
	bn_mul(t, h, k); bn_add(z, y, t); bn_mod(z, z, n);        /* z = y + h k */
	int v3 = cp_vbnn_ver(R, z, h, id, sizeof id, msg, sizeof msg, mpk);
	printf("mpk = identity (ec_is_infty=%d): signature forged for identity \"alice\" without the master or user key: cp_vbnn_ver=%d\n", ec_is_infty(mpk), v3);
	core_clean();
	return (v1 == 1 || v2 == 1 || v3 == 1) ? 1 : 0;
}
