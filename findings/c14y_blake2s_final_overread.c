/* blake2s_final(S, out, outlen) accepts every outlen >= S->outlen and then copies outlen bytes out of its 32-byte stack temporary:
   for outlen > 32 this reads (and hands to the caller) stack memory beyond the temporary.  RFC 7693: the digest is the first nn bytes.
   build: gcc -fsanitize=address -I/repo/src/md c14y_blake2s_final_overread.c /repo/src/md/blake2s-ref.c -o t && ./t */
#include <stdio.h>
#include <string.h>
#include "blake2.h"
int main(void) {
	blake2s_state S;
	unsigned char out[64];
	memset(out, 0xAA, sizeof(out));
	blake2s_init(&S, 32);
	blake2s_update(&S, "abc", 3);
	int r = blake2s_final(&S, out, sizeof(out));   /* room for more than the digest: accepted */
	printf("blake2s_final returned %d; bytes 32..63 of the caller's buffer:", r);
	for (int i = 32; i < 64; i++) printf(" %02x", out[i]);
	printf("\n");
	return 0;
}
