/* cp_rsa_dec (shipped configuration: CP_RSAPD=PKCS2 / OAEP, CP_CRT): the ciphertext representative is never compared with the
   modulus (RFC 8017 5.1.2 RSADP step 1 / 7.1.2 step 2b: "If the ciphertext representative c is not between 0 and n - 1, output
   'decryption error'").  c + n - same length as the modulus, computable from the PUBLIC key alone - is a second, different
   ciphertext that decrypts to the same plaintext.  cp_rsa_ver received this very check in 26114bd.
   build: gcc -O1 -w -I/repo/include -I/tmp/c06x-build/include /tmp/c06x-repro/rsa_dec_range.c /tmp/c06x-build/lib/librelic_s.a -o /tmp/c06x-repro/rsa_dec_range */
#include <stdio.h>
#include <string.h>
#include "relic.h"
int main(void) {
	if (core_init() != RLC_OK) return 2;
	rsa_t pub, prv; bn_t c; uint8_t ct[300], ct2[300], pt[300], msg[] = "attack at dawn"; size_t cl, cl2, pl; int tries = 0, r1, r2 = -1;
	rsa_null(pub); rsa_null(prv); rsa_new(pub); rsa_new(prv); bn_null(c); bn_new(c);
	cp_rsa_gen(pub, prv, 1024);
	size_t k = bn_size_bin(pub->crt->n);
	do {    /* a ciphertext with c + n < 256^k (roughly every second to fourth one) */
		cl = sizeof(ct); tries++;
		if (cp_rsa_enc(ct, &cl, msg, sizeof(msg), pub) != RLC_OK) return 2;
		bn_read_bin(c, ct, cl); bn_add(c, c, pub->crt->n);
	} while (bn_size_bin(c) > k && tries < 200);
	cl2 = k; bn_write_bin(ct2, cl2, c);
	pl = sizeof(pt); r1 = cp_rsa_dec(pt, &pl, ct, cl, prv);
	printf("modulus %zu bytes; honest ciphertext c (%zu bytes): cp_rsa_dec = %s, %zu bytes \"%s\"\n", k, cl, r1 == RLC_OK ? "RLC_OK" : "RLC_ERR", pl, pt);
	memset(pt, 0, sizeof(pt)); pl = sizeof(pt); r2 = cp_rsa_dec(pt, &pl, ct2, cl2, prv);
	printf("c + n (%zu bytes, differs from c: %s, >= n: %s): cp_rsa_dec = %s", cl2, memcmp(ct, ct2, k) ? "yes" : "no", bn_cmp(c, pub->crt->n) != RLC_LT ? "yes" : "no", r2 == RLC_OK ? "RLC_OK" : "RLC_ERR");
	if (r2 == RLC_OK) printf(", %zu bytes \"%s\"  -> OUT-OF-RANGE CIPHERTEXT ACCEPTED\n", pl, pt); else printf("  -> rejected\n");
	core_clean();
	return r2 == RLC_OK ? 1 : 0;
}
