/* Native reproducer (observations, property C14: "decryption inverts encryption"):
   (a) bc_aes_cbc_enc rejects the empty message (PKCS#7 defines its encryption: one block of sixteen 0x10 bytes), and bc_aes_cbc_dec rejects
       the ciphertext of that padded block although its padding is valid (padDecrypt returns length 0, which the wrapper treats as an error);
   (b) padDecrypt in ECB mode (not used by the bc_aes_* entry points) rejects a full block of padding (pad value 16) that padEncrypt in ECB mode
       produces for every message whose length is a multiple of 16, and accepts the pad value 0: ECB decryption does not invert ECB encryption.
   build:  gcc -I/repo/include -I/repo/include/low -I/repo/_build/include -I/repo/src/bc c14x_repro_aes_pad.c /repo/src/bc/relic_bc_aes.c \
               /repo/src/bc/rijndael-api-fst.c /repo/src/bc/rijndael-alg-fst.c -o repro && ./repro */
#include <stdio.h>
#include <string.h>
#include "relic_core.h"
#include "relic_bc.h"
#include "rijndael-api-fst.h"
int main(void) {
	uint8_t key[16] = {1, 2, 3}, iv[16] = {9}, msg[16] = {0}, ct[64], pt[64];
	size_t n = sizeof(ct);
	int r = bc_aes_cbc_enc(ct, &n, msg, 0, key, 16, iv);
	printf("(a) bc_aes_cbc_enc(empty message): return %d (RLC_OK = %d), out_len = %zu\n", r, RLC_OK, n);
	/* build the PKCS#7 encryption of the empty message by hand: E(pad block xor iv) */
	keyInstance ki; cipherInstance ci; uint8_t blk[16];
	makeKey2(&ki, DIR_ENCRYPT, 128, (char *)key);
	for (int i = 0; i < 16; i++) blk[i] = 16 ^ iv[i];
	rijndaelEncrypt(ki.rk, ki.Nr, blk, ct);
	n = sizeof(pt);
	r = bc_aes_cbc_dec(pt, &n, ct, 16, key, 16, iv);
	printf("(a) bc_aes_cbc_dec(valid ciphertext of the empty message): return %d, out_len = %zu\n", r, n);
	/* (b) ECB */
	cipherInit(&ci, MODE_ECB, NULL);
	int cl = padEncrypt(&ci, &ki, msg, 16, ct);
	keyInstance kd; makeKey2(&kd, DIR_DECRYPT, 128, (char *)key);
	int pl = padDecrypt(&ci, &kd, ct, cl, pt);
	printf("(b) ECB: padEncrypt(16 bytes) = %d bytes; padDecrypt of that ciphertext = %d (BAD_DATA = %d, expected 16)\n", cl, pl, BAD_DATA);
	return 0;
}
