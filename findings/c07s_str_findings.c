/* Native reproducer: bn_read_str / bn_write_str / bn_size_str versus positional notation (property C07, last sentence).
   Build (library configured with the defaults, static lib in $B):
     gcc -fsanitize=address -g -I/repo/include -I/repo/include/low -I$B/include c07s_str_findings.c /repo/src/bn/relic_bn_util.c $B/lib/librelic_s.a -o t && ./t
   (relic_bn_util.c is compiled with the test so that it is instrumented)
   Observed on 2141c62: "12x4" radix 10 -> 12, "129" radix 8 -> 10, "1 000" -> 1, "hello" -> 0, all WITHOUT an error; "zz" radix 36 -> 0 while
   "ff" radix 16 -> 255 (case folding only for radix < 36); len = 0: heap-buffer-overflow READ at relic_bn_util.c:321 (str[0] is read before len is
   looked at) and, without the sanitizer, a spurious ERR_NO_PRECI from bn_grow(RLC_CEIL(0 * bits, RLC_DIG)) (size_t underflow in RLC_CEIL).  */
#include <stdio.h>
#include <stdlib.h>
#include <string.h>
#include "relic.h"

static void show(const char *what, const char *s, size_t len, int radix) {
	bn_t a; char out[128];
	bn_null(a); bn_new(a);
	core_get()->code = RLC_OK;
	bn_read_str(a, s, len, radix);
	bn_write_str(out, sizeof(out), a, 10);
	printf("%-44s read_str(\"%s\", len=%zu, radix=%d) = %s   error=%s\n", what, s, len, radix, out, core_get()->code == RLC_OK ? "none" : "RAISED");
	bn_free(a);
}

int main(void) {
	if (core_init() != RLC_OK) return 1;
	show("embedded invalid character:", "12x4", 4, 10);
	show("digit not below the radix:", "129", 3, 8);
	show("blank inside:", "1 000", 5, 10);
	show("nothing but garbage:", "hello", 5, 10);
	show("lower case, radix 35 (folded):", "z", 1, 35);
	show("lower case, radix 16 (folded):", "ff", 2, 16);
	show("lower case, radix 36 (NOT folded -> 0):", "zz", 2, 36);
	show("upper case, radix 36:", "ZZ", 2, 36);
	show("sign only:", "-", 1, 10);
	show("minus zero:", "-0", 2, 10);
	show("radix 64, '+' '/' :", "+/", 2, 64);
	/* len = 0: the function reads str[0] before looking at len (heap-buffer-overflow under ASan) */
	{
		bn_t a; bn_null(a); bn_new(a);
		char *p = malloc(4); memcpy(p, "1234", 4);
		printf("len = 0 at the end of a 4-byte heap block: "); fflush(stdout);
		bn_read_str(a, p + 4, 0, 10);
		printf("no sanitizer report\n");
		free(p); bn_free(a);
	}
	core_clean();
	return 0;
}
