/* ed_mul_lwreg (-> ed_mul_reg_imp): the digit buffer `reg` has RLC_CEIL(RLC_FP_BITS + 1, RLC_WIDTH - 1) entries, the recoding of
   RLC_FP_BITS bits at width RLC_WIDTH writes RLC_CEIL(RLC_FP_BITS, RLC_WIDTH - 1) + 1 of them: one byte too many whenever
   RLC_FP_BITS is not a multiple of RLC_WIDTH - 1 (shipped configuration: 256 bits, w = 4: 86 entries, 87 written). */
#include <stdio.h>
#include "relic.h"
int main(void) {
	ed_t p, r; bn_t k;
	if (core_init() != RLC_OK) return 2;
	fp_param_set_any();
	printf("RLC_FP_BITS=%d RLC_WIDTH=%d reg entries=%d digits written=%d\n", (int)RLC_FP_BITS, RLC_WIDTH,
		(int)RLC_CEIL(RLC_FP_BITS + 1, RLC_WIDTH - 1), (int)RLC_CEIL(RLC_FP_BITS, RLC_WIDTH - 1) + 1);
	ed_null(p); ed_null(r); bn_null(k); ed_new(p); ed_new(r); bn_new(k);
	/* no Edwards curve exists for this field size (ed_param_set_any() fails); any projective point will do for the memory behaviour */
	fp_set_dig(p->x, 3); fp_set_dig(p->y, 5); fp_set_dig(p->z, 1); fp_mul(p->t, p->x, p->y); p->coord = BASIC;
	bn_set_dig(k, 12345);
	ed_mul_lwreg(r, p, k);
	printf("returned, err code %d\n", err_get_code());
	core_clean();
	return 0;
}
