/* C19: instantiations of the real error macros (see contracts/err.h). */
#define VC_CUSTOM_LONGJMP
#if defined(VC_UNIT_try2_swallow) || defined(VC_UNIT_try2_rethrow)
#define VC_CUSTOM_SETJMP
#endif
#include "vc_stubs.h"
#include "err.h"
/* the real relic_err.c (err_get_code, err_get_msg); its stderr printers are renamed, the no-op stubs stay in force */
#define err_full_msg err_full_msg_real
#define err_simple_msg err_simple_msg_real
#include "src/relic_err.c"
#undef err_full_msg
#undef err_simple_msg

int g_body[4], g_fin[4], g_catch[4], g_after;
err_t g_err[4];
int g_jmp_code_ok, g_jmp_err_ok, g_expect_e;
sts_t *g_outer_frame;

#ifdef VC_CUSTOM_SETJMP
/* SECOND RETURN of setjmp, modelled by a scripted return value: the k-th setjmp call returns g_sj[k]; 1 stands for "control
   came back here through longjmp from somewhere inside the block" (the block's body is then not executed, exactly as in the
   real second return).  What is assumed: longjmp transfers control to the matching setjmp with value 1 and the frame's
   non-volatile locals (_last, _this) as they were at the first return - guaranteed by C for objects not modified in between. */
int g_sj[4]; int g_sj_n;
int _setjmp(jmp_buf env) { (void)env; int r = g_sj[g_sj_n & 3]; g_sj_n++; return r; }
#endif

/* longjmp stub for these units: checks the state at the jump, then ends the path */
void longjmp(jmp_buf env, int val) {
	(void)val;
	__CPROVER_assert(g_may_throw, "throw only where the contract under proof admits an error exit");
	__CPROVER_assert(g_ctx.code == RLC_ERR, "sticky code is RLC_ERR at the jump");
	__CPROVER_assert(g_ctx.last != NULL && g_ctx.last->block == 1 && (void *)env == (void *)g_ctx.last->addr, "jump target is the innermost protected block");
#ifdef VC_UNIT_try2_rethrow
	/* the inner handler re-throws: the inner block has been left, so its finaliser must have run exactly once already, its
	   handler exactly once, and the chain must point at the OUTER frame again */
	__CPROVER_assert(g_fin[1] == 1 && g_catch[1] == 1 && g_fin[0] == 0 && g_catch[0] == 0, "finaliser of the exited inner block ran exactly once before the re-throw leaves it");
	__CPROVER_assert(g_ctx.last == g_outer_frame, "handler chain restored to the enclosing block before the re-throw");
	VC_CANARY();
#else
	__CPROVER_assert(g_ctx.last->error == &g_err[1] && g_err[1] == g_expect_e, "the catching block's error variable carries the thrown code");
	__CPROVER_assert(g_body[0] == 1 && g_body[1] == 1 && g_after == 0, "both bodies entered once, nothing after the throw has run");
#endif
#ifdef VC_UNIT_try2_throw
	VC_CANARY();      /* vacuity guard of the throw unit: the jump is reached */
#endif
	g_thrown = 1;
	__CPROVER_assume(0);
}

void vc_throw_outside(int e) {
	RLC_THROW(e);
}

void vc_try1(void) {
	RLC_TRY {
		g_body[0]++;
	} RLC_CATCH_ANY {
		g_catch[0]++;
	} RLC_FINALLY {
		g_fin[0]++;
	}
}

void vc_try3(void) {
	RLC_TRY {
		g_body[0]++;
		RLC_TRY {
			g_body[1]++;
			RLC_TRY {
				g_body[2]++;
			} RLC_CATCH(g_err[2]) {
				g_catch[2]++;
			} RLC_FINALLY {
				g_fin[2]++;
			}
		} RLC_CATCH_ANY {
			g_catch[1]++;
		} RLC_FINALLY {
			g_fin[1]++;
		}
	} RLC_CATCH_ANY {
		g_catch[0]++;
	} RLC_FINALLY {
		g_fin[0]++;
	}
}

void vc_try2_throw(int e) {
	RLC_TRY {
		g_body[0]++;
		RLC_TRY {
			g_body[1]++;
			RLC_THROW(e);
			g_after++;
		} RLC_CATCH(g_err[1]) {
			g_catch[1]++;
		} RLC_FINALLY {
			g_fin[1]++;
		}
		g_after++;
	} RLC_CATCH_ANY {
		g_catch[0]++;
	} RLC_FINALLY {
		g_fin[0]++;
	}
}

/* inner block entered through the second return of its setjmp (a throw somewhere inside it); its handler swallows */
void vc_try2_swallow(void) {
	RLC_TRY {
		g_body[0]++;
		RLC_TRY {
			g_body[1]++;
		} RLC_CATCH_ANY {
			g_catch[1]++;
		} RLC_FINALLY {
			g_fin[1]++;
		}
		g_after++;
	} RLC_CATCH_ANY {
		g_catch[0]++;
	} RLC_FINALLY {
		g_fin[0]++;
	}
}
/* same, but the inner handler re-throws (the library's dominant idiom) */
void vc_try2_rethrow(void) {
	RLC_TRY {
		g_body[0]++;
		g_outer_frame = g_ctx.last;
		RLC_TRY {
			g_body[1]++;
		} RLC_CATCH_ANY {
			g_catch[1]++;
			RLC_THROW(ERR_CAUGHT);
		} RLC_FINALLY {
			g_fin[1]++;
		}
		g_after++;
	} RLC_CATCH_ANY {
		g_catch[0]++;
	} RLC_FINALLY {
		g_fin[0]++;
	}
}

int nondet_int(void);
#define H(name, call) void h_##name(void) { vc_ctx_havoc(); call; VC_CANARY(); }
#ifdef VC_UNIT_err_get_code
H(err_get_code, err_get_code())
#endif
#ifdef VC_UNIT_throw_outside
void h_throw_outside(void) { vc_ctx_havoc(); if (nondet_int()) { g_ctx.last = &g_ctx.error; g_ctx.error.block = 0; } else { g_ctx.last = NULL; } vc_throw_outside(nondet_int()); VC_CANARY(); }
#endif
#ifdef VC_UNIT_try1
H(try1, vc_try1())
#endif
#ifdef VC_UNIT_try3
H(try3, vc_try3())
#endif
#ifdef VC_UNIT_try2_throw
void h_try2_throw(void) { vc_ctx_havoc(); g_may_throw = 1; vc_try2_throw(nondet_int()); }
#endif
#ifdef VC_UNIT_try2_swallow
void h_try2_swallow(void) { vc_ctx_havoc(); g_sj_n = 0; g_sj[0] = 0; g_sj[1] = nondet_int() ? 1 : 0; g_sj[2] = 0; g_sj[3] = 0; vc_try2_swallow(); VC_CANARY(); }
#endif
#ifdef VC_UNIT_try2_rethrow
void h_try2_rethrow(void) { vc_ctx_havoc(); g_may_throw = 1; g_ctx.code = RLC_ERR; g_sj_n = 0; g_sj[0] = 0; g_sj[1] = 1; g_sj[2] = 0; g_sj[3] = 0; vc_try2_rethrow(); }
#endif
