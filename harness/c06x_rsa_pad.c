/* harness for the RSA padding-parser units, decryption operation (generated-harness shape; written out because the weaver's brace
   scanner rejects relic_cp_rsa.c, see harness/c06x_rsa_dec.c).  The REAL source is included unchanged from the tree under check. */
#include "vc_stubs.h"
#include "c06x_rsa_pad.h"
#include "c06x_rsa_pad_state.h"
#include "src/cp/relic_cp_rsa.c"
#include "src/bn/relic_bn_mem.c"
void VC_ENTRY_FN(void) {
	bn_st *m; size_t *p_len; size_t m_len; size_t k_len; int operation;
	vc_ctx_havoc();
	gk = nondet_size();
	vc_snap.taken = 0;
	C06X_PADFN(m, p_len, m_len, k_len, operation);
	VC_CANARY();
}
