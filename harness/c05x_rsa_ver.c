/* harness for the cp_rsa_ver units (what proofs/engine.py gen_harness() would generate; written out because the weaver's brace
   scanner rejects relic_cp_rsa.c - its `#if / #elif` alternatives each open the same `if (...) {` - and no annotation is woven
   into this file anyway).  The REAL source is included unchanged from the tree under check (-I<repo>). */
#include "vc_stubs.h"
#include "c05x_rsa.h"
#include "c05x_rsa_state.h"
#include "src/cp/relic_cp_rsa.c"
#include "src/bn/relic_bn_mem.c"
void VC_ENTRY_FN(void) {
	uint8_t *sig; size_t sig_len; const uint8_t *msg; size_t msg_len; int hash; _rsa_st *pub;
	vc_ctx_havoc();
	gk = nondet_size();
	vc_snap.taken = 0;
	cp_rsa_ver(sig, sig_len, msg, msg_len, hash, pub);
	VC_CANARY();
}
