/* harness for the cp_rsa_dec units (generated-harness shape; written out because the weaver's brace scanner rejects
   relic_cp_rsa.c - its `#if / #elif` alternatives each open the same `if (...) {`; nothing is woven into this file anyway).
   The REAL source is included unchanged from the tree under check (-I<repo>). */
#include "vc_stubs.h"
#include "c06x_rsa.h"
#include "c06x_rsa_state.h"
#include "src/cp/relic_cp_rsa.c"
#include "src/bn/relic_bn_mem.c"
void VC_ENTRY_FN(void) {
	uint8_t *out; size_t *out_len; const uint8_t *in; size_t in_len; _rsa_st *prv;
	vc_ctx_havoc();
	gk = nondet_size();
	vc_snap.taken = 0;
	cp_rsa_dec(out, out_len, in, in_len, prv);
	VC_CANARY();
}
