/* harness for the PSS encoding-check unit (shape of harness/c05x_rsa_pad.c).  The REAL source is included unchanged from the tree under check. */
#include "vc_stubs.h"
#include "c05y_rsa_pss.h"
#include "c05y_rsa_pss_state.h"
#include "src/cp/relic_cp_rsa.c"
#include "src/bn/relic_bn_mem.c"
/* the real bn_get_bit / bn_set_bit / bn_is_zero / bn_trim; the two codec functions of the same file are modelled (renamed away here) */
#define bn_read_bin c05y_unused_bn_read_bin
#define bn_write_bin c05y_unused_bn_write_bin
#include "src/bn/relic_bn_util.c"
#undef bn_read_bin
#undef bn_write_bin
void VC_ENTRY_FN(void) {
	bn_st *m; size_t *p_len; size_t m_len; size_t k_len; int operation;
	vc_ctx_havoc();
	gk = nondet_size();
	vc_snap.taken = 0;
	pad_pkcs2(m, p_len, m_len, k_len, operation);
	VC_CANARY();
}
