#!/bin/bash
# usage: mut.sh <tag> <file> <python-replace-old> <python-replace-new> <units...>
tag=$1; file=$2; old=$3; new=$4; shift 4
wt=/tmp/mut-$tag
git -C /repo worktree add --detach $wt HEAD >/dev/null 2>&1
python3 - "$wt/$file" "$old" "$new" <<'PY'
import sys
p,old,new=sys.argv[1:4]
s=open(p).read()
assert s.count(old)>=1, 'pattern not found'
open(p,'w').write(s.replace(old,new,1))
PY
cd /verif
args=""; for u in "$@"; do args="$args --unit $u"; done
echo "== mutant $tag"; VERIF_REPO=$wt VERIF_EXTRA_UNITS=$VERIF_EXTRA_UNITS timeout 1800 bin/check $args --jobs 4 2>&1 | grep -E "^\s+\[|FAILED" | head -8
git -C /repo worktree remove --force $wt
