#!/bin/bash
# usage: confirm_seed.sh <worktree>   -> writes <worktree>/confirm.log
wt=$1
cd $wt
for k in 1 2 3; do
  d=$wt/seed_$k
  [ -f $d/patch.diff ] || continue
  git checkout -- . 2>/dev/null
  if ! git apply $d/patch.diff; then echo "seed_$k: patch does not apply"; continue; fi
  cmake --build $wt/_b -j5 > $d/build_changed.log 2>&1; b1=$?
  ctest --test-dir $wt/_b -j5 --timeout 1200 > $d/ctest_changed.log 2>&1; t1=$?
  cmd=$(python3 -c "import json;print(json.load(open('$d/meta.json'))['demo_build'])")
  (cd $wt && eval "$cmd") > $d/demo_build_changed.log 2>&1
  exe=$(echo "$cmd" | grep -o "\-o [^ ]*" | head -1 | cut -d' ' -f2)
  (cd $wt && timeout 300 $exe) > $d/demo_changed.out 2>&1; r1=$?
  git checkout -- .
  cmake --build $wt/_b -j5 > $d/build_orig.log 2>&1; b0=$?
  (cd $wt && eval "$cmd") > $d/demo_build_orig.log 2>&1
  (cd $wt && timeout 300 $exe) > $d/demo_orig.out 2>&1; r0=$?
  echo "seed_$k: build_changed=$b1 ctest_changed=$t1 demo_changed_rc=$r1 build_orig=$b0 demo_orig_rc=$r0"
done
