#!/usr/bin/env python3
"""Applies every seeded change of /verif/seeded to a scratch copy of /repo (never to /repo itself) and runs the units that are
expected to fail; prints which obligations caught it.  Exit 0 iff every seeded change is caught."""
import os, sys, json, subprocess, shutil, tempfile
V = os.path.dirname(os.path.dirname(os.path.abspath(__file__)))
REPO = os.environ.get('VERIF_REPO', '/repo')
ok = True
ONLY = set(sys.argv[1:])
for d in sorted(os.listdir(os.path.join(V, 'seeded'))):
    if ONLY and d not in ONLY:
        continue
    dd = os.path.join(V, 'seeded', d)
    if not os.path.exists(os.path.join(dd, 'meta.json')):
        continue
    meta = json.load(open(os.path.join(dd, 'meta.json')))
    tmp = tempfile.mkdtemp(prefix='seeded-', dir='/var/tmp')
    try:
        subprocess.run(['rsync', '-a', '--exclude', '_build', '--exclude', '.git', REPO + '/', tmp + '/'], check=True)
        r = subprocess.run(['patch', '-p1', '-s', '-d', tmp, '-i', os.path.join(dd, 'patch.diff')])
        if r.returncode != 0:
            print('%-8s patch does not apply' % d)
            ok = False
            continue
        args = [sys.executable, os.path.join(V, 'proofs', 'check.py'), '--jobs', os.environ.get('VERIF_JOBS', '4')]
        for u in meta['check_units_expected_to_fail']:
            args += ['--unit', u]
        out = subprocess.run(args, env=dict(os.environ, VERIF_REPO=tmp), stdout=subprocess.PIPE, stderr=subprocess.STDOUT, text=True).stdout
        failed = [l.strip() for l in out.splitlines() if l.strip().startswith('FAILED')]
        undecided = 'check_result' in meta and ('NOT DECIDED' in meta['check_result'] or 'full check flow only' in meta['check_result'])
        print('%-8s %s: %s' % (d, 'caught' if failed else ('undecided (documented)' if undecided else 'MISSED'), '; '.join(f.split(' [')[0].replace('FAILED ', '') for f in failed[:4])))
        ok = ok and (bool(failed) or undecided)
    finally:
        shutil.rmtree(tmp, ignore_errors=True)
sys.exit(0 if ok else 1)
