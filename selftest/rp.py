import sys, os, json
sys.path.insert(0, '/verif/proofs')
pass
import engine as E, units as U, replay as R
name = sys.argv[1]
u = [x for x in U.all_units() if x.name == name][0]
r = E.run_unit(u, 'quick', 0)
print(r['status'])
fl = [f for f in r.get('failed', []) if f['cls'] in E.FUNCTION_LEVEL]
if fl:
    rp, rep = R.make_replay('SCRATCH', u, fl, r)
    rec = json.load(open(rp))
    print(rp, rep)
    for v in rec.get('replays', []):
        print(v.get('obligation'), v.get('reproduced'), v.get('why'))
        print(json.dumps(v.get('input'))[:900])
        print(json.dumps(v.get('native', {}).get('post'))[:600])
