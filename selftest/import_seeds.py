import json, os, shutil, sys
PLAN = {
 ('c07b',1): ('C07-10', ['bn_size_str@w8', 'bn_write_str@w8']), ('c07b',2): ('C07-11', ['fb_read_bin']), ('c07b',3): ('C07-12', ['ep_write_bin']),
 ('c15',1): ('C15-8', ['c15x.rand_gen.b1', 'c15x.rand_gen.b2', 'c15x.rand_gen.b3']), ('c15',2): ('C15-9', ['rand_seed', 'c15x.rand_seed.df']), ('c15',3): ('C15-10', ['c15x.rand_hash.v55', 'c15x.rand_hash.ctx', 'c15x.rand_seed.df']),
 ('c12',1): ('C12-1', ['c12x.g1_is_valid']), ('c12',2): ('C12-2', ['c12x.g2_is_valid']), ('c12',3): ('C12-3', ['c12x.gt_is_valid.f1']),
 ('c14',1): ('C14-6', ['padDecrypt', 'bc_aes_cbc_dec']), ('c14',2): ('C14-7', ['sha256_finalize', 'sha256_result']), ('c14',3): ('C14-8', ['md_xmd_sh256']),
 ('c01',1): ('C01-14', ['bn_div.none@w8', 'bn_div_rem.none@w8', 'bn_mod_basic.none@w8']),
 ('c01',2): ('C01-15', ['bn_sqrn_low.none@w8']),
 ('c01',3): ('C01-16', ['bn_div_rem_dig.ca@w8', 'bn_div_rem_dig.none@w8']),
 ('c02',1): ('C02-8', ['fp_add_basic.none', 'fp_add_basic.ca', 'fp_add_basic.cb', 'fp_add_basic.cab']),
 ('c02',2): ('C02-9', ['fp_cmp.none', 'fp_cmp.ab', 'fp_cmp_dig']),
 ('c02',3): ('C02-10', ['fp_inv_monty.guard.none', 'fp_inv_monty.guard.ca']),
 ('c05',1): ('C05-9', ['cp_rsa_ver.pss', 'cp_rsa_ver.pkcs1', 'cp_rsa_ver.basic']),
 ('c05',2): ('C05-10', ['cp_cli_ver.codeguards']),
 ('c05',3): ('C05-11', ['cp_zss_ver']),
 ('c07',1): ('C07-7', ['eb_read_bin']),
 ('c07',2): ('C07-8', ['fp12_write_bin']),
 ('c07',3): ('C07-9', ['ep2_read_bin']),
 ('c20',1): ('C20-G', ['c20x.bn_rec_reg']),
 ('c20',2): ('C20-H', ['c20x.ep2_mul_reg_gls']),
 ('c20',3): ('C20-I', ['c20x.eb_mul_lodah.zero', 'c20x.eb_mul_lodah.huge']),
 ('c09',1): ('C09-5', ['bn_div_rem_dig.cn@w8']), ('c09',2): ('C09-6', ['bn_div_rem.db@w8', 'bn_div_rem.cn_db@w8', 'bn_mod_basic.cb@w8']), ('c09',3): ('C09-7', []),
}
for (t,k),(sid,units) in PLAN.items():
    if sys.argv[1:] and t not in sys.argv[1:]:
        continue
    src='/tmp/seed-%s/seed_%d' % (t,k)
    if not os.path.exists(src+'/patch.diff'):
        print('missing', src); continue
    conf = {}
    cl = '/tmp/seed-%s/confirm.log' % t
    line = ''
    if os.path.exists(cl):
        for l in open(cl):
            if l.startswith('seed_%d:' % k): line = l.strip()
    m = json.load(open(src+'/meta.json'))
    dst='/verif/seeded/'+sid
    os.makedirs(dst, exist_ok=True)
    shutil.copy(src+'/patch.diff', dst+'/patch.diff')
    shutil.copy(src+'/demo.c', dst+'/demo.c')
    meta = dict(property=m.get('property', t.upper()), change='%s (%s): %s' % (m.get('function'), m.get('file'), m.get('what')),
                needs_to_manifest=m.get('needs'), author='independent sub-agent given the property text, the anchor file names and a scratch worktree',
                demo_build=m.get('demo_build'),
                confirmed=dict(ran='in the scratch worktree: git apply; incremental rebuild; full ctest (19 programs); build and run the demo; git checkout; rebuild; run the demo again', result=line,
                               agent_reported=dict(tests_run=m.get('tests_run'), demo_original=str(m.get('demo_original'))[:300], demo_changed=str(m.get('demo_changed'))[:300])),
                check_units_expected_to_fail=units or [])
    if m.get('note'): meta['note'] = m['note']
    json.dump(meta, open(dst+'/meta.json','w'), indent=1)
    print(sid, line)
