"""C01/C08: digit-vector layer (src/low/easy/relic_bn_*_low.c, src/dv/relic_dv_util.c), value contracts."""
NB = {'w8': 13, 'p128': 9, 'base': 37}   # unwinding bound >= RLC_BN_SIZE + 3
L3 = [('none', 'VC_L_NONE'), ('ca', 'VC_L_CA'), ('cb', 'VC_L_CB'), ('ab', 'VC_L_AB'), ('cab', 'VC_L_CAB')]
L2 = [('none', 'VC_L_NONE'), ('ca', 'VC_L_CA')]
ADD = 'src/low/easy/relic_bn_add_low.c'


def register(add):
    register_rel(add)
    register_mul(add)
    for conf, tier in (('w8', 'quick'),):
        register_conf(add, conf, tier)
    # shipped configuration (64-bit digits, RLC_BN_SIZE 34): only the units whose 2304-bit value obligations the SAT back end
    # finishes within 12 GB are registered; the others (add1/sub1/rsh1/lshb/rshb/dv_lshd/dv_rshd/dv_cmp/dv_copy) ran out of
    # memory or time at this width and stay covered at the 8-bit configuration only (DESIGN 0.1).
    register_conf(add, 'base', 'thorough', only_none=True, only=('bn_addn_low', 'bn_subn_low', 'bn_lsh1_low', 'dv_zero'))


def register_conf(add0, CONF, TIER, only_none=False, only=None):
    N = NB[CONF]
    global L3, L2
    L3s, L2s = L3, L2
    if only_none:
        L3 = [x for x in L3 if x[0] == 'none']
        L2 = [x for x in L2 if x[0] == 'none']

    def add(name, *a, **k):
        if only is not None and name.split('.')[0] not in only:
            return None
        k.setdefault('tier', TIER)
        k.setdefault('bound_note', 'size <= RLC_BN_SIZE symbolic, loops unwound %d times with unwinding assertions, configuration %s' % (N, CONF))
        return add0(name + '@' + CONF, *a, **k)
    for f in ('bn_addn_low', 'bn_subn_low'):
        for sh, mac in L3:
            add('%s.%s' % (f, sh), ['C01', 'C08'], f, sources=[ADD], headers=['bn_low.h'], defines=['VC_LSHAPE=' + mac],
                decls='dig_t *c; const dig_t *a, *b; size_t n;', call='%s(c, a, b, n)' % f, route='bounded', unwind=N, conf=CONF,
                timeout=300)
    for f in ('bn_add1_low', 'bn_sub1_low'):
        for sh, mac in L2:
            add('%s.%s' % (f, sh), ['C01', 'C08'], f, sources=[ADD], headers=['bn_low.h'], defines=['VC_LSHAPE=' + mac],
                decls='dig_t *c; const dig_t *a; dig_t d; size_t n;', call='%s(c, a, d, n)' % f, route='bounded', unwind=N, conf=CONF,
                timeout=300)

    SH = 'src/low/easy/relic_bn_shift_low.c'
    MUL = 'src/low/easy/relic_bn_mul_low.c'
    DIV = 'src/low/easy/relic_bn_div_low.c'
    DV = 'src/dv/relic_dv_util.c'

    def low(f, src, decls, call, shapes=L2, props=('C01', 'C08'), **kw):
        for sh, mac in shapes:
            add('%s.%s' % (f, sh), list(props), f, sources=[src], headers=['bn_low.h'], defines=['VC_LSHAPE=' + mac],
                decls=decls, call=call, route='bounded', unwind=N, conf=CONF, timeout=kw.pop('timeout', 300), **kw)
    low('bn_lsh1_low', SH, 'dig_t *c; const dig_t *a; size_t n;', 'bn_lsh1_low(c, a, n)')
    low('bn_rsh1_low', SH, 'dig_t *c; const dig_t *a; size_t n;', 'bn_rsh1_low(c, a, n)')
    low('bn_lshb_low', SH, 'dig_t *c; const dig_t *a; size_t n; uint_t bits;', 'bn_lshb_low(c, a, n, bits)')
    low('bn_rshb_low', SH, 'dig_t *c; const dig_t *a; size_t n; uint_t bits;', 'bn_rshb_low(c, a, n, bits)')
    low('dv_lshd', DV, 'dig_t *c; const dig_t *a; size_t n; uint_t d;', 'dv_lshd(c, a, n, d)')
    low('dv_rshd', DV, 'dig_t *c; const dig_t *a; size_t n; uint_t d;', 'dv_rshd(c, a, n, d)')
    low('dv_copy', DV, 'dig_t *c; const dig_t *a; size_t n;', 'dv_copy(c, a, n)', shapes=[('none', 'VC_L_NONE')])
    low('dv_cmp', DV, 'const dig_t *a, *b; size_t n;', 'dv_cmp(a, b, n)', shapes=[('none', 'VC_L_NONE'), ('ab', 'VC_L_AB')])
    low('dv_zero', DV, 'dig_t *a; size_t n;', 'dv_zero(a, n)', shapes=[('none', 'VC_L_NONE')])
    L3, L2 = L3s, L2s


def register_mul(add0):
    """multiplication rows with the digit product abstract (uninterpreted), 8-bit configuration"""
    MUL = 'src/low/easy/relic_bn_mul_low.c'
    N = NB['w8']

    def low(f, decls, call, shapes):
        for sh, mac, fixed in shapes:
            add0('%s.%s@w8' % (f, sh), ['C01', 'C08'], f, sources=[MUL], headers=['bn_mul.h'], defines=['VC_LSHAPE=' + mac, 'VC_COMBA_MAX=' + __import__('os').environ.get('VERIF_COMBA_MAX', '6')] + (['VC_FIXED_DIGBUF'] if fixed else []),
                 decls=decls, call=call, route='bounded', unwind=N, conf='w8', timeout=600,
                 bound_note='size <= RLC_BN_SIZE symbolic, loops unwound %d times; digit product uninterpreted' % N,
                 note='RLC_MUL_DIG abstracted by uninterpreted mulhi/mullo with the range assumption PROD <= (B-1)^2')
    low('bn_mul1_low', 'dig_t *c; const dig_t *a; dig_t d; size_t n;', 'bn_mul1_low(c, a, d, n)', [('none', 'VC_L_NONE', False), ('ca', 'VC_L_CA', True)])
    low('bn_mula_low', 'dig_t *c; const dig_t *a; dig_t d; size_t n;', 'bn_mula_low(c, a, d, n)', [('none', 'VC_L_NONE', True)])
    low('bn_muln_low', 'dig_t *c; const dig_t *a, *b; size_t n;', 'bn_muln_low(c, a, b, n)', [('none', 'VC_L_NONE', True), ('ab', 'VC_L_AB', True)])
    low('bn_muld_low', 'dig_t *c; const dig_t *a, *b; size_t sa, sb; uint_t l, h;', 'bn_muld_low(c, a, sa, b, sb, l, h)', [('none', 'VC_L_NONE', True)])


def register_rel(add):
    """unbounded digit-relation proofs (loop contracts), shipped configuration"""
    ADDL, SHL = 'src/low/easy/relic_bn_add_low.c', 'src/low/easy/relic_bn_shift_low.c'
    base = dict(headers=['bn_low_rel.h'], conf='base', route='proof', loops=True, defines=['VC_MAXN=128'], timeout=300, arb_weave=True,
                bound_note='all lengths up to 128 digits (8192 bits); loops closed by loop contracts')
    add('bn_addn_low.rel', ['C01', 'C08'], 'bn_addn_low', contract='bn_addn_low_rel', sources=[ADDL],
        decls='dig_t *c; const dig_t *a, *b; size_t n;', call='bn_addn_low(c, a, b, n)', **base)
    add('bn_subn_low.rel', ['C01', 'C08'], 'bn_subn_low', contract='bn_subn_low_rel', sources=[ADDL],
        decls='dig_t *c; const dig_t *a, *b; size_t n;', call='bn_subn_low(c, a, b, n)', **base)
    add('bn_lsh1_low.rel', ['C01', 'C08'], 'bn_lsh1_low', contract='bn_lsh1_low_rel', sources=[SHL],
        decls='dig_t *c; const dig_t *a; size_t n;', call='bn_lsh1_low(c, a, n)', **base)
