"""C06 (the part within reach: "ciphertexts with invalid padding, wrong length or failed authentication are rejected with an error
rather than returning data"): guard contracts of cp_rsa_dec (three padding configurations of the same source), the decryption half of
the PKCS#1 v1.5 padding parser, cp_ecies_dec."""

RSA_ABS = ('ABSTRACT callees (exact frame, arbitrary verdict recorded in ghost state keyed by argument identity): bn_size_bin (answer = ghost modulus length k, only admitted on the modulus), '
           'bn_read_bin, bn_cmp, bn_mxp_crt (CP_CRT is on in the shipped configuration), the padding checker %s (precondition: operation RSA_DEC, k_len = k; verdict arbitrary, on RLC_OK 1 <= *p_len <= k), '
           'bn_write_bin (writes witness bytes). REAL code: cp_rsa_dec, bn_new/bn_free (relic_bn_mem.c), memset (CBMC library model). Nothing about the exponentiation or the padding parser is claimed here. '
           'Preconditions: ciphertext of 0..300 bytes (modulus 1..272 bytes), caller buffer of 0..80 bytes (every k - pad_len against every capacity)')


def register(add):
    G = lambda f: '%s/%s_g' % (f, f)
    common = dict(harness='c06x_rsa_dec.c', headers=['c06x_rsa.h', 'c06x_rsa_state.h'], conf='base', route='proof', unwind=90, weave=False,
                  flags=['--object-bits', '10'], timeout=600,
                  bound_note='loop-free after callee replacement except memset over the plaintext buffer (capacity <= 80 bytes, unwound completely)')
    for tag, pd, padfn in (('oaep', None, 'pad_pkcs2'), ('pkcs1', 'PKCS1', 'pad_pkcs1'), ('basic', 'BASIC', 'pad_basic')):
        rep = [G('bn_size_bin'), G('bn_read_bin'), G('bn_cmp'), G('bn_mxp_crt'), G('bn_mxp_slide'), padfn + '/c06x_pad_g', G('bn_write_bin')]
        d = (['C06X_RSAPD=' + pd] if pd else [])
        cfg = 'shipped configuration (CP_RSAPD=PKCS2, OAEP)' if not pd else 'same source with the cmake option CP_RSAPD=%s (re-selected by -DC06X_RSAPD; the macro is used in relic_cp_rsa.c only)' % pd
        add('cp_rsa_dec.' + tag, ['C06', 'C08'], 'cp_rsa_dec', replace=rep, defines=d,
            note='STRICT contract from the property and RFC 8017 (RSADP step 1: ciphertext representative < n): ' + cfg + '. ' + RSA_ABS % padfn, **common)
        if __import__('os').environ.get('C06X_ALL'):
          add('cp_rsa_dec.%s.codeguards' % tag, ['C06', 'C08'], 'cp_rsa_dec', replace=rep, defines=d + ['C06X_NO_RANGE'],
              note='as cp_rsa_dec.%s WITHOUT clause (3) (ciphertext representative compared with the modulus before the exponentiation), which the code does not implement: ' % tag + cfg + '. ' + RSA_ABS % padfn, **common)

    # ---- decryption half of the padding parsers over the byte-level model of bn_rsh / bn_mod_2b / bn_is_zero ----------------------
    PM = ('bn_rsh, bn_mod_2b, bn_is_zero are BYTE-LEVEL MODEL stubs (bodies in stubs/c06x_rsa_pad_state.h = the model of the c05x padding units, preconditions as assertions) over a ghost byte string '
          '(little-endian bytes of |m|, |m| < 256^56): byte-granular corollaries of their value contracts proved in the C01/C09 units at 8-bit digits, ASSUMED here at the shipped width. '
          'REAL code: the parser, bn_new/bn_free. ')
    pm = dict(harness='c06x_rsa_pad.c', headers=['c06x_rsa_pad.h', 'c06x_rsa_pad_state.h'], conf='base', route='bounded', unwind=60, weave=False,
              flags=['--object-bits', '10'], timeout=900,
              bound_note='k_len <= 48 (all loops of the parser unwound, unwinding assertions on), |m| < 256^56')
    what = 'EM = 00 02 PS 00 M, PS nonzero octets, |M| >= 1 (RELIC admits no empty plaintext), nothing beyond k_len bytes; on RLC_OK *p_len = k_len - |M| and m reduced once to its low |M| bytes'
    add('pad_pkcs1.dec', ['C06'], 'pad_pkcs1', defines=['C06X_RSAPD=PKCS1', 'C06X_PADFN=pad_pkcs1'],
        note='STRICT: RLC_OK <==> ' + what + ', with |PS| >= 8 (RFC 8017 7.2.2 step 3); same source with CP_RSAPD=PKCS1. ' + PM, **pm)
    if __import__('os').environ.get('C06X_ALL'):
      add('pad_pkcs1.dec.codeguards', ['C06'], 'pad_pkcs1', defines=['C06X_RSAPD=PKCS1', 'C06X_PADFN=pad_pkcs1', 'C06X_MINPS=0'],
          note='as pad_pkcs1.dec WITHOUT the minimum length of PS, which the code does not enforce (|PS| >= 0): RLC_OK <==> ' + what + '; same source with CP_RSAPD=PKCS1. ' + PM, **pm)

    # ---- ECIES ---------------------------------------------------------------------------------------------------------------------
    add('c06x.cp_ecies_dec', ['C06', 'C08'], 'cp_ecies_dec', sources=['src/cp/relic_cp_ecies.c', 'src/bn/relic_bn_mem.c', 'src/bn/relic_bn_util.c'], headers=['c06x_ecies.h', 'c06x_ecies_state.h'],
        conf='base', route='proof', unwind=70, flags=['--object-bits', '10'], timeout=900,
        decls='uint8_t *out; size_t *out_len; ep_st *r; const uint8_t *in; size_t in_len; bn_st *d;', call='cp_ecies_dec(out, out_len, r, in, in_len, d)',
        replace=[G('util_bits_dig'), G('ep_param_level'), G('ep_mul_lwnaf'), G('fp_prime_back'), G('md_kdf'), G('md_hmac'), G('util_cmp_sec'), G('bc_aes_cbc_dec')],
        note='STRICT contract from the property. ABSTRACT callees (exact frame, arbitrary verdict, argument identities and call order recorded in ghost state): ep_param_level (answer = ghost level in {112,128,192,256}), '
             'ep_mul_lwnaf (= ec_mul), fp_prime_back (= ec_get_x), md_kdf, md_hmac, util_cmp_sec, bc_aes_cbc_dec, util_bits_dig. REAL code: cp_ecies_dec, bn_new/bn_free, bn_size_bin/bn_bits/bn_write_bin of the shared secret (inlined). '
             'Nothing is claimed about the MAC, the KDF, the cipher or the scalar multiplication themselves; the received point r is NOT validated by the code and the property\'s last sentence does not ask for it. '
             'Preconditions: ciphertext of 0..256 bytes (every length below and above the MAC length), caller buffer of 0..256 bytes',
        bound_note='byte loops of bn_write_bin bounded by the 33-byte coordinate buffer; unwound completely')

    # cp_ibe_dec (length guards; abstract ep_read_bin / pp_map_oatep_k12 / fp12_size_bin / fp12_write_bin / md_map_sh256) was written and did not finish in 400 s on the loaded machine: not registered, files removed.
