"""Native replay of verifier counterexamples against the real code (filled in below)."""
import os, json, time

VERIF = os.path.dirname(os.path.dirname(os.path.abspath(__file__)))


def entry_header(u):
    return '/* no entry snapshot */\n'


def make_replay(prop, unit, failed, result):
    d = os.path.join(VERIF, 'replay', prop)
    os.makedirs(d, exist_ok=True)
    n = 0
    while os.path.exists(os.path.join(d, '%s-%d.json' % (unit.name, n))):
        n += 1
    p = os.path.join(d, '%s-%d.json' % (unit.name, n))
    rec = dict(property=prop, unit=unit.name, function=unit.func, reproduced=False,
               failed_obligations=[{k: v for k, v in f.items() if k != 'trace'} for f in failed],
               verifier_output=[dict(obligation=f['obligation'], trace_tail=trace_tail(f.get('trace'))) for f in failed[:3]])
    json.dump(rec, open(p, 'w'), indent=1)
    return p, False


def trace_tail(tr, n=60):
    if not tr:
        return []
    out = []
    for s in tr:
        if s.get('stepType') == 'assignment' and not s.get('hidden') and s.get('lhs'):
            v = s.get('value', {})
            out.append('%s = %s (%s:%s)' % (s['lhs'], v.get('data', v.get('name')), s.get('sourceLocation', {}).get('function'), s.get('sourceLocation', {}).get('line')))
    return out[-n:]


def run_replay_file(path):
    rec = json.load(open(path))
    print(json.dumps({k: rec[k] for k in ('property', 'unit', 'function', 'reproduced')}, indent=1))
    for f in rec['failed_obligations']:
        print('failed obligation:', f['obligation'], f['text'])
    return 1
