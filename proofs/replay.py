"""Native replay of verifier counterexamples against the real code.

On a failing function-level obligation the engine re-runs the unit with -DVC_REPLAY_SNAPSHOT (entry snapshot of the call's
arguments, see vc_prelude.h), extracts the input from the counterexample trace, builds the real library from the repository
under check in the unit's configuration with gcc -fsanitize=address,undefined, calls the real function on that input and
judges the result with an oracle written from the property statement in Python integers (proofs/oracles.py), independent of
the contracts.  Reproduced = sanitizer report, crash/hang, or oracle rejection.
"""
import os, sys, json, re, subprocess, shutil, tempfile, time

VERIF = os.path.dirname(os.path.dirname(os.path.abspath(__file__)))
sys.path.insert(0, os.path.join(VERIF, 'proofs'))


def entry_header(u):
    return '/* unused */\n'


def leaf_int(v):
    if 'binary' in v:
        b = v['binary']
        x = int(b, 2)
        t = v.get('type', '')
        if (t.startswith('signed') or t in ('int', 'long', 'short', 'char')) and b[0] == '1':
            x -= 1 << len(b)
        return x
    d = str(v.get('data', '0'))
    m = re.match(r'-?\d+', d)
    return int(m.group(0)) if m else 0


def extract_snapshot(trace):
    """values of the leaves of vc_snap written by the entry snapshot of the call under contract: the assignments between the
    harness' `vc_snap.taken = 0` and the snapshot's own `vc_snap.taken = 1` (later havocs by replaced callees are ignored)"""
    snap = {}
    armed = False
    for s in trace or []:
        if s.get('stepType') != 'assignment':
            continue
        lhs = str(s.get('lhs', ''))
        if not lhs.startswith('vc_snap.'):
            continue
        v = s.get('value', {})
        if 'members' in v or 'elements' in v:
            continue
        key = re.sub(r'\[(\d+)l?\]', r'[\1]', lhs[len('vc_snap.'):])
        val = v.get('data', '') if v.get('name') == 'pointer' else leaf_int(v)
        fn = s.get('sourceLocation', {}).get('function') or ''
        if key == 'taken' and val == 0 and fn.startswith('h_'):
            armed, snap = True, {}
            continue
        if not armed:
            continue
        snap[key] = val
        if key == 'taken' and val == 1:
            break
    return snap


def snapshot_to_input(snap, sig, bn_size, dig_bits):
    import sigs as S
    inp = dict(args=[], code=snap.get('code', 0), handler=snap.get('handler', 0))
    nb = nd = ns = ny = 0
    ptrs = [a[1] for a in sig['args'] if a[0] in ('bn', 'dv')]
    ident = {n: n for n in ptrs}      # alias classes from the recorded pairwise pointer comparisons
    k = 0
    for i in range(len(ptrs)):
        for j in range(i + 1, len(ptrs)):
            if snap.get('alias[%d]' % k):
                ident[ptrs[j]] = ident[ptrs[i]]
            k += 1
    for a in sig['args']:
        k = a[0]
        if k == 'bn':
            d = dict(kind='bn', name=a[1], alloc=snap.get('bn[%d].alloc' % nb, 0), used=snap.get('bn[%d].used' % nb, 0),
                     sign=snap.get('bn[%d].sign' % nb, 0), dp=[snap.get('bn[%d].dp[%d]' % (nb, i), 0) for i in range(bn_size)],
                     ptr=ident[a[1]])
            inp['args'].append(d)
            nb += 1
        elif k == 'dv':
            n = snap.get('dvlen[%d]' % nd, 0)
            d = dict(kind='dv', name=a[1], len=n, cty=a[3], vals=[snap.get('dv[%d][%d]' % (nd, i), 0) for i in range(min(n, 80))],
                     ptr=ident[a[1]])
            inp['args'].append(d)
            nd += 1
        elif k == 'sc':
            inp['args'].append(dict(kind='sc', name=a[1], cty=a[2], val=snap.get('sc[%d]' % ns, 0)))
            ns += 1
        elif k == 'by':
            n = snap.get('bylen[%d]' % ny, 0)
            inp['args'].append(dict(kind='by', name=a[1], len=n, cty=a[3], vals=[snap.get('by[%d][%d]' % (ny, i), 0) for i in range(min(n, 160))]))
            ny += 1
        elif k == 'po':
            inp['args'].append(dict(kind='po', name=a[1], cty=a[2]))
    return inp


def driver_source(sig, inp, include_src):
    """C program calling the real function on the snapshot input and printing the post-state as JSON."""
    L = ['#include <stdio.h>', '#include <stdlib.h>', '#include <string.h>']
    L += ['#include "%s"' % h for h in sig['headers']]
    if include_src:
        L.append('#include "%s"' % include_src)
    L += ['static void pr_bn(const char *n, const bn_st *a) { printf("\\"%s\\": {\\"used\\": %zu, \\"sign\\": %d, \\"alloc\\": %zu, \\"dp\\": [", n, a->used, a->sign, a->alloc);',
          '  for (size_t i = 0; i < a->used && i < RLC_BN_SIZE; i++) printf("%s%llu", i ? "," : "", (unsigned long long)a->dp[i]); printf("]},\\n"); }',
          'static void pr_dv(const char *n, const dig_t *a, size_t l) { printf("\\"%s\\": [", n); for (size_t i = 0; i < l; i++) printf("%s%llu", i ? "," : "", (unsigned long long)a[i]); printf("],\\n"); }',
          'int main(void) {', '  if (core_init() != RLC_OK) { printf("{\\"init\\": \\"failed\\"}\\n"); return 2; }']
    objs = {}   # pointer identity -> C variable of first object
    call = []
    post = []
    for a in inp['args']:
        k, n = a['kind'], a['name']
        if k == 'bn':
            if a['ptr'] in objs:
                L.append('  bn_st *%s = %s;  /* aliased */' % (n, objs[a['ptr']]))
            else:
                objs[a['ptr']] = n
                L.append('  bn_st *%s = malloc(sizeof(bn_st));' % n)
                L.append('  %s->alloc = %d; %s->used = %d; %s->sign = %d;' % (n, a['alloc'], n, a['used'], n, a['sign']))
                L.append('  { static const unsigned long long v[] = {%s}; for (size_t i = 0; i < RLC_BN_SIZE && i < sizeof(v)/sizeof(v[0]); i++) %s->dp[i] = (dig_t)v[i]; }'
                         % (','.join('%dULL' % x for x in a['dp']) or '0', n))
            call.append(n)
            post.append('  pr_bn("%s", %s);' % (n, n))
        elif k == 'dv':
            ln = max(a['len'], 0)
            if a['ptr'] in objs:
                L.append('  dig_t *%s_ = %s_;  /* aliased */' % (n, objs[a['ptr']]))
            else:
                objs[a['ptr']] = n
                L.append('  dig_t *%s_ = malloc(%d * sizeof(dig_t) + (%d == 0));' % (n, ln, ln))
                L.append('  { static const unsigned long long v[] = {%s}; for (size_t i = 0; i < %d; i++) %s_[i] = (dig_t)v[i]; }'
                         % (','.join('%dULL' % x for x in a['vals']) or '0', min(ln, len(a['vals'])), n))
            call.append('%s_' % n)
            post.append('  pr_dv("%s", %s_, %d);' % (n, n, ln))
        elif k == 'sc':
            L.append('  %s %s = (%s)%dULL;' % (a['cty'], n, a['cty'], a['val'] & 0xFFFFFFFFFFFFFFFF))
            call.append(n)
        elif k == 'by':
            ln = max(a['len'], 0)
            L.append('  unsigned char *%s_ = malloc(%d + (%d == 0));' % (n, ln, ln))
            L.append('  { static const unsigned char v[] = {%s}; memcpy(%s_, v, %d); }' % (','.join(str(x) for x in a['vals']) or '0', n, min(ln, len(a['vals']))))
            call.append('(%s)%s_' % (a['cty'], n))
            post.append('  printf("\\"%s\\": ["); for (size_t i = 0; i < %d; i++) printf("%%s%%u", i ? "," : "", %s_[i]); printf("],\\n");' % (n, ln, n))
        elif k == 'po':
            L.append('  %s %s_v = 0;' % (a['cty'], n))
            call.append('&%s_v' % n)
            post.append('  printf("\\"%s\\": %%llu,\\n", (unsigned long long)%s_v);' % (n, n))
    L.append('  core_get()->code = %s;' % ('RLC_ERR' if inp.get('code') else 'RLC_OK'))
    c = '%s(%s)' % (sig['fn'], ', '.join(call))
    L.append('  int caught = 0; (void)caught;')
    if sig['ret']:
        L.append('  %s ret = 0;' % sig['ret'])
        c = 'ret = ' + c
    if inp.get('handler'):
        L.append('  RLC_TRY { %s; } RLC_CATCH_ANY { caught = 1; }' % c)
    else:
        L.append('  %s;' % c)
    L.append('  printf("{\\n");')
    L += post
    if sig['ret']:
        L.append('  printf("\\"ret\\": %lld,\\n", (long long)ret);')
    L.append('  printf("\\"caught\\": %d, \\"code\\": %d, \\"RLC_ERR\\": %d, \\"dig_bits\\": %d, \\"bn_size\\": %d}\\n", caught, core_get()->code, RLC_ERR, (int)RLC_DIG, (int)RLC_BN_SIZE);')
    L.append('  return 0;')
    L.append('}')
    return '\n'.join(L) + '\n'


_libs = {}


def native_lib(conf, repo, scratch):
    """Build the real library of `repo` in configuration conf with ASan/UBSan; returns (include_dir, libfile) or raises."""
    import engine as E
    key = (conf, repo)
    if key in _libs:
        return _libs[key]
    bd = os.path.join(scratch, 'native-' + conf)
    shutil.rmtree(bd, ignore_errors=True)
    flags = '-fsanitize=address,undefined -fno-sanitize-recover=undefined -fno-omit-frame-pointer -g -O1'
    r = E.sh(['cmake', '-S', repo, '-B', bd, '-G', 'Ninja', '-DDOCUM=off', '-DTESTS=0', '-DBENCH=0', '-DSHLIB=off',
              '-DCMAKE_BUILD_TYPE=Debug', '-DCMAKE_C_FLAGS=' + flags] + E.CONFS[conf])
    if r.returncode == 0:
        r = E.sh(['cmake', '--build', bd, '-j', '16'])
    lib = os.path.join(bd, 'lib', 'librelic_s.a')
    if r.returncode != 0 or not os.path.exists(lib):
        raise RuntimeError('native library build failed: ' + r.stdout[-1500:])
    _libs[key] = (os.path.join(bd, 'include'), lib)
    return _libs[key]


def run_native(src_text, conf, repo, scratch, tag):
    inc, lib = native_lib(conf, repo, scratch)
    d = os.path.join(scratch, 'replay-' + tag)
    os.makedirs(d, exist_ok=True)
    c = os.path.join(d, 'driver.c')
    open(c, 'w').write(src_text)
    exe = os.path.join(d, 'driver')
    import engine as E
    r = E.sh(['gcc', '-fsanitize=address,undefined', '-fno-sanitize-recover=undefined', '-g', '-O1', '-w', '-I' + inc,
              '-I' + os.path.join(repo, 'include'), '-I' + os.path.join(repo, 'include', 'low'), '-I' + repo, c, '-o', exe,
              '-Wl,--allow-multiple-definition', lib])
    if r.returncode != 0:
        return dict(status='build-failed', log=r.stdout[-2000:])
    try:
        p = subprocess.run([exe], stdout=subprocess.PIPE, stderr=subprocess.PIPE, text=True, timeout=20,
                           env=dict(os.environ, ASAN_OPTIONS='detect_leaks=0:abort_on_error=0', UBSAN_OPTIONS='print_stacktrace=1'))
    except subprocess.TimeoutExpired:
        return dict(status='hang', log='native call did not return within 20 s')
    out = dict(rc=p.returncode, stderr=p.stderr[-3000:], stdout=p.stdout[-6000:])
    if 'AddressSanitizer' in p.stderr or 'runtime error' in p.stderr:
        out['status'] = 'sanitizer'
    elif p.returncode < 0 or p.returncode > 2:
        out['status'] = 'crash'
    else:
        out['status'] = 'ran'
        try:
            m = re.search(r'\{.*\}', p.stdout, re.S)
            out['post'] = json.loads(re.sub(r',\s*\}', '}', m.group(0)))
        except Exception as e:
            out['status'] = 'unparsable'
    return out


def make_replay(prop, unit, failed, result):
    """Returns (replay_path, reproduced)."""
    import engine as E, sigs as S, oracles as O
    d = os.path.join(VERIF, 'replay', prop)
    os.makedirs(d, exist_ok=True)
    n = 0
    base = re.sub(r'[^\w.@-]', '_', unit.name)
    while os.path.exists(os.path.join(d, '%s-%d.json' % (base, n))):
        n += 1
    path = os.path.join(d, '%s-%d.json' % (base, n))
    rec = dict(property=prop, unit=unit.name, function=unit.replay_func, conf=unit.conf, repo=E.REPO, reproduced=False,
               failed_obligations=[{k: v for k, v in f.items() if k != 'trace'} for f in failed[:12]],
               verifier_output=[dict(obligation=f['obligation'], text=f['text'], trace_tail=trace_tail(f.get('trace'))) for f in failed[:2]])
    sig = S.SIGS.get(unit.replay_func)
    try:
        if sig is None:
            rec['replay'] = 'no replay signature registered for %s' % unit.replay_func
        else:
            sr = E.run_unit(unit, 'quick', snapshot=True)
            want = set(f['obligation'] for f in failed)
            cands = [f for f in sr.get('failed', []) if f['obligation'] in want and f.get('trace')] or \
                    [f for f in sr.get('failed', []) if f['cls'] in E.FUNCTION_LEVEL and f.get('trace')]
            verdicts = []
            for f in cands[:4]:
                snap = extract_snapshot(f['trace'])
                if not snap.get('taken'):
                    verdicts.append(dict(obligation=f['obligation'], note='counterexample does not reach the function entry'))
                    continue
                inp = snapshot_to_input(snap, sig, E.BN_SIZE[unit.conf], 0)
                src = driver_source(sig, inp, os.path.join(E.REPO, unit.sources[0]) if unit.sources else None)
                nat = run_native(src, unit.conf, E.REPO, E.scratch_root(), '%s-%d' % (base, len(verdicts)))
                v = dict(obligation=f['obligation'], input=inp, native=nat)
                if nat['status'] in ('sanitizer', 'crash', 'hang'):
                    v['reproduced'] = True
                    v['why'] = 'native run of the real function on the counterexample input: ' + nat['status']
                elif nat['status'] == 'ran':
                    ok, why = O.judge(sig['oracle'], inp, nat['post'])
                    v['reproduced'] = (ok is False)
                    v['why'] = why
                else:
                    v['reproduced'] = False
                    v['why'] = 'native replay ' + nat['status']
                v['driver_c'] = src
                verdicts.append(v)
                if v['reproduced']:
                    break
            rec['replays'] = verdicts
            rec['reproduced'] = any(v.get('reproduced') for v in verdicts)
    except Exception as e:
        rec['replay'] = 'replay machinery failed: %r' % e
    json.dump(rec, open(path, 'w'), indent=1)
    return path, rec['reproduced']


def trace_tail(tr, n=40):
    if not tr:
        return []
    out = []
    for s in tr:
        if s.get('stepType') == 'assignment' and not s.get('hidden') and s.get('lhs') and not str(s['lhs']).startswith('vc_snap'):
            v = s.get('value', {})
            out.append('%s = %s (%s:%s)' % (s['lhs'], v.get('data', v.get('name')), s.get('sourceLocation', {}).get('function'), s.get('sourceLocation', {}).get('line')))
    return out[-n:]


def run_replay_file(path):
    """bin/check --replay <file>: re-executes the recorded native replays against /repo's current tree.  exit 1 = still fails."""
    import engine as E, oracles as O, sigs as S
    rec = json.load(open(path))
    print('property %s unit %s function %s' % (rec['property'], rec['unit'], rec['function']))
    for f in rec['failed_obligations'][:6]:
        print('  failed obligation %s: %s' % (f['obligation'], f['text'][:160]))
    still = False
    for v in rec.get('replays', []):
        if 'driver_c' not in v:
            continue
        nat = run_native(v['driver_c'].replace(rec.get('repo', '/repo'), E.REPO), rec['conf'], E.REPO, E.scratch_root(), 'replay')
        if nat['status'] in ('sanitizer', 'crash', 'hang'):
            print('  native: %s\n%s' % (nat['status'], nat.get('stderr', '')[:1500]))
            still = True
        elif nat['status'] == 'ran':
            ok, why = O.judge(S.SIGS[rec['function']]['oracle'], v['input'], nat['post'])
            print('  native: input %s' % json.dumps(v['input'])[:600])
            print('  native: post  %s' % json.dumps(nat['post'])[:600])
            print('  oracle: %s' % why)
            still = still or (ok is False)
        else:
            print('  native replay: %s %s' % (nat['status'], nat.get('log', '')[:500]))
    if not rec.get('replays'):
        print('  no native replay recorded (%s); verifier output:' % rec.get('replay', 'no failing input found'))
        for o in rec.get('verifier_output', []):
            print('   ', o['obligation'], *o.get('trace_tail', [])[-12:], sep='\n      ')
    print('REPLAY %s' % ('reproduced: the real code violates the property on this input' if still else 'not reproduced on the current tree'))
    return 1 if still else 0
