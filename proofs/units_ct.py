"""C20: constant-time primitives - public-trace monitor over goto-instrument --branch events, loop contracts (all sizes)."""


def register(add):
    DV, UT = 'src/dv/relic_dv_util.c', 'src/relic_util.c'
    base = dict(headers=['ct_monitor.h'], conf='base', route='proof', loops=True, branch='ct_branch',
                expect=('postcondition', 'assigns'), pre='g_ct_on = 1;', arb_weave=True)
    add('dv_copy_sec', ['C20'], 'dv_copy_sec', sources=[DV], decls='dig_t *c; const dig_t *a; size_t n; dig_t bit;', call='dv_copy_sec(c, a, n, bit)', **base)
    add('dv_swap_sec', ['C20'], 'dv_swap_sec', sources=[DV], decls='dig_t *c, *a; size_t n; dig_t bit;', call='dv_swap_sec(c, a, n, bit)', **base)
    add('dv_cmp_sec', ['C20'], 'dv_cmp_sec', sources=[DV], decls='const dig_t *a, *b; size_t n;', call='dv_cmp_sec(a, b, n)', **base)
    add('util_cmp_sec', ['C20'], 'util_cmp_sec', sources=[UT], decls='const void *a, *b; size_t n;', call='util_cmp_sec(a, b, n)', **base)
    E = lambda f, s: '%s/%s_%s' % (f, f, s)
    add('ep_mul_monty', ['C20'], 'ep_mul_monty', sources=['src/ep/relic_ep_mul.c', 'src/bn/relic_bn_mem.c'], headers=['ct_ladder.h', 'ct_ladder_state.h'],
        conf='base', route='proof', loops=True, unwind=40, flags=['--object-bits', '10'], timeout=900,
        decls='ep_st *r, *p; bn_st *k;', call='ep_mul_monty(r, p, k)',
        replace=[E('dv_swap_sec', 'ev'), E('ep_norm', 'ev'), E('ep_dbl_projc', 'ev'), E('ep_add_projc', 'ev'), E('ep_blind', 'ev'), E('bn_get_bit', 'a'),
                 E('bn_is_zero', 'a'), E('ep_is_infty', 'a'), E('bn_bits', 'a'), E('ep_curve_get_ord', 'a'), E('bn_mod_basic', 'a'), E('bn_abs', 'a'), E('bn_add', 'a')],
        note='group-level event monitor; callees abstract and trusted to be constant-time as units; pre: k != 0, p != infinity',
        bound_note='all bit lengths 1..1024 of the group order: the ladder loop is closed by a loop contract')
    R = lambda f: '%s/%s_rg' % (f, f)
    ALLF = ['ep_mul_glv_imp', 'ep_mul_naf_imp', 'ep_mul_reg_glv', 'ep_mul_reg_imp', 'ep_mul_basic', 'ep_mul_slide', 'ep_mul_monty', 'ep_mul_lwnaf', 'ep_mul_lwreg', 'ep_mul_gen', 'ep_mul_dig']
    CAL = [R('ep_tab'), R('bn_rec_reg'), R('ep_dbl_projc'), R('ep_add_projc'), R('ep_sub'), R('ep_neg'), R('ep_norm'), R('fp_copy_sec'), R('ep_set_infty'), R('fp_set_dig'),
           R('bn_is_even'), R('bn_sign'), R('bn_bits'), R('ep_curve_get_ord'), R('bn_abs')]
    reg = dict(sources=['src/ep/relic_ep_mul.c', 'src/bn/relic_bn_mem.c'], headers=['ct_reg.h', 'ct_reg_state.h'], conf='base', route='proof', unwind=40,
               flags=['--object-bits', '10'], decls='ep_st *r, *p; bn_st *k;')
    # the loop contracts are applied to the ENFORCED function only: applied to a callee of the enforced function, goto-instrument 6.11 infers
    # loop assigns by inlining and needs > 17 GB (DESIGN P28); every other body of the file is removed for the same reason
    add('ep_mul_reg_imp', ['C20'], 'ep_mul_reg_imp', defines=['VC_REG_IMP'], loops=True, timeout=900, call='ep_mul_reg_imp(r, p, k)', replace=CAL,
        remove_bodies=[f for f in ALLF if f != 'ep_mul_reg_imp'],
        note='group-level event monitor; callees abstract and trusted to be constant-time as units',
        bound_note='all bit lengths 1..RLC_FP_BITS+1 of the group order: the digit loop and its two inner loops are closed by loop contracts', **reg)
    add('ep_mul_reg_glv', ['C20'], 'ep_mul_reg_glv', defines=['VC_REG_GLV'], loops=True, timeout=900, call='ep_mul_reg_glv(r, p, k)', preunwind=6, arb_n=3, **dict(reg, flags=['--object-bits', '11']),
        replace=CAL + [R('ep_psi'), R('dv_copy_sec'), R('bn_mod_basic'), R('bn_rec_glv'), R('ep_curve_get_v1'), R('ep_curve_get_v2')],
        remove_bodies=[f for f in ALLF if f != 'ep_mul_reg_glv'],
        note='group-level event monitor of the GLV form; callees abstract and trusted to be constant-time as units',
        bound_note='all bit lengths 1..RLC_FP_BITS+1 of the group order: the digit loop and its two inner loops are closed by loop contracts')
    add('ep_mul_lwreg', ['C20'], 'ep_mul_lwreg', timeout=600, call='ep_mul_lwreg(r, p, k)',
        replace=['ep_mul_reg_imp', 'ep_mul_reg_glv', R('bn_is_zero'), R('ep_is_infty'), R('ep_curve_is_endom'), R('ep_set_infty')],
        remove_bodies=[f for f in ALLF if f not in ('ep_mul_lwreg',)],
        note='public entry over the contracts of the two workers; pre: k != 0, p != infinity; the worker is chosen by the curve (public)', bound_note='loop-free', **reg)
    X = lambda f: '%s/%s_x' % (f, f)
    add('bn_mxp_monty', ['C20'], 'bn_mxp_monty', sources=['src/bn/relic_bn_mxp.c', 'src/bn/relic_bn_mem.c'], headers=['ct_mxp.h', 'ct_mxp_state.h'],
        conf='base', route='proof', loops=True, unwind=40, flags=['--object-bits', '10'], timeout=900,
        decls='bn_st *c, *a, *b, *m;', call='bn_mxp_monty(c, a, b, m)',
        replace=[X('dv_swap_sec'), X('bn_mul_comba'), X('bn_sqr_comba'), X('bn_mod_monty_comba'), X('bn_get_bit'), X('bn_cmp_dig'), X('bn_is_zero'), X('bn_sign'),
                 X('bn_bits'), X('bn_mod_pre_monty'), X('bn_set_dig'), X('bn_mod_monty_conv'), X('bn_mod_monty_back'), X('bn_copy'), X('bn_grow')],
        note='ring-level event monitor; callees abstract and trusted to be constant-time as units; pre: m != 1, b > 0',
        bound_note='all exponent bit lengths 1..4096: the ladder loop is closed by a loop contract')
    F = lambda f: '%s/%s_fx' % (f, f)
    add('fp_exp_monty', ['C20'], 'fp_exp_monty', sources=['src/fp/relic_fp_exp.c'], headers=['ct_fpexp.h', 'ct_fpexp_state.h'],
        conf='base', route='proof', loops=True, unwind=40, flags=['--object-bits', '10'], timeout=900,
        decls='dig_t *c, *a; bn_st *b;', call='fp_exp_monty(c, a, b)',
        replace=[F('dv_swap_sec'), F('fp_mul_integ'), F('fp_sqr_integ'), F('bn_get_bit'), F('bn_is_zero'), F('bn_sign'), F('bn_bits'), F('fp_set_dig'), F('fp_copy'), F('fp_inv')],
        remove_bodies=['fp_exp_basic', 'fp_exp_slide', 'fp_exp_dig'],
        note='field-level event monitor; callees abstract and trusted to be constant-time as units; pre: b > 0',
        bound_note='all exponent bit lengths 1..4096: the ladder loop is closed by a loop contract')
