"""C20: constant-time primitives - public-trace monitor over goto-instrument --branch events, loop contracts (all sizes)."""


def register(add):
    DV, UT = 'src/dv/relic_dv_util.c', 'src/relic_util.c'
    base = dict(headers=['ct_monitor.h'], conf='base', route='proof', loops=True, branch='ct_branch',
                expect=('postcondition', 'assigns'), pre='g_ct_on = 1;')
    add('dv_copy_sec', ['C20'], 'dv_copy_sec', sources=[DV], decls='dig_t *c; const dig_t *a; size_t n; dig_t bit;', call='dv_copy_sec(c, a, n, bit)', **base)
    add('dv_swap_sec', ['C20'], 'dv_swap_sec', sources=[DV], decls='dig_t *c, *a; size_t n; dig_t bit;', call='dv_swap_sec(c, a, n, bit)', **base)
    add('dv_cmp_sec', ['C20'], 'dv_cmp_sec', sources=[DV], decls='const dig_t *a, *b; size_t n;', call='dv_cmp_sec(a, b, n)', **base)
    add('util_cmp_sec', ['C20'], 'util_cmp_sec', sources=[UT], decls='const void *a, *b; size_t n;', call='util_cmp_sec(a, b, n)', **base)
