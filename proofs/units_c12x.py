"""C12, first sentence (validity predicates of the three pairing groups): guard + data-flow contracts over abstract callees."""

ABS = ('every callee is an ABSTRACT contract: each group element / scalar object carries a symbolic value in its first digit; an operation '
       '(ep/ep2 mul_basic, mul_dig, add, sub, dbl, neg, psi, frb, norm, copy; fp12 mul, sqr, inv_cyc, frb, copy; gt_exp; fpK_exp_cyc_sps; bn sqr, mul, add/sub/div/mul/mod_dig, hlv, neg) '
       'havocs its output object (exact frame) and sets its carrier to an UNINTERPRETED function of the operand carriers; tests (ep/ep2_is_infty, fp12_cmp_dig(.,1), ep/ep2_on_curve, '
       'fpK_test_cyc, ep/ep2/fp12_cmp, bn_is_even, bn_sign, bn_cmp_dig) return an uninterpreted verdict of the carriers and are recorded in ghost state with the integer identity of the object; '
       'parameter getters (fp_prime_get_par, fp_prime_get_par_sps, ep_curve_get_ord, ep_curve_get_cof, ep_curve_is_pairf) hand out symbolic constants; core_get()->ep_id is an arbitrary public input. '
       'ep_norm / copies are modelled as value-preserving. The functions of other embedding degrees reached through (void *) casts are modelled on the 12-degree object. '
       'Nothing about the arithmetic is assumed or claimed: result == (not identity) && on-curve/cyclotomic && EQ(L, R) over the symbolic terms of the branch taken (exact, both directions); '
       'K16 branches: guard form only (accept ==> not identity, on-curve/cyclotomic held on the argument, exactly one comparison, equal).')


import os


def register(add):
    G = lambda f: '%s/%s_c12' % (f, f)
    H = ['c12x_valid.h', 'c12x_valid_state.h']
    PAR = [G('ep_curve_is_pairf'), G('fp_prime_get_par'), G('ep_curve_get_ord'), G('ep_curve_get_cof'), G('fp_prime_get_par_sps')]
    BN = [G(f) for f in ('bn_sqr_comba', 'bn_mul_comba', 'bn_add_dig', 'bn_sub_dig', 'bn_div_dig', 'bn_mul_dig', 'bn_mod_dig', 'bn_hlv', 'bn_neg', 'bn_is_even', 'bn_sign', 'bn_cmp_dig')]
    E1 = [G(f) for f in ('ep_is_infty', 'ep_on_curve', 'ep_cmp', 'ep_mul_basic', 'ep_mul_dig', 'ep_add_projc', 'ep_sub', 'ep_dbl_projc', 'ep_neg', 'ep_psi', 'ep_norm', 'ep_copy')]
    E2 = [G(f) for f in ('ep2_is_infty', 'ep2_on_curve', 'ep2_cmp', 'ep2_mul_basic', 'ep2_add_projc', 'ep2_sub', 'ep2_dbl_projc', 'ep2_neg', 'ep2_frb', 'ep2_copy')]
    GT = [G(f) for f in ('fp12_cmp_dig', 'fp12_cmp', 'fp12_test_cyc', 'fp16_test_cyc', 'fp18_test_cyc', 'fp24_test_cyc', 'fp48_test_cyc', 'fp12_exp_cyc_sps', 'fp18_exp_cyc_sps',
                         'fp24_exp_cyc_sps', 'fp48_exp_cyc_sps', 'gt_exp', 'fp12_mul_lazyr', 'fp12_sqr_lazyr', 'fp12_inv_cyc', 'fp12_frb', 'fp12_copy')]
    common = dict(conf='base', route='proof', unwind=40, flags=['--object-bits', '12'], timeout=600, sources=['src/pc/relic_pc_util.c', 'src/bn/relic_bn_mem.c'], headers=H,
                  bound_note='loop-free after callee replacement (RLC_TRY macro loops unwound)')
    add('c12x.g1_is_valid', ['C12'], 'g1_is_valid', decls='ep_st *a;', call='g1_is_valid(a)', replace=PAR + BN + E1,
        defines=['VC_CTX_RAND'], note=ABS + ' NOT COVERED: the EP_K18 branch of g1_is_valid (NAF double-and-add loop of symbolic length): excluded by the precondition g12_fam != EP_K18.', **common)
    add('c12x.g2_is_valid', ['C12'], 'g2_is_valid', decls='ep2_st *a;', call='g2_is_valid(a)', replace=PAR + BN + E2, defines=['VC_CTX_RAND'], note=ABS, **common)
    CG = ['C12X_WITHOUT_B12_383_ORDER', 'C12X_WITHOUT_SG18_TEST', 'C12X_WITHOUT_DEFAULT_CYC']
    CGNOTE = (' LEFT OUT (demanded by the property, absent from the code): (1) B12_383: no order test at all, only the cyclotomic test ("GT-strong"); '
              '(2) EP_SG18: missing break, the family-specific test and the cyclotomic/unity verdicts are discarded and the generic order test decides; '
              '(3) generic branch: no cyclotomic-subgroup test (inversion by conjugation is applied to an unchecked element).')
    # Only f1 (EP_K16) is registered: the units of the other families (f2..f6, strict and .codeguards) end in cbmc 'Out of memory' while building the
    # error trace under the 10 GB limit (2^12 objects needed); they are kept behind C12X_ALL=1 for whoever can give them more memory.
    for sel, fams in ((1, 'EP_K16'), (2, 'EP_B12 EP_B24 EP_B48 EP_BN'), (3, 'every other family value (AFG16 FM16 K18 FM18 SG18, generic)'), (4, 'FM16 AFG16 FM18'), (5, 'K18'), (6, 'SG18 and every unlisted family value (generic branch)')):
        if sel != 1 and not os.environ.get('C12X_ALL'):
            continue
        kw = dict(common, mem_gb=10)
        add('c12x.gt_is_valid.f%d' % sel, ['C12'], 'gt_is_valid', decls='fp12_t *a;', call='gt_is_valid(*a)', replace=PAR + BN + GT,
            defines=['VC_CTX_RAND', 'C12X_FAMSEL=%d' % sel], note=ABS + ' Families of this unit: ' + fams + '.', **kw)
        if sel != 1:
            add('c12x.gt_is_valid.f%d.codeguards' % sel, ['C12'], 'gt_is_valid', decls='fp12_t *a;', call='gt_is_valid(*a)', replace=PAR + BN + GT,
                defines=['VC_CTX_RAND', 'C12X_FAMSEL=%d' % sel] + CG, note=ABS + ' Families of this unit: ' + fams + '.' + CGNOTE, **kw)
