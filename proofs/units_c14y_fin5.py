# C14: SHA-384/512 finalisation glue, SHA512Result/SHA384Result, SHA256FinalBits/SHA512FinalBits (mirror of sha256_finalize / sha256_result in units_c14x.py)
def register(add):
    S5 = ['src/md/sha384-512.c']
    S2 = ['src/md/sha224-256.c']
    H = ['c14y_fin5.h', 'c14y_fin5_state.h']
    V5 = 'SHA384_512Finalize abstract (view: records the call, the pad byte, the context object and the bit length it sees, marks the context computed, arbitrary chaining value)'
    V2 = 'SHA224_256Finalize abstract (view: records the call, the pad byte, the context object and the bit length it sees, marks the context computed, arbitrary chaining value)'
    add('sha512_finalize', ['C14'], 'SHA384_512Finalize', sources=S5, headers=H, defines=['VC_SHA5_STATICS'], conf='base', route='proof', unwind=130,
        decls='SHA512Context *c; uint8_t pad;', call='SHA384_512Finalize(c, pad)', replace=['SHA384_512PadMessage'], timeout=600,
        bound_note='wipe loop bounded by the 128-byte block; unwound completely',
        note='SHA384_512PadMessage replaced by its proved contract (unit sha512_pad): the compression function is abstract')
    for f, hs in (('SHA512Result', 64), ('SHA384Result', 48)):
        u = f.lower().replace('result', '_result')
        add(u, ['C14', 'C08'], f, sources=S5, headers=H, conf='base', route='proof', unwind=66,
            decls='SHA512Context *c; uint8_t *d;', call='%s(c, d)' % f, replace=['SHA384_512Finalize/SHA384_512Finalize_v'], timeout=600,
            bound_note='digest loop bounded by the %d-byte digest; unwound completely; both arguments non-NULL (NULL: unit %s_null)' % (hs, u),
            note=V5 + '; SHA384_512ResultN inlined')
        add(u + '_null', ['C14'], f, sources=S5, headers=H, defines=['VC_FIN5_NULLCASE'], conf='base', route='proof', unwind=66,
            decls='SHA512Context *c; uint8_t *d;', call='%s(c, d)' % f, replace=['SHA384_512Finalize/SHA384_512Finalize_v'], timeout=300,
            bound_note='loop-free on these paths; at least one of the two arguments is NULL', note=V5 + '; SHA384_512ResultN inlined')
    for u, f, T, src, rep, V in (('sha512_finalbits', 'SHA512FinalBits', 'SHA512Context', S5, 'SHA384_512Finalize/SHA384_512Finalize_v', V5),
                                 ('sha256_finalbits', 'SHA256FinalBits', 'SHA256Context', S2, 'SHA224_256Finalize/SHA224_256Finalize_w', V2)):
        add(u, ['C14'], f, sources=src, headers=H, conf='base', route='proof', unwind=16,
            decls='%s *c; uint8_t bits; unsigned n;' % T, call='%s(c, bits, n)' % f, replace=[rep], timeout=300,
            bound_note='loop-free; every unsigned bit count and every byte value; total length stays below the limit of the standard (no wrap of the bit counter); context non-NULL (NULL: unit %s_null)' % u,
            note=V)
        add(u + '_null', ['C14'], f, sources=src, headers=H, defines=['VC_FIN5_NULLCASE'], conf='base', route='proof', unwind=16,
            decls='%s *c; uint8_t bits; unsigned n;' % T, call='%s(c, bits, n)' % f, replace=[rep], timeout=300,
            bound_note='loop-free; context NULL, every bit count', note=V)
