"""Registry of verification units (DESIGN.md 3.1).  One unit = one function of /repo + its contract + a harness."""
from engine import Unit

TRUSTED_BASE = [
    'CBMC 6.11.0 / goto-cc / goto-instrument --dfcc and the built-in MiniSat back end are sound',
    'C semantics as modelled by CBMC for x86-64 gcc (LP64, two\'s complement, 128-bit __int128)',
    'weaver (proofs/weave.py): inserts annotation macros only; strip(woven)==original is asserted on every run',
    'core_get() returns the harness context object (substitution); setjmp returns 0 only; longjmp = exceptional exit (assume false)',
    'err_full_msg/err_simple_msg (stderr printing, backtrace) are no-ops',
    'the compiler that builds the shipped library (claims are source-level)',
]
ASSUMPTIONS = [
    'configuration verified: ARITH=easy WSIZE=64 ALLOC=AUTO CHECK=on BN_PRECI=1024 (RLC_BN_SIZE=34) FP_PRIME=256; '
    'ALLOC=DYNAMIC, MULTI, ARITH=gmp/asm back ends are not verified',
    'callers are verified against callee contracts, not bodies; each replaced callee is listed per unit and is itself a unit',
]

PROPERTY_META = {}

_units = []


def add(*a, **k):
    u = Unit(*a, **k)
    assert all(x.name != u.name for x in _units), u.name
    _units.append(u)
    return u


def all_units():
    if not _units:
        import units_bn_low
        units_bn_low.register(add)
        import units_bn_api
        units_bn_api.register(add)
        import units_conv
        units_conv.register(add)
        import units_rand
        units_rand.register(add)
        import units_ct
        units_ct.register(add)
        import units_err
        units_err.register(add)
        import units_fp
        units_fp.register(add)
    return list(_units)
