"""Registry of verification units (DESIGN.md 3.1).  One unit = one function of /repo + its contract + a harness."""
from engine import Unit

TRUSTED_BASE = [
    'CBMC 6.11.0 / goto-cc / goto-instrument --dfcc and the built-in MiniSat back end are sound',
    'C semantics as modelled by CBMC for x86-64 gcc (LP64, two\'s complement, 128-bit __int128)',
    'weaver (proofs/weave.py): inserts annotation macros only; strip(woven)==original is asserted on every run',
    'core_get() returns the harness context object (substitution); setjmp returns 0 only; longjmp = exceptional exit (assume false)',
    'err_full_msg/err_simple_msg (stderr printing, backtrace) are no-ops',
    'the compiler that builds the shipped library (claims are source-level)',
]
ASSUMPTIONS = [
    'configuration verified: ARITH=easy WSIZE=64 ALLOC=AUTO CHECK=on BN_PRECI=1024 (RLC_BN_SIZE=34) FP_PRIME=256; '
    'ALLOC=DYNAMIC, MULTI, ARITH=gmp/asm back ends are not verified',
    'callers are verified against callee contracts, not bodies; each replaced callee is listed per unit and is itself a unit',
]

NC_MUL = ('the digit product itself (RLC_MUL_DIG is abstracted by uninterpreted functions in the multiplication and squaring units: what is proved there is carry propagation, '
          'accumulation, doubling, column placement, lengths, signs, normalisation and frames of bn_mul1/mula_low, bn_mul_dig, bn_mul_basic, bn_sqrn_low, bn_sqr_comba and - up to 6 digits - bn_muln/muld_low, bn_mul_comba); '
          'the digit-level division kernels bn_divn_low (Knuth D) and bn_div1_low: ASSUMED contracts returning an abstract quotient/remainder pair - the division API units prove the floor fix-up, '
          'short cut, operands handed to the kernel, normal form, error reporting and aliasing AROUND them, not that Q*|b| + R == |a|; schoolbook squaring bn_sqr_basic/bn_sqra_low (multiplies in the C double-digit type), '
          'Karatsuba (bn_mul_karat, bn_sqr_karat), the other reductions (bn_mod_barrt/monty/pmers): not decidable by the installed back ends (DESIGN 2 P7, P21)')
PROPERTY_META = {
    'C01': dict(not_covered=NC_MUL + '; the 64-bit digit width for the API layer (verified at WSIZE=8, BN_PRECI=32: same sources, RLC_BN_SIZE=10; '
                'only the digit loops bn_addn/subn/lsh1_low are additionally proved for all lengths in the shipped configuration, and bn_addn/subn/lsh1_low, dv_zero value contracts at the shipped width in the thorough tier); GMP/asm back ends; ALLOC=DYNAMIC',
                assumptions=['RLC_MUL_DIG(H, L, A, B) computes the exact double-digit product A*B = H*2^W + L (multiplication units only; they use it through the one range fact PROD <= (B-1)^2, stated as an assumption inside the abstracted macro)',
                             'memcpy(p,p,n) leaves the bytes unchanged (bn_lsh/bn_rsh copy in place through dv_copy)',
                             'util_bits_dig on x86-64 is the lzcnt instruction behind a function pointer: its contract is enforced on the ARCH=none table implementation only']),
    'C02': dict(not_covered='multiplication beyond the row functions fp_mul1_low/fp_mula_low (digit product abstract), squaring, Montgomery/special reduction, the VALUES of inversion (only the zero-input guard of seven algorithms is covered; fp_inv_sim is not), '
                'exponentiation, roots, Legendre symbol, conversions (fp_prime_conv/back are abstract where used), fp_hlvd_low, fp_add_dig/fp_sub_dig, '
                'agreement between algorithm variants other than the BASIC/INTEG wrappers: number-theoretic identities modulo p outside the back ends (DESIGN 5 C02); other field sizes than the shipped 256 bits',
                assumptions=['fp_prime_get() is replaced by a contract returning a ghost modulus: odd, > 2, of the configured digit length - every such p, not only primes',
                             'RLC_MUL_DIG is the exact double-digit product (row units only)',
                             'memcpy(p,p,n) leaves the bytes unchanged (in-place shapes of fp_hlv_basic, fp_norm, fp_copy)']),
    'C05': dict(not_covered='completeness (signer/verifier agreement) and soundness of the verification equations: the arithmetic, pairings, hashes and - for cp_rsa_ver - the padding parser are ABSTRACT; what is claimed is the guard / data-flow logic of '
                'cp_ecdsa_ver, cp_ecss_ver, cp_bls_ver, cp_rsa_ver (three padding configurations), cp_bbs_ver, cp_zss_ver, cp_pss_ver and - without the validity clauses the code lacks (named in the units) - cp_cls_ver, cp_cli_ver, cp_clb_ver, cp_psb_ver; '
                'the PKCS#1 v1.5 parser pad_pkcs1 over byte-level model stubs up to 72-byte moduli; pad_pkcs2 (PSS), pad_basic, vBNN-IBS, PoK/SoK, ring and homomorphic signatures, every signer, agreement with an independent implementation: not covered'),
    'C06': dict(not_covered='everything but the last sentence of the property: that decryption inverts encryption, that key agreements agree, that sharing reconstructs and that the set-intersection / delegation protocols are correct is '
                'modular-exponentiation / pairing / interpolation algebra outside this technique. Of the last sentence ("invalid padding, wrong length or failed authentication are rejected"): cp_rsa_dec in the three padding configurations '
                '(padding checker, exponentiation and integer codecs ABSTRACT), the PKCS#1 v1.5 decryption parser pad_pkcs1 over byte-level model stubs (bounded, k <= 48 bytes), cp_ecies_dec (KDF, HMAC, comparison and AES-CBC ABSTRACT; '
                'AES-CBC padding rejection itself: units padDecrypt / bc_aes_cbc_dec of C14). Not covered: OAEP and basic padding parsers in decryption mode, Rabin, Benaloh, Paillier, IBE, BGN and the other schemes; '
                'observations: cp_ecies_dec does not validate the received point; plaintext written by a failed CBC decryption stays in the output buffer',
                assumptions=['bn_rsh, bn_mod_2b, bn_is_zero are byte-level model stubs in the pad_pkcs1 unit (corollaries of their value contracts, ASSUMED at the shipped width)']),
    'C07': dict(not_covered='text conversion (bn_read_str/bn_write_str: needs division); value round trips (decode(encode(x)) = x) of field elements and points: the conversion, decompression, membership and curve-equation ARITHMETIC is abstract - '
                'the decoder/encoder units prove lengths, tags, offsets, which object each validation was asked on, that it was asked after the last write and held, and that encoder and size function agree; '
                'fp3/fp4/fp8/... and ep3/ep4/ep8 codecs, ep_pck/ep_upk themselves; bn_write_bin is verified at 8-bit digits only (64-bit: time-out), bn_read_bin at both; '
                'point encoders accept len > advertised and zero-pad (observation, DESIGN 0.2)'),
    'C08': dict(not_covered='everything that is not a unit of C01/C02/C07/C09/C15 (curve, pairing, protocol and hash modules, simultaneous/batch functions, recodings other than '
                'bn_rec_win, md_xmd); of cp_ecies_dec only the length/guard logic before the MAC comparison; ALLOC=DYNAMIC allocation-failure points; pointer arithmetic that leaves the object without a dereference is not flagged'),
    'C09': dict(not_covered='every modular / number-theoretic function except bn_mod_2b and bn_mod_basic (the latter over the ASSUMED division kernel: range and sign of the residue, not Q*m + R == a) and every recoding except bn_rec_win '
                '(bn_rec_reg: frame/length/error behaviour only; bn_rec_slw/naf/tnaf/jsf/glv/sac/frb: the NAF recoding was tried again and exhausts the object table, DESIGN P36): '
                'their correctness rests on division/multiplication or was not reached'),
    'C12': dict(not_covered='the second sentence of the property (exponentiation = repeated operation) entirely; of the first sentence: every group operation, endomorphism, Frobenius, pairing-parameter getter and test is an ABSTRACT callee '
                '(uninterpreted value carriers + recorded verdicts) - what is proved for g1_is_valid and g2_is_valid is that the result is EXACTLY not-identity(A) && on-curve(A) && EQ(L, R) with L, R the terms of the branch taken '
                '(every family of the switch; K16 and G1-K18 in guard form / excluded), evaluated on the argument, identity rejected without any group operation, argument unchanged; that those terms characterise the order-r subgroup is not claimed. '
                'gt_is_valid: only the K16 branch is under contract (the other families, including the BN/B12 branch of the shipped curve, exhaust 12 GB while cbmc builds the canary trace); observations by code reading, no build to reproduce: '
                'B12_383 has no order test, SG18 falls through to the default branch, the generic branch has no cyclotomic test (DESIGN 0.2)',
                assumptions=['-DVC_CTX_RAND context model: core_get()->ep_id is read outside the error prefix of the context']),
    'C14': dict(not_covered='the compression / round functions (SHA-2 rounds, BLAKE2 G, AES rounds and key schedule: abstract in every unit - digest and cipher VALUES can only be compared with a second transcription of the standard, which is not a contract on one program); '
                'SHA256FinalBits, the SHA-384/512 finalisation twins, md_xmd_sh224/384/512 (same macro as the verified md_xmd_sh256), BLAKE2s buffering; HMAC, KDF/MGF, XMD and the CBC padding are verified over abstract primitives for BOUNDED lengths (stated per unit); '
                'observations not claimed as findings: bc_aes_cbc_enc/dec refuse the empty message, md_xmd computes ceil(len/32) in signed int before the range check (findings/c14x_repro_*.c)'),
    'C15': dict(not_covered='SHA-256 itself and hash_df values (the hash is abstract: uninterpreted for the generate path, frame-only for (re)seeding); '
                'the output block framing of rand_gen; termination of bn_rand_mod; agreement with the CAVS vectors is the test-suite\'s job',
                assumptions=['reseed counter < 2^31 - 600 (the int counter does not overflow)', 'bn_mod_basic: ASSUMED contract |result| < |modulus| (division not verified)']),
    'C19': dict(not_covered='nesting shapes other than the enforced ones (one and three nested blocks without throw, throw in the inner of two blocks with a swallowing resp. re-throwing handler); the second return of setjmp is a scripted model (harness/err_shapes.c), not CBMC semantics; '
                'per-thread contexts (MULTI build); re-parameterisation equals fresh initialisation'),
    'C20': dict(not_covered='ep2_mul_reg_imp, ep2_mul_monty, the ep3/ep4/ep8 forms, gt_exp_sec / bn_rec_sac (observed NOT regular, DESIGN 0.2), fb_exp_monty, fp_inv_divst/jmpds; the callees of every ladder are trusted constant-time as units; '
                'memory-address traces and what the compiler does to the source; goto-level branches only (a pure ?: or comparison expression counts as a select); ed_mul_monty: known finding (not regular)'),
}

_units = []


def add(*a, **k):
    u = Unit(*a, **k)
    assert all(x.name != u.name for x in _units), u.name
    _units.append(u)
    return u


def all_units():
    if not _units:
        import units_bn_low
        units_bn_low.register(add)
        import units_bn_api
        units_bn_api.register(add)
        import units_conv
        units_conv.register(add)
        import units_rand
        units_rand.register(add)
        import units_ct
        units_ct.register(add)
        import units_err
        units_err.register(add)
        import units_fp
        units_fp.register(add)
        import units_sha
        units_sha.register(add)
        import units_cp
        units_cp.register(add)
        import units_dec
        units_dec.register(add)
        import units_div
        units_div.register(add)
        import units_sqr
        units_sqr.register(add)
        import units_c07x
        units_c07x.register(add)
        import units_c02x
        units_c02x.register(add)
        import units_c05x
        units_c05x.register(add)
        import units_c20x
        units_c20x.register(add)
        import units_c14x
        units_c14x.register(add)
        import units_c15x
        units_c15x.register(add)
        import units_c07s
        units_c07s.register(add)
        import units_c12x
        units_c12x.register(add)
        import units_c06x
        units_c06x.register(add)
        import units_c14y
        units_c14y.register(add)
        # development aid: additional unit modules (comma separated) can be tried out before they are registered here
        import os, importlib
        for m in filter(None, os.environ.get('VERIF_EXTRA_UNITS', '').split(',')):
            importlib.import_module(m).register(add)
    return list(_units)
