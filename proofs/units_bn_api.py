"""C01: API-level bignum units (value contracts in wide bit-vectors)."""

BN_LOW = ['src/low/easy/relic_bn_add_low.c', 'src/low/easy/relic_bn_shift_low.c']
BN_CORE = ['src/bn/relic_bn_mem.c', 'src/bn/relic_bn_cmp.c', 'src/bn/relic_bn_util.c', 'src/dv/relic_dv_util.c', 'src/relic_util.c']
import os
CONF = os.environ.get('VERIF_BN_CONF', 'w8')
N = {'w8': 13, 'p128': 9, 'base': 37, 'p256': 13}[CONF]
# unwinding bound: RLC_BN_SIZE + 3 (vc_val runs RLC_BN_SIZE+2 times)

S3 = [('none', 'VC_S3_NONE'), ('ca', 'VC_S3_CA'), ('cb', 'VC_S3_CB'), ('ab', 'VC_S3_AB'), ('cab', 'VC_S3_CAB')]


def register(add):
    for f in ('bn_add', 'bn_sub'):
        for sh, mac in S3:
            add('%s.%s' % (f, sh), ['C01', 'C08'], f, sources=['src/bn/relic_bn_add.c'] + BN_CORE + BN_LOW,
                headers=['bn_low.h', 'bn_api.h'], replace=['dv_copy'], defines=['VC_SHAPE_%s=%s' % (f, mac)], decls='bn_st *c, *a, *b;', call='%s(c, a, b)' % f,
                route='bounded', unwind=N, conf=CONF, bound_note='all loops unwound to RLC_BN_SIZE+2=36 iterations with unwinding assertions: '
                'exhaustive for every operand length the AUTO-allocated bn_t can hold', timeout=300,
                note='callees inlined (bn_cmp_abs, dv_cmp, bn_addn/add1/subn/sub1_low, bn_grow, bn_trim, bn_copy)')

    LOWC = ['bn_addn_low', 'bn_add1_low', 'bn_subn_low', 'bn_sub1_low', 'dv_cmp', 'dv_copy']
    for sh, mac in S3:
        add('bn_add_imp.%s' % sh, ['C01', 'C08'], 'bn_add_imp', sources=['src/bn/relic_bn_add.c'],
            headers=['bn_low.h', 'bn_api.h'], defines=['VC_WITH_BN_ADD_STATICS', 'VC_SHAPE_bn_add_imp=%s' % mac],
            replace=['bn_addn_low', 'bn_add1_low', 'bn_grow', 'bn_trim', 'bn_copy'],
            decls='bn_st *c, *a, *b;', call='bn_add_imp(c, a, b)', route='proof', unwind=N, conf=CONF, timeout=150)
