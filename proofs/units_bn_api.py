"""C01: API-level bignum units.  Value contracts in wide bit-vectors; callees replaced by their contracts (modular)."""
NB = {'w8': 13, 'p128': 9, 'base': 37}   # unwinding bound >= RLC_BN_SIZE + 3 (vc_val runs RLC_BN_SIZE+2 times)

S3 = [('none', 'VC_S3_NONE'), ('ca', 'VC_S3_CA'), ('cb', 'VC_S3_CB'), ('ab', 'VC_S3_AB'), ('cab', 'VC_S3_CAB')]
S2 = [('none', 'VC_S2_NONE'), ('ca', 'VC_S2_CA')]
S1 = [('x', None)]
HDR = ['bn_low.h', 'bn_api.h']


def register(add):
    import os
    for conf in (('w8', 'p128') if os.environ.get('VERIF_TRY_P128') else ('w8',)):
        register_conf(add, conf)


def register_conf(add0, CONF):
    N = NB[CONF]
    BOUND = ('residual loops (bn_trim scan, value-spec loops) unwound RLC_BN_SIZE+3 times with unwinding assertions in configuration %s: '
             'complete for every operand length an AUTO-allocated bn_t of that configuration can hold' % CONF)

    def add(name, *a, **k):
        return add0(name + '@' + CONF, *a, **k)

    def api(f, src, decls, call, shapes, replace, props=('C01', 'C08'), defs=(), **kw):
        for sh, mac in shapes:
            d = list(defs) + (['VC_SHAPE_%s=%s' % (f, mac)] if mac else [])
            add('%s.%s' % (f, sh) if mac else f, list(props), f, sources=[src], headers=HDR, defines=d, decls=decls, call=call,
                replace=list(replace), route='proof', unwind=N, conf=CONF, timeout=kw.pop('timeout', 300),
                bound_note=BOUND, **kw)
    MEM, UTIL, CMP, ADDC, SHIFT = ('src/bn/relic_bn_mem.c', 'src/bn/relic_bn_util.c', 'src/bn/relic_bn_cmp.c',
                                   'src/bn/relic_bn_add.c', 'src/bn/relic_bn_shift.c')
    D3, D2 = 'bn_st *c, *a, *b;', 'bn_st *c, *a;'
    # memory / normal form
    api('bn_trim', MEM, 'bn_st *a;', 'bn_trim(a)', S1, [])
    api('bn_grow', MEM, 'bn_st *a; size_t d;', 'bn_grow(a, d)', S1, [])
    api('bn_copy', UTIL, D2, 'bn_copy(c, a)', S2, ['bn_grow', 'dv_copy', 'bn_trim'])
    api('bn_abs', UTIL, D2, 'bn_abs(c, a)', S2, ['bn_copy'])
    api('bn_neg', UTIL, D2, 'bn_neg(c, a)', S2, ['bn_copy', 'bn_is_zero'])
    api('bn_zero', UTIL, 'bn_st *a;', 'bn_zero(a)', S1, ['dv_zero'])
    api('bn_set_dig', UTIL, 'bn_st *a; dig_t d;', 'bn_set_dig(a, d)', S1, ['bn_zero'])
    api('bn_set_2b', UTIL, 'bn_st *a; size_t b;', 'bn_set_2b(a, b)', S1, ['bn_grow'])
    api('bn_sign', UTIL, 'bn_st *a;', 'bn_sign(a)', S1, [])
    api('bn_is_zero', UTIL, 'bn_st *a;', 'bn_is_zero(a)', S1, [])
    api('bn_is_even', UTIL, 'bn_st *a;', 'bn_is_even(a)', S1, ['bn_is_zero'])
    api('bn_bits', UTIL, 'bn_st *a;', 'bn_bits(a)', S1, ['bn_is_zero', 'util_bits_dig'])
    if CONF == 'w8':
        api('util_bits_dig', 'src/relic_util.c', 'dig_t a;', 'util_bits_dig(a)', S1, [], sources_extra=['src/arch/relic_arch_none.c'])
    api('bn_set_bit', UTIL, 'bn_st *a; uint_t bit; int v;', 'bn_set_bit(a, bit, v)', S1, ['bn_grow', 'bn_trim', 'dv_zero'])
    api('bn_get_bit', UTIL, 'bn_st *a; uint_t bit;', 'bn_get_bit(a, bit)', S1, ['bn_bits'])
    # comparison
    api('bn_cmp_abs', CMP, 'bn_st *a, *b;', 'bn_cmp_abs(a, b)', [('none', None), ], ['bn_is_zero', 'dv_cmp'])
    api('bn_cmp_dig', CMP, 'bn_st *a; dig_t b;', 'bn_cmp_dig(a, b)', S1, [])
    api('bn_cmp', CMP, 'bn_st *a, *b;', 'bn_cmp(a, b)', S1, ['bn_is_zero', 'bn_cmp_abs'])
    # addition / subtraction
    ST = ['VC_WITH_BN_ADD_STATICS']
    api('bn_add_imp', ADDC, D3, 'bn_add_imp(c, a, b)', S3, ['bn_addn_low', 'bn_add1_low', 'bn_grow', 'bn_trim', 'bn_copy'], defs=ST)
    api('bn_sub_imp', ADDC, D3, 'bn_sub_imp(c, a, b)', S3, ['bn_subn_low', 'bn_sub1_low', 'bn_grow', 'bn_trim', 'bn_copy'], defs=ST)
    api('bn_add', ADDC, D3, 'bn_add(c, a, b)', S3, ['bn_add_imp', 'bn_sub_imp', 'bn_cmp_abs'], defs=ST)
    api('bn_sub', ADDC, D3, 'bn_sub(c, a, b)', S3, ['bn_add_imp', 'bn_sub_imp', 'bn_cmp_abs'], defs=ST)
    api('bn_add_dig', ADDC, 'bn_st *c, *a; dig_t b;', 'bn_add_dig(c, a, b)', S2, ['bn_add1_low', 'bn_sub1_low', 'bn_grow', 'bn_trim'], defs=ST)
    api('bn_sub_dig', ADDC, 'bn_st *c, *a; dig_t b;', 'bn_sub_dig(c, a, b)', S2, ['bn_add1_low', 'bn_sub1_low', 'bn_grow', 'bn_trim'], defs=ST)
    # shifts
    api('bn_dbl', SHIFT, D2, 'bn_dbl(c, a)', S2, ['bn_grow', 'bn_lsh1_low'])
    api('bn_hlv', SHIFT, D2, 'bn_hlv(c, a)', S2, ['bn_copy', 'bn_rsh1_low', 'bn_trim'])
    api('bn_lsh', SHIFT, 'bn_st *c, *a; uint_t bits;', 'bn_lsh(c, a, bits)', S2, ['bn_grow', 'dv_lshd', 'dv_copy', 'bn_lshb_low', 'bn_trim'])
    api('bn_rsh', SHIFT, 'bn_st *c, *a; uint_t bits;', 'bn_rsh(c, a, bits)', S2, ['bn_grow', 'dv_rshd', 'dv_copy', 'bn_rshb_low', 'bn_trim'])

    api('bn_mod_2b', 'src/bn/relic_bn_mod.c', D2[:-1] + '; int b;', 'bn_mod_2b(c, a, b)', S2, ['bn_zero', 'bn_copy', 'bn_trim', 'bn_grow', 'dv_copy', 'dv_zero'], props=('C09', 'C08'))
    # multiplication with the digit product abstract (contracts/bn_mul.h)
    MULC = 'src/bn/relic_bn_mul.c'
    for sh, mac in S2:
        add('bn_mul_dig.%s' % sh, ['C01', 'C08'], 'bn_mul_dig', sources=[MULC], headers=['bn_mul.h'], defines=['VC_SHAPE_bn_mul_dig=' + mac],
            decls='bn_st *c, *a; dig_t b;', call='bn_mul_dig(c, a, b)', replace=['bn_grow', 'bn_mul1_low', 'bn_trim'], route='proof', unwind=N, conf=CONF, timeout=600,
            bound_note=BOUND, note='digit product uninterpreted (see bn_mul.h)')
    for sh, mac in [('none', 'VC_S3_NONE'), ('ca', 'VC_S3_CA'), ('cab', 'VC_S3_CAB')]:
        add('bn_mul_basic.%s' % sh, ['C01', 'C08'], 'bn_mul_basic', sources=[MULC, 'src/bn/relic_bn_mem.c'], headers=['bn_mul.h'], defines=['VC_SHAPE_bn_mul_basic=' + mac],
            decls='bn_st *c, *a, *b;', call='bn_mul_basic(c, a, b)', replace=['bn_mula_low', 'bn_trim', 'bn_copy', 'bn_zero'], route='proof', unwind=N, conf=CONF, timeout=900, flags=['--object-bits', '9'],
            bound_note=BOUND, note='digit product uninterpreted (see bn_mul.h)')
    for sh, mac in [('none', 'VC_S3_NONE'), ('ca', 'VC_S3_CA'), ('ab', 'VC_S3_AB')]:
        add('bn_mul_comba.%s' % sh, ['C01', 'C08'], 'bn_mul_comba', sources=[MULC, 'src/bn/relic_bn_mem.c'], headers=['bn_mul.h'], defines=['VC_SHAPE_bn_mul_comba=' + mac, 'VC_COMBA_MAX=6'],
            decls='bn_st *c, *a, *b;', call='bn_mul_comba(c, a, b)', replace=['bn_muln_low', 'bn_muld_low', 'bn_trim', 'bn_copy'], route='bounded', unwind=N, conf=CONF, timeout=900,
            flags=['--object-bits', '9'], bound_note='used(a) + used(b) <= 6 digits (the Comba kernels time out beyond); digit product uninterpreted', note='digit product uninterpreted (see bn_mul.h)')
