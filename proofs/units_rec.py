"""C09 / C08: further scalar recodings (bounded stand-ins, value-level)."""
import os


def register(add):
    REC, MEM, UTIL = 'src/bn/relic_bn_rec.c', 'src/bn/relic_bn_mem.c', 'src/bn/relic_bn_util.c'
    H = ['bn_low.h', 'bn_api.h', 'bn_conv.h']
    NB = os.environ.get('VERIF_NAF_BITS', '12')
    OTHERS = ['bn_rec_win', 'bn_rec_slw', 'bn_rec_tnaf', 'bn_rec_rtnaf', 'bn_rec_jsf', 'bn_rec_glv', 'bn_rec_sac', 'bn_rec_tnaf_get', 'bn_rec_tnaf_mod', 'bn_rec_frb', 'bn_rec_reg']
    add('bn_rec_naf@w8', ['C09', 'C08'], 'bn_rec_naf', sources=[REC, MEM, UTIL], headers=H, conf='w8', route='bounded', unwind=int(NB) + 4, timeout=900,
        defines=['VC_NAF_MAXBITS=' + NB], flags=['--object-bits', '12', '--sat-solver', 'cadical'],
        decls='bn_st *k; int8_t *naf; size_t *len; size_t w;', call='bn_rec_naf(naf, len, k, w)',
        replace=['bn_abs', 'bn_is_zero', 'bn_is_even', 'bn_add_dig', 'bn_sub_dig', 'bn_hlv', 'bn_bits'], remove_bodies=OTHERS,
        bound_note='|k| < 2^%s, every window width 2..8, every buffer length; loops unwound completely (configuration w8)' % NB,
        note='value-level: sum naf[j] 2^j == |k|, digit set, top digit non-zero; integer callees replaced by their proved value contracts')
