"""C05: verification procedures - accept implies every guard was evaluated on the right object and held (callees abstract)."""


def register(add):
    G = lambda f: '%s/%s_g' % (f, f)
    add('cp_ecdsa_ver', ['C05'], 'cp_ecdsa_ver', sources=['src/cp/relic_cp_ecdsa.c', 'src/bn/relic_bn_mem.c'], headers=['cp_ecdsa.h', 'cp_state.h'],
        conf='base', route='proof', unwind=40,
        decls='bn_st *r, *s; const uint8_t *msg; size_t len; int hash; ep_st *q;', call='cp_ecdsa_ver(r, s, msg, len, hash, q)',
        replace=[G('bn_sign'), G('bn_is_zero'), G('bn_cmp'), G('bn_bits'), G('ep_on_curve'), G('ep_is_infty'), G('ep_curve_get_ord'), G('bn_mod_inv'),
                 G('md_map_sh256'), G('bn_read_bin'), G('bn_rsh'), G('bn_mul_comba'), G('bn_mod_basic'), G('ep_mul_sim_gen'), G('fp_prime_back'), G('dv_cmp_sec')],
        timeout=600, flags=['--object-bits', '10'], note='every callee is an ABSTRACT contract (frame + recorded verdict); nothing about the arithmetic is assumed or claimed',
        bound_note='loop-free after callee replacement (macro loops of RLC_TRY unwound, unwinding assertions discharged)')
    add('cp_bls_ver', ['C05'], 'cp_bls_ver', sources=['src/cp/relic_cp_bls.c'], headers=['cp_bls.h', 'cp_bls_state.h'], conf='base', route='proof', unwind=40,
        decls='ep_st *s; const uint8_t *msg; size_t len; ep2_st *q;', call='cp_bls_ver(s, msg, len, q)', flags=['--object-bits', '10'], timeout=600,
        replace=[G('ep_map_sswum'), G('ep_copy'), G('ep2_copy'), G('ep2_curve_get_gen'), G('ep2_neg'), G('pp_map_sim_oatep_k12'), G('fp12_cmp_dig'), G('g2_is_valid'), G('ep2_on_curve'), G('ep2_is_infty'), G('ep_on_curve'), G('ep_is_infty')],
        note='every callee is an ABSTRACT contract (frame + recorded verdict)', bound_note='loop-free after callee replacement')
    add('cp_ecies_dec', ['C08'], 'cp_ecies_dec', sources=['src/cp/relic_cp_ecies.c', 'src/bn/relic_bn_mem.c', 'src/bn/relic_bn_util.c'], headers=['cp_ecies.h', 'cp_ecies_state.h'],
        conf='base', route='proof', unwind=70, flags=['--object-bits', '10'], timeout=900,
        decls='uint8_t *out; size_t *out_len; ep_st *r; const uint8_t *in; size_t in_len; bn_st *d;', call='cp_ecies_dec(out, out_len, r, in, in_len, d)',
        replace=[G('util_bits_dig'), G('ep_param_level'), G('ep_mul_lwnaf'), G('fp_prime_back'), G('md_kdf'), G('md_hmac'), G('util_cmp_sec'), G('bc_aes_cbc_dec')],
        note='callees abstract; bn_size_bin/bn_bits/bn_write_bin of the shared secret are the real code (inlined)',
        bound_note='byte loops of bn_write_bin bounded by the 33-byte coordinate buffer; unwound completely')
    add('cp_ecss_ver', ['C05'], 'cp_ecss_ver', sources=['src/cp/relic_cp_ecss.c', 'src/bn/relic_bn_mem.c'], headers=['cp_ecdsa.h', 'cp_state.h'], defines=['VC_WITH_ECSS'],
        conf='base', route='proof', unwind=80, flags=['--object-bits', '10'], timeout=600,
        decls='bn_st *e, *s; const uint8_t *msg; size_t len; ep_st *q;', call='cp_ecss_ver(e, s, msg, len, q)',
        replace=[G('bn_sign'), G('bn_is_zero'), G('bn_cmp'), G('bn_bits'), G('ep_on_curve'), G('ep_is_infty'), G('ep_curve_get_ord'),
                 G('md_map_sh256'), G('bn_read_bin'), G('bn_rsh'), G('bn_mod_basic'), G('ep_mul_sim_gen'), G('fp_prime_back'), G('dv_cmp_sec'), G('bn_write_bin')],
        note='every callee is an ABSTRACT contract (frame + recorded verdict)', bound_note='memcpy of the message (<= 72 bytes) unwound; otherwise loop-free')
