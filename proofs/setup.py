"""setup: generate the configuration headers with cmake (offline) and check the tools."""
import sys, os, subprocess
sys.path.insert(0, os.path.dirname(os.path.abspath(__file__)))
import engine as E
for t in ('cbmc', 'goto-cc', 'goto-instrument', 'cmake', 'gcc'):
    r = subprocess.run(['which', t], stdout=subprocess.PIPE)
    if r.returncode != 0:
        print('missing tool', t)
        sys.exit(1)
for c in ('base', 'w8', 'p128', 'p64'):
    print(c, E.conf_dir(c))
print('setup ok')
