"""C05 (continued): RSA signature verification - guard logic of cp_rsa_ver over abstract callees, for the three padding
configurations of the same source; padding parsers in units_c05x (c05x_rsa_pad.h)."""

ABSTRACT = ('ABSTRACT callees (exact frame, arbitrary verdict recorded in ghost state keyed by argument identity / buffer content): '
            'bn_bits, bn_size_bin (answer = ghost modulus length, only admitted on the modulus), bn_read_bin, bn_cmp, bn_mxp_slide, the padding checker %s '
            '(verdict arbitrary, *p_len = k_len - RLC_MD_LEN on RLC_OK; precondition: verification operation, standard encoded-message length), bn_write_bin (writes witness bytes), '
            'md_map_sh256 (witness digests), util_cmp_sec (verdict arbitrary, operands compared byte for byte with the witnesses). REAL code: cp_rsa_ver, bn_new/bn_free (relic_bn_mem.c), '
            'memset/memcpy/alloca (CBMC library models). Nothing about the exponentiation, the hash or the padding parser is claimed here. '
            'Preconditions: modulus length %d..2176 bits (below, the length guard `pad_len > size - RSA_PAD_LEN` wraps around: reported), sig_len <= 272 (longer: bn_read_bin throws), msg_len <= 72')


def register(add):
    import os
    G = lambda f: '%s/%s_g' % (f, f)
    common = dict(harness='c05x_rsa_ver.c', headers=['c05x_rsa.h', 'c05x_rsa_state.h'], conf='base', route='proof', unwind=82, weave=False,
                  flags=['--object-bits', '10'], timeout=600,
                  bound_note='loop-free after callee replacement except memset/memcpy over the message buffers (msg_len <= 72, unwound completely) and the 32-byte loops of the specification')
    NOCODE = ['C05X_NO_SIGLEN', 'C05X_NO_RANGE', 'C05X_NO_EMLEN', 'C05X_NO_HASHLEN']
    for tag, pd, padfn, minbits in (('pss', None, 'pad_pkcs2', 25), ('pkcs1', 'PKCS1', 'pad_pkcs1', 81), ('basic', 'BASIC', 'pad_basic', 25)):
        rep = [G('bn_bits'), G('bn_size_bin'), G('bn_read_bin'), G('bn_cmp'), G('bn_mxp_slide'), padfn + '/c05x_pad_g', G('bn_write_bin'), G('md_map_sh256'), G('util_cmp_sec')]
        d = (['C05X_RSAPD=' + pd] if pd else []) + ['C05X_RSA_MINBITS=%d' % minbits]
        cfg = 'shipped configuration (CP_RSAPD=PKCS2)' if not pd else 'same source with the cmake option CP_RSAPD=%s (re-selected by -DC05X_RSAPD; the macro is used in relic_cp_rsa.c only)' % pd
        add('cp_rsa_ver.' + tag, ['C05'], 'cp_rsa_ver', replace=rep, defines=d,
            note='STRICT contract from the property: ' + cfg + '. ' + ABSTRACT % (padfn, minbits), **common)
        if os.environ.get('C05X_ALL'):
          add('cp_rsa_ver.%s.codeguards' % tag, ['C05'], 'cp_rsa_ver', replace=rep, defines=d + NOCODE,
            note='as cp_rsa_ver.%s WITHOUT the clauses the code did not implement before the repairs (signature length = modulus length, representative < modulus, standard emLen, caller digest length = RLC_MD_LEN): ' % tag +
                 cfg + '. ' + ABSTRACT % (padfn, minbits), **common)

    # ---- padding parsers over a byte-level model of bn_rsh / bn_mod_2b / bn_is_zero ---------------------------------------
    PM = ('bn_rsh, bn_mod_2b, bn_is_zero are BYTE-LEVEL MODEL stubs (bodies in stubs/c05x_rsa_pad_state.h, preconditions as assertions) over a ghost byte string (little-endian bytes of |m|, |m| < 256^80): '
          'byte-granular corollaries of their value contracts proved in the C01/C09 units at 8-bit digits, ASSUMED here at the shipped width. '
          'REAL code: the parser, hash_id, bn_new/bn_free. ')
    pm = dict(harness='c05x_rsa_pad.c', headers=['c05x_rsa_pad.h', 'c05x_rsa_pad_state.h'], conf='base', route='bounded', unwind=84, weave=False,
              flags=['--object-bits', '10'], timeout=900,
              bound_note='k_len <= 72 (all loops of the parser unwound, unwinding assertions on), |m| < 256^80')
    for op, opn in ((4, 'ver'), (8, 'ver_hash')):
        what = ('EM = 00 01 FF^(k-54) 00 DigestInfo(SHA-256) H' if op == 4 else 'EM = 00 01 FF^(k-35) 00 H (RELIC variant without DigestInfo)')
        add('pad_pkcs1.%s' % opn, ['C05'], 'pad_pkcs1', defines=['C05X_RSAPD=PKCS1', 'C05X_PADFN=pad_pkcs1', 'C05X_OP=%d' % op],
            note='STRICT: RLC_OK <==> ' + what + ' with at least 8 padding bytes (RFC 8017 9.2), every byte compared; same source with CP_RSAPD=PKCS1. ' + PM, **pm)
        if os.environ.get('C05X_ALL'):
          add('pad_pkcs1.%s.codeguards' % opn, ['C05'], 'pad_pkcs1', defines=['C05X_RSAPD=PKCS1', 'C05X_PADFN=pad_pkcs1', 'C05X_OP=%d' % op, 'C05X_MINPS=7'],
            note='as pad_pkcs1.%s with the minimum padding length the code enforces (7, the standard says 8): ' % opn + what + '. ' + PM, **pm)
    # pad_basic (CP_RSAPD=BASIC) was tried with the same model (contract text kept in c05x_rsa_pad.h) and did not finish in 900 s: not registered.

    # ---- pairing / EC based verifiers (BBS, ZSS, CL, PS, vBNN): separate module, registered through this one ----------------
    import importlib, os
    if os.path.exists(os.path.join(os.path.dirname(os.path.abspath(__file__)), 'units_c05x_pair.py')):
        importlib.import_module('units_c05x_pair').register(add)
