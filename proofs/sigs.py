"""Replay signatures: how to snapshot a function's inputs inside the verifier run and how to call it natively.

sig(fn) = dict(ret=<ctype or None>, args=[(kind, name, ...)], oracle=<name in oracles.py>)
kinds:  ('bn', name)                 bn_t argument (pointer to bn_st)
        ('dv', name, lenexpr, cty)   digit vector of lenexpr digits (cty 'dig_t *' or 'const dig_t *')
        ('sc', name, ctype)          scalar passed by value
        ('po', name, ctype)          pointer to a scalar output
        ('by', name, lenexpr, cty)   byte buffer
From it are generated the VC_ENTRY_<f> ghost snapshot (woven at the function's entry in snapshot re-runs) and the native
replay driver (replay.py).
"""

SIGS = {}


def sig(fn, args, ret=None, oracle=None, headers=('relic.h', 'relic_bn_low.h')):
    SIGS[fn] = dict(fn=fn, args=args, ret=ret, oracle=oracle or fn, headers=list(headers))


def bn(n):
    return ('bn', n)


def dv(n, ln, const=True):
    return ('dv', n, ln, 'const dig_t *' if const else 'dig_t *')


def sc(n, t):
    return ('sc', n, t)


# ---- bignum API
for f in ('bn_add', 'bn_sub', 'bn_add_imp', 'bn_sub_imp'):
    sig(f, [bn('c'), bn('a'), bn('b')])
for f in ('bn_copy', 'bn_abs', 'bn_neg', 'bn_dbl', 'bn_hlv'):
    sig(f, [bn('c'), bn('a')])
for f in ('bn_add_dig', 'bn_sub_dig'):
    sig(f, [bn('c'), bn('a'), sc('b', 'dig_t')])
for f in ('bn_lsh', 'bn_rsh'):
    sig(f, [bn('c'), bn('a'), sc('bits', 'uint_t')])
for f in ('bn_trim', 'bn_zero'):
    sig(f, [bn('a')])
sig('bn_grow', [bn('a'), sc('digits', 'size_t')])
sig('bn_set_dig', [bn('a'), sc('digit', 'dig_t')])
sig('bn_set_2b', [bn('a'), sc('b', 'size_t')])
for f in ('bn_sign', 'bn_is_zero', 'bn_is_even'):
    sig(f, [bn('a')], ret='int')
sig('bn_bits', [bn('a')], ret='size_t')
sig('bn_get_bit', [bn('a'), sc('bit', 'uint_t')], ret='int')
sig('bn_cmp_dig', [bn('a'), sc('b', 'dig_t')], ret='int')
for f in ('bn_cmp', 'bn_cmp_abs'):
    sig(f, [bn('a'), bn('b')], ret='int')
sig('util_bits_dig', [sc('a', 'dig_t')], ret='size_t', headers=('relic.h',))

# ---- division (contracts/bn_div.h)
sig('bn_div_rem', [bn('c'), bn('d'), bn('a'), bn('b')])
sig('bn_div', [bn('c'), bn('a'), bn('b')])
sig('bn_mod_basic', [bn('c'), bn('a'), bn('m')])
sig('bn_div_dig', [bn('c'), bn('a'), sc('b', 'dig_t')])
sig('bn_div_rem_dig', [bn('c'), ('po', 'd', 'dig_t'), bn('a'), sc('b', 'dig_t')])

# ---- digit vectors
for f in ('bn_addn_low', 'bn_subn_low'):
    sig(f, [dv('c', 'size', False), dv('a', 'size'), dv('b', 'size'), sc('size', 'size_t')], ret='dig_t')
for f in ('bn_add1_low', 'bn_sub1_low'):
    sig(f, [dv('c', 'size', False), dv('a', 'size'), sc('digit', 'dig_t'), sc('size', 'size_t')], ret='dig_t')
for f in ('bn_lsh1_low', 'bn_rsh1_low'):
    sig(f, [dv('c', 'size', False), dv('a', 'size'), sc('size', 'size_t')], ret='dig_t')
for f in ('bn_lshb_low', 'bn_rshb_low'):
    sig(f, [dv('c', 'size', False), dv('a', 'size'), sc('size', 'size_t'), sc('bits', 'uint_t')], ret='dig_t')
sig('dv_lshd', [dv('c', 'size', False), dv('a', 'size - digits'), sc('size', 'size_t'), sc('digits', 'uint_t')])
sig('dv_rshd', [dv('c', 'size', False), dv('a', 'size'), sc('size', 'size_t'), sc('digits', 'uint_t')])
sig('dv_copy', [dv('c', 'digits', False), dv('a', 'digits'), sc('digits', 'size_t')])
sig('dv_zero', [dv('a', 'digits', False), sc('digits', 'size_t')])
sig('dv_cmp', [dv('a', 'size'), dv('b', 'size'), sc('size', 'size_t')], ret='int')


def entry_macro(fn):
    s = SIGS.get(fn)
    if not s:
        return None
    parts = []
    nb = nd = ns = ny = 0
    for a in s['args']:
        k = a[0]
        if k == 'bn':
            parts.append('VC_SNAP_BNARG(%d, %s)' % (nb, a[1]))
            nb += 1
        elif k == 'dv':
            parts.append('VC_SNAP_DVARG(%d, %s, %s)' % (nd, a[1], a[2]))
            nd += 1
        elif k == 'sc':
            parts.append('VC_SNAP_SCARG(%d, %s)' % (ns, a[1]))
            ns += 1
        elif k == 'by':
            parts.append('VC_SNAP_BYARG(%d, %s, %s)' % (ny, a[1], a[2]))
            ny += 1
        elif k == 'po':
            pass
    ptrs = [a[1] for a in s['args'] if a[0] in ('bn', 'dv')]
    k = 0
    for i in range(len(ptrs)):
        for j in range(i + 1, len(ptrs)):
            parts.append('VC_SNAP_ALIAS(%d, %s, %s)' % (k, ptrs[i], ptrs[j]))
            k += 1
    parts.append('VC_SNAP_DONE')
    return '#define VC_ENTRY_%s %s\n' % (fn, ' '.join(parts))


def entry_macros_header(u, snapshot=False):
    if not snapshot or not u.replay_func:
        return '/* no entry snapshot in this run */\n'
    m = entry_macro(u.replay_func)
    return m or '/* no replay signature for %s */\n' % u.replay_func
