"""Replay signatures: how to snapshot a function's inputs inside the verifier run and how to call it natively.

A signature is a list of argument descriptors.  From it are generated
  * the VC_ENTRY_<f> ghost snapshot (woven at the function's entry): copies the inputs into named ghost globals, so the
    counterexample trace of a failing obligation carries the complete input of the call;
  * the native replay driver (replay.py).
"""

SIGS = {}


def entry_macros_header(u):
    import replay
    return replay.entry_header(u)
