"""Property-level oracles in Python integers, written from the property statements (not from the contracts).

judge(name, inp, post) -> (ok, explanation)    ok is True / False / None (no oracle or not applicable)
inp: the call's arguments in the pre-state (replay.snapshot_to_input); post: the post-state printed by the native driver.
"""


def B(post):
    return 1 << post['dig_bits']


def bn_val(d, base):
    v = 0
    for i, x in enumerate(d['dp'][:d['used']]):
        v += x * base ** i
    return -v if d['sign'] == 1 else v


def dv_val(vals, base):
    return sum(x * base ** i for i, x in enumerate(vals))


def nf(d):
    if d['used'] < 1:
        return 'used < 1'
    if d['used'] > len(d['dp']) + 0 and False:
        return 'used beyond dp'
    top = d['dp'][d['used'] - 1] if d['used'] <= len(d['dp']) else None
    if d['used'] > 1 and top == 0:
        return 'leading zero digit'
    if d['used'] == 1 and d['dp'][0] == 0 and d['sign'] != 0:
        return 'negative zero'
    if d['sign'] not in (0, 1):
        return 'sign not in {RLC_POS, RLC_NEG}'
    return None


def args(inp):
    return {a['name']: a for a in inp['args']}


def err(post):
    return post['code'] == post['RLC_ERR'] or post.get('caught')


def cmp3(x, y):
    return -1 if x < y else (1 if x > y else 0)


def _bn_result(inp, post, out, expect, what):
    if err(post) and not inp.get('code'):
        return None, 'the call reported an error (admitted by the property when the result does not fit)'
    r = post[out]
    bad = nf(r)
    if bad:
        return False, '%s: result not normalised (%s): %s' % (what, bad, r)
    got = bn_val(r, B(post))
    if got != expect:
        return False, '%s: expected %d, real code returned %d' % (what, expect, got)
    return True, '%s: real code returned the exact normalised result %d' % (what, got)


def judge(name, inp, post):
    a = args(inp)
    base = B(post)
    try:
        f = ORACLES.get(name)
        if f is None:
            return None, 'no oracle for %s' % name
        r = f(a, inp, post, base)
        # inputs that are not aliased with an output must be unchanged
        return r
    except Exception as e:
        return None, 'oracle failed: %r' % e


def V(a, n, base):
    return bn_val(a[n], base)


def _fdiv(inp, post, A, Bv, outs, what):
    """floor division: q = floor(A / B), r = A - q B (Python's // is floor division on integers)"""
    if Bv == 0:
        return (True, '%s: division by zero reported' % what) if err(post) else (False, '%s: division by zero not reported' % what)
    if err(post) and not inp.get('code'):
        return None, 'the call reported an error'
    q, r = A // Bv, A - (A // Bv) * Bv
    for name, kind in outs:
        exp = q if kind == 'q' else r
        if name not in post:
            continue
        o = post[name]
        if isinstance(o, dict):
            bad = nf(o)
            if bad:
                return False, '%s: %s not normalised (%s): %s' % (what, name, bad, o)
            got = bn_val(o, B(post))
        else:
            got = o
        if got != exp:
            return False, '%s(%d, %d): expected %s = %d (floor division), real code returned %d' % (what, A, Bv, 'quotient' if kind == 'q' else 'remainder', exp, got)
    return True, '%s(%d, %d): real code returned the floor quotient/remainder (%d, %d)' % (what, A, Bv, q, r)


def _outs(a, pairs):
    # an output aliased with a later output argument is judged through the last writer only; NULL outputs are absent
    return [(n, k) for n, k in pairs if n in a]


ORACLES = {
    'bn_div_rem': lambda a, i, p, b: _fdiv(i, p, V(a, 'a', b), V(a, 'b', b), [('c', 'q'), ('d', 'r')], 'bn_div_rem'),
    'bn_div': lambda a, i, p, b: _fdiv(i, p, V(a, 'a', b), V(a, 'b', b), [('c', 'q')], 'bn_div'),
    'bn_mod_basic': lambda a, i, p, b: _fdiv(i, p, V(a, 'a', b), V(a, 'm', b), [('c', 'r')], 'bn_mod_basic'),
    'bn_div_dig': lambda a, i, p, b: _fdiv(i, p, V(a, 'a', b), a['b']['val'], [('c', 'q')], 'bn_div_dig'),
    'bn_div_rem_dig': lambda a, i, p, b: _fdiv(i, p, V(a, 'a', b), a['b']['val'], [('c', 'q'), ('d', 'r')], 'bn_div_rem_dig'),
    'bn_add': lambda a, i, p, b: _bn_result(i, p, 'c', V(a, 'a', b) + V(a, 'b', b), 'bn_add'),
    'bn_sub': lambda a, i, p, b: _bn_result(i, p, 'c', V(a, 'a', b) - V(a, 'b', b), 'bn_sub'),
    'bn_add_dig': lambda a, i, p, b: _bn_result(i, p, 'c', V(a, 'a', b) + a['b']['val'], 'bn_add_dig'),
    'bn_sub_dig': lambda a, i, p, b: _bn_result(i, p, 'c', V(a, 'a', b) - a['b']['val'], 'bn_sub_dig'),
    'bn_copy': lambda a, i, p, b: _bn_result(i, p, 'c', V(a, 'a', b), 'bn_copy'),
    'bn_abs': lambda a, i, p, b: _bn_result(i, p, 'c', abs(V(a, 'a', b)), 'bn_abs'),
    'bn_neg': lambda a, i, p, b: _bn_result(i, p, 'c', -V(a, 'a', b), 'bn_neg'),
    'bn_dbl': lambda a, i, p, b: _bn_result(i, p, 'c', 2 * V(a, 'a', b), 'bn_dbl'),
    'bn_hlv': lambda a, i, p, b: _bn_result(i, p, 'c', (abs(V(a, 'a', b)) >> 1) * (-1 if V(a, 'a', b) < 0 else 1), 'bn_hlv'),
    'bn_lsh': lambda a, i, p, b: _bn_result(i, p, 'c', V(a, 'a', b) << a['bits']['val'], 'bn_lsh'),
    'bn_rsh': lambda a, i, p, b: _bn_result(i, p, 'c', (abs(V(a, 'a', b)) >> a['bits']['val']) * (-1 if V(a, 'a', b) < 0 else 1), 'bn_rsh'),
    'bn_set_dig': lambda a, i, p, b: _bn_result(i, p, 'a', a['digit']['val'], 'bn_set_dig'),
    'bn_set_2b': lambda a, i, p, b: _bn_result(i, p, 'a', 1 << a['b']['val'], 'bn_set_2b'),
    'bn_zero': lambda a, i, p, b: _bn_result(i, p, 'a', 0, 'bn_zero'),
    'bn_trim': lambda a, i, p, b: _bn_result(i, p, 'a', dv_val(a['a']['dp'][:a['a']['used']], b) * (-1 if a['a']['sign'] == 1 else 1), 'bn_trim'),
    'bn_add_imp': lambda a, i, p, b: _mag(i, p, abs(V(a, 'a', b)) + abs(V(a, 'b', b)), 'bn_add_imp'),
    'bn_sub_imp': lambda a, i, p, b: _mag(i, p, abs(V(a, 'a', b)) - abs(V(a, 'b', b)), 'bn_sub_imp'),
    'bn_cmp': lambda a, i, p, b: _ret(p, cmp3(V(a, 'a', b), V(a, 'b', b)), 'bn_cmp'),
    'bn_cmp_abs': lambda a, i, p, b: _ret(p, cmp3(abs(V(a, 'a', b)), abs(V(a, 'b', b))), 'bn_cmp_abs'),
    'bn_cmp_dig': lambda a, i, p, b: _ret(p, cmp3(V(a, 'a', b), a['b']['val']), 'bn_cmp_dig'),
    'bn_sign': lambda a, i, p, b: _ret(p, a['a']['sign'], 'bn_sign'),
    'bn_is_zero': lambda a, i, p, b: _ret(p, int(V(a, 'a', b) == 0), 'bn_is_zero'),
    'bn_is_even': lambda a, i, p, b: _ret(p, int(V(a, 'a', b) % 2 == 0), 'bn_is_even'),
    'bn_bits': lambda a, i, p, b: _ret(p, abs(V(a, 'a', b)).bit_length(), 'bn_bits'),
    'bn_get_bit': lambda a, i, p, b: _ret(p, (abs(V(a, 'a', b)) >> a['bit']['val']) & 1, 'bn_get_bit'),
    'util_bits_dig': lambda a, i, p, b: _ret(p, a['a']['val'].bit_length(), 'util_bits_dig'),
    'bn_addn_low': lambda a, i, p, b: _dv(p, 'c', a, dv_val(a['a']['vals'], b) + dv_val(a['b']['vals'], b), b, 'bn_addn_low'),
    'bn_subn_low': lambda a, i, p, b: _dv(p, 'c', a, dv_val(a['a']['vals'], b) - dv_val(a['b']['vals'], b), b, 'bn_subn_low', borrow=True),
    'bn_add1_low': lambda a, i, p, b: _dv(p, 'c', a, dv_val(a['a']['vals'], b) + a['digit']['val'], b, 'bn_add1_low'),
    'bn_sub1_low': lambda a, i, p, b: _dv(p, 'c', a, dv_val(a['a']['vals'], b) - a['digit']['val'], b, 'bn_sub1_low', borrow=True),
    'bn_lsh1_low': lambda a, i, p, b: _dv(p, 'c', a, dv_val(a['a']['vals'], b) << 1, b, 'bn_lsh1_low'),
    'bn_lshb_low': lambda a, i, p, b: _dv(p, 'c', a, dv_val(a['a']['vals'], b) << a['bits']['val'], b, 'bn_lshb_low'),
    'bn_rsh1_low': lambda a, i, p, b: _dvr(p, a, 1, b, 'bn_rsh1_low'),
    'bn_rshb_low': lambda a, i, p, b: _dvr(p, a, a['bits']['val'], b, 'bn_rshb_low'),
    'dv_copy': lambda a, i, p, b: _dveq(p, 'c', dv_val(a['a']['vals'], b), a['digits']['val'], b, 'dv_copy'),
    'dv_zero': lambda a, i, p, b: _dveq(p, 'a', 0, a['digits']['val'], b, 'dv_zero'),
    'dv_lshd': lambda a, i, p, b: _dveq(p, 'c', dv_val(a['a']['vals'], b) << (p['dig_bits'] * a['digits']['val']), a['size']['val'], b, 'dv_lshd'),
    'dv_rshd': lambda a, i, p, b: _dveq(p, 'c', dv_val(a['a']['vals'], b) >> (p['dig_bits'] * a['digits']['val']), a['size']['val'], b, 'dv_rshd'),
    'dv_cmp': lambda a, i, p, b: _ret(p, cmp3(dv_val(a['a']['vals'], b), dv_val(a['b']['vals'], b)), 'dv_cmp'),
}


def _mag(inp, post, expect, what):
    if err(post) and not inp.get('code'):
        return None, 'error reported'
    r = post['c']
    if r['used'] < 1 or (r['used'] > 1 and r['dp'][r['used'] - 1] == 0):
        return False, '%s: result not normalised: %s' % (what, r)
    got = abs(bn_val(r, B(post)))
    return (got == expect), '%s: expected magnitude %d, real code returned %d' % (what, expect, got)


def _ret(post, expect, what):
    return (post['ret'] == expect), '%s: expected %d, real code returned %d' % (what, expect, post['ret'])


def _dv(post, out, a, expect, base, what, borrow=False):
    n = a['size']['val']
    got = dv_val(post[out][:n], base)
    r = post['ret']
    full = got - r * base ** n if borrow else got + r * base ** n
    return (full == expect), '%s: expected value %d (digits+carry), real code returned %d (ret=%d)' % (what, expect, full, r)


def _dvr(post, a, bits, base, what):
    n = a['size']['val']
    v = dv_val(a['a']['vals'], base)
    got = dv_val(post['c'][:n], base)
    ok = got == (v >> bits) and post['ret'] == (v & ((1 << bits) - 1))
    return ok, '%s: expected %d rem %d, real code returned %d rem %d' % (what, v >> bits, v & ((1 << bits) - 1), got, post['ret'])


def _dveq(post, out, expect, n, base, what):
    got = dv_val(post[out][:n], base)
    exp = expect % (base ** n) if n else 0
    return (got == exp), '%s: expected %d, real code returned %d' % (what, exp, got)
