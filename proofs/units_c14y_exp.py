def register(add):
    B2 = ['src/md/blake2.h', 'src/md/blake2-impl.h', 'src/md/blake2s-ref.c']
    BH = ['c14y_b2s.h', 'c14y_b2s_state.h']
    for tag, mm in (('m', ['VC_B2S_MEMCPY_MODEL']), ('n', [])):
        add('b2x.' + tag, ['C14'], 'blake2s_update', sources=B2, headers=BH, defines=['VC_B2S_CORE', 'VC_B2_MININ=70', 'VC_B2_MAXIN=70'] + mm, conf='base', route='bounded',
            unwind=8, unwindset=['memcpy.0:66'], timeout=200,
            decls='blake2s_state *S; const void *in; size_t n;', call='blake2s_update(S, in, n)', replace=['blake2s_compress'], bound_note='x', note='x')
