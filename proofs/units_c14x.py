"""C14 (second batch): RFC 9380 expand_message_xmd, AES-CBC/PKCS#7, SHA-2 finalisation glue, BLAKE2s buffering."""


def register(add):
    XW = 'md_xmd_sh256_wrapped_for_contract_checking'    # loop ids: 0-7 and 9-13 are the RLC_THROW macro loops, 8 the xor loop (32), 14 the block loop (13 and 15 are named too: one call site more or less shifts the ordinal)
    XR = ['SHA256Reset/SHA256Reset_x', 'SHA256Input/SHA256Input_x', 'SHA256Result/SHA256Result_x']
    add('md_xmd_sh256', ['C14', 'C08'], 'md_xmd_sh256', sources=['src/md/relic_md_xmd.c'], headers=['c14x_xmd.h', 'c14x_xmd_state.h'], conf='base', route='bounded',
        decls='uint8_t *buf; const uint8_t *in, *dst; int buf_len, in_len, dst_len;', call='md_xmd_sh256(buf, buf_len, in, in_len, dst, dst_len)',
        replace=XR, unwind=34, unwindset=[XW + '.13:5', XW + '.14:5', XW + '.15:5'], flags=['--object-bits', '10', '--sat-solver', 'cadical'], timeout=600,
        bound_note='requested length <= 96 bytes (ell <= 3, including truncated last blocks) or any rejected length (negative, > 255 blocks); message <= 1000 bytes; DST <= 300 bytes (valid range 0..255 complete); block loop unwound completely',
        note='streaming hash abstract (SHA256Reset/Input/Result replaced): records per hash computation the length and the byte at the ghost position, returns ghost digests and a nondeterministic verdict')

    AS = ['src/bc/rijndael-alg-fst.h', 'src/bc/rijndael-api-fst.h', 'src/bc/rijndael-api-fst.c']   # the headers are listed so that they sit next to the woven copy of the .c that includes them
    AH = ['c14x_aes.h', 'c14x_aes_state.h']
    AN = 'AES block function abstract (rijndaelEncrypt/rijndaelDecrypt replaced): records key schedule, round count, buffers and the 16 input bytes of each call, returns ghost blocks'
    # one unit per number of complete blocks (one unit over the whole range needs 190-370 s; the parts run in parallel)
    for tag, lo, hi, what in (('b0', None, 15, 'every int length <= 15 (<= 0: nothing to do; 1-15: one padded block)'),
                              ('b1', 16, 31, 'lengths 16-31 (one complete block + the padded one, a full block of padding at 16)'),
                              ('b2', 32, 47, 'lengths 32-47 (two complete blocks + the padded one, a full block of padding at 32)'),
                              ('b3', 48, 50, 'lengths 48-50 (three complete blocks + the padded one)')):
        add('padEncrypt.' + tag, ['C14', 'C08'], 'padEncrypt', sources=AS, headers=AH, conf='base', route='bounded', unwind=18, timeout=600,
            decls='cipherInstance *ci; keyInstance *ki; BYTE *in, *out; int n;', call='padEncrypt(ci, ki, in, n, out)',
            replace=['rijndaelEncrypt/rijndaelEncrypt_a'], flags=['--object-bits', '9'], unwindset=['padEncrypt_wrapped_for_contract_checking.1:4'],
            defines=['VC_AES_MAXIN=%d' % hi, 'VC_AES_OUTSZ=%d' % (16 * (hi // 16 + 1))] + (['VC_AES_MININ=%d' % lo] if lo is not None else []),
            bound_note='CBC mode; ' + what + '; output buffer of exactly the ciphertext length; loops unwound completely', note=AN)
    add('padDecrypt', ['C14', 'C08'], 'padDecrypt', sources=AS, headers=AH, conf='base', route='bounded', unwind=18, timeout=600,
        decls='cipherInstance *ci; keyInstance *ki; BYTE *in, *out; int n;', call='padDecrypt(ci, ki, in, n, out)',
        replace=['rijndaelDecrypt/rijndaelDecrypt_a'], flags=['--object-bits', '9', '--sat-solver', 'cadical'], unwindset=['padDecrypt_wrapped_for_contract_checking.2:4'],
        bound_note='CBC mode; every int length <= 50 bytes (1-3 blocks and every length in between, which is rejected); plaintext buffer of exactly len - 1 bytes; loops unwound completely', note=AN)

    BS = ['src/bc/rijndael-alg-fst.h', 'src/bc/rijndael-api-fst.h', 'src/bc/relic_bc_aes.c']
    BN = ('makeKey2, cipherInit and padEncrypt/padDecrypt abstract (views recording their arguments, returning nondeterministic verdicts); the views of padEncrypt/padDecrypt '
          'require the output room of the proved contracts (units padEncrypt, padDecrypt)')
    for f, cal in (('bc_aes_cbc_enc', 'padEncrypt/padEncrypt_v'), ('bc_aes_cbc_dec', 'padDecrypt/padDecrypt_v')):
        add(f, ['C14', 'C08'], f, sources=BS, headers=['c14x_bc.h', 'c14x_bc_state.h'], conf='base', route='proof', unwind=30, timeout=600,
            decls='uint8_t *out; size_t *out_len; const uint8_t *in, *key, *iv; size_t in_len, key_len;', call='%s(out, out_len, in, in_len, key, key_len, iv)' % f,
            replace=['makeKey2/makeKey2_v', 'cipherInit/cipherInit_v', cal], flags=['--object-bits', '9'],
            bound_note='loop-free (callees abstract); lengths: input <= 100 bytes, capacity <= 200 bytes, key <= 64 bytes', note=BN)

    add('md_map_sh256', ['C14', 'C08'], 'md_map_sh256', sources=['src/md/relic_md_sha256.c'], headers=['c14x_map.h', 'c14x_xmd_state.h'], conf='base', route='proof', unwind=12, timeout=300,
        decls='uint8_t *hash; const uint8_t *msg; size_t len;', call='md_map_sh256(hash, msg, len)', replace=XR,
        bound_note='loop-free; message lengths <= 100000 bytes', note='streaming hash abstract (SHA256Reset/Input/Result replaced, contracts of c14x_xmd.h)')

    SS = ['src/md/sha224-256.c']
    add('sha256_finalize', ['C14'], 'SHA224_256Finalize', sources=SS, headers=['c14x_fin.h', 'c14x_fin_state.h'], defines=['VC_SHA_STATICS'], conf='base', route='proof', unwind=66,
        decls='SHA256Context *c; uint8_t pad;', call='SHA224_256Finalize(c, pad)', replace=['SHA224_256PadMessage'], timeout=300,
        bound_note='wipe loop bounded by the 64-byte block; unwound completely', note='SHA224_256PadMessage replaced by its proved contract (unit sha256_pad): the compression function is abstract')
    add('sha256_result', ['C14', 'C08'], 'SHA256Result', sources=SS, headers=['c14x_fin.h', 'c14x_fin_state.h'], conf='base', route='proof', unwind=34,
        decls='SHA256Context *c; uint8_t *d;', call='SHA256Result(c, d)', replace=['SHA224_256Finalize/SHA224_256Finalize_v'], timeout=300,
        bound_note='digest loop bounded by the 32-byte digest; unwound completely', note='SHA224_256Finalize abstract (view: records the call and the pad byte, marks the context computed, arbitrary chaining value); SHA224_256ResultN inlined')
