"""C15: Hash_DRBG state machine (src/rand/relic_rand_hashd.c), shipped configuration."""


def register(add):
    SRC = 'src/rand/relic_rand_hashd.c'
    base = dict(sources=[SRC], headers=['rand.h'], conf='base', route='proof',
                bound_note='loops run over the constant state width (55/56/32/24 bytes) of the shipped configuration; unwound completely')
    for n in (24, 55, 56):
        add('rand_inc.%d' % n, ['C15'], 'rand_inc', defines=['VC_CTX_RAND', 'VC_RAND_STATICS', 'VC_RAND_N=%d' % n], decls='uint8_t *d; int x;',
            call='rand_inc(d, %d, x)' % n, unwind=60, flags=['--conversion-check'], **base)
    for n in (32, 55):
        add('rand_add.%d' % n, ['C15'], 'rand_add', defines=['VC_CTX_RAND', 'VC_RAND_STATICS', 'VC_RAND_N=%d' % n], decls='uint8_t *s, *h;',
            call='rand_add(s, h, %d)' % n, unwind=60, **base)
    add('rand_bytes', ['C15', 'C08'], 'rand_bytes', defines=['VC_CTX_RAND', 'VC_RAND_STATICS', 'VC_GEN_MAX=65536'], decls='uint8_t *buf; size_t n;',
        call='rand_bytes(buf, n)', replace=['rand_gen', 'md_map_sh256'], unwind=60, timeout=900, **base)
    add('bn_rand', ['C15', 'C08'], 'bn_rand', sources=['src/bn/relic_bn_util.c'], headers=['rand.h', 'bn_low.h', 'bn_api.h', 'bn_rand.h'],
        defines=['VC_CTX_RAND', 'VC_GEN_MAX=65536'], decls='bn_st *a; int sign; size_t bits;', call='bn_rand(a, sign, bits)',
        replace=['bn_grow', 'rand_bytes/rand_bytes_frame', 'bn_trim'], unwind=40, conf='base', route='proof', timeout=600,
        bound_note='loop-free after callee replacement; value-spec loops run RLC_BN_SIZE+2 times')

    add('bn_rand_mod', ['C15'], 'bn_rand_mod', sources=['src/bn/relic_bn_util.c', 'src/bn/relic_bn_mem.c'], headers=['rand.h', 'bn_low.h', 'bn_api.h', 'bn_rand.h'],
        defines=['VC_CTX_RAND', 'VC_GEN_MAX=65536'], decls='bn_st *a, *b;', call='bn_rand_mod(a, b)', loops=True,
        replace=['bn_copy', 'bn_rand/bn_rand_frame', 'bn_mod_basic/bn_mod_basic_abs', 'bn_sign', 'bn_bits', 'bn_is_zero', 'bn_cmp_abs', 'bn_trim', 'bn_grow'],
        unwind=40, conf='base', route='proof', timeout=900, flags=['--object-bits', '9'],
        note='bn_mod_basic is an ASSUMED contract (division not verified); bn_copy/bn_bits/bn_is_zero/bn_cmp_abs contracts are enforced at the 8-bit configuration',
        bound_note='rejection loop closed by a loop contract (no decreases clause: termination is probabilistic)')

    add('rand_seed', ['C15', 'C08'], 'rand_seed', defines=['VC_CTX_RAND', 'VC_RAND_STATICS'], decls='uint8_t *buf; size_t n;', call='rand_seed(buf, n)',
        replace=['md_map_sh256/md_map_sh256_frame'], unwind=60, timeout=900, flags=['--object-bits', '9'], sources_extra=['src/relic_util.c'],
        **dict(base, route='bounded', bound_note='seed length <= 40 bytes; hash_df loops unwound completely; hash abstract (frame only)'))
