"""C20 (extension): more of the regular / ladder algorithms under public-trace monitors (branch events and group-level events)."""


def register(add):
    REC = 'src/bn/relic_bn_rec.c'
    XR = lambda f: '%s/%s_xr' % (f, f)
    add('c20x.bn_rec_reg', ['C20'], 'bn_rec_reg', sources=[REC], headers=['c20x_rec.h', 'c20x_rec_state.h'], conf='base', route='proof', loops=True,
        branch='c20x_branch', unwind=40, flags=['--object-bits', '10'], timeout=600, expect=('postcondition', 'assigns'), pre='g_ct_on = 1;', arb_weave=True,
        decls='bn_st *k; int8_t *naf; size_t *len; size_t n, w;', call='bn_rec_reg(naf, len, k, n, w)',
        replace=[XR('memset'), XR('dv_zero'), XR('dv_copy'), XR('bn_rsh1_low'), XR('bn_rshb_low')],
        remove_bodies=['bn_rec_win', 'bn_rec_slw', 'bn_rec_naf', 'bn_rec_tnaf', 'bn_rec_rtnaf', 'bn_rec_jsf', 'bn_rec_glv', 'bn_rec_sac', 'bn_rec_tnaf_get', 'bn_rec_tnaf_mod', 'bn_rec_frb'],
        note='branch-trace monitor (goto-instrument --branch) + call monitor over the abstract callees memset, dv_zero, dv_copy, bn_rsh1_low, bn_rshb_low '
             '(frame + one event carrying the length arguments); public: n, w, *len and k->used (digit count of the scalar representation); '
             'pre: non-error path (*len > l, k->used <= d, i.e. k < 2^n)',
        bound_note='all n <= RLC_DIG*RLC_DV_DIGS-8 = 2168 (the scratch copy fits a temporary vector), every window width 2..8: both digit loops closed by loop contracts')
    # ---- Edwards curves -------------------------------------------------------------------------------------------------------------
    XE = lambda f: '%s/%s_xe' % (f, f)
    EDF = ['ed_mul_naf_imp', 'ed_mul_reg_imp', 'ed_mul_basic', 'ed_mul_slide', 'ed_mul_monty', 'ed_mul_lwnaf', 'ed_mul_lwreg', 'ed_mul_gen', 'ed_mul_dig']
    ed = dict(sources=['src/ed/relic_ed_mul.c', 'src/bn/relic_bn_mem.c'], headers=['c20x_ed.h', 'c20x_ed_state.h'], conf='base', route='proof', unwind=40,
              flags=['--object-bits', '10'], decls='ed_st *r, *p; bn_st *k;')
    EDCAL = [XE('ed_tab'), XE('bn_rec_reg'), XE('ed_dbl_projc'), XE('ed_add_projc'), XE('ed_sub_projc'), XE('ed_neg_projc'), XE('ed_norm'), XE('fp_copy_sec'),
             XE('ed_set_infty'), XE('bn_is_even'), XE('bn_sign'), XE('bn_abs')]
    add('c20x.ed_mul_reg_imp', ['C20'], 'ed_mul_reg_imp', loops=True, timeout=900, call='ed_mul_reg_imp(r, p, k)', replace=EDCAL,
        remove_bodies=[f for f in EDF if f != 'ed_mul_reg_imp'],
        note='group-level event monitor; callees abstract and trusted to be constant-time as units; no run-time public input: the recoding length is fixed by RLC_FP_BITS and RLC_WIDTH',
        bound_note='the digit loop (ceil(RLC_FP_BITS/(w-1))+1 digits) and its two inner loops are closed by loop contracts', **ed)
    add('c20x.ed_mul_lwreg', ['C20'], 'ed_mul_lwreg', timeout=600, call='ed_mul_lwreg(r, p, k)',
        replace=['ed_mul_reg_imp', XE('bn_is_zero'), XE('ed_is_infty'), XE('ed_set_infty')], remove_bodies=[f for f in EDF if f != 'ed_mul_lwreg'],
        note='public entry over the contract of the worker ed_mul_reg_imp; pre: k != 0, p != infinity', bound_note='loop-free', **ed)
    MCAL = [XE('dv_swap_sec'), XE('ed_add_projc'), XE('ed_dbl_projc'), XE('ed_norm'), XE('ed_neg_projc'), XE('ed_copy'), XE('ed_set_infty'), XE('bn_is_zero'), XE('ed_is_infty'),
            XE('bn_bits'), XE('bn_get_bit'), XE('bn_sign')]
    add('c20x.ed_mul_monty', ['C20'], 'ed_mul_monty', defines=['VC_ED_MONTY'], loops=True, timeout=900, call='ed_mul_monty(r, p, k)', replace=MCAL,
        remove_bodies=[f for f in EDF if f != 'ed_mul_monty'],
        note='group-level event monitor, STRICT: the only public input is the ladder length; the sign of the scalar is secret. pre: k != 0, p != infinity. '
             'NOTE the ladder length of this function is bn_bits(k), the bit length of the SCALAR, not of the group order (unlike ep_mul_monty)',
        bound_note='all ladder lengths 1..1024: the ladder loop is closed by a loop contract', **ed)
    add('c20x.ed_mul_monty.signpub', ['C20'], 'ed_mul_monty', defines=['VC_ED_MONTY', 'C20X_ED_SIGNPUB'], loops=True, timeout=900, call='ed_mul_monty(r, p, k)', replace=MCAL,
        remove_bodies=[f for f in EDF if f != 'ed_mul_monty'],
        note='as c20x.ed_mul_monty but the SIGN of the scalar is a second public input (one conditional negation after the ladder): what the code does, weaker than the property',
        bound_note='all ladder lengths 1..1024: the ladder loop is closed by a loop contract', **ed)
    # ---- binary curves: Lopez-Dahab ladder ------------------------------------------------------------------------------------------
    XB = lambda f: '%s/%s_xb' % (f, f)
    EBF = ['eb_mul_ltnaf_imp', 'eb_mul_lnaf_imp', 'eb_mul_rtnaf_imp', 'eb_mul_rnaf_imp', 'eb_mul_basic', 'eb_mul_lwnaf', 'eb_mul_rwnaf', 'eb_mul_halve', 'eb_mul_gen', 'eb_mul_dig']
    BCAL = [XB(f) for f in ('fb_sqr_quick', 'fb_mul_lodah', 'fb_add', 'fb_add_dig', 'fb_addn_low', 'fb_addd_low', 'fb_muln_low', 'fb_sqrl_low', 'fb_mul1_low', 'fb_rdcn_low', 'fb_rand',
                            'fb_inv_exgcd', 'fb_copy', 'fb_set_dig', 'fb_is_zero', 'dv_zero', 'dv_swap_sec', 'dv_copy_sec', 'eb_neg_projc', 'eb_set_infty', 'eb_curve_get_b', 'eb_curve_opt_b',
                            'eb_curve_get_ord', 'bn_bits', 'bn_abs', 'bn_add', 'bn_get_bit', 'bn_is_zero', 'bn_sign')]
    eb = dict(sources=['src/eb/relic_eb_mul.c', 'src/bn/relic_bn_mem.c'], headers=['c20x_eb.h', 'c20x_eb_state.h'], conf='base', route='proof', unwind=40, loops=True, timeout=900,
              flags=['--object-bits', '11'], decls='eb_st *r, *p; bn_st *k;', call='eb_mul_lodah(r, p, k)', replace=BCAL, remove_bodies=EBF,
              bound_note='all bit lengths 1..1024 of the group order: the ladder loop is closed by a loop contract')
    for nm, ob in (('zero', 'RLC_ZERO'), ('one', 'RLC_ONE'), ('tiny', 'RLC_TINY'), ('huge', 'RLC_HUGE')):
        add('c20x.eb_mul_lodah.%s' % nm, ['C20'], 'eb_mul_lodah', defines=['C20X_EB_OPTB=' + ob],
            note='field-level event monitor (x-only ladder), STRICT: the only public inputs are the bit length of the order and the curve coefficient shape %s; the bits AND the sign of the '
                 'scalar are secret (bn_sign abstract with an unconstrained verdict); the result is negated branch-free: one field addition and one masked copy dv_copy_sec of RLC_FB_DIGS '
                 'digits; callees abstract and trusted to be constant-time as units; pre: k != 0, result and successor finite (k not 0 or -1 mod the order)' % ob, **eb)
    # ---- G_2: ep2_mul_lwreg -> ep2_mul_reg_gls (the path of g2_mul_sec on the pairing-friendly curves) ------------------------------------
    X2 = lambda f: '%s/%s_x2' % (f, f)
    E2F = ['ep2_mul_gls_imp', 'ep2_mul_reg_gls', 'ep2_mul_naf_imp', 'ep2_mul_reg_imp', 'ep2_mul_basic', 'ep2_mul_slide', 'ep2_mul_monty', 'ep2_mul_lwnaf', 'ep2_mul_lwreg', 'ep2_mul_gen', 'ep2_mul_dig']
    e2 = dict(sources=['src/epx/relic_ep2_mul.c', 'src/bn/relic_bn_mem.c'], headers=['c20x_ep2.h', 'c20x_ep2_state.h'], conf='base', route='proof', unwind=40,
              flags=['--object-bits', '11'], decls='ep2_st *r, *p; bn_st *k;')
    E2CAL = [X2(f) for f in ('bn_rec_frb', 'bn_rec_sac', 'ep2_norm', 'ep2_norm_sim', 'ep2_frb', 'ep2_neg', 'ep2_copy', 'ep2_add_projc', 'ep2_dbl_projc', 'ep2_sub', 'fp2_copy_sec',
                             'fp2_set_dig', 'ep2_curve_get_ord', 'fp_prime_get_par', 'bn_mod_basic', 'bn_add_dig', 'bn_sign', 'bn_is_even', 'bn_bits', 'ep_curve_is_pairf', 'util_bits_dig')]
    add('c20x.ep2_mul_reg_gls', ['C20'], 'ep2_mul_reg_gls', loops=True, preunwind=10, timeout=900, call='ep2_mul_reg_gls(r, p, k)', replace=E2CAL,
        remove_bodies=[f for f in E2F if f != 'ep2_mul_reg_gls'],
        note='group-level event monitor; callees abstract and trusted to be constant-time as units; public: bits(order), bits(u). The recoding length is the one the CONTRACT of the abstract '
             'bn_rec_sac promises (a function of public data); the real bn_rec_sac does not keep it on BN curves (cof = 1) - reported as a finding, outside this unit',
        bound_note='all order lengths 1..RLC_FP_BITS+1: the column loop is closed by a loop contract; the constant-bound loops are unwound', **dict(e2, flags=['--object-bits', '12']))
    add('c20x.ep2_mul_lwreg', ['C20'], 'ep2_mul_lwreg', timeout=600, call='ep2_mul_lwreg(r, p, k)',
        replace=['ep2_mul_reg_gls', X2('bn_is_zero'), X2('ep2_is_infty'), X2('ep_curve_is_endom'), X2('ep2_set_infty')], remove_bodies=[f for f in E2F if f != 'ep2_mul_lwreg'],
        note='public entry (= g2_mul_sec) over the contract of the worker ep2_mul_reg_gls; pre: k != 0, p != infinity, curve with endomorphism (every curve of G_2 in the library)',
        bound_note='loop-free', **e2)
    # ---- bn_rec_sac: the recoding length must be public (EXPECTED TO FAIL on /repo for cof != 0: finding F-C) -----------------------------------
    XS = lambda f: '%s/%s_xs' % (f, f)
    add('c20x.bn_rec_sac.len', ['C20'], 'bn_rec_sac', sources=[REC], headers=['c20x_sac.h', 'c20x_sac_state.h'], conf='base', route='bounded', unwind=7,
        flags=['--object-bits', '11'], timeout=600, decls='int8_t *b; size_t *len; bn_t *k; bn_st *u; size_t c, m, n; int cof;', call='bn_rec_sac(b, len, k, u, c, m, n, cof)',
        replace=[XS(f) for f in ('bn_make', 'bn_copy', 'bn_hlv', 'bn_add_dig', 'bn_get_bit', 'bn_bits', 'memset')],
        remove_bodies=['bn_rec_win', 'bn_rec_slw', 'bn_rec_naf', 'bn_rec_tnaf', 'bn_rec_rtnaf', 'bn_rec_jsf', 'bn_rec_glv', 'bn_rec_reg', 'bn_rec_tnaf_get', 'bn_rec_tnaf_mod', 'bn_rec_frb'],
        note='the output length *len is a function of the public n, c, m, bits(u) only; the bit lengths and bits of the subscalars are secret (abstract bn_bits / bn_get_bit); '
             'callees abstract (frames); KNOWN TO FAIL for cof != 0 (bn_rec_sac takes the maximum with bits(k[i]) + 1): postcondition LEN only',
        bound_note='m = 2, c = 1, n <= 3, *len <= 5, loops unwound 7 times with unwinding assertions')
    add('c20x.bn_rec_sac.len.cof0', ['C20'], 'bn_rec_sac', sources=[REC], headers=['c20x_sac.h', 'c20x_sac_state.h'], defines=['C20X_SAC_COF0'], conf='base', route='bounded', unwind=7,
        flags=['--object-bits', '11'], timeout=600, decls='int8_t *b; size_t *len; bn_t *k; bn_st *u; size_t c, m, n; int cof;', call='bn_rec_sac(b, len, k, u, c, m, n, cof)',
        replace=[XS(f) for f in ('bn_make', 'bn_copy', 'bn_hlv', 'bn_add_dig', 'bn_get_bit', 'bn_bits', 'memset')],
        remove_bodies=['bn_rec_win', 'bn_rec_slw', 'bn_rec_naf', 'bn_rec_tnaf', 'bn_rec_rtnaf', 'bn_rec_jsf', 'bn_rec_glv', 'bn_rec_reg', 'bn_rec_tnaf_get', 'bn_rec_tnaf_mod', 'bn_rec_frb'],
        note='the output length *len is a function of the public n, c, m, bits(u) only; the bit lengths and bits of the subscalars are secret (abstract bn_bits / bn_get_bit); '
             'callees abstract (frames); this unit: cof == 0 only (curves with a cofactor), where the clause holds',
        bound_note='m = 2, c = 1, n <= 3, *len <= 5, loops unwound 7 times with unwinding assertions')
