"""C02: fixed-size prime-field layer with a symbolic modulus, shipped configuration (RLC_FP_DIGS = 4, 64-bit digits)."""

F3 = [('none', 'VC_F_NONE'), ('ca', 'VC_F_CA'), ('cb', 'VC_F_CB'), ('cab', 'VC_F_CAB')]
F2 = [('none', 'VC_F_NONE'), ('ca', 'VC_F_CA')]


def register(add):
    ADD, SH = 'src/low/easy/relic_fp_add_low.c', 'src/low/easy/relic_fp_shift_low.c'
    SRC = [ADD, SH, 'src/dv/relic_dv_util.c', 'src/fp/relic_fp_util.c']
    base = dict(headers=['fp_low.h'], conf='base', route='proof', unwind=18, replace=['fp_prime_get'], pre='',
                bound_note='all loops run RLC_FP_DIGS (=4) or 2*RLC_FP_DIGS times in the shipped configuration: unwound completely; modulus symbolic')

    def fp(f, src, decls, call, shapes, **kw):
        for sh, mac in shapes:
            add('%s.%s' % (f, sh), ['C02', 'C08'], f, sources=SRC, defines=['VC_FSHAPE=' + mac, 'VC_UNIT_FP'], decls=decls, call=call,
                timeout=kw.get('timeout', 600), ignore=kw.get('ignore', ()), **base)
    D3, D2 = 'dig_t *c; const dig_t *a, *b;', 'dig_t *c; const dig_t *a;'
    for f in ('fp_addn_low', 'fp_subn_low', 'fp_addm_low', 'fp_subm_low', 'fp_addd_low', 'fp_subd_low', 'fp_addc_low', 'fp_subc_low'):
        fp(f, ADD, D3, '%s(c, a, b)' % f, F3)
    for f in ('fp_dbln_low', 'fp_negm_low', 'fp_dblm_low'):
        fp(f, ADD, D2, '%s(c, a)' % f, F2)
    fp('fp_hlvm_low', ADD, D2, 'fp_hlvm_low(c, a)', F2, ignore=[('memcpy src/dst overlap', 'fp_hlvm_low(c, c) copies c onto itself with memcpy: formally overlapping, assumed to leave the bytes unchanged')])
    for f in ('fp_add1_low', 'fp_sub1_low'):
        fp(f, ADD, 'dig_t *c; const dig_t *a; dig_t d;', '%s(c, a, d)' % f, F2)
    for f in ('fp_lsh1_low', 'fp_rsh1_low'):
        fp(f, SH, D2, '%s(c, a)' % f, F2)
    for f in ('fp_lshb_low', 'fp_rshb_low'):
        fp(f, SH, 'dig_t *c; const dig_t *a; uint_t bits;', '%s(c, a, bits)' % f, F2)
