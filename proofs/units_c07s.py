"""C07 (last sentence) / C08: string conversion of integers - bn_size_str, bn_write_str, bn_read_str over abstract radix steps."""


def register(add):
    UTIL, MEM, RUTIL = 'src/bn/relic_bn_util.c', 'src/bn/relic_bn_mem.c', 'src/relic_util.c'
    H = ['bn_low.h', 'bn_api.h', 'c07s_str.h', 'c07s_str_state.h']
    ABS = ('ASSUMED abstract callees: the radix multiplication / single-digit division are contracts over uninterpreted functions '
           'MUL(v,b), DIVQ(v,b), DIVR(v,b) (deterministic; MUL <= v*2^8; DIVR < b; DIVQ <= v/2; exact for b = 2); every other integer callee is replaced by its '
           'proved value-level contract (contracts/bn_api.h); the character table util_conv_char is the real code of the WSIZE==8 branch '
           '(the 64-entry table of the other word sizes is not compiled in configuration w8)')
    common = dict(headers=H, conf='w8', route='bounded', timeout=600, flags=['--object-bits', '10'])
    RD = ['bn_zero', 'bn_grow', 'util_bits_dig', 'bn_mul_dig/bn_mul_dig_s', 'bn_add_dig', 'bn_trim']
    add('bn_read_str@w8', ['C07', 'C08'], 'bn_read_str', sources=[UTIL, RUTIL], decls='bn_st *a; const char *str; size_t len; uint_t radix;',
        call='bn_read_str(a, str, len, radix)', replace=RD, unwind=14, unwindset=['bn_read_str_wrapped_for_contract_checking.1:66', 'bn_read_str_wrapped_for_contract_checking.2:8'], defines=[],
        bound_note='strings of 0..6 bytes in an exact-size buffer, every radix, every byte value; loops unwound completely (table scan: 64)',
        note=ABS + '. Horner form over MUL in character order, sign, normal form (-0 = 0), invalid radix reported with zero output, no read beyond len. '
        'WEAKER THAN THE PROPERTY in one named point (observation, DESIGN 0.2): a character that is not a digit of the radix '
        'ends the conversion WITHOUT an error (value of the prefix, like strtol); the empty buffer (len = 0) is admitted and gives zero', **common)
    import os
    if os.environ.get('C07S_ALL'):
      add('bn_read_str.strict@w8', ['C07', 'C08'], 'bn_read_str', sources=[UTIL, RUTIL], decls='bn_st *a; const char *str; size_t len; uint_t radix;',
          call='bn_read_str(a, str, len, radix)', replace=RD, unwind=14, unwindset=['bn_read_str_wrapped_for_contract_checking.1:66', 'bn_read_str_wrapped_for_contract_checking.2:8'], defines=['C7S_STRICT'],
          bound_note='strings of 0..6 bytes in an exact-size buffer, every radix, every byte value; loops unwound completely (table scan: 64)',
          note=ABS + '. As bn_read_str@w8, and: a character that is not a digit of the radix is reported as an error; the empty buffer (len = 0) is admitted', **common)
    if os.environ.get('C07S_ALL'):
      add('bn_read_str.strict1@w8', ['C07', 'C08'], 'bn_read_str', sources=[UTIL, RUTIL], decls='bn_st *a; const char *str; size_t len; uint_t radix;',
          call='bn_read_str(a, str, len, radix)', replace=RD, unwind=14, unwindset=['bn_read_str_wrapped_for_contract_checking.1:66', 'bn_read_str_wrapped_for_contract_checking.2:8'],
          defines=['C7S_STRICT', 'C7S_MINLEN=1'],
          bound_note='strings of 1..6 bytes in an exact-size buffer, every radix, every byte value; loops unwound completely (table scan: 64)',
          note=ABS + '. The strict contract (invalid digit character => error) without the empty buffer: isolates the "invalid character accepted silently" finding from the len = 0 findings', **common)
    add('bn_size_str@w8', ['C07', 'C08'], 'bn_size_str', sources=[UTIL, MEM], decls='bn_st *a; uint_t radix;', call='bn_size_str(a, radix)',
        replace=['bn_is_zero', 'bn_bits', 'bn_copy', 'bn_div_dig/bn_div_dig_s', 'bn_grow', 'bn_trim'], unwind=14,
        bound_note='|a| < 2^5 (every chain of 1..5 abstract division steps, both signs, zero), every radix; loops unwound completely',
        note=ABS + '. Returned size = number of DIVQ steps until zero + sign + NUL (2 for zero; radix 2: bit length); invalid radix: error and 0; the dividend handed to every step is '
        'non-negative and the divisor is the radix', **common)
    add('bn_write_str@w8', ['C07', 'C08'], 'bn_write_str', sources=[UTIL, MEM, RUTIL], decls='bn_st *a; char *str; size_t len; uint_t radix;', call='bn_write_str(str, len, a, radix)',
        replace=['bn_size_str/bn_size_str_v', 'bn_is_zero', 'bn_copy', 'bn_div_rem_dig/bn_div_rem_dig_s', 'bn_grow', 'bn_trim'], unwind=14,
        bound_note='|a| < 2^5 (every chain of 1..5 abstract division steps, both signs, zero), every radix, exact-size buffers of 0..8 bytes; loops unwound completely',
        note=ABS + '. Character k from the right = table character of DIVR(DIVQ^k(|a|)), most significant first, "-" first, NUL, exactly bn_size_str bytes written, the rest of the buffer '
        'untouched; too small a buffer / invalid radix: error before any write', **common)
