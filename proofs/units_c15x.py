"""C15 (second batch): Hashgen output function (rand_gen), hash_df (rand_hash) and their composition into rand_bytes / rand_seed."""


def register(add):
    SRC = 'src/rand/relic_rand_hashd.c'
    P = ['C15', 'C08']
    GH = ['c15x_gen.h', 'c15x_gen_state.h']
    GW = 'rand_gen_wrapped_for_contract_checking'
    GN = ('md_map_sh256 abstract (view md_map_sh256_g: uninterpreted function of the VALUE of the 55-byte message, the function symbol of contracts/rand.h, '
          'calls counted in ghost g15_gc); rand_inc replaced by its proved contract (unit rand_inc.55)')
    # one unit per block count (a single unit with a symbolic block count exhausts the objects in the block loop)
    for nb in (1, 2, 3):
        lo = 0 if nb == 1 else 32 * (nb - 1) + 1
        add('c15x.rand_gen.b%d' % nb, P, 'rand_gen', contract='rand_gen_x', sources=[SRC], headers=GH, conf='base', route='bounded',
            defines=['VC_CTX_RAND', 'VC_RAND_STATICS', 'VC_RAND_N=55', 'VC_GEN_NB=%d' % nb], decls='uint8_t *out; size_t n;', call='rand_gen(out, n)',
            replace=['md_map_sh256/md_map_sh256_g', 'rand_inc'], unwind=60, unwindset=[GW + '.0:%d' % (nb + 1)], timeout=600,
            bound_note='one unit per block count: this one covers request lengths %d..%d bytes (%d hash block%s, last one truncated), output buffer of exactly the '
                       'requested length; block loop unwound completely; the three units together cover 0..96 bytes' % (lo, 32 * nb, nb, '' if nb == 1 else 's'),
            note=GN)

    DH = ['c15x_df.h', 'c15x_df_state.h']
    DW = 'rand_hash_wrapped_for_contract_checking'
    DN = ('md_map_sh256 abstract (view md_map_sh256_df: appends length, bytes 0..4 and the byte at the ghost position of its message to a ghost transcript, returns the '
          'ghost digest of that call); util_conv_big is the real code (src/relic_util.c)')
    DA = dict(sources=[SRC], sources_extra=['src/relic_util.c'], headers=DH, conf='base', route='bounded', decls='uint8_t *out, *in; size_t out_len, in_len;',
              call='rand_hash(out, out_len, in, in_len)', replace=['md_map_sh256/md_map_sh256_df'], unwind=40, timeout=600, flags=['--object-bits', '9'], note=DN)
    # the two calls rand_seed makes: 55 bytes from a string in another object (V) and from the 56 bytes in front of the output in the same object (C)
    add('c15x.rand_hash.v55', P, 'rand_hash', defines=['VC_CTX_RAND', 'VC_DF_NB=2', 'VC_DF_OUTLEN=55', 'VC_DF_SHAPE_SEP'], unwindset=[DW + '.0:3'],
        bound_note='output length 55 bytes (two hash blocks, the second cut at 23 bytes: the only length rand_seed requests), input string of 0..96 bytes in its own object; block loop unwound completely', **DA)
    # a longer input string (the entropy of a reseed can be long): same contract, input up to 192 bytes
    add('c15x.rand_hash.v55.long', P, 'rand_hash', defines=['VC_CTX_RAND', 'VC_DF_NB=2', 'VC_DF_OUTLEN=55', 'VC_DF_SHAPE_SEP', 'VC15_INMAX=192'], unwindset=[DW + '.0:3'],
        bound_note='output length 55 bytes, input string of 0..192 bytes in its own object; block loop unwound completely', **dict(DA, unwind=200, timeout=900))
    add('c15x.rand_hash.ctx', P, 'rand_hash', defines=['VC_CTX_RAND', 'VC_DF_NB=2', 'VC_DF_OUTLEN=55', 'VC_DF_SHAPE_CTX'], unwindset=[DW + '.0:3'],
        bound_note='output length 55 bytes, input string = the 56 bytes in front of the output in the same object (the call C = Hash_df(00 || V) of rand_seed); block loop unwound completely', **DA)
    # (general-length units rand_hash.b1-b3 with a symbolic-size output object were tried: 130 s alone at --object-bits 11, not reproducible in parallel runs: not registered)
    add('c15x.rand_seed.df', P, 'rand_seed', contract='rand_seed_df', sources=[SRC], sources_extra=['src/relic_util.c'], headers=DH, conf='base', route='bounded',
        defines=['VC_CTX_RAND', 'VC_DF_NB=2', 'VC_DF_OUTLEN=55'], decls='uint8_t *buf; size_t n;', call='rand_seed(buf, n)', replace=['md_map_sh256/md_map_sh256_df'], unwind=60, timeout=900,
        flags=['--object-bits', '9'],
        bound_note='seed length <= 40 bytes (0 = refused); hash_df block loops (2 blocks each) unwound completely',
        note='rand_hash is the real code (inlined; replacing it by its contract made the solver run out of memory: the replaced call havocs a slice of the 944 KB context object through a '
             'non-constant pointer); ' + DN + '; the postcondition is stated over the ghost transcript of the abstract hash')

    # composition: the public generate call returns Hashgen(V before the update)
    add('c15x.rand_bytes.gen', P, 'rand_bytes', contract='rand_bytes_x', sources=[SRC], headers=GH, conf='base', route='proof',
        defines=['VC_CTX_RAND', 'VC_RAND_STATICS', 'VC_GEN_MAX=65536'], decls='uint8_t *buf; size_t n;', call='rand_bytes(buf, n)',
        replace=['rand_gen/rand_gen_x', 'md_map_sh256/md_map_sh256_g'], unwind=60, timeout=900,
        bound_note='every request size 0..65536 and the refused sizes above; loops run over the constant state width (55/56/32/24 bytes), unwound completely',
        note='rand_gen replaced by the contract rand_gen_x, which the units c15x.rand_gen.b1-b3 prove for request sizes 0..96 bytes (1-3 blocks) only: for larger requests the output '
             'clause rests on that contract as an assumption; md_map_sh256 abstract (view md_map_sh256_g); rand_add / rand_inc are the real code (inlined)')
