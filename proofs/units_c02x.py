"""C02 (extension): inversion zero guards, API wrappers over the verified low level, multiplication structure, conversions/exp/srt guards.
Shipped configuration (256-bit field, RLC_FP_DIGS = 4, 64-bit digits), symbolic modulus (fp_prime_get -> ghost g_p)."""

F2 = [('none', 'VC_F_NONE'), ('ca', 'VC_F_CA')]
F3 = [('none', 'VC_F_NONE'), ('ca', 'VC_F_CA'), ('cb', 'VC_F_CB'), ('cab', 'VC_F_CAB')]


import os
# vacuity aid (brief, quality rule 4): C02X_PROBE=1 adds assertions that MUST FAIL on every path the contracts talk about
# (throw with handler, cut point, return on either verdict); never set in a registered run
PROBE = bool(os.environ.get('C02X_PROBE'))


def register(add0):
    def add(*a, **k):
        if PROBE:
            k['defines'] = list(k.get('defines', ())) + ['VC_X_PROBE']
            k['post'] = k.get('post', '') + ' VC_X_PROBE_POST;'
        return add0(*a, **k)
    reg_inv(add)
    reg_api(add)
    reg_mul(add)


def reg_inv(add):
    INV = 'src/fp/relic_fp_inv.c'
    H = ['c02x_inv.h', 'c02x_inv_state.h']
    D2 = 'dig_t *c; const dig_t *a;'
    PRE = 'g_sts.error = &g_x_err;'
    X = lambda f: '%s/%s_x' % (f, f)
    cut_note = ('ENTRY PART ONLY: fp_is_zero abstract (verdict recorded by argument identity); the first callee behind the guard (%s) is a CUT POINT '
                '(stub: asserts "verdict non-zero on the input, error state unchanged, output unwritten", then assume(0)) - the algorithm behind the guard is not covered; '
                'longjmp stub checks the exceptional postcondition (ERR_NO_VALID in the handler slot, code RLC_ERR, output untouched)')
    for f, cut in (('fp_inv_binar', 'bn_make'), ('fp_inv_monty', 'bn_make'), ('fp_inv_exgcd', 'bn_make'), ('fp_inv_divst', 'bn_make'), ('fp_inv_jmpds', 'fp_copy')):
        for sh, mac in F2:
            add('%s.guard.%s' % (f, sh), ['C02'], f, sources=[INV], headers=H, conf='base', route='proof', unwind=40,
                defines=['VC_FSHAPE=' + mac, 'VC_UNIT_FP', 'VC_CUSTOM_LONGJMP', 'VC_X_CUT'], decls=D2, pre=PRE, call='%s(c, a)' % f,
                replace=[X('fp_is_zero')], expect=('postcondition', 'assertion'), timeout=300,
                note=cut_note % cut, bound_note='loop-free up to the cut point (RLC_THROW/RLC_TRY macro loops unwound, unwinding assertions on)')
    for sh, mac in F2:
        add('fp_inv_basic.guard.%s' % sh, ['C02'], 'fp_inv_basic', sources=[INV], headers=H, conf='base', route='proof', unwind=40,
            defines=['VC_FSHAPE=' + mac, 'VC_UNIT_FP', 'VC_CUSTOM_LONGJMP'], decls=D2, pre=PRE, call='fp_inv_basic(c, a)',
            replace=[X('fp_is_zero'), X('bn_make'), X('dv_copy'), X('bn_sub_dig'), X('fp_exp_basic'), X('fp_exp_slide'), X('fp_exp_monty'), 'fp_prime_get'],
            expect=('postcondition', 'precondition', 'assertion'), timeout=300,
            note='whole function; callees abstract: fp_is_zero (verdict by argument identity), bn_make, dv_copy, bn_sub_dig, fp_exp_* (frame + call record, callable only behind a non-zero verdict), '
                 'fp_prime_get (ghost modulus); longjmp stub checks the exceptional postcondition', bound_note='loop-free after callee replacement')
        add('fp_inv_lower.guard.%s' % sh, ['C02'], 'fp_inv_lower', sources=[INV], headers=H, conf='base', route='proof', unwind=40,
            defines=['VC_FSHAPE=' + mac, 'VC_UNIT_FP', 'VC_CUSTOM_LONGJMP'], decls=D2, pre=PRE, call='fp_inv_lower(c, a)',
            replace=[X('fp_is_zero'), X('fp_invm_low')], expect=('postcondition', 'precondition', 'assertion'), timeout=300,
            note='whole function; callees abstract: fp_is_zero (verdict by argument identity), fp_invm_low (frame + call record, callable only behind a non-zero verdict); '
                 'longjmp stub checks the exceptional postcondition', bound_note='loop-free')


def reg_api(add):
    ADDC, DIV, CMP, UTIL, DVU = 'src/fp/relic_fp_add.c', 'src/fp/relic_fp_div.c', 'src/fp/relic_fp_cmp.c', 'src/fp/relic_fp_util.c', 'src/dv/relic_dv_util.c'
    H = ['c02x_api.h', 'c02x_api_state.h']
    MEMCPY = [('memcpy src/dst overlap', 'f(c, c) copies c onto itself with memcpy (dv_copy): formally overlapping, assumed to leave the bytes unchanged (same assumption as fp_hlvm_low(c, c) in units_fp.py)')]
    base = dict(headers=H, conf='base', route='proof', unwind=18, timeout=600,
                bound_note='all loops run RLC_FP_DIGS (=4) times in the shipped configuration: unwound completely; modulus symbolic')

    LOWS = ['src/low/easy/relic_fp_add_low.c', 'src/low/easy/relic_fp_shift_low.c', UTIL, DVU]    # real bodies of every low-level function a (changed) wrapper could call instead

    def fp(f, srcs, decls, call, shapes, replace, note, props=('C02', 'C08'), **kw):
        srcs = srcs + [s for s in LOWS if s not in srcs]
        replace = replace + [r for r in ['fp_prime_get'] if r not in replace]
        for sh, mac in shapes:
            add('%s.%s' % (f, sh) if len(shapes) > 1 or sh != 'none' else f, list(props), f, sources=srcs, defines=('VC_XSHAPE=' + mac).split(',') + ['VC_UNIT_FP'], decls=decls, call=call,
                replace=replace, note=note, ignore=kw.get('ignore', {}).get(sh, ()), expect=kw.get('expect', ('postcondition',)), **dict(base, **kw.get('over', {})))
    D3, D2 = 'dig_t *c; const dig_t *a, *b;', 'dig_t *c; const dig_t *a;'
    LOW = 'replaced by its proved value contract of contracts/fp_low.h (general alias disjunction)'
    PG = 'fp_prime_get -> ghost modulus'
    fp('fp_add_basic', [ADDC, DVU], D3, 'fp_add_basic(c, a, b)', F3, ['fp_addn_low', 'fp_subn_low', 'fp_prime_get'], 'fp_addn_low, fp_subn_low ' + LOW + '; dv_cmp inlined; ' + PG)
    fp('fp_add_integ', [ADDC], D3, 'fp_add_integ(c, a, b)', F3, ['fp_addm_low'], 'fp_addm_low ' + LOW)
    fp('fp_sub_basic', [ADDC], D3, 'fp_sub_basic(c, a, b)', F3, ['fp_subn_low', 'fp_addn_low', 'fp_prime_get'], 'fp_subn_low, fp_addn_low ' + LOW + '; ' + PG)
    fp('fp_sub_integ', [ADDC], D3, 'fp_sub_integ(c, a, b)', F3, ['fp_subm_low'], 'fp_subm_low ' + LOW)
    fp('fp_neg_basic', [ADDC, UTIL, DVU], D2, 'fp_neg_basic(c, a)', F2, ['fp_subn_low', 'fp_prime_get'], 'fp_subn_low ' + LOW + '; fp_is_zero, fp_zero, dv_zero inlined; ' + PG)
    fp('fp_neg_integ', [ADDC], D2, 'fp_neg_integ(c, a)', F2, ['fp_negm_low'], 'fp_negm_low ' + LOW)
    fp('fp_dbl_basic', [ADDC, DVU], D2, 'fp_dbl_basic(c, a)', F2, ['fp_lsh1_low', 'fp_subn_low', 'fp_prime_get'], 'fp_lsh1_low, fp_subn_low ' + LOW + '; dv_cmp inlined; ' + PG)
    fp('fp_dbl_integ', [ADDC], D2, 'fp_dbl_integ(c, a)', F2, ['fp_dblm_low'], 'fp_dblm_low ' + LOW)
    fp('fp_hlv_basic', [DIV, UTIL, DVU], D2, 'fp_hlv_basic(c, a)', F2, ['fp_addn_low', 'fp_rsh1_low', 'fp_prime_get'], 'fp_addn_low, fp_rsh1_low ' + LOW + '; fp_copy/dv_copy inlined; ' + PG,
       ignore={'ca': MEMCPY})
    fp('fp_hlv_integ', [DIV], D2, 'fp_hlv_integ(c, a)', F2, ['fp_hlvm_low'], 'fp_hlvm_low ' + LOW)
    N1 = [('none', 'VC_F_NONE')]
    fp('fp_is_zero', [UTIL], 'const dig_t *a;', 'fp_is_zero(a)', N1, ['fp_prime_get'], PG)
    fp('fp_norm', [UTIL, DVU], D2, 'fp_norm(c, a)', F2, ['fp_subn_low', 'fp_prime_get'], 'canonical input only; fp_subn_low ' + LOW + '; fp_copy, dv_copy, dv_cmp inlined; ' + PG, ignore={'ca': MEMCPY}, over=dict(unwindset=['fp_norm_wrapped_for_contract_checking.0:2']))
    fp('fp_cmp', [CMP], 'const dig_t *a, *b;', 'fp_cmp(a, b)', [('none', 'VC_F_GEN,VC_CSHAPE=VC_F_NONE'), ('ab', 'VC_F_GEN,VC_CSHAPE=VC_F_CAB')], ['fp_norm', 'fp_sub_integ', 'fp_sub_basic', 'fp_is_zero'],
       'fp_norm, fp_sub_* (the one selected by FP_ADD), fp_is_zero replaced by their value contracts (each enforced by a unit of this module)', props=('C02',))
    fp('fp_cmp_dig', [CMP], 'const dig_t *a; dig_t b;', 'fp_cmp_dig(a, b)', N1, ['fp_prime_conv_dig/fp_prime_conv_dig_x', 'fp_cmp'],
       'fp_prime_conv_dig ABSTRACT (frame, canonical result recorded as ghost value); fp_cmp replaced by its value contract (unit fp_cmp)', props=('C02',))
    fp('fp_set_dig', [UTIL], 'dig_t *c; dig_t a;', 'fp_set_dig(c, a)', N1, ['fp_prime_conv_dig/fp_prime_conv_dig_x'], 'fp_prime_conv_dig ABSTRACT (frame, canonical result recorded as ghost value)', props=('C02',))
    fp('fp_get_bit', [UTIL], 'const dig_t *a; uint_t bit;', 'fp_get_bit(a, bit)', N1, [], 'no callee')
    fp('fp_set_bit', [UTIL], 'dig_t *a; uint_t bit; int value;', 'fp_set_bit(a, bit, value)', N1, [], 'no callee')
    fp('fp_bits', [UTIL], 'const dig_t *a;', 'fp_bits(a)', N1, ['util_bits_dig/util_bits_dig_x'], 'util_bits_dig replaced by the contract of contracts/bn_api.h (x64: lzcnt through a function pointer)')
    fp('fp_copy', [UTIL, DVU], D2, 'fp_copy(c, a)', F2, [], 'dv_copy (memcpy of constant size) inlined', ignore={'ca': MEMCPY})
    fp('fp_zero', [UTIL, DVU], 'dig_t *a;', 'fp_zero(a)', N1, [], 'dv_zero inlined')
    fp('fp_is_even', [UTIL], 'const dig_t *a;', 'fp_is_even(a)', N1, ['bn_make/bn_make_y', 'fp_prime_back/fp_prime_back_x', 'bn_is_even/bn_is_even_x'],
       'bn_make, fp_prime_back, bn_is_even ABSTRACT (frame + call record by argument identity): call structure only', props=('C02',))


def reg_mul(add):
    MUL, SQR = 'src/low/easy/relic_fp_mul_low.c', 'src/low/easy/relic_fp_sqr_low.c'
    NOTE = ('digit product ABSTRACT: RLC_MUL_DIG -> uninterpreted mulhi/mullo with the range fact PROD <= (B-1)^2 assumed inside the macro (as contracts/bn_mul.h); '
            'the contract is the sum of the same terms; ASSUMED: mulhi:mullo is the exact product')
    base = dict(headers=['c02x_mul.h'], conf='base', route='proof', unwind=18, timeout=600, note=NOTE, flags=os.environ.get('C02X_MUL_FLAGS', '').split(),
                bound_note='RLC_FP_DIGS = 4: all loops unwound completely')
    D = 'dig_t *c; const dig_t *a; dig_t d;'
    for sh, mac in F2:
        add('fp_mul1_low.' + sh, ['C02', 'C08'], 'fp_mul1_low', sources=[MUL], defines=['VC_XSHAPE=' + mac, 'VC_UNIT_FP'], decls=D, call='fp_mul1_low(c, a, d)', **base)
    add('fp_mula_low', ['C02', 'C08'], 'fp_mula_low', sources=[MUL], defines=['VC_XSHAPE=VC_F_NONE', 'VC_UNIT_FP'], decls=D, call='fp_mula_low(c, a, d)', **base)
    if not os.environ.get('C02X_EXPERIMENTAL'):
        return
    # NOT REGISTERED by default: Comba 4x4 against the 576-bit sum of the 16 uninterpreted products did not finish in 600 s (minisat; cadical > 250 s),
    # Comba squaring needed 494 s on the shared machine - too close to the 600 s ceiling to be a stable unit.  Contracts kept in c02x_mul.h.
    for sh, mac in (('none', 'VC_F_NONE'), ('ab', 'VC_F_CAB')):
        add('fp_muln_low.' + sh, ['C02', 'C08'], 'fp_muln_low', sources=[MUL], defines=['VC_XSHAPE=' + mac, 'VC_UNIT_FP'], decls='dig_t *c; const dig_t *a, *b;', call='fp_muln_low(c, a, b)', **base)
    add('fp_sqrn_low', ['C02', 'C08'], 'fp_sqrn_low', sources=[SQR], defines=['VC_XSHAPE=VC_F_NONE', 'VC_UNIT_FP'], decls='dig_t *c; const dig_t *a;', call='fp_sqrn_low(c, a)', **base)
