"""C01: Comba squaring with the digit product abstract (contracts/bn_sqr.h); bounded like the Comba multiplication kernels."""
from units_bn_api import NB


SQMAX = __import__('os').environ.get('VERIF_SQR_MAX', '10')


def register(add):
    N = NB['w8']
    SQL, SQR, MEM = 'src/low/easy/relic_bn_sqr_low.c', 'src/bn/relic_bn_sqr.c', 'src/bn/relic_bn_mem.c'
    NOTE = 'RLC_MUL_DIG abstracted by uninterpreted mulhi/mullo with the range assumption PROD <= (B-1)^2'
    add('bn_sqrn_low.none@w8', ['C01', 'C08'], 'bn_sqrn_low', sources=[SQL], headers=['bn_sqr.h'], defines=['VC_LSHAPE=VC_L_NONE', 'VC_SQR_MAX=' + SQMAX, 'VC_FIXED_DIGBUF'],
         decls='dig_t *c; const dig_t *a; size_t n;', call='bn_sqrn_low(c, a, n)', route='bounded', unwind=N, conf='w8', timeout=600,
         remove_bodies=['bn_sqra_low'],
         bound_note='operand of at most RLC_BN_SIZE/2 = 5 digits (result 10 digits = the precision of configuration w8), loops unwound completely; digit product uninterpreted', note=NOTE)
    for sh, mac in [('none', 'VC_S2_NONE'), ('ca', 'VC_S2_CA')]:
        add('bn_sqr_comba.%s@w8' % sh, ['C01', 'C08'], 'bn_sqr_comba', sources=[SQR, MEM], headers=['bn_sqr.h'], defines=['VC_SHAPE_bn_sqr_comba=' + mac, 'VC_SQR_MAX=' + SQMAX],
            decls='bn_st *c, *a;', call='bn_sqr_comba(c, a)', replace=['bn_sqrn_low', 'bn_trim', 'bn_copy'], route='bounded', unwind=N, conf='w8', timeout=600, flags=['--object-bits', '9'],
            bound_note='used(a) <= RLC_BN_SIZE/2 = 5 digits: every operand whose square fits the precision of configuration w8; digit product uninterpreted', note=NOTE)
