"""C01 / C09: division API around ASSUMED digit-level division kernels (contracts/bn_div.h)."""
from units_bn_api import NB

DS = [('none', 'VC_DS_NONE'), ('ca', 'VC_DS_CA'), ('cb', 'VC_DS_CB'), ('da', 'VC_DS_DA'), ('db', 'VC_DS_DB'), ('ca_db', 'VC_DS_CA_DB'), ('cb_da', 'VC_DS_CB_DA'),
      ('cn', 'VC_DS_CN'), ('cn_da', 'VC_DS_CN_DA'), ('cn_db', 'VC_DS_CN_DB')]
S3 = [('none', 'VC_S3_NONE'), ('ca', 'VC_S3_CA'), ('cb', 'VC_S3_CB')]
S2 = [('none', 'VC_S2_NONE'), ('ca', 'VC_S2_CA')]


def register(add):
    CONF = 'w8'
    N = NB[CONF]
    DIV, MEM, MOD = 'src/bn/relic_bn_div.c', 'src/bn/relic_bn_mem.c', 'src/bn/relic_bn_mod.c'
    H = ['bn_div.h', 'bn_div_state.h']
    BOUND = ('residual loops (value-spec loops, RLC_TRY macro loops) unwound RLC_BN_SIZE+3 times with unwinding assertions in configuration w8: '
             'complete for every operand length an AUTO-allocated bn_t of that configuration can hold')
    NOTE = ('the digit-level division kernel (%s) is an ASSUMED contract returning an abstract quotient/remainder pair with R < |b|: '
            'proved is the floor fix-up, the short cut for |a| < |b|, what the kernel is asked, normal form, error reporting and the frame')
    CAL = ['bn_cmp_abs', 'bn_sign', 'bn_zero', 'bn_copy', 'bn_set_dig', 'bn_neg', 'bn_add', 'bn_abs', 'bn_trim', 'bn_is_zero', 'bn_sub_dig', 'bn_add_dig', 'bn_sub',
           'bn_divn_low/bn_divn_low_abs']
    common = dict(headers=H, route='proof', unwind=N, conf=CONF, timeout=900, bound_note=BOUND, flags=['--object-bits', '10'])
    for sh, mac in DS:
        add('bn_div_rem.%s@w8' % sh, ['C01', 'C08'], 'bn_div_rem', sources=[DIV, MEM], defines=['VC_SHAPE_bn_div_rem=' + mac],
            decls='bn_st *c, *d, *a, *b;', call='bn_div_rem(c, d, a, b)', replace=CAL, note=NOTE % 'bn_divn_low', **common)
    for sh, mac in S3:
        add('bn_div.%s@w8' % sh, ['C01', 'C08'], 'bn_div', sources=[DIV, MEM], defines=['VC_SHAPE_bn_div=' + mac],
            decls='bn_st *c, *a, *b;', call='bn_div(c, a, b)', replace=CAL, note=NOTE % 'bn_divn_low', **common)
    CAL1 = ['bn_is_zero', 'bn_copy', 'bn_sign', 'bn_sub_dig', 'bn_add_dig', 'bn_trim', 'bn_div1_low/bn_div1_low_abs']
    for sh, mac in S2:
        add('bn_div_dig.%s@w8' % sh, ['C01', 'C08'], 'bn_div_dig', sources=[DIV, MEM], defines=['VC_SHAPE_bn_div_dig=' + mac],
            decls='bn_st *c, *a; dig_t b;', call='bn_div_dig(c, a, b)', replace=CAL1, note=NOTE % 'bn_div1_low', **common)
    for sh, mac in S2 + [('cn', 'VC_S2_GEN')]:
        add('bn_div_rem_dig.%s@w8' % sh, ['C01', 'C08'], 'bn_div_rem_dig', sources=[DIV, MEM], defines=['VC_SHAPE_bn_div_rem_dig=' + mac] + (['VC_D1_CNULL'] if sh == 'cn' else []),
            decls='bn_st *c, *a; dig_t *d; dig_t b;', call='bn_div_rem_dig(c, d, a, b)', pre='c = NULL;' if sh == 'cn' else '', replace=CAL1, note=NOTE % 'bn_div1_low', **common)
    for sh, mac in S3:
        add('bn_mod_basic.%s@w8' % sh, ['C09', 'C08'], 'bn_mod_basic', sources=[MOD], headers=H, defines=['VC_SHAPE_bn_mod_basic=' + mac], route='proof', unwind=N, conf=CONF, timeout=600,
            decls='bn_st *c, *a, *m;', call='bn_mod_basic(c, a, m)', replace=['bn_div_rem/bn_div_rem_cn'], bound_note='loop-free', note='over the c == NULL view of the contract of bn_div_rem (units bn_div_rem.cn*)')
