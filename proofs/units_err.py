"""C19: error macros and sticky code (jump-free half)."""


def register(add):
    base = dict(harness='err_shapes.c', sources=['src/relic_err.c'], conf='base', route='proof', unwind=4,
                bound_note='macro loops of RLC_TRY run at most 2 iterations; unwinding assertions discharged')
    add('err_get_code', ['C19'], 'err_get_code', **base)
    add('throw_outside', ['C19'], 'vc_throw_outside', **base)
    add('try1', ['C19'], 'vc_try1', **base)
    add('try3', ['C19'], 'vc_try3', **base)
    add('try2_throw', ['C19'], 'vc_try2_throw', expect=('assertion',), **base)
    add('try2_swallow', ['C19'], 'vc_try2_swallow', **base)
    add('try2_rethrow', ['C19'], 'vc_try2_rethrow', expect=('assertion',), **base)
