"""C14: SHA-224/256 buffering, length accounting and padding around an abstract compression function."""


def register(add):
    SRC = 'src/md/sha224-256.c'
    base = dict(sources=[SRC], headers=['sha_pad.h', 'sha_state.h'], conf='base', route='proof', defines=['VC_SHA_STATICS'])
    add('sha256_pad', ['C14'], 'SHA224_256PadMessage', decls='SHA256Context *c; uint8_t pad;', call='SHA224_256PadMessage(c, pad)',
        replace=['SHA224_256ProcessMessageBlock'], unwind=66,
        bound_note='padding loops bounded by the 64-byte block; unwound completely', **base)
    add('sha256_input', ['C14'], 'SHA256Input', decls='SHA256Context *c; const uint8_t *m; unsigned n;', call='SHA256Input(c, m, n)',
        replace=['SHA224_256ProcessMessageBlock'], loops=True, timeout=300, arb_n=8,
        bound_note='all message lengths up to 100000 bytes: the byte loop is closed by a loop contract', **base)
    b5 = dict(sources=['src/md/sha384-512.c'], headers=['sha512_pad.h', 'sha_state.h'], conf='base', route='proof', defines=['VC_SHA5_STATICS'])
    add('sha512_pad', ['C14'], 'SHA384_512PadMessage', decls='SHA512Context *c; uint8_t pad;', call='SHA384_512PadMessage(c, pad)',
        replace=['SHA384_512ProcessMessageBlock'], unwind=130, bound_note='padding loops bounded by the 128-byte block; unwound completely', **b5)
    add('sha512_input', ['C14'], 'SHA512Input', decls='SHA512Context *c; const uint8_t *m; unsigned n;', call='SHA512Input(c, m, n)',
        replace=['SHA384_512ProcessMessageBlock'], loops=True, timeout=300, arb_n=8,
        bound_note='all message lengths up to 100000 bytes: the byte loop is closed by a loop contract', **b5)
