"""C14: SHA-224/256 buffering, length accounting and padding around an abstract compression function."""


def register(add):
    SRC = 'src/md/sha224-256.c'
    base = dict(sources=[SRC], headers=['sha_pad.h', 'sha_state.h'], conf='base', route='proof', defines=['VC_SHA_STATICS'])
    add('sha256_pad', ['C14'], 'SHA224_256PadMessage', decls='SHA256Context *c; uint8_t pad;', call='SHA224_256PadMessage(c, pad)',
        replace=['SHA224_256ProcessMessageBlock'], unwind=66,
        bound_note='padding loops bounded by the 64-byte block; unwound completely', **base)
    add('sha256_input', ['C14'], 'SHA256Input', decls='SHA256Context *c; const uint8_t *m; unsigned n;', call='SHA256Input(c, m, n)',
        replace=['SHA224_256ProcessMessageBlock'], loops=True, timeout=300, arb_n=8,
        bound_note='all message lengths up to 100000 bytes: the byte loop is closed by a loop contract', **base)
    b5 = dict(sources=['src/md/sha384-512.c'], headers=['sha512_pad.h', 'sha_state.h'], conf='base', route='proof', defines=['VC_SHA5_STATICS'])
    add('sha512_pad', ['C14'], 'SHA384_512PadMessage', decls='SHA512Context *c; uint8_t pad;', call='SHA384_512PadMessage(c, pad)',
        replace=['SHA384_512ProcessMessageBlock'], unwind=130, bound_note='padding loops bounded by the 128-byte block; unwound completely', **b5)
    add('sha512_input', ['C14'], 'SHA512Input', decls='SHA512Context *c; const uint8_t *m; unsigned n;', call='SHA512Input(c, m, n)',
        replace=['SHA384_512ProcessMessageBlock'], loops=True, timeout=300, arb_n=8,
        bound_note='all message lengths up to 100000 bytes: the byte loop is closed by a loop contract', **b5)
    add('md_hmac', ['C14', 'C08'], 'md_hmac', sources=['src/md/relic_md_hmac.c'], headers=['hmac.h', 'hmac_state.h'], conf='base', route='bounded', unwind=100,
        decls='uint8_t *mac; const uint8_t *in, *key; size_t in_len, key_len;', call='md_hmac(mac, in, in_len, key, key_len)',
        replace=['md_map_sh256/md_map_sh256_h'], flags=['--object-bits', '9'], timeout=900,
        bound_note='text <= 24 bytes, key <= 72 bytes (below, at and above the 64-byte block); block loops unwound completely; hash abstract',
        ignore=[('memcpy src/dst overlap', 'after hashing a long key md_hmac copies _key onto itself with memcpy: formally overlapping, assumed to leave the bytes unchanged')],
        note='hash abstract: returns ghost digests and records what it was fed')
    KS = ['src/md/relic_md_kdf.c', 'src/relic_util.c']
    add('nist_kdf', ['C14', 'C08'], 'nist_kdf', sources=KS, headers=['kdf.h', 'kdf_state.h'], defines=['VC_KDF_STATICS', 'VC_KDF_MAXOUT=40', 'VC_KDF_MAXIN=6'], conf='base', route='bounded', unwind=5,
        decls='uint8_t *key; const uint8_t *in; size_t key_len, in_len; dig_t v;', call='nist_kdf(key, key_len, in, in_len, v)',
        replace=['md_map_sh256/md_map_sh256_k'], flags=['--object-bits', '9'], timeout=2400, tier='thorough',
        bound_note='output <= 40 bytes (2 blocks incl. a truncated tail), input <= 6 bytes; loops unwound completely; hash abstract')
    add('nist_kdf.small', ['C14', 'C08'], 'nist_kdf', sources=KS, headers=['kdf.h', 'kdf_state.h'], defines=['VC_KDF_STATICS', 'VC_KDF_MAXOUT=34', 'VC_KDF_MAXIN=2'], conf='base', route='bounded', unwind=5,
        decls='uint8_t *key; const uint8_t *in; size_t key_len, in_len; dig_t v;', call='nist_kdf(key, key_len, in, in_len, v)',
        replace=['md_map_sh256/md_map_sh256_k'], flags=['--object-bits', '9', '--sat-solver', 'cadical'], timeout=900,
        bound_note='output <= 34 bytes (a full block and a 2-byte truncated tail), input <= 2 bytes; loops unwound completely; hash abstract')
    for f in ('md_kdf', 'md_mgf'):
        add(f, ['C14'], f, sources=KS, headers=['kdf.h', 'kdf_state.h'], conf='base', route='proof', unwind=4,
            decls='uint8_t *key; const uint8_t *in; size_t key_len, in_len;', call='%s(key, key_len, in, in_len)' % f, replace=['nist_kdf'],
            bound_note='loop-free')
