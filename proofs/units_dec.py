"""C07: validating decoders of field elements and prime-curve points (guard contracts, callees abstract)."""


def register(add):
    D = lambda f, s='d': '%s/%s_%s' % (f, f, s)
    add('fp_read_bin', ['C07', 'C08'], 'fp_read_bin', sources=['src/fp/relic_fp_util.c', 'src/bn/relic_bn_mem.c'], headers=['dec.h', 'dec_state.h'], conf='base', route='proof',
        unwind=40, decls='dig_t *a; const uint8_t *bin; size_t len;', call='fp_read_bin(a, bin, len)', flags=['--object-bits', '9'],
        replace=[D('bn_read_bin'), D('bn_sign'), D('bn_cmp'), D('bn_is_zero'), D('fp_zero'), D('fp_prime_conv'), D('fp_prime_conv_dig')],
        note='callees abstract (frame + verdict)', bound_note='loop-free after callee replacement')
    add('ep_read_bin', ['C07', 'C08'], 'ep_read_bin', sources=['src/ep/relic_ep_util.c'], headers=['dec.h', 'dec_state.h'], conf='base', route='proof', defines=['VC_DEC_EP'],
        unwind=40, decls='ep_st *a; const uint8_t *bin; size_t len;', call='ep_read_bin(a, bin, len)', flags=['--object-bits', '9'],
        replace=[D('fp_read_bin', 'e'), D('fp_set_dig', 'e'), D('fp_zero', 'e'), D('fp_set_bit', 'e'), D('ep_upk', 'e'), D('ep_set_infty', 'e'), D('ep_on_curve', 'e')],
        note='callees abstract (frame + verdict); the enclosing-handler-absent model (errors are recorded and execution continues)', bound_note='loop-free')
