"""C07/C08: the other encoders / decoders (prime-field and prime-curve encoders, extension-curve, binary-curve, Edwards-curve and
target-group codecs, string conversion).  Guard/structure contracts, callees abstract (style of units_dec.py)."""


def register(add):
    S = lambda sfx: (lambda f: '%s/%s_%s' % (f, f, sfx))
    W = S('w')
    P = ['C07', 'C08']
    ENC = ['c07x_enc.h', 'c07x_enc_state.h']
    add('fp_write_bin', P, 'fp_write_bin', sources=['src/fp/relic_fp_util.c', 'src/bn/relic_bn_mem.c'], headers=ENC, conf='base', route='proof', defines=['VC_C07X_FPW'],
        unwind=40, decls='uint8_t *bin; size_t len; const dig_t *a;', call='fp_write_bin(bin, len, a)', flags=['--object-bits', '9'],
        replace=[W('fp_prime_back'), W('bn_write_bin')],
        note='callees abstract (frame + what they were applied to): fp_prime_back, bn_write_bin; bn_make inlined', bound_note='loop-free after callee replacement')
    add('ep_size_bin', ['C07'], 'ep_size_bin', sources=['src/ep/relic_ep_util.c'], headers=ENC, conf='base', route='proof', defines=['VC_C07X_EPS'],
        unwind=4, decls='const ep_st *a; int pack;', call='ep_size_bin(a, pack)', replace=[W('ep_is_infty')],
        note='ep_is_infty abstract (verdict recorded)', bound_note='loop-free')
    add('ep_write_bin', P, 'ep_write_bin', sources=['src/ep/relic_ep_util.c'], headers=ENC, conf='base', route='proof', defines=['VC_C07X_EPW', 'VC_CUSTOM_LONGJMP'],
        unwind=70, decls='uint8_t *bin; size_t len; const ep_st *a; int pack;', call='ep_write_bin(bin, len, a, pack)', flags=['--object-bits', '9'],
        replace=[W('ep_is_infty'), W('ep_norm'), W('ep_pck'), W('fp_get_bit'), W('fp_write_bin')], expect=('postcondition', 'assertion'),
        note='callees abstract (frame + what they were applied to): ep_is_infty, ep_norm, ep_pck, fp_get_bit, fp_write_bin; memset is the CBMC library model; '
             'longjmp stub of this unit checks the exceptional postcondition', bound_note='memset of the buffer (<= 67 bytes) unwound; otherwise loop-free')

    R, Q = S('r'), S('q')
    EP2 = ['c07x_ep2.h', 'c07x_ep2_state.h']
    add('fp2_read_bin', P, 'fp2_read_bin', sources=['src/fpx/relic_fpx_util.c'], headers=EP2, conf='base', route='proof', defines=['VC_C07X_FP2R'],
        unwind=40, decls='fp_t *a; const uint8_t *bin; size_t len;', call='fp2_read_bin(a, bin, len)', flags=['--object-bits', '9'],
        replace=[Q('fp_read_bin'), Q('fp_zero'), Q('fp_set_bit'), Q('fp2_upk')],
        note='callees abstract (frame + what they were applied to): fp_read_bin, fp_zero, fp_set_bit, fp2_upk', bound_note='loop-free')
    add('ep2_read_bin', P, 'ep2_read_bin', sources=['src/epx/relic_ep2_util.c'], headers=EP2, conf='base', route='proof', defines=['VC_C07X_EP2R'],
        unwind=40, decls='ep2_st *a; const uint8_t *bin; size_t len;', call='ep2_read_bin(a, bin, len)', flags=['--object-bits', '9'],
        replace=[R('ep2_set_infty'), R('fp2_set_dig'), R('fp2_read_bin'), R('fp2_zero'), R('fp_set_bit'), R('fp_zero'), R('ep2_upk'), R('ep2_on_curve')],
        note='callees abstract (frame + verdict + what they were applied to): ep2_set_infty, fp2_set_dig, fp2_read_bin, fp2_zero, fp_set_bit, fp_zero, ep2_upk, ep2_on_curve',
        bound_note='loop-free')
    V = S('v')
    EP2W = ['c07x_ep2w.h', 'c07x_ep2w_state.h']
    add('fp2_write_bin', P, 'fp2_write_bin', sources=['src/fpx/relic_fpx_util.c'], headers=EP2W, conf='base', route='proof', defines=['VC_C07X_FP2W', 'VC_CUSTOM_LONGJMP'],
        unwind=40, decls='uint8_t *bin; size_t len; const fp_t *a; int pack;', call='fp2_write_bin(bin, len, a, pack)', flags=['--object-bits', '9'],
        replace=[V('fp2_test_cyc'), V('fp2_pck'), V('fp_get_bit'), V('fp_write_bin')], expect=('postcondition', 'assertion'),
        note='callees abstract (frame + what they were applied to): fp2_test_cyc, fp2_pck, fp_get_bit, fp_write_bin; longjmp stub of this unit checks the exceptional postcondition',
        bound_note='loop-free')
    add('ep2_size_bin', ['C07'], 'ep2_size_bin', sources=['src/epx/relic_ep2_util.c'], headers=EP2W, conf='base', route='proof', defines=['VC_C07X_EP2S'],
        unwind=40, decls='const ep2_st *a; int pack;', call='ep2_size_bin(a, pack)', replace=[W('ep2_is_infty'), W('ep2_norm')], flags=['--object-bits', '9'],
        note='ep2_is_infty (verdict recorded), ep2_norm abstract', bound_note='loop-free')
    add('ep2_write_bin', P, 'ep2_write_bin', sources=['src/epx/relic_ep2_util.c'], headers=EP2W, conf='base', route='proof', defines=['VC_C07X_EP2W', 'VC_CUSTOM_LONGJMP'],
        unwind=136, decls='uint8_t *bin; size_t len; const ep2_st *a; int pack;', call='ep2_write_bin(bin, len, a, pack)', flags=['--object-bits', '9'], timeout=900,
        replace=[W('ep2_is_infty'), W('ep2_norm'), W('ep2_pck'), W('fp_get_bit'), W('fp2_write_bin')], expect=('postcondition', 'assertion'),
        note='callees abstract (frame + what they were applied to): ep2_is_infty, ep2_norm, ep2_pck, fp_get_bit, fp2_write_bin; memset is the CBMC library model; '
             'longjmp stub of this unit checks the exceptional postcondition', bound_note='memset of the buffer (<= 131 bytes) unwound; otherwise loop-free')
    PT = ['c07x_pt.h', 'c07x_pt_state.h']
    Bs = S('b')
    add('fb_read_bin', P, 'fb_read_bin', sources=['src/fb/relic_fb_util.c', 'src/bn/relic_bn_mem.c'], headers=PT, conf='base', route='proof', defines=['VC_C07X_FBR', 'VC_CUSTOM_LONGJMP'],
        unwind=40, decls='dig_t *a; const uint8_t *bin; size_t len;', call='fb_read_bin(a, bin, len)', flags=['--object-bits', '9'],
        replace=[Bs('bn_read_bin'), Bs('bn_bits'), Bs('fb_copy')], expect=('postcondition', 'assertion'),
        note='callees abstract (frame + verdict + what they were applied to): bn_read_bin, bn_bits, fb_copy; bn_make inlined; longjmp stub of this unit checks the exceptional postcondition', bound_note='loop-free after callee replacement')
    add('eb_read_bin', P, 'eb_read_bin', sources=['src/eb/relic_eb_util.c'], headers=PT, conf='base', route='proof', defines=['VC_C07X_EBR'],
        unwind=40, decls='eb_st *a; const uint8_t *bin; size_t len;', call='eb_read_bin(a, bin, len)', flags=['--object-bits', '9'],
        replace=[R('eb_set_infty'), R('fb_set_dig'), R('fb_read_bin'), R('fb_zero'), R('fb_set_bit'), R('eb_upk'), R('eb_on_curve')],
        note='callees abstract (frame + verdict + what they were applied to): eb_set_infty, fb_set_dig, fb_read_bin, fb_zero, fb_set_bit, eb_upk, eb_on_curve', bound_note='loop-free')
    add('ed_read_bin', P, 'ed_read_bin', sources=['src/ed/relic_ed_util.c'], headers=PT, conf='base', route='proof', defines=['VC_C07X_EDR'],
        unwind=40, decls='ed_st *a; const uint8_t *bin; size_t len;', call='ed_read_bin(a, bin, len)', flags=['--object-bits', '9'],
        replace=[R('ed_set_infty'), R('fp_set_dig'), R('fp_read_bin'), R('fp_zero'), R('fp_set_bit'), R('ed_upk'), R('ed_on_curve')],
        note='callees abstract (frame + verdict + what they were applied to): ed_set_infty, fp_set_dig, fp_read_bin, fp_zero, fp_set_bit, ed_upk, ed_on_curve (ED_ADD=PROJC: no extended coordinate)', bound_note='loop-free')
    GT = ['c07x_gt.h', 'c07x_gt_state.h']
    FPX = 'src/fpx/relic_fpx_util.c'
    T, U = S('t'), S('u')
    add('fp6_read_bin', P, 'fp6_read_bin', sources=[FPX], headers=GT, conf='base', route='proof', defines=['VC_C07X_FP6R'],
        unwind=40, decls='fp2_t *a; const uint8_t *bin; size_t len;', call='fp6_read_bin(a, bin, len)', flags=['--object-bits', '9'],
        replace=[S('s')('fp2_read_bin')], note='fp2_read_bin abstract (frame + which coefficient from which offset)', bound_note='loop-free')
    add('fp12_read_bin', P, 'fp12_read_bin', sources=[FPX], headers=GT, conf='base', route='proof', defines=['VC_C07X_FP12R'],
        unwind=40, decls='fp6_t *a; const uint8_t *bin; size_t len;', call='fp12_read_bin(a, bin, len)', flags=['--object-bits', '9'],
        replace=[T('fp2_zero'), T('fp2_read_bin'), T('fp6_read_bin'), T('fp12_back_cyc'), T('fp12_test_cyc')],
        note='callees abstract (frame + verdict + what they were applied to): fp2_zero, fp2_read_bin, fp6_read_bin, fp12_back_cyc, fp12_test_cyc; gt_read_bin is a macro for this function in the shipped configuration', bound_note='loop-free')
    add('fp12_write_bin', P, 'fp12_write_bin', sources=[FPX], headers=GT, conf='base', route='proof', defines=['VC_C07X_FP12W', 'VC_CUSTOM_LONGJMP'],
        unwind=40, decls='uint8_t *bin; size_t len; const fp6_t *a; int pack;', call='fp12_write_bin(bin, len, a, pack)', flags=['--object-bits', '9'], expect=('postcondition', 'assertion'),
        replace=[U('fp12_test_cyc'), U('fp12_pck'), U('fp2_write_bin'), U('fp6_write_bin')],
        note='callees abstract (frame + verdict + what they were applied to): fp12_test_cyc, fp12_pck, fp2_write_bin, fp6_write_bin; longjmp stub of this unit checks the exceptional postcondition', bound_note='loop-free')
    add('fp12_size_bin', ['C07'], 'fp12_size_bin', sources=[FPX], headers=GT, conf='base', route='proof', defines=['VC_C07X_FP12S'],
        unwind=8, decls='fp6_t *a; int pack;', call='fp12_size_bin(a, pack)', replace=[T('fp12_test_cyc')], note='fp12_test_cyc abstract (verdict recorded)', bound_note='loop-free')
    PTW = ['c07x_ptw.h', 'c07x_ptw_state.h']
    for cv, fe, src in (('eb', 'fb', 'src/eb/relic_eb_util.c'), ('ed', 'fp', 'src/ed/relic_ed_util.c')):
        add(cv + '_size_bin', ['C07'], cv + '_size_bin', sources=[src], headers=PTW, conf='base', route='proof', defines=['VC_C07X_%sS' % cv.upper()],
            unwind=4, decls='const %s_st *a; int pack;' % cv, call='%s_size_bin(a, pack)' % cv, replace=[W(cv + '_is_infty')],
            note='%s_is_infty abstract (verdict recorded)' % cv, bound_note='loop-free')
        add(cv + '_write_bin', P, cv + '_write_bin', sources=[src], headers=PTW, conf='base', route='proof', defines=['VC_C07X_%sW' % cv.upper(), 'VC_CUSTOM_LONGJMP'],
            unwind=80, decls='uint8_t *bin; size_t len; const %s_st *a; int pack;' % cv, call='%s_write_bin(bin, len, a, pack)' % cv, flags=['--object-bits', '9'],
            replace=[W(cv + '_is_infty'), W(cv + '_norm'), W(cv + '_pck'), W(fe + '_get_bit'), W(fe + '_write_bin')], expect=('postcondition', 'assertion'),
            note='callees abstract (frame + what they were applied to): %s_is_infty, %s_norm, %s_pck, %s_get_bit, %s_write_bin; memset is the CBMC library model; '
                 'longjmp stub of this unit checks the exceptional postcondition' % (cv, cv, cv, fe, fe), bound_note='memset of the buffer (<= 75 bytes) unwound; otherwise loop-free')
    add('fb_write_bin', P, 'fb_write_bin', sources=['src/fb/relic_fb_util.c', 'src/bn/relic_bn_mem.c'], headers=PTW, conf='base', route='proof', defines=['VC_C07X_FBW'],
        unwind=40, decls='uint8_t *bin; size_t len; const dig_t *a;', call='fb_write_bin(bin, len, a)', flags=['--object-bits', '9'],
        replace=[S('f')('bn_read_raw'), S('f')('bn_write_bin')],
        note='callees abstract (frame + what they were applied to): bn_read_raw, bn_write_bin; bn_make inlined', bound_note='loop-free after callee replacement')
    add('fp6_write_bin', P, 'fp6_write_bin', sources=[FPX], headers=PTW, conf='base', route='proof', defines=['VC_C07X_FP6W'],
        unwind=40, decls='uint8_t *bin; size_t len; const fp2_t *a;', call='fp6_write_bin(bin, len, a)', flags=['--object-bits', '9'],
        replace=[S('x')('fp2_write_bin')], note='fp2_write_bin abstract (frame + which coefficient to which offset)', bound_note='loop-free')
