"""C07/C08/C09: integer encoders/decoders and recodings."""
NB = {'w8': 13, 'p128': 9}


def register(add):
    UTIL, REC = 'src/bn/relic_bn_util.c', 'src/bn/relic_bn_rec.c'
    H = ['bn_low.h', 'bn_api.h', 'bn_conv.h']
    C = 'p128'
    NBY = 8 * 8 + 2    # vc_be runs VC_W*8 = 64 times; byte loops <= VC_MAXBYTES = 64
    common = dict(headers=H, conf=C, route='proof', unwind=NBY,
                  bound_note='loops bounded by the buffer/precision of configuration p128 (RLC_BN_SIZE=6, 64-bit digits), unwound completely')
    add('bn_size_bin@p128', ['C07'], 'bn_size_bin', sources=[UTIL], decls='bn_st *a;', call='bn_size_bin(a)', **common)
    add('bn_read_bin@p128', ['C07', 'C08'], 'bn_read_bin', sources=[UTIL], decls='bn_st *a; const uint8_t *bin; size_t len;',
        call='bn_read_bin(a, bin, len)', replace=['bn_grow', 'bn_zero', 'bn_trim'], **common)
    w8b = dict(headers=H, conf='w8', route='proof', unwind=14,
               bound_note='configuration w8 (8-bit digits, RLC_BN_SIZE=10): buffers up to 12 bytes; loops unwound completely. '
               'The 64-bit configurations time out on this function (writes at symbolic offsets)')
    add('bn_write_bin@w8', ['C07', 'C08'], 'bn_write_bin', sources=[UTIL], decls='bn_st *a; uint8_t *bin; size_t len;',
        call='bn_write_bin(bin, len, a)', replace=['bn_size_bin', 'bn_bits'], timeout=400, **w8b)
    add('bn_read_bin@w8', ['C07', 'C08'], 'bn_read_bin', sources=[UTIL], decls='bn_st *a; const uint8_t *bin; size_t len;',
        call='bn_read_bin(a, bin, len)', replace=['bn_grow', 'bn_zero', 'bn_trim'], **w8b)
    add('bn_size_raw@p128', ['C07'], 'bn_size_raw', sources=[UTIL], decls='bn_st *a;', call='bn_size_raw(a)', **common)
    rawc = dict(common, unwind=10)
    add('bn_read_raw@p128', ['C07', 'C08'], 'bn_read_raw', sources=[UTIL], decls='bn_st *a; const dig_t *raw; size_t len;',
        call='bn_read_raw(a, raw, len)', replace=['bn_grow', 'dv_copy', 'bn_trim'], **rawc)
    add('bn_write_raw@p128', ['C07', 'C08'], 'bn_write_raw', sources=[UTIL], decls='bn_st *a; dig_t *raw; size_t len;',
        call='bn_write_raw(raw, len, a)', **rawc)
    w8 = dict(headers=H, conf='w8', route='proof', unwind=84,
              bound_note='loops bounded by the bit length of the precision of configuration w8 (80 bits), unwound completely')
    add('bn_rec_win@w8', ['C08', 'C09'], 'bn_rec_win', sources=[REC], decls='bn_st *k; uint8_t *win; size_t *len; size_t w;',
        call='bn_rec_win(win, len, k, w)', replace=['bn_bits'], **w8)
    add('bn_rec_reg@w8', ['C08', 'C09'], 'bn_rec_reg', sources=[REC], decls='bn_st *k; int8_t *naf; size_t *len; size_t n, w;',
        call='bn_rec_reg(naf, len, k, n, w)', headers=H, replace=['dv_zero', 'dv_copy', 'bn_rsh1_low', 'bn_rshb_low'], conf='w8', route='bounded', unwind=15, timeout=900, defines=['VC_REG_MAXN=12'], flags=['--sat-solver', 'cadical', '--object-bits', '10'],
        bound_note='n <= 12 bits, every window width 2..8, every operand length of configuration w8 (<= 10 digits of 8 bits); loops unwound completely',
        note='frame, output length and error behaviour only; digit values not claimed')
