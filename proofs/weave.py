"""Weaver: mechanically inserts verification-only annotation macros into a scratch copy of a /repo source file.

The verified text is the file in /repo plus, at positions found by a C scanner (function name + loop
ordinal), invocations of macros VC_ENTRY_<f>, VC_PRE_<f>_<k>, VC_LOOP_<f>_<k>, VC_TOP_<f>_<k>, VC_END_<f>_<k>
whose text lives in /verif/contracts/*.h.  Nothing of the original text is removed, reordered or rewritten; every
insertion is on the same line as its anchor, so line numbers stay those of /repo.  `strip()` of the woven
text is byte-identical to the original (asserted on every weave).

Anchors
  VC_ENTRY_f      directly after the opening brace of the definition of f
  VC_PRE_f_k      directly before the k-th loop keyword (for/while/do, in source order) of f; the loop is
                  wrapped in an extra block "{ VC_PRE ... loop ... }" (scope for ghost entry copies)
  VC_LOOP_f_k     between the loop header's ')' and its body (do-while: between 'do' and the body)
  VC_TOP_f_k      directly after the opening brace of the loop body
  VC_END_f_k      directly before the closing brace of the loop body
"""
import re, os, sys, json

MARK_L = '/*@VC[*/'
MARK_R = '/*]VC@*/'


def mask(text):
    """Replace comments, string/char literals and preprocessor lines by blanks of the same length."""
    out = list(text)
    i, n = 0, len(text)
    bol = True
    while i < n:
        c = text[i]
        if c == '/' and i + 1 < n and text[i + 1] == '*':
            j = text.find('*/', i + 2)
            j = n if j < 0 else j + 2
            for k in range(i, j):
                if out[k] != '\n':
                    out[k] = ' '
            i = j
            continue
        if c == '/' and i + 1 < n and text[i + 1] == '/':
            j = text.find('\n', i)
            j = n if j < 0 else j
            for k in range(i, j):
                out[k] = ' '
            i = j
            continue
        if c == '"' or c == "'":
            q = c
            j = i + 1
            while j < n and text[j] != q:
                if text[j] == '\\':
                    j += 1
                j += 1
            for k in range(i + 1, min(j, n)):
                if out[k] != '\n':
                    out[k] = ' '
            i = j + 1
            bol = False
            continue
        if c == '#' and bol:
            j = i
            while j < n:
                e = text.find('\n', j)
                if e < 0:
                    e = n
                    break
                if text[e - 1] == '\\':
                    j = e + 1
                    continue
                break
            for k in range(i, e):
                if out[k] != '\n':
                    out[k] = ' '
            i = e
            continue
        if c == '\n':
            bol = True
        elif not c.isspace():
            bol = False
        i += 1
    return ''.join(out)


def match(m, i, op, cl):
    """m[i] == op; return index of matching cl."""
    d = 0
    n = len(m)
    while i < n:
        if m[i] == op:
            d += 1
        elif m[i] == cl:
            d -= 1
            if d == 0:
                return i
        i += 1
    raise ValueError('unbalanced %s' % op)


def skip_ws(m, i):
    while i < len(m) and m[i].isspace():
        i += 1
    return i


KW = re.compile(r'\b(for|while|do)\b')
IDENT = re.compile(r'[A-Za-z_]\w*$')


def functions(m):
    """Yield (name, body_open, body_close) for every function definition at brace depth 0."""
    i, n, depth = 0, len(m), 0
    while i < n:
        c = m[i]
        if c == '{':
            if depth == 0:
                j = i - 1
                while j >= 0 and m[j].isspace():
                    j -= 1
                if j >= 0 and m[j] == ')':
                    # find matching '('
                    d, k = 0, j
                    while k >= 0:
                        if m[k] == ')':
                            d += 1
                        elif m[k] == '(':
                            d -= 1
                            if d == 0:
                                break
                        k -= 1
                    mm = IDENT.search(m[:k].rstrip())
                    if mm:
                        close = match(m, i, '{', '}')
                        yield mm.group(0), i, close
                        i = close + 1
                        continue
            depth += 1
        elif c == '}':
            depth -= 1
        i += 1


def stmt_end(m, i):
    """End (exclusive) of the statement starting at i (after whitespace)."""
    i = skip_ws(m, i)
    if m[i] == '{':
        return match(m, i, '{', '}') + 1
    mm = KW.match(m, i)
    if mm and mm.group(1) in ('for', 'while'):
        p = skip_ws(m, mm.end())
        return stmt_end(m, match(m, p, '(', ')') + 1)
    if mm and mm.group(1) == 'do':
        e = stmt_end(m, mm.end())
        w = skip_ws(m, e)
        assert m.startswith('while', w)
        p = skip_ws(m, w + 5)
        q = match(m, p, '(', ')')
        return m.index(';', q) + 1
    if m.startswith('if', i) and not (m[i + 2].isalnum() or m[i + 2] == '_'):
        p = skip_ws(m, i + 2)
        e = stmt_end(m, match(m, p, '(', ')') + 1)
        w = skip_ws(m, e)
        if m.startswith('else', w) and not (m[w + 4].isalnum() or m[w + 4] == '_'):
            return stmt_end(m, w + 4)
        return e
    # simple statement: up to ';' at paren depth 0
    d = 0
    while True:
        c = m[i]
        if c in '([':
            d += 1
        elif c in ')]':
            d -= 1
        elif c == ';' and d == 0:
            return i + 1
        elif c == '{':
            i = match(m, i, '{', '}')
        i += 1


def loops(m, lo, hi):
    """Loops of the function body m[lo:hi] in source order of their keyword.
    Returns list of dicts kw, kind, hdr_end (pos after ')'), body_open, body_close (or None), end (exclusive)."""
    res = []
    consumed_while = set()
    for mm in KW.finditer(m, lo, hi):
        kind, pos = mm.group(1), mm.start()
        if kind == 'while' and pos in consumed_while:
            continue
        if kind in ('for', 'while'):
            p = skip_ws(m, mm.end())
            if m[p] != '(':
                raise ValueError('loop header expected at %d' % pos)
            q = match(m, p, '(', ')')
            b = skip_ws(m, q + 1)
            end = stmt_end(m, q + 1)
            if m[b] == '{':
                res.append(dict(kw=pos, kind=kind, hdr_end=q + 1, body_open=b, body_close=match(m, b, '{', '}'), end=end))
            else:
                res.append(dict(kw=pos, kind=kind, hdr_end=q + 1, body_open=None, body_close=None, end=end))
        else:
            b = skip_ws(m, mm.end())
            e = stmt_end(m, mm.end())
            w = skip_ws(m, e)
            if not m.startswith('while', w):
                raise ValueError('do without while at %d' % pos)
            consumed_while.add(w)
            p = skip_ws(m, w + 5)
            q = match(m, p, '(', ')')
            semi = m.index(';', q)
            res.append(dict(kw=pos, kind='do', hdr_end=mm.end(), body_open=b if m[b] == '{' else None,
                            body_close=match(m, b, '{', '}') if m[b] == '{' else None, end=semi + 1))
    return res


def defined_macros(header_texts):
    names = set()
    for t in header_texts:
        for mm in re.finditer(r'^[ \t]*#[ \t]*define[ \t]+(VC_(?:ENTRY|PRE|LOOP|TOP|END)_\w+)', t, re.M):
            names.add(mm.group(1))
    return names


def weave(text, macros, only_functions=None):
    """Return (woven_text, insertions[list of dict]).  macros: set of defined VC_* macro names."""
    m = mask(text)
    ins = []  # (pos, order, string, macro)
    used = set()
    for name, bo, bc in functions(m):
        if only_functions is not None and name not in only_functions:
            continue
        e = 'VC_ENTRY_' + name
        if e in macros:
            ins.append((bo + 1, 0, e, e))
            used.add(e)
        prefix = 'VC_'
        if not any(x.endswith('_' + name + '_' + s) or ('_' + name + '_') in x for x in macros for s in '0'):
            pass
        ls = loops(m, bo + 1, bc)
        for k, L in enumerate(ls):
            tag = '%s_%d' % (name, k)
            pre, lp, top, end = ('VC_%s_%s' % (w, tag) for w in ('PRE', 'LOOP', 'TOP', 'END'))
            if pre in macros:
                ins.append((L['kw'], 1, '{ ' + pre + ' ', pre))
                ins.append((L['end'], -1, ' }', pre + ':close'))
                used.add(pre)
            if lp in macros:
                ins.append((L['hdr_end'], 0, ' ' + lp + ' ', lp))
                used.add(lp)
            if top in macros:
                if L['body_open'] is None:
                    raise ValueError('%s needs a braced loop body' % top)
                ins.append((L['body_open'] + 1, 0, ' ' + top + ' ', top))
                used.add(top)
            if end in macros:
                if L['body_close'] is None:
                    raise ValueError('%s needs a braced loop body' % end)
                ins.append((L['body_close'], 2, ' ' + end + ' ', end))
                used.add(end)
    ins.sort(key=lambda x: (x[0], x[1]))
    out, last = [], 0
    log = []
    for pos, _, s, mac in ins:
        out.append(text[last:pos])
        out.append(MARK_L + s + MARK_R)
        last = pos
        log.append(dict(macro=mac, line=text.count('\n', 0, pos) + 1))
    out.append(text[last:])
    woven = ''.join(out)
    assert strip(woven) == text, 'weaver changed the original text'
    return woven, log, used


def strip(woven):
    return re.sub(re.escape(MARK_L) + r'.*?' + re.escape(MARK_R), '', woven, flags=re.S)


def weave_file(repo, rel, outdir, macros):
    src = os.path.join(repo, rel)
    text = open(src).read()
    woven, log, used = weave(text, macros)
    dst = os.path.join(outdir, rel)
    os.makedirs(os.path.dirname(dst), exist_ok=True)
    with open(dst, 'w') as f:
        f.write('#line 1 "%s"\n' % src)
        f.write(woven)
    return dst, log, used


if __name__ == '__main__':
    hdrs = [open(p).read() for p in sys.argv[3:]]
    dst, log, used = weave_file(sys.argv[1], sys.argv[2], '/dev/shm/weave-test', defined_macros(hdrs))
    print(dst)
    print(json.dumps(log, indent=1))
