"""C05 (builder c05y): RSASSA-PSS encoding check pad_pkcs2 (verification operations) against a transcription of RFC 8017 9.1.2."""
import os


def register(add):
    # NOT FINISHED: with 5 digits / k_len <= 36 the verifier ran out of 12 GB after 250 s (1053 of 1123 obligations decided), at 6 digits / k_len <= 48 it did not leave
    # "converting SSA" in 900 s.  Nothing is registered unless C05Y_ALL is set (development only).  The defect the contract was written to expose is
    # demonstrated natively: findings/c05y_rsa_pss_short_maskeddb.c.
    if not os.environ.get('C05Y_ALL'):
        return
    PM = ('md_mgf is ABSTRACT (delivers a ghost byte string, records its seed and lengths); bn_mod_2b, bn_rsh (whole bytes), bn_write_bin, bn_read_bin are DIGIT-LEVEL MODEL '
          'bodies (stubs/c05y_rsa_pss_state.h, preconditions as assertions; corollaries of their value contracts, ASSUMED; digits at and above `used` arbitrary). '
          'REAL code: the parser, bn_get_bit, bn_set_bit, bn_is_zero, bn_trim, bn_new/bn_free. Precondition excludes modBits = 8j+1 (recorded finding F25).')
    pm = dict(harness='c05y_rsa_pss.c', headers=['c05y_rsa_pss.h', 'c05y_rsa_pss_state.h'], conf='base', route='bounded', unwind=60, weave=False,
              flags=['--object-bits', '10'], timeout=600,
              bound_note='34 <= k_len <= 36 bytes (moduli of 266..288 bits), m < 256^k_len; all loops unwound, unwinding assertions on')
    SMALL = ['C05Y_KD=5', 'C05Y_KMAX=36']
    for op, opn in ((4, 'ver'), (8, 'ver_hash')):
        if os.environ.get('C05Y_ALL') or op == 4:
            if os.environ.get('C05Y_ALL'):
                add('pad_pkcs2.%s' % opn, ['C05'], 'pad_pkcs2', defines=['C05Y_OP=%d' % op] + SMALL,
                    note='STRICT: RLC_OK <==> EM = maskedDB | H | BC consistent per RFC 8017 9.1.2 (sLen = 0), top bits from emBits = modBits - 1. ' + PM, **pm)
            add('pad_pkcs2.%s.codeguards' % opn, ['C05'], 'pad_pkcs2', defines=['C05Y_OP=%d' % op, 'C05Y_TOPFROM_MODBITS'] + SMALL,
                note='as the strict reading, with the leftmost-bits test starting at bit modBits as the code has it (recorded finding: the standard says emBits = modBits - 1). ' + PM, **pm)
