"""C14 (third batch): BLAKE2s buffering / finalisation / parameter block around an abstract compression function, the one-shot wrappers."""


def register(add):
    B2 = ['src/md/blake2.h', 'src/md/blake2-impl.h', 'src/md/blake2s-ref.c']
    BH = ['c14y_b2s.h', 'c14y_b2s_state.h']
    BN = 'blake2s_compress abstract (replaced): records for the ghost call number the block byte at the ghost offset, t[0], t[1], f[0], f[1] and the block address; chaining value arbitrary'
    # one unit per range of input lengths (one unit over the whole range needs > 300 s; the parts run in parallel)
    for tag, lo, hi in (('b0', 0, 64), ('b1', 65, 128), ('b2', 129, 192)):
        add('b2s_update.' + tag, ['C14'], 'blake2s_update', sources=B2, headers=BH, defines=['VC_B2S_CORE', 'VC_B2_MININ=%d' % lo, 'VC_B2_MAXIN=%d' % hi], conf='base', route='bounded',
            unwind=14, unwindset=['blake2s_update_wrapped_for_contract_checking.0:5'], timeout=600,
            decls='blake2s_state *S; const void *in; size_t n;', call='blake2s_update(S, in, n)', replace=['blake2s_compress'],
            bound_note='input of %d..%d bytes with 0..64 bytes already buffered (%d..%d compressed blocks + the buffered rest); block loop unwound completely' % (lo, hi, max(0, (lo - 1) // 64), (hi + 63) // 64),
            note=BN)
    add('b2s_final', ['C14', 'C08'], 'blake2s_final', sources=B2, headers=BH, defines=['VC_B2S_CORE'], conf='base', route='proof', unwind=10, timeout=600,
        decls='blake2s_state *S; void *out; size_t n;', call='blake2s_final(S, out, n)', replace=['blake2s_compress'],
        bound_note='loop bounded by the 8 state words; output buffer of exactly outlen <= 32 bytes', note=BN)
    add('b2s_init_param', ['C14'], 'blake2s_init_param', sources=B2, headers=BH, defines=['VC_B2S_CORE'], conf='base', route='proof', unwind=10, timeout=300,
        decls='blake2s_state *S; const blake2s_param *P;', call='blake2s_init_param(S, P)', bound_note='loops bounded by the 8 state words', note='no callee abstract')
    add('b2s_init', ['C14'], 'blake2s_init', sources=B2, headers=BH, defines=['VC_B2S_CORE'], conf='base', route='proof', unwind=10, timeout=300,
        decls='blake2s_state *S; size_t n;', call='blake2s_init(S, n)', bound_note='loops bounded by the 8 state words', note='no callee abstract (blake2s_init_param inlined)')
