"""C14 (third batch): BLAKE2s buffering / finalisation / parameter block around an abstract compression function, the one-shot wrappers."""


def register(add):
    B2 = ['src/md/blake2.h', 'src/md/blake2-impl.h', 'src/md/blake2s-ref.c']
    BH = ['c14y_b2s.h', 'c14y_b2s_state.h']
    BN = 'blake2s_compress abstract (replaced): records for the ghost call number the block byte at the ghost offset, t[0], t[1], f[0], f[1] and the block address; chaining value arbitrary'
    # one unit per range of input lengths (one unit over the whole range needs > 300 s; the parts run in parallel)
    for tag, lo, hi in (('b0', 0, 64), ('b1', 65, 128), ('b2', 129, 192)):
        add('b2s_update.' + tag, ['C14'], 'blake2s_update', sources=B2, headers=BH, defines=['VC_B2S_CORE', 'VC_B2S_MEMCPY_MODEL', 'VC_B2_MININ=%d' % lo, 'VC_B2_MAXIN=%d' % hi], conf='base', route='bounded',
            unwind=8, unwindset=['memcpy.0:66'], timeout=600, flags=['--sat-solver', 'cadical'],
            decls='blake2s_state *S; const void *in; size_t n;', call='blake2s_update(S, in, n)', replace=['blake2s_compress'],
            bound_note='input of %d..%d bytes with 0..64 bytes already buffered (%d..%d compressed blocks + the buffered rest); block loop unwound completely' % (lo, hi, max(0, (lo - 1) // 64), (hi + 63) // 64),
            note=BN)
    add('b2s_final', ['C14', 'C08'], 'blake2s_final', sources=B2, headers=BH, defines=['VC_B2S_CORE'], conf='base', route='proof', unwind=10, timeout=600,
        decls='blake2s_state *S; void *out; size_t n;', call='blake2s_final(S, out, n)', replace=['blake2s_compress'],
        bound_note='loop bounded by the 8 state words; output buffer of exactly outlen <= 32 bytes', note=BN)
    add('b2s_init_param', ['C14'], 'blake2s_init_param', sources=B2, headers=BH, defines=['VC_B2S_CORE'], conf='base', route='proof', unwind=10, timeout=300,
        decls='blake2s_state *S; const blake2s_param *P;', call='blake2s_init_param(S, P)', bound_note='loops bounded by the 8 state words', note='no callee abstract')
    add('b2s_init', ['C14'], 'blake2s_init', sources=B2, headers=BH, defines=['VC_B2S_CORE'], conf='base', route='proof', unwind=10, timeout=300,
        decls='blake2s_state *S; size_t n;', call='blake2s_init(S, n)', bound_note='loops bounded by the 8 state words', note='no callee abstract (blake2s_init_param inlined)')
    WH = ['c14y_b2w.h', 'c14y_b2w_state.h']
    add('blake2s', ['C14', 'C08'], 'blake2s', sources=B2, headers=WH, defines=['VC_B2S_WRAP'], conf='base', route='proof', unwind=8, timeout=300, flags=['--sat-solver', 'cadical'],
        decls='void *out; const void *in, *key; size_t outlen, inlen, keylen;', call='blake2s(out, outlen, in, inlen, key, keylen)',
        replace=['blake2s_init/blake2s_init_v', 'blake2s_init_key/blake2s_init_key_v', 'blake2s_update/blake2s_update_v', 'blake2s_final/blake2s_final_v'],
        bound_note='loop-free (callees abstract); message <= 100000 bytes; digest buffer of exactly the requested length (every size_t length; > 32 and 0 rejected)',
        note='blake2s_init, blake2s_init_key, blake2s_update, blake2s_final abstract (views recording arguments, order and state identity, verdicts of the proved contracts of c14y_b2s.h)')
    for f, n in (('md_map_b2s160', 20), ('md_map_b2s256', 32)):
        add(f, ['C14', 'C08'], f, sources=['src/md/blake2.h', 'src/md/relic_md_blake2s.c'], headers=WH, defines=['VC_B2S_MAP'], conf='base', route='proof', unwind=8, timeout=300,
            decls='uint8_t *hash; const uint8_t *msg; size_t len;', call='%s(hash, msg, len)' % f, replace=['blake2s/blake2s_m'],
            bound_note='loop-free; message <= 100000 bytes; digest buffer of exactly %d bytes' % n,
            note='blake2s() abstract (view: records its arguments, verdict of the proved contract of unit blake2s, ghost digest)')
