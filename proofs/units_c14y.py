"""C14 (third batch): BLAKE2s buffering / finalisation / parameter block around an abstract compression function, the one-shot wrappers."""


def register(add):
    B2 = ['src/md/blake2.h', 'src/md/blake2-impl.h', 'src/md/blake2s-ref.c']
    BH = ['c14y_b2s.h', 'c14y_b2s_state.h']
    BN = 'blake2s_compress abstract (replaced): records for the ghost call number the block byte at the ghost offset, t[0], t[1], f[0], f[1] and the block address; chaining value arbitrary'
    # blake2s_update: contract written (c14y_b2s.h) but the unit does not finish (see report): NOT registered
    add('b2s_final', ['C14', 'C08'], 'blake2s_final', sources=B2, headers=BH, defines=['VC_B2S_CORE'], conf='base', route='proof', unwind=10, timeout=600,
        decls='blake2s_state *S; void *out; size_t n;', call='blake2s_final(S, out, n)', replace=['blake2s_compress'],
        bound_note='loop bounded by the 8 state words; output buffer of exactly outlen <= 32 bytes', note=BN)
    add('b2s_init_param', ['C14'], 'blake2s_init_param', sources=B2, headers=BH, defines=['VC_B2S_CORE'], conf='base', route='proof', unwind=10, timeout=300,
        decls='blake2s_state *S; const blake2s_param *P;', call='blake2s_init_param(S, P)', bound_note='loops bounded by the 8 state words', note='no callee abstract')
    add('b2s_init', ['C14'], 'blake2s_init', sources=B2, headers=BH, defines=['VC_B2S_CORE'], conf='base', route='proof', unwind=10, timeout=300,
        decls='blake2s_state *S; size_t n;', call='blake2s_init(S, n)', bound_note='loops bounded by the 8 state words', note='no callee abstract (blake2s_init_param inlined)')
    WH = ['c14y_b2w.h', 'c14y_b2w_state.h']
    # blake2s(): contract and views written (c14y_b2w.h, VC_B2S_WRAP) but the unit does not finish: NOT registered
    for f, n in (('md_map_b2s160', 20), ('md_map_b2s256', 32)):
        add(f, ['C14', 'C08'], f, sources=['src/md/blake2.h', 'src/md/relic_md_blake2s.c'], headers=WH, defines=['VC_B2S_MAP'], conf='base', route='proof', unwind=8, timeout=300,
            decls='uint8_t *hash; const uint8_t *msg; size_t len;', call='%s(hash, msg, len)' % f, replace=['blake2s/blake2s_m'],
            bound_note='loop-free; message <= 100000 bytes; digest buffer of exactly %d bytes' % n,
            note='blake2s() abstract (view ASSUMED, its own unit did not finish: records its arguments, returns -1 exactly for the argument errors blake2s() tests, ghost digest)')
    # the parts built by the two sub-builders (SHA-384/512 finalisation + FinalBits; XMD instances + md_map_sh224/384/512)
    import units_c14y_fin5, units_c14y_xmd
    units_c14y_fin5.register(add)
    units_c14y_xmd.register(add)
