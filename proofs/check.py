"""check <property> [--tier quick|thorough] | --replay <file> | --list | --unit <name>

exit 0: every obligation of every unit of the property discharged (known findings are reported as KNOWN-FINDING)
exit 1: VIOLATION property=<id> replay=<path> [no-failing-input-found]
exit 2: inconclusive (build error, timeout, vacuity guard) - never a violation
"""
import os, sys, json, time, re, argparse, shutil, subprocess
from concurrent.futures import ThreadPoolExecutor, as_completed

HERE = os.path.dirname(os.path.abspath(__file__))
sys.path.insert(0, HERE)
import engine as E
import units as U
import replay as R

VERIF = E.VERIF


def load_findings():
    fs = []
    p = os.path.join(VERIF, 'known_findings.txt')
    if os.path.exists(p):
        for line in open(p):
            line = line.strip()
            if line.startswith('finding:'):
                kv = dict(re.findall(r'(\w+)=(\S+)', line))
                kv['text'] = line[len('finding:'):].strip()
                fs.append(kv)
    return fs


def known(findings, prop, unit, ob):
    for f in findings:
        if f.get('property') == prop and f.get('unit') == unit and re.search(f.get('obligation', '$^'), ob):
            return f
    return None


def cost_key(u):
    return -u.timeout


def run_units(units, tier, seed, jobs, keep=False, backend=None):
    res = {}
    order = sorted(units, key=cost_key)
    with ThreadPoolExecutor(max_workers=jobs) as ex:
        futs = {ex.submit(E.run_unit, u, tier, seed, keep, backend): u for u in order}
        for f in as_completed(futs):
            u = futs[f]
            try:
                r = f.result()
            except Exception as e:  # engine bug: inconclusive, never a violation
                r = dict(unit=u.name, function=u.func, route=u.route, status='inconclusive', reason='engine exception: %r' % e)
            res[u.name] = r
            st = r['status']
            extra = r.get('reason', '') if st == 'inconclusive' else ''
            print('  [%s] %-34s %-12s %4s/%-4s %6.1fs %s' % (u.route[:1].upper(), u.name, st, r.get('discharged', '-'),
                                                           r.get('obligations', '-'), r.get('wall_s', 0), extra[:300].replace('\n', ' ')), flush=True)
    return res


def main():
    ap = argparse.ArgumentParser()
    ap.add_argument('prop', nargs='?')
    ap.add_argument('--tier', default=os.environ.get('VERIF_TIER', 'quick'))
    ap.add_argument('--replay')
    ap.add_argument('--list', action='store_true')
    ap.add_argument('--unit', action='append')
    ap.add_argument('--keep', action='store_true')
    ap.add_argument('--jobs', type=int, default=int(os.environ.get('VERIF_JOBS', '0')) or max(1, (os.cpu_count() or 4)))
    ap.add_argument('--no-evidence', action='store_true')
    a = ap.parse_args()
    seed = int(os.environ.get('VERIF_SEED', '0') or 0)
    if a.keep:
        os.environ['VERIF_KEEP'] = '1'
    if a.replay:
        sys.exit(R.run_replay_file(a.replay))
    allu = U.all_units()
    if a.list:
        for u in allu:
            print('%-36s %-8s %-8s %s' % (u.name, u.route, u.tier, ','.join(u.props)))
        return 0
    if a.unit:
        sel = [u for u in allu if u.name in a.unit]
        res = run_units(sel, a.tier, seed, a.jobs, keep=a.keep)
        for n, r in res.items():
            if r['status'] == 'failed':
                for f in r['failed']:
                    print('   FAILED %s [%s] %s (%s:%s)' % (f['obligation'], f['cls'], f['text'][:200], f.get('file'), f.get('line')))
            elif r['status'] == 'inconclusive':
                print('   INCONCLUSIVE', r.get('reason'))
        return 0
    prop = a.prop
    if not prop:
        ap.error('property id required')
    t0 = time.time()
    sel = [u for u in allu if prop in u.props and (a.tier == 'thorough' or u.tier == 'quick')]
    if not sel:
        print('no units registered for %s' % prop)
        return 2
    print('property %s tier %s: %d units, %d jobs' % (prop, a.tier, len(sel), a.jobs), flush=True)
    res = run_units(sel, a.tier, seed, a.jobs, keep=a.keep)
    cross = {}
    if a.tier == 'thorough' and os.environ.get('VERIF_NO_CROSS') is None:
        # second SAT back end on the proof-route units: exposes solver-unstable queries (never decides a verdict alone)
        pu = [u for u in sel if u.route == 'proof' and res[u.name]['status'] == 'discharged']
        print('cross-check with kissat on %d proof units' % len(pu), flush=True)
        cross = run_units(pu, a.tier, seed, a.jobs, backend='kissat')
    coverage = {}
    if a.tier == 'thorough' and os.environ.get('VERIF_NO_COVER') is None:
        cu = [u for u in sel if u.func and res[u.name]['status'] == 'discharged']
        print('reachability of the code under contract (cbmc --cover location) on %d units' % len(cu), flush=True)
        with ThreadPoolExecutor(max_workers=a.jobs) as ex:
            for c in ex.map(E.coverage_unit, cu):
                coverage[c['unit']] = c
    findings = load_findings()
    violations, inconclusive, notes, kf_lines = [], [], [], []
    bymap = {u.name: u for u in allu}
    for u in sel:
        r = res[u.name]
        if r['status'] in ('inconclusive', 'failed') and u.loops:
            # A loop-contract proof that fails or cannot be run to a verdict is never reported directly: a harmless restructuring of
            # the loop (pointer walking instead of indexing, an extra loop shifting the ordinal) breaks invariants and loop frames
            # and then also the obligations that depend on them.  The bounded arbiter - same function contract, real loops -
            # decides what can be decided (DESIGN 4.2): it fails => violation (its counterexample is a real execution);
            # it passes => the proof is broken, the property held on everything explored.
            arb = E.auto_arbiter(u)
            ar = E.run_unit(arb, a.tier, seed)
            res[arb.name] = ar
            afl = [f for f in ar.get('failed', []) if f['cls'] in E.FUNCTION_LEVEL] if ar['status'] == 'failed' else []
            # a listed finding of the unit is a listed finding of its arbiter (same function contract)
            new_afl = []
            for f in afl:
                k = known(findings, prop, u.name, f['obligation'])
                if k:
                    kf_lines.append('KNOWN-FINDING: %s' % k['text'])
                else:
                    new_afl.append(f)
            if afl and not new_afl:
                r['status'] = 'known-finding'
                continue
            afl = new_afl
            if afl:
                rp, reproduced = R.make_replay(prop, arb, afl, ar)
                violations.append((arb.name, afl, rp, reproduced))
            elif ar['status'] == 'discharged':
                why = r.get('reason', '') or ','.join(f['obligation'] for f in r.get('failed', [])[:3])
                notes.append('PROOF-BROKEN unit=%s (%s; function contract held up to bound: %s)' % (u.name, why[:160], arb.bound_note))
                r['status'] = 'proof-broken'
            else:
                inconclusive.append((u.name, (r.get('reason', '') or 'loop-contract proof failed') + ' / arbiter: ' + ar.get('reason', ar['status'])))
            continue
        if r['status'] == 'inconclusive':
            inconclusive.append((u.name, r.get('reason', '')))
            continue
        if r['status'] != 'failed':
            continue
        fl = [f for f in r['failed'] if f['cls'] in E.FUNCTION_LEVEL]
        pl = [f for f in r['failed'] if f['cls'] in E.PROOF_LEVEL]
        un = [f for f in r['failed'] if f['cls'] == 'unwind']
        unknown_fl = []
        for f in fl:
            k = known(findings, prop, u.name, f['obligation'])
            if k:
                kf_lines.append('KNOWN-FINDING: %s' % k['text'])
            else:
                unknown_fl.append(f)
        if unknown_fl:
            rp, reproduced = R.make_replay(prop, u, unknown_fl, r)
            violations.append((u.name, unknown_fl, rp, reproduced))
            continue
        if pl or un:
            # proof-level only: arbitrate with the bounded unit, if registered
            arb = bymap.get(u.arb) if u.arb else None
            if arb is None and u.loops:
                arb = E.auto_arbiter(u)
            if arb is None:
                inconclusive.append((u.name, 'only proof-level obligations failed (%s) and no bounded arbiter is registered'
                                     % ','.join(f['obligation'] for f in (pl + un)[:3])))
                continue
            ar = E.run_unit(arb, a.tier, seed)
            res[arb.name] = ar
            if ar['status'] == 'failed' and [f for f in ar['failed'] if f['cls'] in E.FUNCTION_LEVEL]:
                afl = [f for f in ar['failed'] if f['cls'] in E.FUNCTION_LEVEL]
                rp, reproduced = R.make_replay(prop, arb, afl, ar)
                violations.append((arb.name, afl, rp, reproduced))
            elif ar['status'] == 'discharged':
                notes.append('PROOF-BROKEN unit=%s (%s failed; function contract held up to bound: %s)' %
                             (u.name, ','.join(f['obligation'] for f in (pl + un)[:3]), arb.bound_note or arb.unwind))
                r['status'] = 'proof-broken'
            else:
                inconclusive.append((u.name, 'proof-level failure and arbiter %s is %s' % (arb.name, ar['status'])))
    for n, c in cross.items():
        if c['status'] == 'failed':
            inconclusive.append((n, 'back ends disagree: MiniSat discharged every obligation, kissat reports %s' % ','.join(f['obligation'] for f in c.get('failed', [])[:3])))
    for l in sorted(set(kf_lines)):
        print(l)
    for n in notes:
        print(n)
    wall = time.time() - t0
    if not a.no_evidence:
        write_evidence(prop, a.tier, seed, sel, res, cross, violations, inconclusive, notes, kf_lines, wall, coverage)
    if violations:
        for (un, fl, rp, reproduced) in violations:
            print('VIOLATION property=%s replay=%s%s' % (prop, rp, '' if reproduced else ' no-failing-input-found'))
            for f in fl[:6]:
                print('   unit=%s obligation=%s [%s] %s (%s:%s)' % (un, f['obligation'], f['cls'], f['text'][:160], f.get('file'), f.get('line')))
        return 1
    if inconclusive:
        for n, why in inconclusive:
            print('INCONCLUSIVE unit=%s: %s' % (n, why[:1500]))
        return 2
    if kf_lines:
        print('OK property=%s: %d units, every obligation discharged except those of the %d listed known findings above (%.0fs)' % (prop, len(sel), len(set(kf_lines)), wall))
    else:
        print('OK property=%s: %d units, all obligations discharged (%.0fs)' % (prop, len(sel), wall))
    return 0


def write_evidence(prop, tier, seed, sel, res, cross, violations, inconclusive, notes, kf_lines, wall, coverage=None):
    coverage = coverage or {}
    proof_u = [u for u in sel if u.route == 'proof']
    # the proof-level totals count the units whose every obligation is discharged; a unit with a failing obligation (a listed known finding, or
    # a violation of this run) is NOT counted as proved: it is listed under units_not_discharged with its status and its obligation counts
    proved_u = [u for u in proof_u if res[u.name].get('status') == 'discharged']
    obligations = sum(res[u.name].get('obligations', 0) for u in proved_u)
    discharged = sum(res[u.name].get('discharged', 0) for u in proved_u)
    samples = []
    for u in sel:
        for s in res[u.name].get('samples', [])[:2]:
            samples.append(dict(unit=u.name, function=u.func, **s))
    samples = samples[:40]
    meta = U.PROPERTY_META.get(prop, {})

    def urec(u):
        r = res[u.name]
        d = dict(unit=u.name, function=u.func, contract=u.contract or u.func, route=u.route, status=r['status'],
                 obligations=r.get('obligations', 0), discharged=r.get('discharged', 0), classes=r.get('classes', {}),
                 backend=r.get('backend'), solver_s=r.get('solver_s'), wall_s=r.get('wall_s'),
                 callees_replaced_by_contract=u.replace, sources=u.sources, conf=u.conf, note=u.note)
        if u.route == 'bounded':
            d['bound'] = u.bound_note or ('--unwind %s' % u.unwind)
        if u.name in cross:
            d['cross_check_kissat'] = dict(status=cross[u.name]['status'], solver_s=cross[u.name].get('solver_s'))
        if u.name in coverage:
            c = coverage[u.name]
            d['reachability'] = dict(blocks=c.get('blocks'), reached=c.get('blocks_reached'), source_lines_never_reached=c.get('lines_never_reached'))
        if r.get('reused'):
            d['reused'] = r['reused']
        if r['status'] == 'inconclusive':
            d['reason'] = r.get('reason', '')[:600]
        if r.get('assume_statements'):
            d['assume_statements_in_spec_text'] = r['assume_statements']
        if r.get('assumed_obligations'):
            d['assumed_obligations'] = r['assumed_obligations']
        if r.get('woven'):
            d['woven_annotations'] = sum(len(w['insertions']) for w in r['woven'])
        return d
    cov = dict(
        obligations=obligations, discharged=discharged,
        checker_cmd=(res[proof_u[0].name].get('checker_cmd') if proof_u else None) or 'goto-cc | goto-instrument --dfcc | cbmc (see units)',
        trusted_base=U.TRUSTED_BASE + meta.get('trusted', []),
        explanation='obligations/discharged count the proof-route units that are completely discharged (every loop closed by a loop contract, loop-free, '
                    'or bounded by a compile-time constant of the configuration); bounded and lemma units are listed separately '
                    'and never counted as proved.',
        functions_under_contract=sorted(set(u.func for u in sel if u.func)),
        proof_units=[urec(u) for u in sel if u.route == 'proof'],
        bounded_units=[urec(u) for u in sel if u.route == 'bounded'],
        lemma_units=[urec(u) for u in sel if u.route == 'lemma'],
        units_not_discharged=[dict(unit=u.name, route=u.route, status=res[u.name].get('status'), obligations=res[u.name].get('obligations', 0),
                                   discharged=res[u.name].get('discharged', 0),
                                   failed_obligations=[f['obligation'] for f in res[u.name].get('failed', [])][:12])
                              for u in sel if res[u.name].get('status') != 'discharged'],
        not_covered=meta.get('not_covered', ''),
        samples=samples or [dict(note='no discharged obligation to sample')],
        solver_seconds_total=round(sum(res[u.name].get('solver_s', 0) or 0 for u in sel), 1),
        inconclusive=[dict(unit=n, reason=w[:400]) for n, w in inconclusive],
        notes=notes, known_findings_reported=sorted(set(kf_lines)),
        exhaustive=False,
    )
    ev = dict(property_id=prop, tier=tier, seed=seed, level='proof', coverage=cov,
              assumptions=U.ASSUMPTIONS + meta.get('assumptions', []),
              wall_s=round(wall, 1), violations=len(violations))
    os.makedirs(os.path.join(VERIF, 'evidence'), exist_ok=True)
    p = os.path.join(VERIF, 'evidence', prop + '.json')
    with open(p + '.tmp', 'w') as f:
        json.dump(ev, f, indent=1)
    os.replace(p + '.tmp', p)


if __name__ == '__main__':
    sys.exit(main())
