"""C14 (re-instantiation): RFC 9380 expand_message_xmd and the one-shot md_map wrappers for SHA-224, SHA-384, SHA-512 (the SHA-256 instances are in units_c14x)."""


def register(add):
    # sizes (b_in_bytes) per hash: the xor loop runs b_in_bytes times, so unwind must exceed it
    for h, b in ((512, 64), (384, 48), (224, 28)):
        f = 'md_xmd_sh%d' % h
        XW = f + '_wrapped_for_contract_checking'   # loop ids as in md_xmd_sh256 (units_c14x): 0-7 and 9-13 the RLC_THROW macro loops, 8 the xor loop (b_in_bytes), 14 the block loop
        XR = ['SHA%d%s/SHA%d%s_x' % (h, n, h, n) for n in ('Reset', 'Input', 'Result')]
        add(f, ['C14', 'C08'], f, sources=['src/md/relic_md_xmd.c'], headers=['c14y_xmd.h', 'c14y_xmd_state.h'], defines=['VC_XMD_H=%d' % h], conf='base', route='bounded',
            decls='uint8_t *buf; const uint8_t *in, *dst; int buf_len, in_len, dst_len;', call=f + '(buf, buf_len, in, in_len, dst, dst_len)',
            replace=XR, unwind=b + 2, unwindset=[XW + '.13:5', XW + '.14:5', XW + '.15:5'], flags=['--object-bits', '10', '--sat-solver', 'cadical'], timeout=600,
            bound_note='requested length <= %d bytes (ell <= 3, including truncated last blocks) or any rejected length (negative, > 255 blocks); message <= 1000 bytes; DST <= 300 bytes (valid range 0..255 complete); block loop unwound completely' % (3 * b),
            note='streaming hash abstract (SHA%dReset/Input/Result replaced): records per hash computation the length and the byte at the ghost position, returns ghost digests and a nondeterministic verdict' % h)
        g = 'md_map_sh%d' % h
        add(g, ['C14', 'C08'], g, sources=['src/md/relic_md_sha%d.c' % h], headers=['c14y_map.h', 'c14y_xmd_state.h'], defines=['VC_XMD_H=%d' % h], conf='base', route='proof', unwind=12, timeout=300,
            decls='uint8_t *hash; const uint8_t *msg; size_t len;', call=g + '(hash, msg, len)', replace=XR,
            bound_note='loop-free; message lengths <= 100000 bytes', note='streaming hash abstract (SHA%dReset/Input/Result replaced, contracts of c14y_xmd.h)' % h)
