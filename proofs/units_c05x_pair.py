"""C05 (pairing / EC based verifiers): accept implies every guard was evaluated on the right object and held (callees abstract)."""

ABS = ('every callee is an ABSTRACT contract (exact frame + nondeterministic verdict recorded in ghost state keyed by argument identity): '
       'membership tests g1/g2/gt_is_valid, ep/ep2_is_infty, ep/ep2_on_curve; hash md_map_sh256; bn_read_bin, bn_mod_basic, ep_curve_get_ord; '
       'group operations (mul, mul_gen, mul_sim, add, sub, norm, neg, copy, generator); the pairing(s) pp_map[_sim]_oatep_k12; fp12_cmp / fp12_cmp_dig. '
       'Nothing about the arithmetic, the pairing or the hash is assumed or claimed: only the accept/reject logic and the data flow between the calls.')


import os
VAC = ['C05X_VACUITY'] if os.environ.get('C05X_VACUITY') else []      # development aid: the accepting path must be reachable (unit must then FAIL)


def register(add):
    G = lambda f: '%s/%s_c5' % (f, f)
    H = ['c05x_pair.h', 'c05x_pair_state.h']
    MEMB = [G('g1_is_valid'), G('g2_is_valid'), G('gt_is_valid'), G('ep_is_infty'), G('ep2_is_infty'), G('ep_on_curve'), G('ep2_on_curve')]
    SCAL = [G('ep_curve_get_ord'), G('md_map_sh256'), G('bn_read_bin'), G('bn_mod_basic')]
    common = dict(conf='base', route='proof', unwind=40, flags=['--object-bits', '10'], timeout=600)

    # which readings are registered (decided after triage, DESIGN 9): 'strict' = the property-derived contract; 'codeguards' = the same contract
    # without the guards the property demands but the code lacks AND for which no accepting input could be demonstrated natively
    # (an undemonstrated missing guard is an observation, not a finding: the strict unit would raise an alarm nobody can replay)
    MODE = {'cp_bbs_ver': 'strict', 'cp_zss_ver': 'strict', 'cp_pss_ver': 'strict',
            'cp_cls_ver': 'codeguards', 'cp_cli_ver': 'codeguards', 'cp_clb_ver': 'codeguards', 'cp_psb_ver': 'codeguards'}
    if os.environ.get('C05X_ALL'):
        MODE = {}

    def both(name, func, src, decls, call, replace, strict_fails, without, why, **kw):
        mode = MODE.get(name, 'both')
        if mode in ('strict', 'both'):
            add(name, ['C05'], func, sources=[src, 'src/bn/relic_bn_mem.c'], headers=H, decls=decls, call=call, replace=replace,
                note=ABS, **dict(common, **kw))
        if mode in ('codeguards', 'both'):
            add(name + '.codeguards', ['C05'], func, sources=[src, 'src/bn/relic_bn_mem.c'], headers=H, decls=decls, call=call, replace=replace,
                defines=list(without) + VAC, note=ABS + ' LEFT OUT (demanded by the property, absent from the code, no accepting input demonstrated): ' + why, **dict(common, **kw))

    both('cp_bbs_ver', 'cp_bbs_ver', 'src/cp/relic_cp_bbs.c',
         'ep_st *s; const uint8_t *msg; size_t len; int hash; ep2_st *q; fp12_t *z;', 'cp_bbs_ver(s, msg, len, hash, q, *z)',
         MEMB + SCAL + [G('g2_mul_gen'), G('ep2_add_projc'), G('ep2_norm'), G('pp_map_oatep_k12'), G('fp12_cmp'), G('fp12_cmp_dig')],
         True, ['C05X_WITHOUT_KEYVALID'], 'g2_is_valid(q): the public key q is never validated by cp_bbs_ver (cp_bls_ver does validate its key)',
         bound_note='loop-free after callee replacement (RLC_TRY macro loops unwound)')
    both('cp_zss_ver', 'cp_zss_ver', 'src/cp/relic_cp_zss.c',
         'ep2_st *s; const uint8_t *msg; size_t len; int hash; ep_st *q; fp12_t *z;', 'cp_zss_ver(s, msg, len, hash, q, *z)',
         MEMB + SCAL + [G('g1_mul_gen'), G('ep_add_projc'), G('ep_norm'), G('pp_map_oatep_k12'), G('fp12_cmp'), G('fp12_cmp_dig')],
         True, ['C05X_WITHOUT_SIGVALID', 'C05X_WITHOUT_KEYVALID'],
         'g2_is_valid(s): the signature s (a G2 point) is not validated at all (identity, off-curve and wrong-subgroup points reach the pairing); g1_is_valid(q): the key is not validated',
         bound_note='loop-free after callee replacement (RLC_TRY macro loops unwound)')
    PAIR2 = [G('ep_copy'), G('ep2_copy'), G('ep2_curve_get_gen'), G('ep2_neg'), G('pp_map_sim_oatep_k12'), G('pp_map_oatep_k12'), G('fp12_cmp_dig'), G('fp12_cmp')]
    SIGW = 'ep_on_curve / g1_is_valid of the signature components: the code only rejects the identity (off-curve points reach the pairing)'
    KEYW = 'g2_is_valid (or on-curve and not identity) of the public-key components: the key is never validated'
    both('cp_cls_ver', 'cp_cls_ver', 'src/cp/relic_cp_cls.c',
         'ep_st *a, *b, *c; const uint8_t *msg; size_t len; ep2_st *x, *y;', 'cp_cls_ver(a, b, c, msg, len, x, y)',
         MEMB + SCAL + PAIR2 + [G('g1_mul'), G('ep_mul_sim_inter'), G('ep_add_projc'), G('ep_norm')],
         True, ['C05X_WITHOUT_SIGVALID', 'C05X_WITHOUT_KEYVALID'], SIGW + '; ' + KEYW,
         bound_note='loop-free after callee replacement (RLC_TRY macro loops unwound)')
    both('cp_cli_ver', 'cp_cli_ver', 'src/cp/relic_cp_cls.c',
         'ep_st *a, *A, *b, *B, *c; const uint8_t *msg; size_t len; bn_st *r; ep2_st *x, *y, *z;', 'cp_cli_ver(a, A, b, B, c, msg, len, r, x, y, z)',
         MEMB + SCAL + PAIR2 + [G('g1_mul'), G('ep_mul_sim_inter'), G('ep_add_projc'), G('ep_norm')],
         True, ['C05X_WITHOUT_SIGVALID', 'C05X_WITHOUT_KEYVALID'], SIGW + '; ' + KEYW,
         bound_note='loop-free after callee replacement (RLC_TRY macro loops unwound)')
    both('cp_clb_ver', 'cp_clb_ver', 'src/cp/relic_cp_cls.c',
         'ep_st *a, *b, *c; ep_t *A, *B; const uint8_t **ms; size_t *ls; ep2_st *x, *y; ep2_t *z; size_t l;', 'cp_clb_ver(a, A, b, B, c, ms, ls, x, y, z, l)',
         MEMB + SCAL + PAIR2 + [G('g1_mul'), G('ep_mul_sim_inter'), G('ep_add_projc'), G('ep_norm')],
         True, ['C05X_WITHOUT_SIGVALID', 'C05X_WITHOUT_KEYVALID'], SIGW + '; ' + KEYW,
         **{'route': 'bounded', 'unwind': 5, 'timeout': 240, 'unwindset': ['__CPROVER_contracts_write_set_check_assigns_clause_inclusion.0:90'], 'flags': ['--object-bits', '11'], 'bound_note': 'number of message blocks 1 <= l <= 2 (loops over i < l unwound completely; l = 3 exceeds 2^10 addressed objects and did not finish with more); messages <= 40 bytes'})
    both('cp_pss_ver', 'cp_pss_ver', 'src/cp/relic_cp_pss.c',
         'ep_st *a, *b; bn_st *m; ep2_st *g, *x, *y;', 'cp_pss_ver(a, b, m, g, x, y)',
         MEMB + SCAL + PAIR2 + [G('g2_mul'), G('ep2_mul_sim_lot'), G('ep2_add_projc'), G('ep2_norm')],
         True, ['C05X_WITHOUT_SIGVALID', 'C05X_WITHOUT_KEYVALID'],
         'well-formedness of a and b beyond "a is not the identity": on-curve test of a and b, b not the identity; ' + KEYW,
         bound_note='loop-free after callee replacement (RLC_TRY macro loops unwound)')
    both('cp_psb_ver', 'cp_psb_ver', 'src/cp/relic_cp_pss.c',
         'ep_st *a, *b; bn_t *ms; ep2_st *g, *x; ep2_t *y; size_t l;', 'cp_psb_ver(a, b, ms, g, x, y, l)',
         MEMB + SCAL + PAIR2 + [G('g2_mul'), G('ep2_mul_sim_lot'), G('ep2_add_projc'), G('ep2_norm')],
         True, ['C05X_WITHOUT_SIGVALID', 'C05X_WITHOUT_KEYVALID'],
         'well-formedness of a and b beyond "a is not the identity": on-curve test of a and b, b not the identity; ' + KEYW,
         **{'route': 'bounded', 'bound_note': 'the verifier is loop-free after callee replacement; 1 <= l <= 2 bounds the key array only (the demanded validity of every y[i] is stated for i < 2)'})
    VB = dict(common, unwind=45)
    VBR = MEMB + SCAL + [G('ep_size_bin'), G('ep_write_bin'), G('ep_mul_gen'), G('ep_mul_lwnaf'), G('ep_add_projc'), G('ep_norm'), G('ep_sub'), G('bn_cmp'), G('bn_sign'), G('bn_is_zero')]
    VBD = 'ep_st *r, *mpk; bn_st *z, *h; const uint8_t *id, *msg; size_t id_len; int msg_len;'
    VBC = 'cp_vbnn_ver(r, z, h, id, id_len, msg, msg_len, mpk)'
    VBN = ABS + ' ep_size_bin returns one of two ghost sizes in 1..33 (the point R / any other point), ep_write_bin is frame + count; memcpy and alloca are the cbmc models.'
    if True:     # strict reading registered: its three failing clauses are a listed known finding (natively reproduced)
        add('cp_vbnn_ver', ['C05'], 'cp_vbnn_ver', sources=['src/cp/relic_cp_vbnn.c', 'src/bn/relic_bn_mem.c'], headers=H, decls=VBD, call=VBC, replace=VBR,
            defines=VAC, note=VBN, bound_note='id <= 8 bytes, message <= 8 bytes (hash input buffer copied by memcpy); the logic is loop-free', **dict(VB, route='bounded'))
    if os.environ.get('C05X_ALL'):
      add('cp_vbnn_ver.codeguards', ['C05'], 'cp_vbnn_ver', sources=['src/cp/relic_cp_vbnn.c', 'src/bn/relic_bn_mem.c'], headers=H, decls=VBD, call=VBC, replace=VBR,
          defines=['C05X_WITHOUT_SIGVALID', 'C05X_WITHOUT_ZRANGE', 'C05X_WITHOUT_KEYVALID'] + VAC,
          note=VBN + ' LEFT OUT (demanded by the property, absent from the code): R on the curve and not the identity; 0 <= z < n; the master public key on the curve and not the identity',
          bound_note='id <= 8 bytes, message <= 8 bytes (hash input buffer copied by memcpy); the logic is loop-free', **dict(VB, route='bounded'))
