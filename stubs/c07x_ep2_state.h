#pragma once
#include "c07x_ep2.h"
const void *g_d2_dst, *g_d2_bin0, *g_d2_tmp; size_t g_d2_len; int g_d2_tagbit, g_d2_pack;
int g_d2_rx, g_d2_ry, g_d2_rcalls, g_d2_yz, g_d2_ybit, g_d2_upk_calls, g_d2_upk_ok, g_d2_upk_ret, g_d2_onc, g_d2_onc_ok, g_d2_onc_calls,
	g_d2_wcnt, g_d2_onc_wcnt, g_d2_cal_err, g_d2_inf_calls, g_d2_inf_ok, g_d2_z1, g_d2_bitok, g_d2_bitval;
int g_d2_infty, g_d2_nrm_calls, g_d2_nrm_ok, g_d2_pck_calls, g_d2_pck_ok, g_d2_bit, g_d2_bit_ok, g_d2_bit_calls, g_d2_wx, g_d2_wy, g_d2_wcalls, g_d2_cyc, g_d2_cyc_calls;
unsigned char g_d2_outx, g_d2_outy; int g_d2_upk_wcnt, g_d2_rd_wcnt;
