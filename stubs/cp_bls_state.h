#pragma once
#include "cp_bls.h"
const void *g_blsq; int g_unity, g_valid_q, g_pair_calls, g_pair_m, g_map_calls;
