#pragma once
#include "c07x_gt.h"
#include "c07x_ep2_state.h"
int g_d2_rmask, g_d2_zmask, g_d2_bc_calls, g_d2_bc_ok, g_d2_wmask;
#if defined(VC_CUSTOM_LONGJMP) && defined(VC_C07X_FP12W)
/* exceptional exit of fp12_write_bin: the abstract callees never jump, so every jump is the function's own wrong-length error */
void longjmp(jmp_buf env, int val) {
	(void)env; (void)val;
	__CPROVER_assert(g_may_throw, "throw only where the contract under proof admits an error exit");
	__CPROVER_assert(g_ctx.code == RLC_ERR, "error exit: the error code is set");
	__CPROVER_assert(g_d2_pack ? (g_d2_cyc_calls == 1 && (g_d2_cyc == 0 || g_d2_cyc == 1)) : g_d2_cyc_calls == 0, "error exit: after the unitarity test (asked iff compression is requested)");
	__CPROVER_assert(g_d2_len != (size_t)VC_FP12W_NEED, "error exit: only when the buffer does not have the length fp12_size_bin advertises");
	__CPROVER_assert(g_d2_wcalls == 0 && g_d2_rcalls == 0 && g_d2_pck_calls == 0, "error exit: before anything is encoded");
	g_thrown = 1;
	__CPROVER_assume(0);
}
#endif
