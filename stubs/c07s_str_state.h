/* ghost state of contracts/c07s_str.h (string conversion of integers) */
#pragma once
#include "c07s_str.h"
int g_c7s_mul_calls;
int g_c7s_div_calls;
