/* public-trace monitor for C20 (see contracts/ct.h).  Branch-free, so that instrumenting it adds no events. */
#pragma once
#include "ct.h"
size_t g_ct_n; int g_ct_bad; int g_ct_on; size_t g_pub0; dig_t g_dig1; size_t g_wit; int g_has;
#ifndef CT_EXPECT
#define CT_EXPECT(k) CT_EXPECT_LOOP(k)
#endif
void ct_branch(const char *what) {
	/* the instrumentation labels the two successors of a branch "taken" / "not-taken"; for a loop head, "taken" is the exit */
	int ev = (what[0] == 'n') ? CT_TAKEN : CT_EXIT;
	g_ct_bad = g_ct_bad | (g_ct_on & (ev != CT_EXPECT(g_ct_n)));
	g_ct_n = g_ct_n + (size_t)g_ct_on;
}
