#pragma once
#include "cp_ecies.h"
int g_mac_verdict, g_dec_calls;
