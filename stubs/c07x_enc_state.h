#pragma once
#include "c07x_enc.h"
const void *g_w_bin0, *g_w_src, *g_w_tmp; size_t g_w_len; int g_w_pack;
int g_w_pb_calls, g_w_pb_ok, g_w_wr_calls, g_w_wr_ok, g_w_cal_err;
int g_w_infty, g_w_infty_calls, g_w_nrm_calls, g_w_nrm_ok, g_w_pck_calls, g_w_pck_ok, g_w_bit, g_w_bit_ok, g_w_bit_calls;
int g_w_wx, g_w_wy, g_w_wcalls; unsigned char g_w_out, g_w_outx, g_w_outy;
#if defined(VC_C07X_EPW) && defined(VC_CUSTOM_LONGJMP)
/* exceptional exit of ep_write_bin (a throw that reaches a handler: the enclosing one for the identity case, the function's own RLC_TRY
   otherwise).  The abstract callees never jump (they record their error and return), so every jump is an error raised by ep_write_bin
   itself: it must be the too-short-buffer error and it must come before any coordinate is encoded. */
void longjmp(jmp_buf env, int val) {
	(void)env; (void)val;
	__CPROVER_assert(g_may_throw, "throw only where the contract under proof admits an error exit");
	__CPROVER_assert(g_ctx.code == RLC_ERR, "error exit: the error code is set");
	__CPROVER_assert(g_w_infty == 0 || g_w_infty == 1, "error exit: after the identity test");
	__CPROVER_assert(g_w_len < (size_t)VC_EPW_NEED, "error exit: only when the buffer is shorter than the advertised length");
	__CPROVER_assert(g_w_wcalls == 0, "error exit: before any coordinate is encoded");
	g_thrown = 1;
	__CPROVER_assume(0);
}
#endif
