/* ghost state and the BYTE-LEVEL MODEL of the three bn functions through which the RSA padding parsers observe the encoded
   message (see contracts/c06x_rsa_pad.h); copy of stubs/c05x_rsa_pad_state.h with the ghost names changed.  These bodies stand in for
   src/bn/relic_bn_shift.c:bn_rsh, relic_bn_mod.c:bn_mod_2b, relic_bn_util.c:bn_is_zero, which are NOT part of these units. */
#pragma once
#include "c06x_rsa_pad.h"
const void *g6_pm_m, *g6_pm_t;
uint8_t g6_em[C06X_KB];
size_t g6_t_lo, g6_t_hi;
int g6_m_trunc_calls;
size_t g6_m_trunc_bytes;

/* result object: every digit and the length arbitrary, except the byte the model delivers */
static void c06x_pm_result(bn_t c, int has_byte, uint8_t byte) {
	dig_t nd[RLC_BN_SIZE];                       /* uninitialised: nondeterministic */
	size_t u = nondet_size();
	__CPROVER_assume(u >= 1 && u <= RLC_BN_SIZE);
	if (has_byte) {
		nd[0] = (nd[0] & ~(dig_t)0xFF) | byte;
	}
	__CPROVER_array_replace(c->dp, nd);
	c->used = u;
	c->sign = RLC_POS;
}
/* t = x >> bits: x is the encoded message (then t != m and m has not been truncated yet) or t itself */
void bn_rsh(bn_t c, const bn_t a, uint_t bits) {
	__CPROVER_assert(((const void *)a == g6_pm_m && (const void *)c != g6_pm_m && g6_m_trunc_calls == 0) || (g6_pm_t != NULL && (const void *)a == g6_pm_t && (const void *)c == g6_pm_t),
		"model precondition: bn_rsh(t, m, .) on the untruncated encoded message, or bn_rsh(t, t, .)");
	__CPROVER_assert(bits % 8 == 0, "model precondition: bn_rsh by whole bytes");
	__CPROVER_assert(c->alloc == RLC_BN_SIZE, "model precondition: bn_rsh into an initialised integer");
	size_t lo = ((const void *)a == g6_pm_m ? (size_t)0 : g6_t_lo) + (size_t)(bits / 8);
	g6_t_hi = ((const void *)a == g6_pm_m ? (size_t)C06X_KB : g6_t_hi);
	g6_t_lo = C06X_MIN((size_t)C06X_KB, lo);
	g6_pm_t = (const void *)c;
	c06x_pm_result(c, 1, g6_t_lo < g6_t_hi ? g6_em[g6_t_lo] : 0);
}
/* c = a mod 2^b in place (b is an int; b <= 0 gives 0): on t the window shrinks, on m the truncation is recorded */
void bn_mod_2b(bn_t c, const bn_t a, int b) {
	__CPROVER_assert((const void *)c == (const void *)a && ((const void *)a == g6_pm_m || (g6_pm_t != NULL && (const void *)a == g6_pm_t)), "model precondition: bn_mod_2b in place on m or t");
	__CPROVER_assert(b % 8 == 0, "model precondition: bn_mod_2b to whole bytes");
	size_t nb = b <= 0 ? (size_t)0 : C06X_MIN((size_t)(b / 8), (size_t)C06X_KB);
	if ((const void *)a == g6_pm_m) {
		g6_m_trunc_calls++;
		g6_m_trunc_bytes = b <= 0 ? (size_t)0 : (size_t)(b / 8);
		c06x_pm_result(c, 0, 0);
	} else {
		g6_t_hi = C06X_MIN(g6_t_hi, g6_t_lo + nb);
		c06x_pm_result(c, 1, g6_t_lo < g6_t_hi ? g6_em[g6_t_lo] : 0);
	}
}
int bn_is_zero(const bn_t a) {
	__CPROVER_assert(g6_pm_t != NULL && (const void *)a == g6_pm_t, "model precondition: bn_is_zero asked about t");
	return c06x_allzero(g6_t_lo, g6_t_hi);
}
