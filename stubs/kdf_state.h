#pragma once
#include "kdf.h"
unsigned g_kc; const uint8_t *g_kin; size_t g_kinlen; dig_t g_kval; int g_valseen; uint8_t g_kd[8][RLC_MD_LEN];
