#pragma once
#include "c14y_b2w.h"
struct vc2w_ghost g2w; uint8_t g2w_dig[32];
