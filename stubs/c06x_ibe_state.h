#pragma once
#include "c06x_ibe.h"
c6_id g_ix_in, g_ix_prv, g_ix_p, g_ix_e, g_ix_buf;
int g_ix_sz;
int g_ix_rd_calls, g_ix_rd_ok, g_ix_map_calls, g_ix_map_ok, g_ix_sz_calls, g_ix_sz_ok, g_ix_wr_calls, g_ix_wr_ok, g_ix_md_calls, g_ix_md_ok;
uint8_t g_ix_H[RLC_MD_LEN], g_ix_v;
