#pragma once
#include "dec.h"
const void *g_dst, *g_bin0; int g_v_sign, g_v_cmp_p, g_v_zero, g_conv_calls, g_read_calls; size_t g_read_len;
int g_rd_x, g_rd_y, g_v_oncurve, g_upk_calls, g_err_x, g_err_y;
