#pragma once
#include "c14x_aes.h"
unsigned g_ec; const void *g_erk[VC_ANB], *g_ein[VC_ANB], *g_eout[VC_ANB]; int g_enr[VC_ANB]; uint8_t g_ei[VC_ANB][16]; uint8_t g_eo[VC_ANB][16];
