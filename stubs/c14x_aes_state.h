#pragma once
#include "c14x_aes.h"
unsigned g_ec; size_t g_erk_o[VC_ANB], g_erk_f[VC_ANB], g_ein_o[VC_ANB], g_ein_f[VC_ANB], g_eout_o[VC_ANB], g_eout_f[VC_ANB]; int g_enr[VC_ANB]; uint8_t g_ei[VC_ANB][16]; uint8_t g_eo[VC_ANB][16];
