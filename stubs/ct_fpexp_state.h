#pragma once
#include "ct_fpexp.h"
size_t g_xn; int g_xbad; size_t g_xbits;
