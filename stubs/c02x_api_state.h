/* ghost state of contracts/c02x_api.h */
#pragma once
#include "c02x_api.h"
int g_x_cd_calls; dig_t g_x_cd_dig; vc_fpw g_x_cd_val; vc_xid g_x_cd_dst;
int g_x_pb_calls, g_x_ev_calls, g_x_ev_v; vc_xid g_x_pb_src, g_x_pb_dst, g_x_ev_arg;
