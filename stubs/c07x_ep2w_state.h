#pragma once
#include "c07x_ep2w.h"
#include "c07x_ep2_state.h"
#if defined(VC_CUSTOM_LONGJMP) && (defined(VC_C07X_EP2W) || defined(VC_C07X_FP2W))
/* exceptional exit (a throw that reaches a handler).  The abstract callees never jump (they record their error and return), so every
   jump is an error raised by the encoder itself: it must be the too-short-buffer error and come before anything is encoded. */
void longjmp(jmp_buf env, int val) {
	(void)env; (void)val;
	__CPROVER_assert(g_may_throw, "throw only where the contract under proof admits an error exit");
	__CPROVER_assert(g_ctx.code == RLC_ERR, "error exit: the error code is set");
#ifdef VC_C07X_EP2W
	__CPROVER_assert(g_d2_infty == 0 || g_d2_infty == 1, "error exit: after the identity test");
	__CPROVER_assert(g_d2_len < (size_t)VC_EP2W_NEED, "error exit: only when the buffer is shorter than the advertised length");
#else
	__CPROVER_assert(g_d2_pack ? (g_d2_cyc == 0 || g_d2_cyc == 1) : g_d2_cyc_calls == 0, "error exit: after the unitarity test");
	__CPROVER_assert(g_d2_len < (size_t)VC_FP2W_NEED, "error exit: only when the buffer is shorter than the advertised length");
	__CPROVER_assert(g_d2_pck_calls == 0 && g_d2_bit_calls == 0, "error exit: before packing");
#endif
	__CPROVER_assert(g_d2_wcalls == 0, "error exit: before any coordinate is encoded");
	g_thrown = 1;
	__CPROVER_assume(0);
}
#endif
