#pragma once
#include "c15x_gen.h"
unsigned g15_gc;
