#pragma once
#include "hmac.h"
unsigned g_hc; size_t g_hlen[4]; uint8_t g_hobs[4]; int g_hobs_set[4]; uint8_t g_hd[4][RLC_MD_LEN];
