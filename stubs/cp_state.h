#pragma once
#include "cp_ecdsa.h"
const void *g_r, *g_s, *g_q;
int g_sign_r, g_sign_s, g_zero_r, g_zero_s, g_cmp_r, g_cmp_s, g_oncurve, g_infty, g_infty_q, g_cmpsec;
size_t g_cmpsec_len, g_last_mod_used, g_read_len, g_rsh_bits, g_ord_bits;
int g_md_calls, g_mulsim_calls;
