#pragma once
#include "c05x_pair.h"
c5_id g_t[C5_N];
int g_val[C5_N], g_inf[C5_N], g_onc[C5_N], g_sgn[C5_N], g_zer[C5_N], g_cmpn[C5_N], g_cpy[C5_N], g_mulb[C5_N];
int g_inf_other;
int g_pair_calls, g_pair_m, g_pair_all2; c5_id g_pair_r, g_pair_p, g_pair_q;
int g_cmp_calls, g_cmp; c5_id g_cmp_a, g_cmp_b;
int g_unity_calls, g_unity_ok;
int g_md_calls, g_read_calls, g_mod_calls, g_mulgen_calls, g_mul_calls, g_add_calls, g_norm_calls;
size_t g_read_len; c5_id g_read_a, g_read_bin, g_md_msg, g_md_out; size_t g_md_len;
c5_id g_mod_c, g_mod_a, g_mod_m, g_ord_n;
c5_id g_mulgen_r, g_mulgen_k, g_mul_r, g_mul_p, g_mul_k, g_add_r, g_add_p, g_add_q, g_norm_r, g_norm_p;
c5_id g_neg_r, g_gen_r, g_sub_r, g_sub_p, g_sub_q;
int g_wr_calls; size_t g_sz;
size_t g_szr, g_szo;
c5_id g_sid[C5_S]; int g_src[C5_S]; int g_sovf;
int g_eq_p0[C5_E], g_eq_q0[C5_E], g_eq_p1[C5_E], g_eq_q1[C5_E], g_eq_un[C5_E];
