#pragma once
#include "c12x_valid.h"
int g12_fam;
dig_t g12_par, g12_ord, g12_cof;
int g12_spslen;
int g12_sps[8];
int g12_ops;
int g12_inf_n, g12_onc_n, g12_cmp_n, g12_cmp_v, g12_cyc_n, g12_cyc_k, g12_cof_n, g12_cof_ok;
c12_id g12_inf_id, g12_onc_id, g12_cyc_id;
dig_t g12_cmp_l, g12_cmp_r;
