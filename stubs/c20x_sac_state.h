#pragma once
#include "c20x_sac.h"
size_t g_pub_ubits, g_len0;
