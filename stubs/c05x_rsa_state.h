#pragma once
#include "c05x_rsa.h"
const void *g_rx_sig, *g_rx_msg, *g_rx_n, *g_rx_e;
size_t g_rx_siglen, g_rx_msglen;
int g_rx_hash;
size_t g_rx_nbits;
const void *g_rx_eb;
int g_rx_seq;
int g_rx_rd_calls, g_rx_rd_ok, g_rx_rd_seq;
int g_rx_cmpn, g_rx_cmpn_seq;
int g_rx_mxp_calls, g_rx_mxp_ok, g_rx_mxp_seq;
int g_rx_pad_calls, g_rx_pad_ok, g_rx_pad_ret, g_rx_pad_op, g_rx_pad_seq;
size_t g_rx_pad_k, g_rx_pad_m;
int g_rx_wr_calls, g_rx_wr_ok, g_rx_wr_seq;
size_t g_rx_wr_len;
int g_rx_mdmsg_calls, g_rx_mdenc_calls, g_rx_mdenc_ok;
int g_rx_cs_calls, g_rx_cs_ret, g_rx_cs_a_ok, g_rx_cs_b_ok, g_rx_cs_seq;
size_t g_rx_cs_len;
uint8_t g_rx_H1[RLC_MD_LEN];
uint8_t g_rx_H2[RLC_MD_LEN];
uint8_t g_rx_EMH[RLC_MD_LEN];
uint8_t g_rx_M[RLC_MD_LEN];
