/* ghost state and DIGIT-LEVEL MODEL bodies of the integer functions through which pad_pkcs2 (verification) handles the encoded message; they stand in for
   relic_bn_mod.c:bn_mod_2b, relic_bn_shift.c:bn_rsh, relic_bn_util.c:bn_read_bin/bn_write_bin and relic_md_mgf.c:md_mgf, which are NOT part of the unit.
   Model preconditions are assertions.  Digits at index >= used are ARBITRARY after every model call. */
#pragma once
#include "c05y_rsa_pss.h"
dig_t g_m0[C05Y_KD]; uint8_t g_mask[C05Y_KB]; uint8_t g_seed[RLC_MD_LEN]; int g_mgf_calls; size_t g_mgf_len, g_mgf_inlen;
dig_t nondet_dig(void);
static void c05y_store(bn_t c, const dig_t *v) {
	int u = C05Y_KD;
	for (int i = C05Y_KD - 1; i >= 1; i--) { if (u == i + 1 && v[i] == 0) u = i; }
	for (int i = 0; i < C05Y_KD; i++) { c->dp[i] = i < u ? v[i] : nondet_dig(); }
	c->used = u; c->sign = RLC_POS;
}
void bn_mod_2b(bn_t c, const bn_t a, int b) {
	__CPROVER_assert(a->used >= 1 && a->used <= C05Y_KD && c->alloc == RLC_BN_SIZE && b >= 0 && b % 8 == 0, "model precondition: bn_mod_2b");
	dig_t v[C05Y_KD];
	for (int i = 0; i < C05Y_KD; i++) {
		int keep = b - 64 * i;
		dig_t d = C05Y_DIG(a, i);
		v[i] = keep <= 0 ? 0 : keep >= 64 ? d : (d & ((((dig_t)1) << keep) - 1));
	}
	c05y_store(c, v);
}
void bn_rsh(bn_t c, const bn_t a, uint_t bits) {
	__CPROVER_assert(a->used >= 1 && a->used <= C05Y_KD && c->alloc == RLC_BN_SIZE && bits % 8 == 0, "model precondition: bn_rsh by whole bytes");
	dig_t v[C05Y_KD]; int d = bits / 64, r = bits % 64;
	for (int i = 0; i < C05Y_KD; i++) {
		dig_t lo = (i + d < C05Y_KD) ? C05Y_DIG(a, i + d) : 0, hi = (i + d + 1 < C05Y_KD) ? C05Y_DIG(a, i + d + 1) : 0;
		v[i] = r == 0 ? lo : ((lo >> r) | (hi << (64 - r)));
	}
	c05y_store(c, v);
}
void bn_write_bin(uint8_t *bin, size_t len, const bn_t a) {
	__CPROVER_assert(a->used >= 1 && a->used <= C05Y_KD && len <= C05Y_KB, "model precondition: bn_write_bin");
	for (size_t j = 0; j < C05Y_KB; j++) {
		uint8_t b = (uint8_t)(C05Y_DIG(a, j / 8) >> (8 * (j % 8)));
		if (j < len) bin[len - 1 - j] = b; else __CPROVER_assert(b == 0, "model precondition: bn_write_bin: the value fits the buffer");
	}
}
void bn_read_bin(bn_t a, const uint8_t *bin, size_t len) {
	__CPROVER_assert(a->alloc == RLC_BN_SIZE && len <= C05Y_KB, "model precondition: bn_read_bin");
	dig_t v[C05Y_KD];
	for (int i = 0; i < C05Y_KD; i++) {
		dig_t d = 0;
		for (int s = 7; s >= 0; s--) { size_t j = 8 * (size_t)i + s; d = (d << 8) | (j < len ? bin[len - 1 - j] : 0); }
		v[i] = d;
	}
	c05y_store(a, v);
}
void md_mgf(uint8_t *key, size_t key_len, const uint8_t *in, size_t in_len) {
	__CPROVER_assert(key_len <= C05Y_KB && in_len == RLC_MD_LEN, "model precondition: md_mgf");
	g_mgf_calls++; g_mgf_len = key_len; g_mgf_inlen = in_len;
	for (size_t i = 0; i < RLC_MD_LEN; i++) g_seed[i] = in[i];
	for (size_t j = 0; j < C05Y_KB; j++) { if (j < key_len) key[j] = g_mask[j]; }
}
