#pragma once
#include "ct_ladder.h"
size_t g_ev_n; int g_ev_bad; size_t g_pub_bits;
