/* ghost state of contracts/c02x_inv.h, the exceptional-exit check (longjmp stub) and the cut-point stubs of the entry-part units */
#pragma once
#include "c02x_inv.h"
vc_xid g_x_a, g_x_c; int g_x_zv, g_x_zcalls; vc_xid g_x_zarg; err_t g_x_err; int g_x_code0, g_x_body;
vc_xid g_x_exp_c, g_x_exp_a, g_x_exp_e, g_x_cp_src, g_x_cp_dst, g_x_sub_c, g_x_sub_a, g_x_sub_dp;
int g_x_exp_calls, g_x_cp_calls, g_x_sub_calls, g_x_low_calls; dig_t g_x_sub_b; size_t g_x_cp_n;
dig_t g_x_ab[RLC_FP_DIGS], g_x_cb[RLC_FP_DIGS];

#include "vc_spec_push.h"
#ifdef VC_CUSTOM_LONGJMP
/* exceptional exit of an inversion: reached only by the guard's throw, i.e. after the zero test on the input said "zero";
   ERR_NO_VALID is in the handler's slot, the sticky code is RLC_ERR, no body callee ran, the output is untouched */
void longjmp(jmp_buf env, int val) {
	(void)env; (void)val;
	__CPROVER_assert(g_may_throw, "throw only where the contract under proof admits an error exit");
	__CPROVER_assert(g_x_zcalls == 1 && g_x_zv == 1 && g_x_zarg == g_x_a, "EXC: thrown only after fp_is_zero(input) returned 1");
	__CPROVER_assert(g_ctx.code == RLC_ERR && g_x_err == ERR_NO_VALID, "EXC: code is RLC_ERR and the handler receives ERR_NO_VALID");
	__CPROVER_assert(g_x_body == 0, "EXC: no body callee ran before the throw");
	__CPROVER_assert(!(gk < RLC_FP_DIGS) || VC_X_OUT(gk) == g_dig0, "EXC: output untouched");
#ifdef VC_X_PROBE
	__CPROVER_assert(0, "EXC: probe (vacuity check, must FAIL)");
#endif
	g_thrown = 1;
	__CPROVER_assume(0);
}
#endif
#ifdef VC_X_CUT
/* cut point: the first callee behind the guard.  The part of the function behind it is NOT covered by the entry-part units. */
static void vc_x_cut(void) {
	__CPROVER_assert(g_x_zcalls == 1 && g_x_zv == 0 && g_x_zarg == g_x_a, "CUT: body entered only after fp_is_zero(input) returned 0");
	__CPROVER_assert(g_ctx.code == g_x_code0 && g_thrown == 0, "CUT: the guard raised nothing for a non-zero input");
	__CPROVER_assert(!(gk < RLC_FP_DIGS) || VC_X_OUT(gk) == g_dig0, "CUT: output not written before the guard");
#ifdef VC_X_PROBE
	__CPROVER_assert(0, "CUT: probe (vacuity check, must FAIL)");
#endif
	__CPROVER_assume(0);
}
void bn_make(bn_t a, size_t digits) { (void)a; (void)digits; vc_x_cut(); }
void fp_copy(fp_t c, const fp_t a) { (void)c; (void)a; vc_x_cut(); }
void fp_zero(fp_t a) { (void)a; vc_x_cut(); }
const dig_t *fp_prime_get(void) { vc_x_cut(); return g_p; }
void fp_prime_back(bn_t c, const fp_t a) { (void)c; (void)a; vc_x_cut(); }
#endif
#include "vc_spec_pop.h"
#ifndef VC_X_PROBE_POST
#define VC_X_PROBE_POST __CPROVER_assert(g_x_zv != 1, "RET1: probe return on verdict zero (must FAIL)"); __CPROVER_assert(g_x_zv != 0, "RET0: probe return on verdict non-zero (must FAIL unless cut unit)")
#endif
