#pragma once
#include "c14x_bc.h"
unsigned g_mk_calls, g_ci_calls, g_pp_calls;
int g_mk_ret, g_mk_dir, g_mk_bits; size_t g_mk_inst_o, g_mk_key_o, g_mk_key_f;
int g_ci_ret, g_ci_mode, g_ci_ivnull; size_t g_ci_inst_o;
int g_pp_ret, g_pp_n, g_pp_mode; size_t g_pp_ci_o, g_pp_key_o, g_pp_in_o, g_pp_in_f, g_pp_out_o, g_pp_out_f; uint8_t g_pp_iv[16];
