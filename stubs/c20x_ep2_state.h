#pragma once
#include "c20x_ep2.h"
size_t g_ev_n; int g_ev_bad; size_t g_pub_bits, g_pub_ubits; int g_endom;
