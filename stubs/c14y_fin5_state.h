#pragma once
#include "sha_state.h"
#include "c14y_fin5.h"
unsigned g5f_calls; uint8_t g5f_pad; size_t g5f_ctx_o; uint64_t g5f_len_hi, g5f_len_lo;
