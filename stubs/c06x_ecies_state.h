#pragma once
#include "c06x_ecies.h"
c6_id g_ex_in, g_ex_out, g_ex_outlen, g_ex_r, g_ex_d;
size_t g_ex_inlen;
int g_ex_level;
int g_ex_seq;
int g_ex_mul_calls, g_ex_mul_ok;
c6_id g_ex_p;
int g_ex_x_calls, g_ex_x_ok;
int g_ex_kdf_calls, g_ex_kdf_ok, g_ex_kdf_seq;
c6_id g_ex_key;
size_t g_ex_keylen;
int g_ex_mac_calls, g_ex_mac_ok, g_ex_mac_seq;
c6_id g_ex_mac;
int g_ex_cmp_calls, g_ex_cmp_ok, g_ex_cmp_ret, g_ex_cmp_seq;
int g_ex_dec_calls, g_ex_dec_ok, g_ex_dec_ret, g_ex_dec_seq;
size_t g_ex_dec_len;
