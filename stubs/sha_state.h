#pragma once
#include "src/md/sha.h"
unsigned g_blk_n; uint8_t g_blk[3][64]; unsigned g5_blk_n; uint8_t g5_blk[3][128]; size_t g_obs_blk; uint8_t g_obs_val; int g_obs_set; size_t g_idx0;
