#pragma once
#include "c07x_ptw.h"
#include "c07x_enc_state.h"
int g_w_wmask;
#if defined(VC_CUSTOM_LONGJMP) && (defined(VC_C07X_EBW) || defined(VC_C07X_EDW))
/* exceptional exit of the point encoder: the abstract callees never jump, so every jump is the encoder's own error: it must be the
   too-short-buffer error and come before any coordinate is encoded */
void longjmp(jmp_buf env, int val) {
	(void)env; (void)val;
	__CPROVER_assert(g_may_throw, "throw only where the contract under proof admits an error exit");
	__CPROVER_assert(g_ctx.code == RLC_ERR, "error exit: the error code is set");
	__CPROVER_assert(g_w_infty == 0 || g_w_infty == 1, "error exit: after the identity test");
	__CPROVER_assert(g_w_len < (size_t)VC_PW_NEED, "error exit: only when the buffer is shorter than the advertised length");
	__CPROVER_assert(g_w_wcalls == 0, "error exit: before any coordinate is encoded");
	g_thrown = 1;
	__CPROVER_assume(0);
}
#endif
