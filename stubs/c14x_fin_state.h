#pragma once
#include "sha_state.h"
#include "c14x_fin.h"
unsigned g_fin_calls; uint8_t g_fin_pad; size_t g_fin_ctx_o;
