#pragma once
#include "c14y_b2s.h"
struct vc2_ghost g2s; size_t g2_ob, g2_oi;
#ifdef VC_B2S_MEMCPY_MODEL
/* byte-loop model of memcpy for copies of at most one 64-byte block (CBMC's built-in model with a symbolic length and a symbolic offset into the
   state object did not finish: > 600 s, 8 GB); a longer copy fails the assertion */
void *memcpy(void *dst, const void *src, size_t n) {
	__CPROVER_assert(n <= 64, "memcpy model: at most one block");
	for (size_t i = 0; i < 64; i++) { if (i < n) ((unsigned char *)dst)[i] = ((const unsigned char *)src)[i]; }
	return dst;
}
#endif
