#pragma once
#include "c14y_b2s.h"
unsigned g2_n; size_t g2_ob, g2_oi; uint8_t g2_val; uint32_t g2_t0, g2_t1, g2_f0, g2_f1; int g2_set; vc2_u64 g2_src;
