#pragma once
#include "c14y_xmd.h"
unsigned g_xn; int g_xopen; const void *g_xctx; size_t g_xlen[VC_XNH]; uint8_t g_xobs[VC_XNH]; int g_xset[VC_XNH]; uint8_t g_xd[VC_XNH][VC_XB]; int g_xfail; unsigned g_xcalls;
