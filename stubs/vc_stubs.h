/* Substitutions of the verification build (complete list in DESIGN.md 3.2).  Included once per harness. */
#pragma once
#include "vc_prelude.h"

VC_CTX_TYPE g_ctx;
sts_t g_sts;
int g_thrown;
int g_handler;
int g_may_throw;
struct vc_snap_t vc_snap;
size_t gk;
#ifdef VC_UNIT_FP
dig_t g_p[RLC_FP_DIGS];
#endif
dig_t g_dig0;
dig_t g_ak, g_bk;
unsigned char g_byte0;
dig_t g_cy[VC_MAXN + 2];

/* core_get(): the real one returns the thread's context pointer; here: the harness context. */
ctx_t *core_get(void) { return (ctx_t *)&g_ctx; }
_Static_assert(__builtin_offsetof(ctx_t, caught) == __builtin_offsetof(struct vc_ctx_prefix, caught), "prefix layout");

/* setjmp has no body for CBMC: it returns 0 (direct return) only.  glibc maps setjmp to _setjmp. */
#ifndef VC_CUSTOM_SETJMP
int _setjmp(jmp_buf env) { (void)env; return 0; }
#endif
/* longjmp: exceptional exit.  Control never comes back to the thrower; the handler side is out of reach (DESIGN P10). */
#ifndef VC_CUSTOM_LONGJMP
void longjmp(jmp_buf env, int val) {
	(void)env; (void)val;
	__CPROVER_assert(g_may_throw, "throw only where the contract under proof admits an error exit");
	g_thrown = 1;
	__CPROVER_assume(0);
}
#endif
/* stderr printing / backtrace */
void err_full_msg(const char *function, const char *file, int line, int error) { (void)function; (void)file; (void)line; (void)error; }
void err_simple_msg(int error) { (void)error; }

size_t nondet_size(void);
int nondet_int(void);
dig_t nondet_dig(void);
unsigned char nondet_uchar(void);

/* context set-up used by harnesses: error code and handler chain nondeterministic */
static inline void vc_ctx_havoc(void) {
	g_ctx.code = nondet_int() ? RLC_OK : RLC_ERR;
	g_handler = nondet_int() ? 1 : 0;
	g_sts.block = 1;
	g_sts.error = NULL;
	g_ctx.last = g_handler ? &g_sts : NULL;
	g_ctx.caught = nondet_int() ? 1 : 0;
	g_thrown = 0;
	g_may_throw = nondet_int() ? 1 : 0;
}
#define VC_CANARY() __CPROVER_assert(0, "canary-reachable")
