/* ghost state and the branch monitor of contracts/c20x_rec.h.  Branch-free, so that instrumenting it adds no events (DESIGN P26). */
#pragma once
#include "c20x_rec.h"
size_t g_ct_n; int g_ct_bad; int g_ct_on;
size_t g_ev_n; int g_ev_bad;
size_t g_pub_n, g_pub_w, g_pub_len, g_pub_used;
void c20x_branch(const char *what) {
	/* the instrumentation labels the two successors of a goto-level branch "taken" / "not-taken": an `if (c)` is compiled to
	   "IF !c GOTO else", a loop head to "IF !c GOTO exit", so "not-taken" = the source condition held */
	int ev = (what[0] == 'n') ? 1 : 0;
	g_ct_bad = g_ct_bad | (g_ct_on & (ev != BR_EXPECT(g_ct_n)));
	g_ct_n = g_ct_n + (size_t)g_ct_on;
}
