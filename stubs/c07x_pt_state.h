#pragma once
#include "c07x_pt.h"
#include "c07x_ep2_state.h"
int g_d2_cp_calls, g_d2_cp_ok, g_d2_bits_calls, g_d2_bits_ok; size_t g_d2_bits;
#if defined(VC_CUSTOM_LONGJMP) && defined(VC_C07X_FBR)
/* exceptional exit of fb_read_bin: the abstract callees never jump, so every jump is an error raised by fb_read_bin itself: the wrong
   length (before anything is decoded) or a decoded integer longer than the field degree (before the output is written) */
void longjmp(jmp_buf env, int val) {
	(void)env; (void)val;
	__CPROVER_assert(g_may_throw, "throw only where the contract under proof admits an error exit");
	__CPROVER_assert(g_ctx.code == RLC_ERR, "error exit: the error code is set");
	__CPROVER_assert(g_d2_len != RLC_FB_BYTES ? g_d2_rcalls == 0 : (g_d2_rcalls == 1 && g_d2_bits_calls == 1 && g_d2_bits_ok == 1 && g_d2_bits > RLC_FB_BITS),
		"error exit: only for a wrong length or a decoded integer longer than the field degree");
	__CPROVER_assert(g_d2_cp_calls == 0, "error exit: before the output is written");
	g_thrown = 1;
	__CPROVER_assume(0);
}
#endif
