#pragma once
#include "c07x_pt.h"
#include "c07x_ep2_state.h"
int g_d2_cp_calls, g_d2_cp_ok;
