#pragma once
#include "c15x_df.h"
unsigned g15_hc; size_t g15_hlen[VC15_NH]; uint8_t g15_hb[VC15_NH][5]; uint8_t g15_hat[VC15_NH]; vc_h256 g15_ho[VC15_NH]; size_t g15_j;
