#pragma once
#include "c06x_rsa.h"
c6_id g_dx_in, g_dx_out, g_dx_n, g_dx_dp, g_dx_dq, g_dx_crt;
size_t g_dx_inlen, g_dx_cap;
size_t g_dx_k;
c6_id g_dx_eb;
int g_dx_seq;
int g_dx_rd_calls, g_dx_rd_ok, g_dx_rd_seq;
int g_dx_cmpn, g_dx_cmpn_seq;
int g_dx_mxp_calls, g_dx_mxp_ok, g_dx_mxp_seq;
int g_dx_pad_calls, g_dx_pad_ok, g_dx_pad_ret, g_dx_pad_op, g_dx_pad_seq;
size_t g_dx_pad_k, g_dx_pad_plen;
int g_dx_wr_calls, g_dx_wr_ok, g_dx_wr_seq;
size_t g_dx_wr_len;
uint8_t g_dx_W[C06X_MAXOUT];
