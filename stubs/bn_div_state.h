#pragma once
#include "bn_div.h"
vc_wide g_dq, g_dr, g_da, g_db;
int g_div_calls;
dig_t g_d1r, g_d1b;
