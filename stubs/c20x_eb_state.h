#pragma once
#include "c20x_eb.h"
size_t g_ev_n; int g_ev_bad; size_t g_pub_bits;
