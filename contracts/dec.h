/* Decoders of field elements and prime-curve points (property C07, the validation half): a decoder either reports an error or
   has evaluated - on the right object - every check the format demands, and found it true.  Callees abstract (frame +
   verdict recorded in ghost state).  The arithmetic (Montgomery conversion, square root of decompression, curve equation) is
   not covered; what is proved is that NO byte string gets through without the range / tag / length / on-curve checks. */
#pragma once
#include "vc_prelude.h"
#define VC_UNASKED (-9)
extern const void *g_dst, *g_bin0;
extern int g_v_sign, g_v_cmp_p, g_v_zero, g_conv_calls, g_read_calls;
extern size_t g_read_len;
extern int g_rd_x, g_rd_y, g_v_oncurve, g_upk_calls, g_err_x, g_err_y;

#include "vc_spec_push.h"
/* ---- callees of fp_read_bin ------------------------------------------------------------------------------------------- */
void bn_read_bin_d(bn_t a, const uint8_t *bin, size_t len)
__CPROVER_requires(__CPROVER_is_fresh(a, sizeof(bn_st)) && a->alloc == RLC_BN_SIZE && __CPROVER_is_fresh(bin, len) && len <= RLC_BN_SIZE * (RLC_DIG / 8))
VC_ASSIGNS(a->used, a->sign, __CPROVER_object_upto(a->dp, sizeof(a->dp)), g_read_calls, g_read_len)
__CPROVER_ensures(a->used >= 1 && a->used <= RLC_BN_SIZE && g_read_calls == __CPROVER_old(g_read_calls) + 1 && g_read_len == len && (const void *)bin == g_bin0);
int bn_sign_d(const bn_t a) VC_ASSIGNS(g_v_sign) __CPROVER_ensures((__CPROVER_return_value == RLC_POS || __CPROVER_return_value == RLC_NEG) && g_v_sign == __CPROVER_return_value);
int bn_cmp_d(const bn_t a, const bn_t b) VC_ASSIGNS(g_v_cmp_p)      /* the second operand is the modulus stored in the context */
__CPROVER_ensures((__CPROVER_return_value == RLC_LT || __CPROVER_return_value == RLC_EQ || __CPROVER_return_value == RLC_GT) && g_v_cmp_p == __CPROVER_return_value);
int bn_is_zero_d(const bn_t a) VC_ASSIGNS(g_v_zero) __CPROVER_ensures((__CPROVER_return_value == 0 || __CPROVER_return_value == 1) && g_v_zero == __CPROVER_return_value);
void fp_zero_d(fp_t a) VC_ASSIGNS(__CPROVER_object_upto(a, RLC_FP_DIGS * sizeof(dig_t)), g_conv_calls) __CPROVER_ensures(g_conv_calls == __CPROVER_old(g_conv_calls) + 1);
void fp_prime_conv_d(fp_t c, const bn_t a) VC_ASSIGNS(__CPROVER_object_upto(c, RLC_FP_DIGS * sizeof(dig_t)), g_conv_calls) __CPROVER_ensures(g_conv_calls == __CPROVER_old(g_conv_calls) + 1);
void fp_prime_conv_dig_d(fp_t c, dig_t a) VC_ASSIGNS(__CPROVER_object_upto(c, RLC_FP_DIGS * sizeof(dig_t)), g_conv_calls) __CPROVER_ensures(g_conv_calls == __CPROVER_old(g_conv_calls) + 1);

/* field element: exactly RLC_FP_BYTES bytes, value tested non-negative and below p, converted exactly once; otherwise an error
   is reported and the output is not written */
void fp_read_bin(fp_t a, const uint8_t *bin, size_t len)
__CPROVER_requires(len <= 2 * RLC_FP_BYTES + 2 && __CPROVER_is_fresh(a, RLC_FP_DIGS * sizeof(dig_t)) && __CPROVER_is_fresh(bin, len))
__CPROVER_requires(g_may_throw == 1 && g_ctx.code == RLC_OK && g_bin0 == bin && g_v_sign == VC_UNASKED && g_v_cmp_p == VC_UNASKED && g_v_zero == VC_UNASKED && g_conv_calls == 0 && g_read_calls == 0)
__CPROVER_requires(gk < RLC_FP_DIGS ==> a[gk] == g_dig0)
VC_ASSIGNS(__CPROVER_object_upto(a, RLC_FP_DIGS * sizeof(dig_t)), g_v_sign, g_v_cmp_p, g_v_zero, g_conv_calls, g_read_calls, g_read_len, \
	g_ctx.code, g_ctx.last, g_ctx.caught, g_ctx.error, g_ctx.number, g_thrown)
__CPROVER_ensures(g_ctx.code == RLC_OK || g_ctx.code == RLC_ERR)
__CPROVER_ensures(g_ctx.code == RLC_OK ==> (len == RLC_FP_BYTES && g_read_calls == 1 && g_read_len == RLC_FP_BYTES && g_v_sign == RLC_POS && g_v_cmp_p == RLC_LT && g_conv_calls == 1))
__CPROVER_ensures(len != RLC_FP_BYTES ==> (g_ctx.code == RLC_ERR && g_conv_calls == 0 && (gk < RLC_FP_DIGS ==> a[gk] == g_dig0)))
;
#ifdef VC_DEC_EP
/* ---- callees of ep_read_bin ------------------------------------------------------------------------------------------- */
void fp_read_bin_e(fp_t a, const uint8_t *bin, size_t len)
__CPROVER_requires(__CPROVER_is_fresh(bin, len) && len == RLC_FP_BYTES)
VC_ASSIGNS(__CPROVER_object_upto(a, RLC_FP_DIGS * sizeof(dig_t)), g_rd_x, g_rd_y, g_err_x, g_err_y, g_ctx.code)
__CPROVER_ensures(g_ctx.code == __CPROVER_old(g_ctx.code) || g_ctx.code == RLC_ERR)
__CPROVER_ensures(g_rd_x == (((const void *)a == g_dst && (const void *)bin == (const void *)((const uint8_t *)g_bin0 + 1)) ? 1 : __CPROVER_old(g_rd_x)))
__CPROVER_ensures(g_rd_y == (((const void *)a != g_dst && (const void *)bin == (const void *)((const uint8_t *)g_bin0 + 1 + RLC_FP_BYTES)) ? 1 : __CPROVER_old(g_rd_y)));
void fp_set_dig_e(fp_t c, dig_t a) VC_ASSIGNS(__CPROVER_object_upto(c, RLC_FP_DIGS * sizeof(dig_t)));
void fp_zero_e(fp_t a) VC_ASSIGNS(__CPROVER_object_upto(a, RLC_FP_DIGS * sizeof(dig_t)));
void fp_set_bit_e(fp_t a, uint_t bit, int value) VC_ASSIGNS(__CPROVER_object_upto(a, RLC_FP_DIGS * sizeof(dig_t)));
int ep_upk_e(ep_t r, const ep_t p) VC_ASSIGNS(__CPROVER_object_upto(r, sizeof(ep_st)), g_upk_calls) __CPROVER_ensures(g_upk_calls == __CPROVER_old(g_upk_calls) + 1);
void ep_set_infty_e(ep_t p) VC_ASSIGNS(__CPROVER_object_upto(p, sizeof(ep_st)));
int ep_on_curve_e(const ep_t p) VC_ASSIGNS(g_v_oncurve) __CPROVER_ensures((__CPROVER_return_value == 0 || __CPROVER_return_value == 1) && g_v_oncurve == __CPROVER_return_value);

/* point: accepted only as (1 byte, tag 0) = identity, (B+1 bytes, tag 2|3) = compressed, (2B+1 bytes, tag 4) = uncompressed;
   every coordinate goes through the validating field decoder from the right offset, and the result was tested on the curve */
void ep_read_bin(ep_t a, const uint8_t *bin, size_t len)
__CPROVER_requires(len >= 1 && len <= 2 * RLC_FP_BYTES + 3 && __CPROVER_is_fresh(a, sizeof(ep_st)) && __CPROVER_is_fresh(bin, len))
__CPROVER_requires(g_ctx.code == RLC_OK && g_ctx.last == NULL && g_bin0 == bin && g_dst == (const void *)a->x && g_rd_x == 0 && g_rd_y == 0 && g_v_oncurve == VC_UNASKED && g_upk_calls == 0)
VC_ASSIGNS(__CPROVER_object_whole(a), g_rd_x, g_rd_y, g_err_x, g_err_y, g_v_oncurve, g_upk_calls, g_ctx.code, g_ctx.last, g_ctx.caught, g_ctx.error, g_ctx.number, g_thrown)
__CPROVER_ensures(g_ctx.code == RLC_OK || g_ctx.code == RLC_ERR)
__CPROVER_ensures(g_ctx.code == RLC_OK ==> ((len == 1 && bin[0] == 0) || (len == RLC_FP_BYTES + 1 && (bin[0] == 2 || bin[0] == 3)) || (len == 2 * RLC_FP_BYTES + 1 && bin[0] == 4)))
__CPROVER_ensures((g_ctx.code == RLC_OK && len > 1) ==> (g_rd_x == 1 && g_v_oncurve == 1 && (len == 2 * RLC_FP_BYTES + 1 ? g_rd_y == 1 : g_upk_calls == 1)))
;
#endif
#include "vc_spec_pop.h"
