/* The clauses below are specification text, evaluated by the verifier only: their own reads are not memory accesses of the
   code under proof, so the pointer/bounds checks CBMC would attach to every p[k] in them are switched off here (they
   multiply the obligations ~5x).  Every access made by code from /repo keeps all checks. */
#pragma CPROVER check push
#pragma CPROVER check disable "pointer"
#pragma CPROVER check disable "pointer-overflow"
#pragma CPROVER check disable "pointer-primitive"
#pragma CPROVER check disable "bounds"
#pragma CPROVER check disable "undefined-shift"
#pragma CPROVER check disable "signed-overflow"
