/* ECDSA verification: ACCEPT IMPLIES EVERY GUARD OF THE SCHEME'S DEFINITION WAS EVALUATED ON THE RIGHT OBJECT AND HELD
   (property C05, the encoding/guard half).  Every callee is replaced by an ABSTRACT contract: exact frame, arbitrary result,
   and the verdict recorded in ghost state keyed by the identity of the argument (g_r, g_s, g_q are bound to the function's
   arguments by its precondition).  Nothing is claimed about the group arithmetic or the verification equation. */
#pragma once
#include "vc_prelude.h"

extern const void *g_r, *g_s, *g_q;
extern int g_sign_r, g_sign_s, g_zero_r, g_zero_s, g_cmp_r, g_cmp_s, g_oncurve, g_infty, g_infty_q, g_cmpsec;    /* verdicts, -9 = never asked */
extern size_t g_cmpsec_len, g_last_mod_used, g_read_len, g_rsh_bits, g_ord_bits;
extern int g_md_calls, g_mulsim_calls;
#define VC_UNASKED (-9)
#define VC_BNP(p)   __CPROVER_is_fresh(p, sizeof(bn_st))
#define VC_BN_ANY(a) ((a)->alloc == RLC_BN_SIZE && (a)->used >= 1 && (a)->used <= RLC_BN_SIZE)

#include "vc_spec_push.h"
int bn_sign_g(const bn_t a)
__CPROVER_requires(VC_BNP(a))
VC_ASSIGNS(g_sign_r, g_sign_s)
__CPROVER_ensures(__CPROVER_return_value == RLC_POS || __CPROVER_return_value == RLC_NEG)
__CPROVER_ensures(g_sign_r == ((const void *)a == g_r ? __CPROVER_return_value : __CPROVER_old(g_sign_r)))
__CPROVER_ensures(g_sign_s == ((const void *)a == g_s ? __CPROVER_return_value : __CPROVER_old(g_sign_s)))
;
int bn_is_zero_g(const bn_t a)
__CPROVER_requires(VC_BNP(a))
VC_ASSIGNS(g_zero_r, g_zero_s)
__CPROVER_ensures(__CPROVER_return_value == 0 || __CPROVER_return_value == 1)
__CPROVER_ensures(g_zero_r == ((const void *)a == g_r ? __CPROVER_return_value : __CPROVER_old(g_zero_r)))
__CPROVER_ensures(g_zero_s == ((const void *)a == g_s ? __CPROVER_return_value : __CPROVER_old(g_zero_s)))
;
/* comparison against the group order (the second operand is the local n filled by ep_curve_get_ord) */
int bn_cmp_g(const bn_t a, const bn_t b)
__CPROVER_requires(VC_BNP(a) && VC_BNP(b))
VC_ASSIGNS(g_cmp_r, g_cmp_s)
__CPROVER_ensures(__CPROVER_return_value == RLC_LT || __CPROVER_return_value == RLC_EQ || __CPROVER_return_value == RLC_GT)
__CPROVER_ensures(g_cmp_r == ((const void *)a == g_r ? __CPROVER_return_value : __CPROVER_old(g_cmp_r)))
__CPROVER_ensures(g_cmp_s == ((const void *)a == g_s ? __CPROVER_return_value : __CPROVER_old(g_cmp_s)))
;
size_t bn_bits_g(const bn_t a)
__CPROVER_requires(VC_BNP(a))
VC_ASSIGNS_NONE
__CPROVER_ensures(__CPROVER_return_value == g_ord_bits)        /* only ever asked about the order n in this function */
;
int ep_on_curve_g(const ep_t p)
__CPROVER_requires(__CPROVER_is_fresh(p, sizeof(ep_st)))
VC_ASSIGNS(g_oncurve)
__CPROVER_ensures((__CPROVER_return_value == 0 || __CPROVER_return_value == 1) && g_oncurve == ((const void *)p == g_q ? __CPROVER_return_value : __CPROVER_old(g_oncurve)))
;
int ep_is_infty_g(const ep_t p)
__CPROVER_requires(__CPROVER_is_fresh(p, sizeof(ep_st)))
VC_ASSIGNS(g_infty, g_infty_q)
__CPROVER_ensures(__CPROVER_return_value == 0 || __CPROVER_return_value == 1)
__CPROVER_ensures(g_infty_q == ((const void *)p == g_q ? __CPROVER_return_value : __CPROVER_old(g_infty_q)))     /* asked about the public key */
__CPROVER_ensures(g_infty == ((const void *)p != g_q ? __CPROVER_return_value : __CPROVER_old(g_infty)))        /* asked about the computed point */
;
void ep_curve_get_ord_g(bn_t n)
__CPROVER_requires(VC_BNP(n) && n->alloc == RLC_BN_SIZE)
VC_ASSIGNS(n->used, n->sign, __CPROVER_object_upto(n->dp, sizeof(n->dp)))
__CPROVER_ensures(VC_BN_ANY(n))
;
void bn_mod_inv_g(bn_t c, const bn_t a, const bn_t b)
__CPROVER_requires(VC_BNP(c) && VC_BNP(a) && VC_BNP(b) && c->alloc == RLC_BN_SIZE)
VC_ASSIGNS(c->used, c->sign, __CPROVER_object_upto(c->dp, sizeof(c->dp)))
__CPROVER_ensures(VC_BN_ANY(c))
;
void md_map_sh256_g(uint8_t *hash, const uint8_t *msg, size_t len)
__CPROVER_requires(__CPROVER_is_fresh(hash, RLC_MD_LEN) && __CPROVER_is_fresh(msg, len))
VC_ASSIGNS(__CPROVER_object_upto(hash, RLC_MD_LEN), g_md_calls)
__CPROVER_ensures(g_md_calls == __CPROVER_old(g_md_calls) + 1)
;
void bn_read_bin_g(bn_t a, const uint8_t *bin, size_t len)
__CPROVER_requires(VC_BNP(a) && a->alloc == RLC_BN_SIZE && __CPROVER_is_fresh(bin, len) && len <= RLC_BN_SIZE * (RLC_DIG / 8))
VC_ASSIGNS(a->used, a->sign, __CPROVER_object_upto(a->dp, sizeof(a->dp)), g_read_len)
__CPROVER_ensures(VC_BN_ANY(a) && g_read_len == len)
;
void bn_rsh_g(bn_t c, const bn_t a, uint_t bits)
__CPROVER_requires(VC_BNP(a) && __CPROVER_pointer_equals(c, a) && bits <= 8 * RLC_MD_LEN)
VC_ASSIGNS(c->used, c->sign, __CPROVER_object_upto(c->dp, sizeof(c->dp)), g_rsh_bits)
__CPROVER_ensures(VC_BN_ANY(c) && g_rsh_bits == bits)
;
void bn_mul_comba_g(bn_t c, const bn_t a, const bn_t b)
__CPROVER_requires(VC_BNP(a) && VC_BNP(b) && (__CPROVER_pointer_equals(c, a) || VC_BNP(c)) && c->alloc == RLC_BN_SIZE)
VC_ASSIGNS(c->used, c->sign, __CPROVER_object_upto(c->dp, sizeof(c->dp)))
__CPROVER_ensures(VC_BN_ANY(c))
;
void bn_mod_basic_g(bn_t c, const bn_t a, const bn_t m)
__CPROVER_requires(VC_BNP(a) && VC_BNP(m) && __CPROVER_pointer_equals(c, a))
VC_ASSIGNS(c->used, c->sign, __CPROVER_object_upto(c->dp, sizeof(c->dp)), g_last_mod_used)
__CPROVER_ensures(VC_BN_ANY(c) && g_last_mod_used == c->used)
;
void ep_mul_sim_gen_g(ep_t r, const bn_t k, const ep_t q, const bn_t m)
__CPROVER_requires(__CPROVER_is_fresh(r, sizeof(ep_st)) && VC_BNP(k) && __CPROVER_is_fresh(q, sizeof(ep_st)) && VC_BNP(m) && (const void *)q == g_q)
VC_ASSIGNS(__CPROVER_object_whole(r), g_mulsim_calls)
__CPROVER_ensures(g_mulsim_calls == __CPROVER_old(g_mulsim_calls) + 1)
;
void fp_prime_back_g(bn_t c, const fp_t a)
__CPROVER_requires(VC_BNP(c) && c->alloc == RLC_BN_SIZE && __CPROVER_is_fresh(a, RLC_FP_DIGS * sizeof(dig_t)))
VC_ASSIGNS(c->used, c->sign, __CPROVER_object_upto(c->dp, sizeof(c->dp)))
__CPROVER_ensures(VC_BN_ANY(c))
;
/* the final comparison: constant-time, of the candidate against r, over min(used) digits */
int dv_cmp_sec_g(const dig_t *a, const dig_t *b, size_t size)
__CPROVER_requires(size <= RLC_BN_SIZE && __CPROVER_is_fresh(a, size * sizeof(dig_t)) && __CPROVER_is_fresh(b, size * sizeof(dig_t)))
VC_ASSIGNS(g_cmpsec, g_cmpsec_len)
__CPROVER_ensures((__CPROVER_return_value == RLC_EQ || __CPROVER_return_value == RLC_NE) && g_cmpsec == __CPROVER_return_value && g_cmpsec_len == size)
;

int cp_ecdsa_ver(const bn_t r, const bn_t s, const uint8_t *msg, size_t len, int hash, const ec_t q)
__CPROVER_requires(VC_BNP(r) && VC_BNP(s) && __CPROVER_is_fresh(q, sizeof(ep_st)) && VC_BN_ANY(r) && VC_BN_ANY(s))
__CPROVER_requires(len <= 72 && __CPROVER_is_fresh(msg, len))
__CPROVER_requires(g_r == r && g_s == s && g_q == q && g_ord_bits >= 1 && g_ord_bits <= 521)
__CPROVER_requires(g_sign_r == VC_UNASKED && g_sign_s == VC_UNASKED && g_zero_r == VC_UNASKED && g_zero_s == VC_UNASKED && g_cmp_r == VC_UNASKED && \
	g_cmp_s == VC_UNASKED && g_oncurve == VC_UNASKED && g_infty == VC_UNASKED && g_infty_q == VC_UNASKED && g_cmpsec == VC_UNASKED && g_md_calls == 0 && g_mulsim_calls == 0 && g_read_len == 0 && g_rsh_bits == 0)
VC_ASSIGNS(g_sign_r, g_sign_s, g_zero_r, g_zero_s, g_cmp_r, g_cmp_s, g_oncurve, g_infty, g_infty_q, g_cmpsec, g_cmpsec_len, g_last_mod_used, g_read_len, g_rsh_bits, g_md_calls, g_mulsim_calls, \
	g_ctx.code, g_ctx.last, g_ctx.caught, g_ctx.error, g_ctx.number, g_thrown)
__CPROVER_ensures(__CPROVER_return_value == 0 || __CPROVER_return_value == 1)
/* range and well-formedness guards */
__CPROVER_ensures(__CPROVER_return_value == 1 ==> (g_sign_r == RLC_POS && g_sign_s == RLC_POS && g_zero_r == 0 && g_zero_s == 0 && g_cmp_r == RLC_LT && g_cmp_s == RLC_LT && g_oncurve == 1))
/* the public key is a point of the curve OTHER THAN THE IDENTITY (ep_on_curve alone accepts the point at infinity) */
__CPROVER_ensures(__CPROVER_return_value == 1 ==> g_infty_q == 0)
/* the decision: equal, over the full length of r, of a candidate of the same length, from a point that is not the identity */
__CPROVER_ensures(__CPROVER_return_value == 1 ==> (g_cmpsec == RLC_EQ && g_cmpsec_len == r->used && g_last_mod_used == r->used && g_infty == 0 && g_mulsim_calls == 1))
/* message handling: hashed exactly once unless pre-hashed; digest truncated to the bit length of the order */
__CPROVER_ensures(__CPROVER_return_value == 1 ==> (g_md_calls == (hash ? 0 : 1)))
__CPROVER_ensures(__CPROVER_return_value == 1 ==> (8 * (hash ? len : (size_t)RLC_MD_LEN) > g_ord_bits ? \
	(g_read_len == (g_ord_bits + 7) / 8 && g_rsh_bits == 8 * ((g_ord_bits + 7) / 8) - g_ord_bits) : (g_read_len == (hash ? len : (size_t)RLC_MD_LEN) && g_rsh_bits == 0)))
__CPROVER_ensures(g_ctx.last == __CPROVER_old(g_ctx.last))
;
#ifdef VC_WITH_ECSS
extern const void *__CPROVER_alloca_object;
void bn_write_bin_g(uint8_t *bin, size_t len, const bn_t a)
__CPROVER_requires(len <= 4096 && __CPROVER_is_fresh(bin, len) && VC_BNP(a))
VC_ASSIGNS(__CPROVER_object_upto(bin, len));
/* EC-Schnorr verification: same guard discipline; here g_r stands for the first component e */
int cp_ecss_ver(bn_t e, bn_t s, const uint8_t *msg, size_t len, const ec_t q)
__CPROVER_requires(VC_BNP(e) && VC_BNP(s) && __CPROVER_is_fresh(q, sizeof(ep_st)) && VC_BN_ANY(e) && VC_BN_ANY(s))
__CPROVER_requires(len <= 72 && __CPROVER_is_fresh(msg, len))
__CPROVER_requires(g_r == e && g_s == s && g_q == q && g_ord_bits >= 1 && g_ord_bits <= 521)
__CPROVER_requires(g_sign_r == VC_UNASKED && g_sign_s == VC_UNASKED && g_zero_r == VC_UNASKED && g_zero_s == VC_UNASKED && g_cmp_r == VC_UNASKED && \
	g_cmp_s == VC_UNASKED && g_oncurve == VC_UNASKED && g_infty == VC_UNASKED && g_infty_q == VC_UNASKED && g_cmpsec == VC_UNASKED && g_md_calls == 0 && g_mulsim_calls == 0 && g_read_len == 0 && g_rsh_bits == 0)
VC_ASSIGNS(__CPROVER_alloca_object, g_sign_r, g_sign_s, g_zero_r, g_zero_s, g_cmp_r, g_cmp_s, g_oncurve, g_infty, g_infty_q, g_cmpsec, g_cmpsec_len, g_last_mod_used, g_read_len, g_rsh_bits, g_md_calls, g_mulsim_calls, \
	g_ctx.code, g_ctx.last, g_ctx.caught, g_ctx.error, g_ctx.number, g_thrown)
__CPROVER_ensures(__CPROVER_return_value == 0 || __CPROVER_return_value == 1)
__CPROVER_ensures(__CPROVER_return_value == 1 ==> (g_sign_r == RLC_POS && g_sign_s == RLC_POS && g_zero_s == 0 && g_cmp_r == RLC_LT && g_cmp_s == RLC_LT))
/* the public key is a point of the curve other than the identity */
__CPROVER_ensures(__CPROVER_return_value == 1 ==> (g_oncurve == 1 && g_infty_q == 0))
__CPROVER_ensures(__CPROVER_return_value == 1 ==> (g_cmpsec == RLC_EQ && g_cmpsec_len == e->used && g_last_mod_used == e->used && g_mulsim_calls == 1 && g_md_calls == 1))
__CPROVER_ensures(g_ctx.last == __CPROVER_old(g_ctx.last))
;
#endif
#include "vc_spec_pop.h"
