/* Point encoders and advertised lengths of binary curves (eb_write_bin, eb_size_bin) and Edwards curves (ed_write_bin, ed_size_bin),
   the binary-field encoder fb_write_bin and the sextic-extension encoder fp6_write_bin (property C07, encoding half; C08).
   One contract text for the point encoders, the one of ep_write_bin in c07x_enc.h, instantiated per curve type by the unit's -D switch
   (ghost state shared with c07x_enc.h).  Every callee abstract. */
#pragma once
#include "c07x_enc.h"
extern int g_w_wmask;

#if defined(VC_C07X_EBW) || defined(VC_C07X_EBS)
#define PW_ST eb_st
#define PW_FE fb_t
#define PW_B RLC_FB_BYTES
#define PW_C1 x                 /* the coordinate that is always transmitted (first) */
#define PW_C2 y                 /* the other one: transmitted second, or reduced to the parity bit of the tag */
#define PW_FUNC eb_write_bin
#define PW_SIZE eb_size_bin
#define PW_INF eb_is_infty_w
#define PW_NORM eb_norm_w
#define PW_PCK eb_pck_w
#define PW_GETBIT fb_get_bit_w
#define PW_WRITE fb_write_bin_w
#elif defined(VC_C07X_EDW) || defined(VC_C07X_EDS)
#define PW_ST ed_st
#define PW_FE fp_t
#define PW_B RLC_FP_BYTES
#define PW_C1 y
#define PW_C2 x
#define PW_FUNC ed_write_bin
#define PW_SIZE ed_size_bin
#define PW_INF ed_is_infty_w
#define PW_NORM ed_norm_w
#define PW_PCK ed_pck_w
#define PW_GETBIT fp_get_bit_w
#define PW_WRITE fp_write_bin_w
#endif

#include "vc_spec_push.h"
#ifdef PW_ST
int PW_INF(const PW_ST *p)
VC_ASSIGNS(g_w_infty, g_w_infty_calls)
__CPROVER_ensures((__CPROVER_return_value == 0 || __CPROVER_return_value == 1) && g_w_infty_calls == __CPROVER_old(g_w_infty_calls) + 1)
__CPROVER_ensures(g_w_infty == ((const void *)p == g_w_src ? __CPROVER_return_value : __CPROVER_old(g_w_infty)));
#endif
#if defined(VC_C07X_EBS) || defined(VC_C07X_EDS)
/* advertised length: 1 for the identity, else 1 + B (compressed) or 1 + 2B; the identity test is asked about the argument */
size_t PW_SIZE(const PW_ST *a, int pack)
__CPROVER_requires(__CPROVER_is_fresh(a, sizeof(PW_ST)) && g_w_src == (const void *)a && g_w_infty == VC_UNASKED && g_w_infty_calls == 0)
VC_ASSIGNS(g_w_infty, g_w_infty_calls)
__CPROVER_ensures(g_w_infty == 0 || g_w_infty == 1)
__CPROVER_ensures(__CPROVER_return_value == (g_w_infty == 1 ? 1 : (pack ? 1 + PW_B : 1 + 2 * PW_B)))
;
#endif

#if defined(VC_C07X_EBW) || defined(VC_C07X_EDW)
#define VC_PW_T1 ((const void *)((const PW_ST *)g_w_tmp)->PW_C1)
#define VC_PW_T2 ((const void *)((const PW_ST *)g_w_tmp)->PW_C2)
#define VC_PW_NEED (g_w_infty == 1 ? 1 : (g_w_pack ? 1 + PW_B : 1 + 2 * PW_B))
void PW_NORM(PW_ST *r, const PW_ST *p)
VC_ASSIGNS(__CPROVER_object_upto(r, sizeof(PW_ST)), g_w_nrm_calls, g_w_nrm_ok, g_w_tmp)
__CPROVER_ensures(g_w_nrm_calls == __CPROVER_old(g_w_nrm_calls) + 1 && g_w_tmp == (const void *)r)
__CPROVER_ensures(g_w_nrm_ok == ((const void *)p == g_w_src && (const void *)r != g_w_src && __CPROVER_old(g_w_wcalls) == 0 && __CPROVER_old(g_w_bit_calls) == 0 && __CPROVER_old(g_w_pck_calls) == 0));
void PW_PCK(PW_ST *r, const PW_ST *p)
VC_ASSIGNS(__CPROVER_object_upto(r, sizeof(PW_ST)), g_w_pck_calls, g_w_pck_ok)
__CPROVER_ensures(g_w_pck_calls == __CPROVER_old(g_w_pck_calls) + 1)
__CPROVER_ensures(g_w_pck_ok == ((const void *)r == g_w_tmp && (const void *)p == g_w_tmp && g_w_nrm_calls == 1 && __CPROVER_old(g_w_wcalls) == 0 && __CPROVER_old(g_w_bit_calls) == 0));
int PW_GETBIT(const PW_FE a, uint_t bit)
VC_ASSIGNS(g_w_bit, g_w_bit_ok, g_w_bit_calls)
__CPROVER_ensures((__CPROVER_return_value == 0 || __CPROVER_return_value == 1) && g_w_bit == __CPROVER_return_value && g_w_bit_calls == __CPROVER_old(g_w_bit_calls) + 1)
__CPROVER_ensures(g_w_bit_ok == ((const void *)a == VC_PW_T2 && bit == 0 && g_w_nrm_calls == 1 && g_w_pck_calls == 1));
void PW_WRITE(uint8_t *bin, size_t len, const PW_FE a)
VC_ASSIGNS(__CPROVER_object_upto(bin, len), g_w_wx, g_w_wy, g_w_wcalls, g_w_cal_err, g_w_outx, g_w_outy, g_ctx.code)
__CPROVER_ensures(g_w_wcalls == __CPROVER_old(g_w_wcalls) + 1)
__CPROVER_ensures(g_w_wx == (((const void *)bin == (const void *)((const uint8_t *)g_w_bin0 + 1) && len == PW_B && (const void *)a == VC_PW_T1 && g_w_nrm_calls == 1 && g_w_pck_calls == (g_w_pack ? 1 : 0)) ? 1 : __CPROVER_old(g_w_wx)))
__CPROVER_ensures(g_w_wy == (((const void *)bin == (const void *)((const uint8_t *)g_w_bin0 + 1 + PW_B) && len == PW_B && (const void *)a == VC_PW_T2 && g_w_nrm_calls == 1 && g_w_pck_calls == 0) ? 1 : __CPROVER_old(g_w_wy)))
__CPROVER_ensures(((const void *)bin == (const void *)((const uint8_t *)g_w_bin0 + 1) && gk < len) ? bin[gk] == g_w_outx : g_w_outx == __CPROVER_old(g_w_outx))
__CPROVER_ensures(((const void *)bin == (const void *)((const uint8_t *)g_w_bin0 + 1 + PW_B) && gk < len) ? bin[gk] == g_w_outy : g_w_outy == __CPROVER_old(g_w_outy))
__CPROVER_ensures((g_ctx.code == __CPROVER_old(g_ctx.code) && g_w_cal_err == __CPROVER_old(g_w_cal_err)) || (g_ctx.code == RLC_ERR && g_w_cal_err == 1));

/* point encoder (the claims of ep_write_bin, c07x_enc.h; "first" = x for binary curves, y for Edwards curves, "second" = the other).
   Returns normally without error ==> len >= the advertised length (VC_PW_NEED = what the *_size_bin contract returns), and
     identity:      every byte is 0, nothing else was called;
     compressed:    normalised once (from the argument, into a temporary) before anything else, packed in place, tag = 2 | (bit 0 of the
                    SECOND coordinate of THAT temporary, read after packing), FIRST coordinate of THAT temporary encoded at offset 1 over
                    exactly B bytes, one field encoding only;
     uncompressed:  normalised likewise, never packed, tag 4, first coordinate at offset 1 and second at offset 1 + B, two encodings only;
     the coordinate ranges hold what the field encoder left there; every byte beyond the advertised length is 0.
   An error of its own only when len < the advertised length, before any coordinate is encoded (longjmp stub).  Frame: bin[0..len). */
void PW_FUNC(uint8_t *bin, size_t len, const PW_ST *a, int pack)
__CPROVER_requires(len <= 2 * PW_B + 3 && __CPROVER_is_fresh(bin, len) && __CPROVER_is_fresh(a, sizeof(PW_ST)))
__CPROVER_requires(g_may_throw == 1 && g_ctx.code == RLC_OK && g_w_bin0 == bin && g_w_src == (const void *)a && g_w_len == len && g_w_pack == (pack != 0))
__CPROVER_requires(g_w_infty == VC_UNASKED && g_w_infty_calls == 0 && g_w_nrm_calls == 0 && g_w_nrm_ok == 0 && g_w_pck_calls == 0 && g_w_pck_ok == 0 && g_w_bit_calls == 0 && g_w_bit_ok == 0 \
	&& g_w_wx == 0 && g_w_wy == 0 && g_w_wcalls == 0 && g_w_cal_err == 0 && g_w_tmp == NULL)
VC_ASSIGNS(__CPROVER_object_upto(bin, len), g_w_infty, g_w_infty_calls, g_w_nrm_calls, g_w_nrm_ok, g_w_tmp, g_w_pck_calls, g_w_pck_ok, g_w_bit, g_w_bit_ok, g_w_bit_calls, \
	g_w_wx, g_w_wy, g_w_wcalls, g_w_cal_err, g_w_outx, g_w_outy, g_ctx.code, g_ctx.last, g_ctx.caught, g_ctx.error, g_ctx.number, g_thrown)
__CPROVER_ensures(g_ctx.code == RLC_OK || g_ctx.code == RLC_ERR)
__CPROVER_ensures(g_w_infty == 0 || g_w_infty == 1)
__CPROVER_ensures(g_ctx.code == RLC_OK ==> len >= VC_PW_NEED)
__CPROVER_ensures((len >= VC_PW_NEED && g_w_cal_err == 0) ==> g_ctx.code == RLC_OK)
__CPROVER_ensures((g_ctx.code == RLC_OK && g_w_infty == 1) ==> ((gk < len ==> bin[gk] == 0) && g_w_nrm_calls == 0 && g_w_wcalls == 0))
__CPROVER_ensures((g_ctx.code == RLC_OK && g_w_infty == 0) ==> (g_w_nrm_calls == 1 && g_w_nrm_ok == 1 && g_w_wx == 1 && ((gk < len && gk >= VC_PW_NEED) ==> bin[gk] == 0)))
__CPROVER_ensures((g_ctx.code == RLC_OK && g_w_infty == 0 && pack) ==> (g_w_pck_calls == 1 && g_w_pck_ok == 1 && g_w_bit_calls == 1 && g_w_bit_ok == 1 && bin[0] == (2 | g_w_bit) && g_w_wcalls == 1))
__CPROVER_ensures((g_ctx.code == RLC_OK && g_w_infty == 0 && gk < PW_B) ==> (bin[1 + gk] == g_w_outx && (!pack ==> bin[1 + PW_B + gk] == g_w_outy)))
__CPROVER_ensures((g_ctx.code == RLC_OK && g_w_infty == 0 && !pack) ==> (g_w_pck_calls == 0 && g_w_bit_calls == 0 && bin[0] == 4 && g_w_wy == 1 && g_w_wcalls == 2))
__CPROVER_ensures(len < VC_PW_NEED ==> (g_ctx.code == RLC_ERR && g_w_wcalls == 0))
;
#endif

#ifdef VC_C07X_FBW
/* ---- fb_write_bin -------------------------------------------------------------------------------------------------------- */
void bn_read_raw_f(bn_t a, const dig_t *raw, size_t len)
__CPROVER_requires(__CPROVER_is_fresh(a, sizeof(bn_st)) && a->alloc == RLC_BN_SIZE)
VC_ASSIGNS(a->used, a->sign, __CPROVER_object_upto(a->dp, sizeof(a->dp)), g_w_pb_calls, g_w_pb_ok, g_w_tmp, g_w_cal_err, g_ctx.code)
__CPROVER_ensures(a->used >= 1 && a->used <= RLC_BN_SIZE && g_w_pb_calls == __CPROVER_old(g_w_pb_calls) + 1 && g_w_tmp == (const void *)a)
__CPROVER_ensures(g_w_pb_ok == ((const void *)raw == g_w_src && len == RLC_FB_DIGS && __CPROVER_old(g_w_wr_calls) == 0))
__CPROVER_ensures((g_ctx.code == __CPROVER_old(g_ctx.code) && g_w_cal_err == __CPROVER_old(g_w_cal_err)) || (g_ctx.code == RLC_ERR && g_w_cal_err == 1));
void bn_write_bin_f(uint8_t *bin, size_t len, const bn_t a)
VC_ASSIGNS(__CPROVER_object_upto(bin, len), g_w_wr_calls, g_w_wr_ok, g_w_cal_err, g_w_out, g_ctx.code)
__CPROVER_ensures(gk < len ==> bin[gk] == g_w_out)
__CPROVER_ensures(g_w_wr_calls == __CPROVER_old(g_w_wr_calls) + 1)
__CPROVER_ensures(g_w_wr_ok == ((const void *)bin == g_w_bin0 && len == RLC_FB_BYTES && (const void *)a == g_w_tmp && __CPROVER_old(g_w_pb_calls) == 1))
__CPROVER_ensures((g_ctx.code == __CPROVER_old(g_ctx.code) && g_w_cal_err == __CPROVER_old(g_w_cal_err)) || (g_ctx.code == RLC_ERR && g_w_cal_err == 1));

/* binary-field element: the buffer must have exactly RLC_FB_BYTES bytes, otherwise an error is reported and nothing is written; then all
   RLC_FB_DIGS digits of the element are read as an integer exactly once and THAT integer is written by the integer encoder over exactly
   the whole buffer, whose bytes are what that encoder left; no error of its own */
void fb_write_bin(uint8_t *bin, size_t len, const fb_t a)
__CPROVER_requires(len <= 2 * RLC_FB_BYTES + 2 && __CPROVER_is_fresh(bin, len) && __CPROVER_is_fresh(a, sizeof(fb_t)))
__CPROVER_requires(g_may_throw == 1 && g_ctx.code == RLC_OK && g_w_bin0 == bin && g_w_src == (const void *)a && g_w_pb_calls == 0 && g_w_wr_calls == 0 && g_w_cal_err == 0 && g_w_pb_ok == 0 && g_w_wr_ok == 0)
__CPROVER_requires(gk < len ==> bin[gk] == g_byte0)
VC_ASSIGNS(__CPROVER_object_upto(bin, len), g_w_pb_calls, g_w_pb_ok, g_w_tmp, g_w_wr_calls, g_w_wr_ok, g_w_cal_err, g_w_out, \
	g_ctx.code, g_ctx.last, g_ctx.caught, g_ctx.error, g_ctx.number, g_thrown)
__CPROVER_ensures(g_ctx.code == RLC_OK || g_ctx.code == RLC_ERR)
__CPROVER_ensures(len != RLC_FB_BYTES ==> (g_ctx.code == RLC_ERR && g_w_pb_calls == 0 && g_w_wr_calls == 0 && (gk < len ==> bin[gk] == g_byte0)))
__CPROVER_ensures(len == RLC_FB_BYTES ==> (g_w_pb_calls == 1 && g_w_pb_ok == 1 && g_w_wr_calls == 1 && g_w_wr_ok == 1 && (gk < len ==> bin[gk] == g_w_out)))
__CPROVER_ensures((len == RLC_FB_BYTES && g_w_cal_err == 0) ==> g_ctx.code == RLC_OK)
;
#endif

#ifdef VC_C07X_FP6W
/* ---- fp6_write_bin ------------------------------------------------------------------------------------------------------- */
#define VC_W6(k, off) (((const void *)a == (const void *)((const fp2_t *)g_w_src)[k] && (const void *)bin == (const void *)((const uint8_t *)g_w_bin0 + (off))) ? (1 << (k)) : 0)
void fp2_write_bin_x(uint8_t *bin, size_t len, const fp2_t a, int pack)
VC_ASSIGNS(__CPROVER_object_upto(bin, len), g_w_wmask, g_w_wcalls, g_w_cal_err, g_ctx.code)
__CPROVER_ensures(g_w_wcalls == __CPROVER_old(g_w_wcalls) + 1)
__CPROVER_ensures(g_w_wmask == (__CPROVER_old(g_w_wmask) | ((len == 2 * RLC_FP_BYTES && pack == 0) ? (VC_W6(0, 0) | VC_W6(1, 2 * RLC_FP_BYTES) | VC_W6(2, 4 * RLC_FP_BYTES)) : 8)))
__CPROVER_ensures((g_ctx.code == __CPROVER_old(g_ctx.code) && g_w_cal_err == __CPROVER_old(g_w_cal_err)) || (g_ctx.code == RLC_ERR && g_w_cal_err == 1));

/* sextic-extension element: exactly 6B bytes, else error and nothing written; the three quadratic coefficients OF THE ARGUMENT through the
   F_p^2 encoder, uncompressed (2B bytes, pack = 0), at offsets 0, 2B, 4B; exactly three encodings; no error of its own */
void fp6_write_bin(uint8_t *bin, size_t len, const fp6_t a)
__CPROVER_requires(len <= 6 * RLC_FP_BYTES + 2 && __CPROVER_is_fresh(bin, len) && __CPROVER_is_fresh(a, sizeof(fp6_t)))
__CPROVER_requires(g_may_throw == 1 && g_ctx.code == RLC_OK && g_w_bin0 == bin && g_w_src == (const void *)a && g_w_wmask == 0 && g_w_wcalls == 0 && g_w_cal_err == 0)
__CPROVER_requires(gk < len ==> bin[gk] == g_byte0)
VC_ASSIGNS(__CPROVER_object_upto(bin, len), g_w_wmask, g_w_wcalls, g_w_cal_err, g_ctx.code, g_ctx.last, g_ctx.caught, g_ctx.error, g_ctx.number, g_thrown)
__CPROVER_ensures(g_ctx.code == RLC_OK || g_ctx.code == RLC_ERR)
__CPROVER_ensures(len != 6 * RLC_FP_BYTES ==> (g_ctx.code == RLC_ERR && g_w_wcalls == 0 && (gk < len ==> bin[gk] == g_byte0)))
__CPROVER_ensures(len == 6 * RLC_FP_BYTES ==> (g_w_wmask == 7 && g_w_wcalls == 3))
__CPROVER_ensures((len == 6 * RLC_FP_BYTES && g_w_cal_err == 0) ==> g_ctx.code == RLC_OK)
;
#endif
#include "vc_spec_pop.h"
