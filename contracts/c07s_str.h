/* String conversion of integers (property C07, last sentence: "String conversion in every radix 2..64 agrees with positional
   notation"; C08 for the buffer accesses).  Functions: bn_size_str, bn_write_str, bn_read_str of src/bn/relic_bn_util.c, with the
   real character table util_conv_char of src/relic_util.c (the WSIZE == 8 branch: arithmetic on character ranges, not the table).

   No installed back end decides multiplication or division (DESIGN P7, P21), so positional notation is stated STRUCTURALLY over three
   uninterpreted functions - the same terms in the code's abstract callees and in the specification:
        MUL(v, b)   the product the radix multiplication bn_mul_dig returns for magnitude v and digit b
        DIVQ(v, b), DIVR(v, b)   quotient and remainder the single-digit division returns for magnitude v and divisor b
   bn_read_str:  |a| = Horner form  MUL(... MUL(MUL(0, r) + d_0, r) + d_1 ..., r) + d_(n-1)  over the digit values d_j of the characters in
                 the standard alphabet 0-9 A-Z a-z + /  (every step multiplies by EXACTLY the radix, then adds EXACTLY the digit value, in order);
   bn_write_str: character k from the right is the table character of DIVR(DIVQ^k(|a|, r), r); the number of characters is the number of
                 DIVQ steps until zero; '-' first for negatives; NUL; exactly bn_size_str(a, r) bytes are used and nothing else is written.
   ASSUMED about the abstract callees (each a true fact of exact arithmetic; listed in the units' notes):
        MUL(v, b) <= v * 2^RLC_DIG;   DIVR(v, b) < b;   DIVQ(v, b) <= v / 2 for b >= 2;   DIVQ(v, 2) = v >> 1, DIVR(v, 2) = v & 1;
        the results are functions of (v, b) only (no hidden state).
   Everything else is the real code: radix check, sign handling, character classification / case folding, order of the steps, buffer-size
   check before the first write, reversal, terminator, frame.  */
#pragma once
#include "bn_low.h"
#include "bn_api.h"

#ifndef C7S_MAXLEN
#define C7S_MAXLEN 6            /* bn_read_str: strings of at most this many bytes */
#endif
#ifndef C7S_MINLEN
#define C7S_MINLEN 0
#endif
#ifndef C7S_MAXD
#define C7S_MAXD 5              /* bn_write_str / bn_size_str: at most this many digits (|a| < 2^C7S_MAXD; the abstract quotient at least halves) */
#endif
#ifndef C7S_FOLD_BELOW
#define C7S_FOLD_BELOW 36       /* lower-case letters are read as upper-case for radix < 36 (what the code does; the header documents nothing) */
#endif

extern int g_c7s_mul_calls, g_c7s_div_calls;

vc_wide __CPROVER_uninterpreted_c7s_mul(vc_wide v, dig_t b);
vc_wide __CPROVER_uninterpreted_c7s_divq(vc_wide v, dig_t b);
dig_t __CPROVER_uninterpreted_c7s_divr(vc_wide v, dig_t b);
#define C7S_MUL(v, b) __CPROVER_uninterpreted_c7s_mul(v, b)
#define C7S_Q(v, b)   ((b) == 2 ? (vc_wide)((v) >> 1) : __CPROVER_uninterpreted_c7s_divq(v, b))
#define C7S_R(v, b)   ((b) == 2 ? (dig_t)((v) & 1) : __CPROVER_uninterpreted_c7s_divr(v, b))
#define C7S_RADIX_OK(r) ((r) >= 2 && (r) <= 64)
#define C7S_CTX g_ctx.code, g_ctx.last, g_ctx.caught, g_ctx.error, g_ctx.number, g_thrown

#include "vc_spec_push.h"
/* ---- the standard alphabet, written independently of util_conv_char --------------------------------------------------------------- */
/* value of a character in radix `radix`, 64 = not a digit character */
static inline int c7s_digval(char ch, uint_t radix) {
	int c = (int)ch;
	if (radix < C7S_FOLD_BELOW && c >= 'a' && c <= 'z') c -= 0x20;
	if (c >= '0' && c <= '9') return c - '0';
	if (c >= 'A' && c <= 'Z') return c - 'A' + 10;
	if (c >= 'a' && c <= 'z') return c - 'a' + 36;
	if (c == '+') return 62;
	if (c == '/') return 63;
	return 64;
}
static inline char c7s_tab(dig_t d) {
	return "0123456789ABCDEFGHIJKLMNOPQRSTUVWXYZabcdefghijklmnopqrstuvwxyz+/"[d & 63];
}
#define C7S_NEG(s, len) ((len) > 0 && (s)[0] == '-')
/* Horner value of the digit characters of s[0..len): an optional leading '-', then digits up to the end, a NUL, or the first
   character that is not a digit of the radix */
static inline vc_wide c7s_rd_val(const char *s, size_t len, uint_t radix) {
	vc_wide v = 0;
	int stop = 0;
	for (size_t j = 0; j < C7S_MAXLEN; j++) {
		if (j < len && !stop && !(j == 0 && s[0] == '-')) {
			int d = s[j] == 0 ? 64 : c7s_digval(s[j], radix);
			if (d >= (int)radix) stop = 1;
			else v = C7S_MUL(v, (dig_t)radix) + (vc_wide)d;
		}
	}
	return v;
}
/* 1 iff a character that is neither a digit of the radix nor the terminating NUL occurs before the end */
static inline int c7s_rd_bad(const char *s, size_t len, uint_t radix) {
	int stop = 0, bad = 0;
	for (size_t j = 0; j < C7S_MAXLEN; j++) {
		if (j < len && !stop && !(j == 0 && s[0] == '-')) {
			if (s[j] == 0) stop = 1;
			else if (c7s_digval(s[j], radix) >= (int)radix) { stop = 1; bad = 1; }
		}
	}
	return bad;
}
/* number of DIVQ steps until zero, and digit k (from the least significant) */
static inline size_t c7s_ndig(vc_wide m, dig_t r) {
	size_t n = 0;
	for (int k = 0; k < C7S_MAXD + 1; k++) {
		if (m != 0) { m = C7S_Q(m, r); n++; }
	}
	return n;
}
static inline dig_t c7s_dig(vc_wide m, dig_t r, size_t k) {
	for (size_t j = 0; j < C7S_MAXD; j++) {
		if (j < k) m = C7S_Q(m, r);
	}
	return C7S_R(m, r);
}
#define C7S_NEED(a, radix) (vc_mag(a) == 0 ? (size_t)2 : c7s_ndig(vc_mag(a), (dig_t)(radix)) + ((a)->sign == RLC_NEG ? 1 : 0) + 1)
#define C7S_VALBOUND(a)    ((vc_mag(a) >> C7S_MAXD) == 0)

/* ---- abstract callees (ASSUMED views of bn_mul_dig / bn_div_dig / bn_div_rem_dig over the uninterpreted functions) ------------------ */
void bn_mul_dig_s(bn_t c, const bn_t a, dig_t b)
__CPROVER_requires(VC_BN_FRESH(a))
__CPROVER_requires(VC_BN_SAME(c, a) || VC_BN_FRESH(c))
__CPROVER_requires(VC_BN_NF(a) && VC_BN_OUT(c))
__CPROVER_requires(a->used + 1 <= RLC_BN_SIZE || g_may_throw)
VC_ASSIGNS(__CPROVER_object_whole(c), C7S_CTX, g_c7s_mul_calls)
__CPROVER_ensures(g_ctx.code == __CPROVER_old(g_ctx.code) && g_ctx.last == __CPROVER_old(g_ctx.last) && g_c7s_mul_calls == __CPROVER_old(g_c7s_mul_calls) + 1)
__CPROVER_ensures(VC_BN_NF(c) && vc_mag(c) == C7S_MUL(VC_MAG_OLD(a), b) && (c->sign == __CPROVER_old(a->sign) || vc_mag(c) == 0))
__CPROVER_ensures(vc_mag(c) <= (VC_MAG_OLD(a) << RLC_DIG) && c->used <= __CPROVER_old(a->used) + 1)
;
/* the dividend is non-negative and the divisor at least 2 at every call site of the string functions (checked there) */
void bn_div_dig_s(bn_t c, const bn_t a, dig_t b)
__CPROVER_requires(VC_BN_FRESH(a))
__CPROVER_requires(VC_BN_SAME(c, a) || VC_BN_FRESH(c))
__CPROVER_requires(VC_BN_NF(a) && VC_BN_OUT(c) && a->sign == RLC_POS && b >= 2)
__CPROVER_requires(a->used + 1 <= RLC_BN_SIZE || g_may_throw)
VC_ASSIGNS(__CPROVER_object_whole(c), C7S_CTX, g_c7s_div_calls)
__CPROVER_ensures(g_ctx.code == __CPROVER_old(g_ctx.code) && g_ctx.last == __CPROVER_old(g_ctx.last) && g_c7s_div_calls == __CPROVER_old(g_c7s_div_calls) + 1)
__CPROVER_ensures(VC_BN_NF(c) && c->sign == RLC_POS && vc_mag(c) == C7S_Q(VC_MAG_OLD(a), b))
__CPROVER_ensures(vc_mag(c) <= (VC_MAG_OLD(a) >> 1))
;
void bn_div_rem_dig_s(bn_t c, dig_t *d, const bn_t a, dig_t b)
__CPROVER_requires(VC_BN_FRESH(a) && __CPROVER_is_fresh(d, sizeof(dig_t)))
__CPROVER_requires(VC_BN_SAME(c, a) || VC_BN_FRESH(c))
__CPROVER_requires(VC_BN_NF(a) && VC_BN_OUT(c) && a->sign == RLC_POS && b >= 2)
__CPROVER_requires(a->used + 1 <= RLC_BN_SIZE || g_may_throw)
VC_ASSIGNS(__CPROVER_object_whole(c), *d, C7S_CTX, g_c7s_div_calls)
__CPROVER_ensures(g_ctx.code == __CPROVER_old(g_ctx.code) && g_ctx.last == __CPROVER_old(g_ctx.last) && g_c7s_div_calls == __CPROVER_old(g_c7s_div_calls) + 1)
__CPROVER_ensures(VC_BN_NF(c) && c->sign == RLC_POS && vc_mag(c) == C7S_Q(VC_MAG_OLD(a), b) && *d == C7S_R(VC_MAG_OLD(a), b))
__CPROVER_ensures(vc_mag(c) <= (VC_MAG_OLD(a) >> 1) && *d < b && (VC_MAG_OLD(a) == 0 ==> *d == 0))
;

/* ---- bn_read_str ------------------------------------------------------------------------------------------------------------------------
   C7S_STRICT: a character that is not a digit of the radix (and not the terminating NUL) is an error - "agrees with positional notation"
   leaves no room for silently returning the value of a prefix.  Without it the contract states what the code does with such a string
   (value of the longest valid prefix, no error); that weaker view is named in the unit's note. */
void bn_read_str(bn_t a, const char *str, size_t len, uint_t radix)
__CPROVER_requires(len >= C7S_MINLEN && len <= C7S_MAXLEN)
__CPROVER_requires(VC_BN_FRESH(a) && VC_BN_OUT(a))
__CPROVER_requires(__CPROVER_is_fresh(str, len))
#ifdef C7S_STRICT
__CPROVER_requires((C7S_RADIX_OK(radix) && !c7s_rd_bad(str, len, radix)) || g_may_throw)
#else
__CPROVER_requires(C7S_RADIX_OK(radix) || g_may_throw)
#endif
VC_ASSIGNS(__CPROVER_object_whole(a), C7S_CTX, g_c7s_mul_calls)
/* invalid radix: reported, nothing converted, the output is the integer zero */
__CPROVER_ensures(!C7S_RADIX_OK(radix) ==> (g_ctx.code == RLC_ERR && g_ctx.number == ERR_NO_VALID && g_c7s_mul_calls == __CPROVER_old(g_c7s_mul_calls) && \
	VC_BN_NF(a) && vc_mag(a) == 0))
#ifdef C7S_STRICT
__CPROVER_ensures((C7S_RADIX_OK(radix) && c7s_rd_bad(str, len, radix)) ==> g_ctx.code == RLC_ERR)
__CPROVER_ensures((C7S_RADIX_OK(radix) && !c7s_rd_bad(str, len, radix)) ==> (g_ctx.code == __CPROVER_old(g_ctx.code) && g_ctx.last == __CPROVER_old(g_ctx.last)))
__CPROVER_ensures((C7S_RADIX_OK(radix) && !c7s_rd_bad(str, len, radix)) ==> (VC_BN_NF(a) && vc_mag(a) == c7s_rd_val(str, len, radix) && \
	(a->sign == (C7S_NEG(str, len) ? RLC_NEG : RLC_POS) || vc_mag(a) == 0)))
#else
__CPROVER_ensures(C7S_RADIX_OK(radix) ==> (g_ctx.code == __CPROVER_old(g_ctx.code) && g_ctx.last == __CPROVER_old(g_ctx.last)))
__CPROVER_ensures(C7S_RADIX_OK(radix) ==> (VC_BN_NF(a) && vc_mag(a) == c7s_rd_val(str, len, radix) && \
	(a->sign == (C7S_NEG(str, len) ? RLC_NEG : RLC_POS) || vc_mag(a) == 0)))
#endif
;

/* ---- bn_size_str: bytes bn_write_str needs = digits + sign + NUL; zero is "0" ---------------------------------------------------------- */
size_t bn_size_str(const bn_t a, uint_t radix)
__CPROVER_requires(VC_BN_FRESH(a) && VC_BN_NF(a) && C7S_VALBOUND(a))
__CPROVER_requires(C7S_RADIX_OK(radix) || g_may_throw)
VC_ASSIGNS(C7S_CTX, g_c7s_div_calls)
__CPROVER_ensures(!C7S_RADIX_OK(radix) ==> (__CPROVER_old(g_ctx.last) == NULL && g_ctx.code == RLC_ERR && g_ctx.last == &g_ctx.error && g_ctx.error.block == 0 && \
	g_ctx.number == ERR_NO_VALID && __CPROVER_return_value == 0 && g_c7s_div_calls == __CPROVER_old(g_c7s_div_calls)))
__CPROVER_ensures(C7S_RADIX_OK(radix) ==> (g_ctx.code == __CPROVER_old(g_ctx.code) && g_ctx.last == __CPROVER_old(g_ctx.last) && \
	__CPROVER_return_value == C7S_NEED(a, radix)))
;

/* view of the contract above for the call inside bn_write_str: same clauses, but g_ctx.last is in the frame only where the function really changes it
   (invalid radix).  A handler pointer that a REPLACED contract havocs and then equates to its old value can no longer be followed by the thrower's
   `*_ctx->last->error = E` in cbmc 6.11 (spurious pointer failures at the next RLC_THROW); the enforcing unit bn_size_str@w8 proves last == old(last). */
size_t bn_size_str_v(const bn_t a, uint_t radix)
__CPROVER_requires(VC_BN_FRESH(a) && VC_BN_NF(a) && C7S_VALBOUND(a))
__CPROVER_requires(C7S_RADIX_OK(radix) || g_may_throw)
VC_ASSIGNS(!C7S_RADIX_OK(radix): g_ctx.last; g_ctx.code, g_ctx.caught, g_ctx.error, g_ctx.number, g_thrown, g_c7s_div_calls)
__CPROVER_ensures(!C7S_RADIX_OK(radix) ==> (__CPROVER_old(g_ctx.last) == NULL && g_ctx.code == RLC_ERR && __CPROVER_pointer_equals(g_ctx.last, &g_ctx.error) && g_ctx.error.block == 0 && \
	g_ctx.number == ERR_NO_VALID && __CPROVER_return_value == 0 && g_c7s_div_calls == __CPROVER_old(g_c7s_div_calls)))
__CPROVER_ensures(C7S_RADIX_OK(radix) ==> (g_ctx.code == __CPROVER_old(g_ctx.code) && __CPROVER_return_value == C7S_NEED(a, radix)))
;

/* ---- bn_write_str ------------------------------------------------------------------------------------------------------------------------ */
void bn_write_str(char *str, size_t len, const bn_t a, uint_t radix)
__CPROVER_requires(len <= C7S_MAXD + 3)
__CPROVER_requires(VC_BN_FRESH(a) && VC_BN_NF(a) && C7S_VALBOUND(a))
__CPROVER_requires(__CPROVER_is_fresh(str, len))
__CPROVER_requires((C7S_RADIX_OK(radix) && len >= C7S_NEED(a, radix)) || g_may_throw)
__CPROVER_requires(gk < len ==> str[gk] == (char)g_byte0)
VC_ASSIGNS(__CPROVER_object_whole(str), C7S_CTX, g_c7s_div_calls)
/* invalid radix or too small a buffer: reported, nothing written */
__CPROVER_ensures(!C7S_RADIX_OK(radix) ==> (g_ctx.code == RLC_ERR && (gk < len ==> str[gk] == (char)g_byte0)))
__CPROVER_ensures((C7S_RADIX_OK(radix) && len < C7S_NEED(a, radix)) ==> (g_ctx.code == RLC_ERR && g_ctx.number == ERR_NO_BUFFER && (gk < len ==> str[gk] == (char)g_byte0)))
/* otherwise: exactly C7S_NEED bytes: ['-'] most significant digit ... least significant digit NUL */
__CPROVER_ensures((C7S_RADIX_OK(radix) && len >= C7S_NEED(a, radix)) ==> (g_ctx.code == __CPROVER_old(g_ctx.code) && g_ctx.last == __CPROVER_old(g_ctx.last) && \
	str[C7S_NEED(a, radix) - 1] == 0 && (vc_mag(a) == 0 ==> str[0] == '0') && (a->sign == RLC_NEG ==> str[0] == '-')))
__CPROVER_ensures((C7S_RADIX_OK(radix) && len >= C7S_NEED(a, radix) && vc_mag(a) != 0 && gk < c7s_ndig(vc_mag(a), (dig_t)radix)) ==> \
	str[C7S_NEED(a, radix) - 2 - gk] == c7s_tab(c7s_dig(vc_mag(a), (dig_t)radix, gk)))
__CPROVER_ensures((gk >= C7S_NEED(a, radix) && gk < len) ==> str[gk] == (char)g_byte0)
;
#include "vc_spec_pop.h"
