/* shared by the c02x_* contract headers */
#pragma once
/* object identities are recorded as INTEGERS (object number, offset): a pointer-typed ghost that is re-assigned by the ensures clause of a
   replaced callee to a different address made the path infeasible in cbmc 6.11 (measured: a second call with other arguments silently
   cut the path), an integer ghost does not */
typedef unsigned long long vc_xid;
#define VC_XID(p)  ((((vc_xid)__CPROVER_POINTER_OBJECT(p)) << 40) + (vc_xid)__CPROVER_POINTER_OFFSET(p))
