/* Digit-relation contracts of the linear digit-vector loops for ALL lengths (up to VC_MAXN = 4096 digits), shipped
   configuration: the unbounded route - every loop is closed by a loop contract (invariant, assigns, decreases) woven at the
   loop (proofs/weave.py).  The relation is stated with one symbolic ghost index gk (no quantifiers, DESIGN 2 P4) and ghost
   carries g_cy[] recorded by woven ghost code; because gk is unconstrained, the clause holds for every digit.
   "relation for all k  =>  value identity over Z" is the bridge lemma of DESIGN 3.4; the value-level contracts of bn_low.h
   (enforced by complete unwinding at the small configuration) state the same functions' results as numbers. */
#pragma once
#include "vc_prelude.h"
extern dig_t g_ak, g_bk;        /* pre-state a[gk], b[gk], bound by requires */

#define VC_DBL(x) ((vc_dbl)(x))
#define VC_BASE   (((vc_dbl)1) << RLC_DIG)

#include "vc_spec_push.h"
dig_t bn_addn_low_rel(dig_t *c, const dig_t *a, const dig_t *b, size_t size)
__CPROVER_requires(size <= VC_MAXN)
__CPROVER_requires(VC_DIGS_FRESH(a, size) && VC_DIGS_FRESH(b, size) && VC_DIGS_FRESH(c, size))
__CPROVER_requires(gk < size ==> (a[gk] == g_ak && b[gk] == g_bk))
VC_ASSIGNS(__CPROVER_object_upto(c, size * sizeof(dig_t)), __CPROVER_object_whole(g_cy))
__CPROVER_ensures(g_cy[0] == 0 && __CPROVER_return_value == g_cy[size])
__CPROVER_ensures(gk < size ==> (g_cy[gk + 1] <= 1 && VC_DBL(g_ak) + g_bk + g_cy[gk] == VC_DBL(c[gk]) + VC_DBL(g_cy[gk + 1]) * VC_BASE))
__CPROVER_ensures(gk < size ==> (a[gk] == g_ak && b[gk] == g_bk))
;
dig_t bn_subn_low_rel(dig_t *c, const dig_t *a, const dig_t *b, size_t size)
__CPROVER_requires(size <= VC_MAXN)
__CPROVER_requires(VC_DIGS_FRESH(a, size) && VC_DIGS_FRESH(b, size) && VC_DIGS_FRESH(c, size))
__CPROVER_requires(gk < size ==> (a[gk] == g_ak && b[gk] == g_bk))
VC_ASSIGNS(__CPROVER_object_upto(c, size * sizeof(dig_t)), __CPROVER_object_whole(g_cy))
__CPROVER_ensures(g_cy[0] == 0 && __CPROVER_return_value == g_cy[size])
__CPROVER_ensures(gk < size ==> (g_cy[gk + 1] <= 1 && VC_DBL(g_ak) + VC_DBL(g_cy[gk + 1]) * VC_BASE == VC_DBL(c[gk]) + g_bk + g_cy[gk]))
;
dig_t bn_add1_low_rel(dig_t *c, const dig_t *a, dig_t digit, size_t size)
__CPROVER_requires(size <= VC_MAXN)
__CPROVER_requires(VC_DIGS_FRESH(a, size) && VC_DIGS_FRESH(c, size))
__CPROVER_requires(gk < size ==> a[gk] == g_ak)
VC_ASSIGNS(__CPROVER_object_upto(c, size * sizeof(dig_t)), __CPROVER_object_whole(g_cy))
__CPROVER_ensures(g_cy[0] == digit && __CPROVER_return_value == g_cy[size])
__CPROVER_ensures(gk < size ==> (VC_DBL(g_ak) + g_cy[gk] == VC_DBL(c[gk]) + VC_DBL(g_cy[gk + 1]) * VC_BASE))
__CPROVER_ensures((gk < size && gk >= 1) ==> g_cy[gk] <= 1)
;
dig_t bn_sub1_low_rel(dig_t *c, const dig_t *a, dig_t digit, size_t size)
__CPROVER_requires(size <= VC_MAXN)
__CPROVER_requires(VC_DIGS_FRESH(a, size) && VC_DIGS_FRESH(c, size))
__CPROVER_requires(gk < size ==> a[gk] == g_ak)
VC_ASSIGNS(__CPROVER_object_upto(c, size * sizeof(dig_t)), __CPROVER_object_whole(g_cy))
__CPROVER_ensures(g_cy[0] == digit && __CPROVER_return_value == g_cy[size])
__CPROVER_ensures(gk < size ==> (VC_DBL(g_ak) + VC_DBL(g_cy[gk + 1]) * VC_BASE == VC_DBL(c[gk]) + g_cy[gk]))
;
dig_t bn_lsh1_low_rel(dig_t *c, const dig_t *a, size_t size)
__CPROVER_requires(size <= VC_MAXN)
__CPROVER_requires(VC_DIGS_FRESH(a, size) && VC_DIGS_FRESH(c, size))
__CPROVER_requires(gk < size ==> a[gk] == g_ak)
VC_ASSIGNS(__CPROVER_object_upto(c, size * sizeof(dig_t)), __CPROVER_object_whole(g_cy))
__CPROVER_ensures(g_cy[0] == 0 && __CPROVER_return_value == g_cy[size])
__CPROVER_ensures(gk < size ==> (g_cy[gk + 1] <= 1 && 2 * VC_DBL(g_ak) + g_cy[gk] == VC_DBL(c[gk]) + VC_DBL(g_cy[gk + 1]) * VC_BASE))
;
#include "vc_spec_pop.h"

/* ---- woven loop contracts (pointer-walking loops: ghost entry copies + rebase, DESIGN 2 P3) --------------------------- */
#define VC_REBASE3(i) __CPROVER_assert(a == vc_a0 + (i) && b == vc_b0 + (i) && c == vc_c0 + (i), "rebase is the identity"); a = vc_a0 + (i); b = vc_b0 + (i); c = vc_c0 + (i);
#define VC_REBASE2(i) __CPROVER_assert(a == vc_a0 + (i) && c == vc_c0 + (i), "rebase is the identity"); a = vc_a0 + (i); c = vc_c0 + (i);

#define VC_PRE_bn_addn_low_0  const dig_t *vc_a0 = a, *vc_b0 = b; dig_t *vc_c0 = c; g_cy[0] = 0;
#define VC_LOOP_bn_addn_low_0 \
	__CPROVER_assigns(i, a, b, c, carry, c0, c1, r0, r1, __CPROVER_object_upto(vc_c0, size * sizeof(dig_t)), __CPROVER_object_whole(g_cy)) \
	__CPROVER_loop_invariant(i <= size && carry <= 1 && a == vc_a0 + i && b == vc_b0 + i && c == vc_c0 + i) \
	__CPROVER_loop_invariant(g_cy[0] == 0 && g_cy[i] == carry) \
	__CPROVER_loop_invariant(gk < size ==> (vc_a0[gk] == g_ak && vc_b0[gk] == g_bk)) \
	__CPROVER_loop_invariant(gk < i ==> (g_cy[gk + 1] <= 1 && VC_DBL(g_ak) + g_bk + g_cy[gk] == VC_DBL(vc_c0[gk]) + VC_DBL(g_cy[gk + 1]) * VC_BASE)) \
	__CPROVER_decreases(size - i)
#define VC_TOP_bn_addn_low_0  VC_REBASE3(i)
#define VC_END_bn_addn_low_0  g_cy[i + 1] = carry;

#define VC_PRE_bn_subn_low_0  const dig_t *vc_a0 = a, *vc_b0 = b; dig_t *vc_c0 = c; g_cy[0] = 0;
#define VC_LOOP_bn_subn_low_0 \
	__CPROVER_assigns(i, a, b, c, carry, r0, diff, __CPROVER_object_upto(vc_c0, size * sizeof(dig_t)), __CPROVER_object_whole(g_cy)) \
	__CPROVER_loop_invariant(i <= size && carry <= 1 && a == vc_a0 + i && b == vc_b0 + i && c == vc_c0 + i) \
	__CPROVER_loop_invariant(g_cy[0] == 0 && g_cy[i] == carry) \
	__CPROVER_loop_invariant(gk < size ==> (vc_a0[gk] == g_ak && vc_b0[gk] == g_bk)) \
	__CPROVER_loop_invariant(gk < i ==> (g_cy[gk + 1] <= 1 && VC_DBL(g_ak) + VC_DBL(g_cy[gk + 1]) * VC_BASE == VC_DBL(vc_c0[gk]) + g_bk + g_cy[gk])) \
	__CPROVER_decreases(size - i)
#define VC_TOP_bn_subn_low_0  VC_REBASE3(i)
#define VC_END_bn_subn_low_0  g_cy[i + 1] = carry;

#define VC_PRE_bn_lsh1_low_0  const dig_t *vc_a0 = a; dig_t *vc_c0 = c; g_cy[0] = 0;
#define VC_LOOP_bn_lsh1_low_0 \
	__CPROVER_assigns(i, a, c, carry, r, __CPROVER_object_upto(vc_c0, size * sizeof(dig_t)), __CPROVER_object_whole(g_cy)) \
	__CPROVER_loop_invariant(i >= 0 && (size_t)i <= size && carry <= 1 && a == vc_a0 + i && c == vc_c0 + i) \
	__CPROVER_loop_invariant(g_cy[0] == 0 && g_cy[i] == carry) \
	__CPROVER_loop_invariant(gk < size ==> vc_a0[gk] == g_ak) \
	__CPROVER_loop_invariant(gk < (size_t)i ==> (g_cy[gk + 1] <= 1 && 2 * VC_DBL(g_ak) + g_cy[gk] == VC_DBL(vc_c0[gk]) + VC_DBL(g_cy[gk + 1]) * VC_BASE)) \
	__CPROVER_decreases(size - (size_t)i)
#define VC_TOP_bn_lsh1_low_0  VC_REBASE2(i)
#define VC_END_bn_lsh1_low_0  g_cy[i + 1] = carry;
