/* Field inversion, the zero guard (property C02: "inversion of zero is reported as an error").
   Every algorithm of src/fp/relic_fp_inv.c starts with   if (fp_is_zero(a)) { RLC_THROW(ERR_NO_VALID); return; }
   What is proved per algorithm (callees abstract):
     * the zero test is evaluated exactly once before anything else happens, on the INPUT object a (verdict recorded in ghost
       state keyed by argument identity; fp_is_zero itself is a value-level unit of c02x_api.h);
     * verdict "zero"      ==> ERR_NO_VALID is raised: without an enclosing handler code == RLC_ERR, number == ERR_NO_VALID and the
                               function returns with the output untouched and no body callee invoked; with an enclosing handler
                               the throw reaches longjmp with code == RLC_ERR, the handler's error slot == ERR_NO_VALID, output
                               untouched (exceptional postcondition checked inside the longjmp stub of c02x_inv_state.h);
     * verdict "non-zero"  ==> the guard raises nothing (error state unchanged when the body starts).
   fp_inv_basic and fp_inv_lower are loop-free after callee replacement and are covered to their end (FULL: additionally which
   callee computes the result, on which objects).  The other five iterate over abstract callees; their units cover the ENTRY
   PART only: the first callee behind the guard is a cut point (stub body: the assertions above, then assume(0)), named in the
   unit's note.  The inverse value itself is a number-theoretic identity outside the back ends (DESIGN 5 C02). */
#pragma once
#include "fp_low.h"
#include "c02x_common.h"
#define VC_UNASKED (-9)
extern vc_xid g_x_a, g_x_c;               /* identity of the input / output object of the call under proof (bound by requires) */
extern int g_x_zv, g_x_zcalls;            /* verdict of the first fp_is_zero call, number of calls */
extern vc_xid g_x_zarg;                   /* the object the first fp_is_zero call looked at */
extern err_t g_x_err;                     /* error slot of the enclosing handler (g_sts.error), when there is one */
extern int g_x_code0;                     /* error code at entry */
extern int g_x_body;                      /* number of body callees invoked */
extern vc_xid g_x_exp_c, g_x_exp_a, g_x_exp_e, g_x_cp_src, g_x_cp_dst, g_x_sub_c, g_x_sub_a, g_x_sub_dp;
extern int g_x_exp_calls, g_x_cp_calls, g_x_sub_calls, g_x_low_calls;
extern dig_t g_x_sub_b;
extern size_t g_x_cp_n;
/* the operands of the call under proof are these two exact-size objects (c == a in shape CA): the exceptional-exit check in the longjmp
   stub has to read the output object, and a pointer bound by is_fresh inside the contract is not dereferenceable from there */
extern dig_t g_x_ab[RLC_FP_DIGS], g_x_cb[RLC_FP_DIGS];
#define VC_X_OUT(k)   (VC_FSHAPE == VC_F_CA ? g_x_ab[k] : g_x_cb[k])

#include "vc_spec_push.h"
int fp_is_zero_x(const fp_t a)
VC_ASSIGNS(g_x_zv, g_x_zcalls, g_x_zarg)
__CPROVER_ensures((__CPROVER_return_value == 0 || __CPROVER_return_value == 1) && g_x_zcalls == __CPROVER_old(g_x_zcalls) + 1)
__CPROVER_ensures(__CPROVER_old(g_x_zcalls) == 0 ? (g_x_zv == __CPROVER_return_value && g_x_zarg == VC_XID(a))
                                                  : (g_x_zv == __CPROVER_old(g_x_zv) && g_x_zarg == __CPROVER_old(g_x_zarg)))
;
/* ---- body callees of the two loop-free algorithms: frame + call record; callable only behind a "non-zero" verdict ------------ */
#define VC_X_BODY_OK   (g_x_zcalls == 1 && g_x_zv == 0 && g_x_zarg == g_x_a && g_ctx.code == g_x_code0 && g_x_body < 100)
void bn_make_x(bn_t a, size_t digits)
__CPROVER_requires(VC_X_BODY_OK && digits == RLC_BN_SIZE)
VC_ASSIGNS(__CPROVER_object_whole(a), g_x_body)
__CPROVER_ensures(g_x_body == __CPROVER_old(g_x_body) + 1 && a->alloc == RLC_BN_SIZE && a->used == 1 && a->sign == RLC_POS)
;
void dv_copy_x(dig_t *c, const dig_t *a, size_t digits)
__CPROVER_requires(VC_X_BODY_OK && digits <= RLC_BN_SIZE)
VC_ASSIGNS(__CPROVER_object_upto(c, digits * sizeof(dig_t)), g_x_body, g_x_cp_src, g_x_cp_dst, g_x_cp_calls, g_x_cp_n)
__CPROVER_ensures(g_x_body == __CPROVER_old(g_x_body) + 1 && g_x_cp_calls == __CPROVER_old(g_x_cp_calls) + 1 && g_x_cp_src == VC_XID(a) && g_x_cp_dst == VC_XID(c) && g_x_cp_n == digits)
;
void bn_sub_dig_x(bn_t c, const bn_t a, dig_t b)
__CPROVER_requires(VC_X_BODY_OK && g_x_cp_calls == g_x_sub_calls + 1)        /* order: the modulus was copied before 2 is subtracted */
VC_ASSIGNS(__CPROVER_object_whole(c), g_x_body, g_x_sub_calls, g_x_sub_b, g_x_sub_c, g_x_sub_a, g_x_sub_dp)
__CPROVER_ensures(g_x_sub_dp == VC_XID(c->dp) && g_x_body == __CPROVER_old(g_x_body) + 1 && g_x_sub_calls == __CPROVER_old(g_x_sub_calls) + 1 && g_x_sub_b == b && g_x_sub_c == VC_XID(c) && g_x_sub_a == VC_XID(a)
                  && c->alloc == RLC_BN_SIZE && c->used >= 1 && c->used <= RLC_BN_SIZE)
;
/* the exponentiation selected by FP_EXP (fp_exp is a macro); records output, base, exponent object and that the exponent was prepared */
#define VC_X_EXP(f) void f(fp_t c, const fp_t a, const bn_t b) \
__CPROVER_requires(VC_X_BODY_OK) \
VC_ASSIGNS(__CPROVER_object_upto(c, RLC_FP_DIGS * sizeof(dig_t)), g_x_body, g_x_exp_calls, g_x_exp_c, g_x_exp_a, g_x_exp_e) \
__CPROVER_ensures(g_x_body == __CPROVER_old(g_x_body) + 1 && g_x_exp_calls == __CPROVER_old(g_x_exp_calls) + 1 && g_x_exp_c == VC_XID(c) && g_x_exp_a == VC_XID(a) && \
                  g_x_exp_e == (g_x_sub_calls == 1 && g_x_cp_calls == 1 ? VC_XID(b) : (vc_xid)0))
VC_X_EXP(fp_exp_basic_x);
VC_X_EXP(fp_exp_slide_x);
VC_X_EXP(fp_exp_monty_x);
void fp_invm_low_x(dig_t *c, const dig_t *a)
__CPROVER_requires(VC_X_BODY_OK)
VC_ASSIGNS(__CPROVER_object_upto(c, RLC_FP_DIGS * sizeof(dig_t)), g_x_body, g_x_low_calls, g_x_exp_c, g_x_exp_a)
__CPROVER_ensures(g_x_body == __CPROVER_old(g_x_body) + 1 && g_x_low_calls == __CPROVER_old(g_x_low_calls) + 1 && g_x_exp_c == VC_XID(c) && g_x_exp_a == VC_XID(a))
;

/* ---- the guard contract ----------------------------------------------------------------------------------------------------- */
#define VC_X_GHOST0  (g_x_zcalls == 0 && g_x_zv == VC_UNASKED && g_x_zarg == (vc_xid)0 && g_x_body == 0 && g_x_err == 0 && g_x_exp_calls == 0 && \
                      g_x_cp_calls == 0 && g_x_sub_calls == 0 && g_x_low_calls == 0 && g_x_exp_e == (vc_xid)0)
#define VC_X_INV_PRE(c, a) \
__CPROVER_requires(VC_PTR_SAME(a, g_x_ab)) __CPROVER_requires(VC_FSHAPE == VC_F_CA ? VC_PTR_SAME(c, a) : VC_PTR_SAME(c, g_x_cb)) \
__CPROVER_requires(g_may_throw == 1 && g_x_a == VC_XID(a) && g_x_c == VC_XID(c) && g_x_code0 == g_ctx.code && VC_X_GHOST0) \
__CPROVER_requires(g_ctx.last == (sts_t *)0 || (g_ctx.last == &g_sts && g_sts.block == 1 && g_sts.error == &g_x_err)) \
__CPROVER_requires(gk < RLC_FP_DIGS ==> c[gk] == g_dig0)
#define VC_X_INV_FRAME(c) \
VC_ASSIGNS(__CPROVER_object_upto(c, RLC_FP_DIGS * sizeof(dig_t)), g_x_zv, g_x_zcalls, g_x_zarg, g_x_body, g_x_err, g_x_exp_c, g_x_exp_a, g_x_exp_e, g_x_cp_src, g_x_cp_dst, g_x_cp_n, g_x_sub_c, g_x_sub_a, g_x_sub_dp, \
	g_x_exp_calls, g_x_cp_calls, g_x_sub_calls, g_x_low_calls, g_x_sub_b, g_ctx.code, g_ctx.last, g_ctx.caught, g_ctx.error, g_ctx.number, g_thrown)
#define VC_X_INV_POST(c, a) \
__CPROVER_ensures(g_x_zcalls == 1 && g_x_zarg == VC_XID(a) && (g_x_zv == 0 || g_x_zv == 1)) \
__CPROVER_ensures(g_x_zv == 1 ==> (g_ctx.code == RLC_ERR && g_ctx.number == ERR_NO_VALID && g_x_body == 0 && (gk < RLC_FP_DIGS ==> c[gk] == g_dig0))) \
__CPROVER_ensures(g_x_zv == 0 ==> (g_ctx.code == g_x_code0 && g_x_body >= 1 && g_thrown == 0))

/* entry-part units: behind the guard the first callee is the cut point, so a normal return happens on the "zero" verdict only */
#define VC_X_INV_CUT(f) void f(fp_t c, const fp_t a) VC_X_INV_PRE(c, a) VC_X_INV_FRAME(c) VC_X_INV_POST(c, a) __CPROVER_ensures(g_x_zv == 1)
VC_X_INV_CUT(fp_inv_binar);
VC_X_INV_CUT(fp_inv_monty);
VC_X_INV_CUT(fp_inv_exgcd);
VC_X_INV_CUT(fp_inv_divst);
VC_X_INV_CUT(fp_inv_jmpds);

/* FULL: c = a^(p-2): the exponent object is a copy of the modulus (from fp_prime_get(), RLC_FP_DIGS digits) minus the digit 2, and
   the selected exponentiation runs exactly once with output c, base a and that exponent */
void fp_inv_basic(fp_t c, const fp_t a) VC_X_INV_PRE(c, a) VC_X_INV_FRAME(c) VC_X_INV_POST(c, a)
__CPROVER_ensures(g_x_zv == 0 ==> (g_x_exp_calls == 1 && g_x_exp_c == VC_XID(c) && g_x_exp_a == VC_XID(a) && g_x_cp_calls == 1 && g_x_cp_src == VC_XID(g_p) && g_x_cp_n == RLC_FP_DIGS &&
                                   g_x_sub_calls == 1 && g_x_sub_b == 2 && g_x_sub_c == g_x_sub_a && g_x_exp_e == g_x_sub_c && g_x_exp_e != (vc_xid)0 &&
                                   g_x_cp_dst == g_x_sub_dp))
;
/* FULL: the low-level inversion runs exactly once on (c, a) */
void fp_inv_lower(fp_t c, const fp_t a) VC_X_INV_PRE(c, a) VC_X_INV_FRAME(c) VC_X_INV_POST(c, a)
__CPROVER_ensures(g_x_zv == 0 ==> (g_x_low_calls == 1 && g_x_body == 1 && g_x_exp_c == VC_XID(c) && g_x_exp_a == VC_XID(a)))
;
#include "vc_spec_pop.h"
