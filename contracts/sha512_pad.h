/* GENERATED from sha_pad.h by proofs/gen_sha512.py (block 128 bytes, length field 16 bytes) - do not edit */
/* SHA-384/512 message scheduling: buffering, length accounting and padding around an ABSTRACT compression function
   (property C14: every message length across the 111/112/127/128-byte padding boundaries).  SHA384_512ProcessMessageBlock is
   replaced by a contract that records the 128-byte block it is given in a ghost transcript; the contracts below say which
   blocks are fed.  The compression function itself (FIPS 180-4 rounds) is not covered. */
#pragma once
#include "vc_prelude.h"
#include "src/md/sha.h"

extern unsigned g5_blk_n;                 /* blocks handed to the compression function so far */
extern uint8_t g5_blk[3][128];             /* the first three of them */
extern size_t g_obs_blk; extern uint8_t g_obs_val; extern int g_obs_set;   /* observation of one stream byte (SHA512Input) */
extern size_t g_idx0;

#define VC_SHA5_OK(c)  ((c)->Message_Block_Index >= 0 && (c)->Message_Block_Index < 128)
#define VC_LEN5_BYTE(c, j) ((uint8_t)((j) < 120 ? ((c)->Length_High >> (8 * (119 - (j)))) : ((c)->Length_Low >> (8 * (127 - (j))))))

#include "vc_spec_push.h"
#ifdef VC_SHA5_STATICS
/* abstract compression function: consumes the block, resets the buffer index, changes the chaining value arbitrarily */
static void SHA384_512ProcessMessageBlock(SHA512Context *context)
__CPROVER_requires(__CPROVER_is_fresh(context, sizeof(SHA512Context)) && g5_blk_n < 1000000)
VC_ASSIGNS(__CPROVER_object_upto(context->Intermediate_Hash, sizeof(context->Intermediate_Hash)), context->Message_Block_Index, g5_blk_n, __CPROVER_object_whole(g5_blk), g_obs_val, g_obs_set)
__CPROVER_ensures(context->Message_Block_Index == 0 && g5_blk_n == __CPROVER_old(g5_blk_n) + 1)
__CPROVER_ensures((__CPROVER_old(g5_blk_n) < 3 && gk < 128) ==> g5_blk[__CPROVER_old(g5_blk_n) < 3 ? __CPROVER_old(g5_blk_n) : 0][gk < 128 ? gk : 0] == context->Message_Block[gk < 128 ? gk : 0])
__CPROVER_ensures((__CPROVER_old(g5_blk_n) < 3 && gk < 128 && __CPROVER_old(g5_blk_n) != 0) ==> g5_blk[0][gk < 128 ? gk : 0] == __CPROVER_old(g5_blk[0][gk < 128 ? gk : 0]))
__CPROVER_ensures((__CPROVER_old(g5_blk_n) < 3 && gk < 128 && __CPROVER_old(g5_blk_n) != 1) ==> g5_blk[1][gk < 128 ? gk : 0] == __CPROVER_old(g5_blk[1][gk < 128 ? gk : 0]))
__CPROVER_ensures(__CPROVER_old(g5_blk_n) == g_obs_blk ? (g_obs_set == 1 && g_obs_val == context->Message_Block[g_idx0 < 128 ? g_idx0 : 0]) : (g_obs_set == __CPROVER_old(g_obs_set) && g_obs_val == __CPROVER_old(g_obs_val)))
;

/* padding (FIPS 180-4 5.1.2): with idx buffered bytes, feed  buffer || pad || 0^k || len128  as ONE block if idx < 112 and as
   TWO blocks otherwise; k minimal */
static void SHA384_512PadMessage(SHA512Context *context, uint8_t Pad_Byte)
__CPROVER_requires(__CPROVER_is_fresh(context, sizeof(SHA512Context)) && VC_SHA5_OK(context) && g5_blk_n == 0)
VC_ASSIGNS(__CPROVER_object_whole(context), g5_blk_n, __CPROVER_object_whole(g5_blk), g_obs_val, g_obs_set)
__CPROVER_ensures(g5_blk_n == (__CPROVER_old(context->Message_Block_Index) < 112 ? 1u : 2u))
__CPROVER_ensures(context->Length_High == __CPROVER_old(context->Length_High) && context->Length_Low == __CPROVER_old(context->Length_Low))
__CPROVER_ensures((gk < 128 && __CPROVER_old(context->Message_Block_Index) < 112) ==> g5_blk[0][gk < 128 ? gk : 0] == \
	((int)gk < __CPROVER_old(context->Message_Block_Index) ? __CPROVER_old(context->Message_Block[gk < 128 ? gk : 0]) : \
	 (int)gk == __CPROVER_old(context->Message_Block_Index) ? Pad_Byte : gk < 112 ? (uint8_t)0 : VC_LEN5_BYTE(context, gk)))
__CPROVER_ensures((gk < 128 && __CPROVER_old(context->Message_Block_Index) >= 112) ==> (g5_blk[0][gk < 128 ? gk : 0] == \
	((int)gk < __CPROVER_old(context->Message_Block_Index) ? __CPROVER_old(context->Message_Block[gk < 128 ? gk : 0]) : \
	 (int)gk == __CPROVER_old(context->Message_Block_Index) ? Pad_Byte : (uint8_t)0) && \
	g5_blk[1][gk < 128 ? gk : 0] == (gk < 112 ? (uint8_t)0 : VC_LEN5_BYTE(context, gk))))
;
#endif
#define VC_LEN128(c)      ((((unsigned __int128)(c)->Length_High) << 64) | (c)->Length_Low)
#define VC_LEN128_OLD(c)  ((((unsigned __int128)__CPROVER_old((c)->Length_High)) << 64) | __CPROVER_old((c)->Length_Low))
#ifndef VC_MAXMSG
#define VC_MAXMSG 100000
#endif
/* absorbing `length` bytes with idx0 bytes already buffered: byte number gk of the input goes to offset (idx0+gk) mod 64 of
   block (idx0+gk) div 64; exactly the full blocks are handed to the compression function; the bit length grows by 8*length.
   (gk is unconstrained, so this holds for every byte; g_obs_* observe that byte inside the block it is compressed in.) */
int SHA512Input(SHA512Context *context, const uint8_t *message_array, unsigned int length)
__CPROVER_requires(length >= 1 && length <= VC_MAXMSG)
__CPROVER_requires(__CPROVER_is_fresh(context, sizeof(SHA512Context)) && __CPROVER_is_fresh(message_array, length))
__CPROVER_requires(VC_SHA5_OK(context) && context->Computed == 0 && context->Corrupted == 0 && context->Length_High < 0xFFFFFFFFFFFF0000ull && g5_blk_n == 0 && g_obs_set == 0)
__CPROVER_requires(g_idx0 == ((size_t)context->Message_Block_Index + gk) % 128 && g_obs_blk == ((size_t)context->Message_Block_Index + gk) / 128)
__CPROVER_requires(gk < length ==> message_array[gk] == g_byte0)
VC_ASSIGNS(__CPROVER_object_whole(context), g5_blk_n, __CPROVER_object_whole(g5_blk), g_obs_val, g_obs_set)
__CPROVER_ensures(__CPROVER_return_value == shaSuccess && context->Corrupted == 0 && context->Computed == 0)
__CPROVER_ensures(context->Message_Block_Index == (__CPROVER_old(context->Message_Block_Index) + length) % 128)
__CPROVER_ensures(g5_blk_n == (__CPROVER_old(context->Message_Block_Index) + length) / 128)
__CPROVER_ensures(VC_LEN128(context) == VC_LEN128_OLD(context) + (unsigned __int128)8 * length)
__CPROVER_ensures(gk < length ==> (g_obs_blk < g5_blk_n ? (g_obs_set == 1 && g_obs_val == g_byte0) : context->Message_Block[g_idx0 < 128 ? g_idx0 : 0] == g_byte0))
;
#include "vc_spec_pop.h"

#define VC_PRE_SHA512Input_0 \
	const uint8_t *vc_m0 = message_array; unsigned vc_len0 = length; size_t vc_i0 = (size_t)context->Message_Block_Index; \
	unsigned __int128 vc_L0 = VC_LEN128(context);
#ifndef VC_CONSUMED
#define VC_CONSUMED  ((size_t)(vc_len0 - length))
#endif
#define VC_LOOP_SHA512Input_0 \
	__CPROVER_assigns(length, message_array, __CPROVER_object_whole(context), g5_blk_n, __CPROVER_object_whole(g5_blk), g_obs_val, g_obs_set) \
	__CPROVER_loop_invariant(length <= vc_len0 && message_array == vc_m0 + VC_CONSUMED && context->Corrupted == 0 && context->Computed == 0) \
	__CPROVER_loop_invariant(context->Message_Block_Index == (int_least16_t)((vc_i0 + VC_CONSUMED) % 128) && g5_blk_n == (unsigned)((vc_i0 + VC_CONSUMED) / 128)) \
	__CPROVER_loop_invariant(VC_LEN128(context) == vc_L0 + (unsigned __int128)8 * VC_CONSUMED && (g_obs_set == 0 || g_obs_set == 1)) \
	__CPROVER_loop_invariant(gk < vc_len0 ==> vc_m0[gk] == g_byte0) \
	__CPROVER_loop_invariant(g_obs_blk < g5_blk_n ? (g_obs_set == 1 && (gk < VC_CONSUMED ==> g_obs_val == g_byte0)) : (g_obs_set == 0 && (gk < VC_CONSUMED ==> context->Message_Block[g_idx0 < 128 ? g_idx0 : 0] == g_byte0))) \
	__CPROVER_decreases(length)
#define VC_TOP_SHA512Input_0 \
	__CPROVER_assert(message_array == vc_m0 + (vc_len0 - length - 1), "rebase is the identity"); message_array = vc_m0 + (vc_len0 - length - 1);
