/* Hash_DRBG output function Hashgen (SP 800-90A 10.1.1.4) and its composition into the generate call (property C15).
     Hashgen(n, V):  data = V;  W = H(data) || H(data + 1) || ... (ceil(n / 32) blocks, data + 1 mod 2^440);  returned_bits = leftmost n bytes of W
     Generate(n):    returned_bits = Hashgen(n, V) computed from the state BEFORE the update;  then the state update of contracts/rand.h.
   The hash is abstract: md_map_sh256 is replaced by a view that returns the uninterpreted function __CPROVER_uninterpreted_sha256_55 of the
   VALUE of its 55-byte message (the same function symbol as in contracts/rand.h) and counts its calls in ghost g15_gc.  A postcondition
   "block j == UF(V + j)" that holds for EVERY interpretation of the function symbol forces the message of call j to BE V + j.
   rand_inc is replaced by its proved contract (contracts/rand.h, unit rand_inc.55). */
#pragma once
#include "rand.h"       /* needs -DVC_CTX_RAND -DVC_RAND_STATICS (VC_RAND_N = 55 = the width rand_gen increments) */

extern unsigned g15_gc;                 /* ghost: hash computations so far */

#include "vc_spec_push.h"
/* abstract hash, generate path only (55-byte message = V + j, 56-byte message = 03 || V) */
void md_map_sh256_g(uint8_t *hash, const uint8_t *msg, size_t len)
__CPROVER_requires(len == VC_SEEDLEN || len == VC_SEEDLEN + 1)
__CPROVER_requires(g15_gc < 100000)
__CPROVER_requires(__CPROVER_is_fresh(hash, RLC_MD_LEN))
__CPROVER_requires(__CPROVER_is_fresh(msg, len))
VC_ASSIGNS(__CPROVER_object_upto(hash, RLC_MD_LEN), g15_gc)
__CPROVER_ensures(g15_gc == __CPROVER_old(g15_gc) + 1)
__CPROVER_ensures(vc_h32(hash) == (len == VC_SEEDLEN ? __CPROVER_uninterpreted_sha256_55(vc_bev(msg, len)) : __CPROVER_uninterpreted_sha256_56(vc_bev(msg, len))))
;

/* byte k of  H(v0) || H(v0 + 1) || H(v0 + 2) || ...   (additions mod 2^440) */
#define VC15_STREAM(v0, k)  ((uint8_t)(__CPROVER_uninterpreted_sha256_55(((v0) + (vc_st)((k) / RLC_MD_LEN)) & VC_ST_MASK) >> (8 * (RLC_MD_LEN - 1 - (k) % RLC_MD_LEN))))

/* The enforcing units fix the number of blocks (VC_GEN_NB = 1, 2, 3: lengths 0..32, 33..64, 65..96); without VC_GEN_NB this is the
   general text (every length up to the per-call limit) that the composition unit of rand_bytes replaces the call with. */
#ifdef VC_GEN_NB
#define VC15_GEN_MIN   (VC_GEN_NB == 1 ? 0 : RLC_MD_LEN * (VC_GEN_NB - 1) + 1)
#define VC15_GEN_LIM   (RLC_MD_LEN * VC_GEN_NB)
#else
#define VC15_GEN_MIN   0
#define VC15_GEN_LIM   VC_GEN_MAX
#endif
/* output buffer of EXACTLY out_len bytes; V (g_ctx.rand) is not assignable: the function works on a copy */
void rand_gen_x(uint8_t *out, size_t out_len)
__CPROVER_requires(out_len >= VC15_GEN_MIN && out_len <= VC15_GEN_LIM && g15_gc < 1000)
__CPROVER_requires(__CPROVER_is_fresh(out, out_len))
VC_ASSIGNS(__CPROVER_object_upto(out, out_len), g15_gc)
/* one hash computation per block, none for an empty request */
__CPROVER_ensures(g15_gc == __CPROVER_old(g15_gc) + (unsigned)((out_len + RLC_MD_LEN - 1) / RLC_MD_LEN))
/* every output byte (ghost index): byte gk % 32 of H(V + gk / 32); the last block is cut at out_len */
__CPROVER_ensures((gk < out_len) ==> out[gk] == VC15_STREAM(VC_V, gk))
;

/* generate: the contract of contracts/rand.h (state update, refusal above 2^16 bytes) PLUS the returned bytes: the first `size` bytes of
   H(V) || H(V + 1) || ... computed from the state before the update */
void rand_bytes_x(uint8_t *buf, size_t size)
__CPROVER_requires(size <= (1 << 16) + 8 && g15_gc < 1000)
__CPROVER_requires(size <= (1 << 16) ? __CPROVER_is_fresh(buf, size) : 1)
__CPROVER_requires(g_ctx.counter >= 1 && g_ctx.counter < INT_MAX - 256)
__CPROVER_requires(size <= (1 << 16) || g_may_throw)
VC_ASSIGNS(size <= (1 << 16): __CPROVER_object_upto(buf, size); __CPROVER_object_whole(g_ctx.rand), g_ctx.counter, g_ctx.code, g_ctx.last, g_ctx.error, g_ctx.number, g_thrown, g15_gc)
__CPROVER_ensures(size > (1 << 16) ==> (g_ctx.code == RLC_ERR && VC_V == VC_V_OLD && VC_C == VC_C_OLD && g_ctx.counter == __CPROVER_old(g_ctx.counter) && g15_gc == __CPROVER_old(g15_gc)))
__CPROVER_ensures(size <= (1 << 16) ==> (g_ctx.code == __CPROVER_old(g_ctx.code) && VC_C == VC_C_OLD && g_ctx.counter == __CPROVER_old(g_ctx.counter) + 1 && \
	VC_V == ((VC_V_OLD + (vc_st)__CPROVER_uninterpreted_sha256_56((((vc_st)3) << (8 * VC_SEEDLEN)) | VC_V_OLD) + VC_C_OLD + (vc_st)__CPROVER_old(g_ctx.counter)) & VC_ST_MASK)))
/* the returned bytes, from the OLD V; exactly one more hash computation (03 || V) than output blocks */
__CPROVER_ensures((size <= (1 << 16) && gk < size) ==> buf[gk] == VC15_STREAM(VC_V_OLD, gk))
__CPROVER_ensures(size <= (1 << 16) ==> g15_gc == __CPROVER_old(g15_gc) + (unsigned)((size + RLC_MD_LEN - 1) / RLC_MD_LEN) + 1)
;
#include "vc_spec_pop.h"
