/* HMAC (RFC 2104) over an ABSTRACT hash (property C14): key longer than the block is hashed first, the key block is zero-padded,
   inner = H((K ^ ipad) || text), mac = H((K ^ opad) || inner).  md_map_sh256 is replaced by a contract that (i) returns the
   ghost digest g_hd[call], (ii) records the length and - at the ghost index gk - one byte of the message it was given.  The
   postcondition says what each hash call was fed; since gk is unconstrained it holds for every byte.  SHA-256 itself is
   not covered. */
#pragma once
#include "vc_prelude.h"
extern unsigned g_hc;                       /* hash calls so far */
extern size_t g_hlen[4]; extern uint8_t g_hobs[4]; extern int g_hobs_set[4];
extern uint8_t g_hd[4][RLC_MD_LEN];         /* the digests the abstract hash returns */
extern const void *__CPROVER_alloca_object;
#define VC_HBLK 64
#ifndef VC_HMAC_MAXIN
#define VC_HMAC_MAXIN 24
#endif
#ifndef VC_HMAC_MAXKEY
#define VC_HMAC_MAXKEY 72
#endif
#include "vc_spec_push.h"
void md_map_sh256_h(uint8_t *hash, const uint8_t *msg, size_t len)
__CPROVER_requires(g_hc < 3 && len <= 4096)
__CPROVER_requires(__CPROVER_is_fresh(hash, RLC_MD_LEN) && __CPROVER_is_fresh(msg, len))
VC_ASSIGNS(__CPROVER_object_upto(hash, RLC_MD_LEN), g_hc, __CPROVER_object_whole(g_hlen), __CPROVER_object_whole(g_hobs), __CPROVER_object_whole(g_hobs_set))
__CPROVER_ensures(g_hc == __CPROVER_old(g_hc) + 1 && g_hlen[__CPROVER_old(g_hc) & 3] == len)
__CPROVER_ensures(gk < len ==> (g_hobs_set[__CPROVER_old(g_hc) & 3] == 1 && g_hobs[__CPROVER_old(g_hc) & 3] == msg[gk]))
__CPROVER_ensures(hash[gk % RLC_MD_LEN] == g_hd[__CPROVER_old(g_hc) & 3][gk % RLC_MD_LEN])
/* the records of the other calls are untouched */
__CPROVER_ensures((__CPROVER_old(g_hc) & 3) != 0 ==> (g_hlen[0] == __CPROVER_old(g_hlen[0]) && g_hobs[0] == __CPROVER_old(g_hobs[0]) && g_hobs_set[0] == __CPROVER_old(g_hobs_set[0])))
__CPROVER_ensures((__CPROVER_old(g_hc) & 3) != 1 ==> (g_hlen[1] == __CPROVER_old(g_hlen[1]) && g_hobs[1] == __CPROVER_old(g_hobs[1]) && g_hobs_set[1] == __CPROVER_old(g_hobs_set[1])))
__CPROVER_ensures((__CPROVER_old(g_hc) & 3) != 2 ==> (g_hlen[2] == __CPROVER_old(g_hlen[2]) && g_hobs[2] == __CPROVER_old(g_hobs[2]) && g_hobs_set[2] == __CPROVER_old(g_hobs_set[2])))
;
/* key block byte j: the hashed key (first call) or the key itself, zero padded */
#define VC_KBLK(j)  (key_len > VC_HBLK ? ((j) < RLC_MD_LEN ? g_hd[0][(j) % RLC_MD_LEN] : (uint8_t)0) : ((j) < key_len ? key[(j) < key_len ? (j) : 0] : (uint8_t)0))
#define VC_KI       (key_len > VC_HBLK ? 1u : 0u)       /* index of the inner hash call */
void md_hmac(uint8_t *mac, const uint8_t *in, size_t in_len, const uint8_t *key, size_t key_len)
__CPROVER_requires(in_len <= VC_HMAC_MAXIN && key_len <= VC_HMAC_MAXKEY)
__CPROVER_requires(__CPROVER_is_fresh(mac, RLC_MD_LEN) && __CPROVER_is_fresh(in, in_len) && __CPROVER_is_fresh(key, key_len))
__CPROVER_requires(g_hc == 0 && g_hobs_set[0] == 0 && g_hobs_set[1] == 0 && g_hobs_set[2] == 0)
VC_ASSIGNS(__CPROVER_alloca_object, __CPROVER_object_upto(mac, RLC_MD_LEN), g_hc, __CPROVER_object_whole(g_hlen), __CPROVER_object_whole(g_hobs), __CPROVER_object_whole(g_hobs_set), \
	g_ctx.code, g_ctx.last, g_ctx.error, g_ctx.number, g_thrown)
__CPROVER_ensures(g_ctx.code == __CPROVER_old(g_ctx.code) && g_hc == VC_KI + 2)
/* a long key is hashed whole */
__CPROVER_ensures(key_len > VC_HBLK ==> (g_hlen[0] == key_len && (gk < key_len ==> g_hobs[0] == key[gk < key_len ? gk : 0])))
/* inner hash: (K ^ 0x36) || text */
__CPROVER_ensures(g_hlen[VC_KI] == VC_HBLK + in_len)
__CPROVER_ensures(gk < VC_HBLK + in_len ==> g_hobs[VC_KI] == (gk < VC_HBLK ? (uint8_t)(0x36 ^ VC_KBLK(gk)) : in[(gk >= VC_HBLK && gk - VC_HBLK < in_len) ? gk - VC_HBLK : 0]))
/* outer hash: (K ^ 0x5c) || inner digest;  its digest is the MAC */
__CPROVER_ensures(g_hlen[VC_KI + 1] == VC_HBLK + RLC_MD_LEN)
__CPROVER_ensures(gk < VC_HBLK + RLC_MD_LEN ==> g_hobs[VC_KI + 1] == (gk < VC_HBLK ? (uint8_t)(0x5c ^ VC_KBLK(gk)) : g_hd[VC_KI][(gk - VC_HBLK) % RLC_MD_LEN]))
__CPROVER_ensures(mac[gk % RLC_MD_LEN] == g_hd[VC_KI + 1][gk % RLC_MD_LEN])
;
#include "vc_spec_pop.h"
