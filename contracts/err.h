/* Error handling and context accessors (property C19, the jump-free half - DESIGN 5 C19).
   The REAL macros RLC_TRY / RLC_CATCH / RLC_CATCH_ANY / RLC_FINALLY / RLC_THROW of include/relic_err.h are instantiated in the
   small functions of harness/err_shapes.h; the contracts below are about those instantiations.  setjmp returns 0 only and
   longjmp is an exceptional exit, so what happens after the jump (handler body, finaliser on the exceptional path, rethrow)
   is out of reach; what is proved is the bookkeeping up to the jump and the complete no-throw behaviour. */
#pragma once
#include "vc_prelude.h"

extern int g_body[4], g_fin[4], g_catch[4], g_after;   /* ghost counters per nesting level */
extern err_t g_err[4];                                  /* error variables of RLC_CATCH(e) */
extern int g_jmp_code_ok, g_jmp_err_ok;                 /* set by the longjmp stub: state observed at the jump */
extern int g_expect_e;

#include "vc_spec_push.h"
/* sticky code: reads as stored, is RLC_OK afterwards, nothing else changes */
int err_get_code(void)
VC_ASSIGNS(g_ctx.code)
__CPROVER_ensures(__CPROVER_return_value == __CPROVER_old(g_ctx.code) && g_ctx.code == RLC_OK)
;

#define VC_CTX_SAME_CHAIN  (g_ctx.last == __CPROVER_old(g_ctx.last))

/* throw outside any protected block */
void vc_throw_outside(int e)
__CPROVER_requires(e >= 1 && e < ERR_MAX && (g_ctx.last == NULL || (g_ctx.last == &g_ctx.error && g_ctx.error.block == 0)))
VC_ASSIGNS(g_ctx.code, g_ctx.last, g_ctx.error, g_ctx.number, g_thrown)
__CPROVER_ensures(g_ctx.code == RLC_ERR && g_thrown == 0)
__CPROVER_ensures(__CPROVER_old(g_ctx.last) == NULL ==> (g_ctx.last == &g_ctx.error && g_ctx.error.block == 0 && g_ctx.error.error == &g_ctx.number && g_ctx.number == e))
__CPROVER_ensures(__CPROVER_old(g_ctx.last) != NULL ==> (g_ctx.last == __CPROVER_old(g_ctx.last) && g_ctx.number == __CPROVER_old(g_ctx.number)))
;

/* one protected block in which nothing is thrown: body once, handler not entered, finaliser exactly once, chain restored */
void vc_try1(void)
__CPROVER_requires(g_body[0] == 0 && g_fin[0] == 0 && g_catch[0] == 0)
VC_ASSIGNS(g_ctx.last, g_ctx.caught, __CPROVER_object_whole(g_body), __CPROVER_object_whole(g_fin), __CPROVER_object_whole(g_catch))
__CPROVER_ensures(g_body[0] == 1 && g_fin[0] == 1 && g_catch[0] == 0 && g_ctx.caught == 0 && VC_CTX_SAME_CHAIN)
;
/* three nested blocks (catch-specific inside catch-any inside catch-any), nothing thrown */
void vc_try3(void)
__CPROVER_requires(g_body[0] == 0 && g_fin[0] == 0 && g_catch[0] == 0 && g_body[1] == 0 && g_fin[1] == 0 && g_catch[1] == 0 && g_body[2] == 0 && g_fin[2] == 0 && g_catch[2] == 0)
VC_ASSIGNS(g_ctx.last, g_ctx.caught, __CPROVER_object_whole(g_body), __CPROVER_object_whole(g_fin), __CPROVER_object_whole(g_catch), __CPROVER_object_whole(g_err))
__CPROVER_ensures(g_body[0] == 1 && g_body[1] == 1 && g_body[2] == 1 && g_fin[0] == 1 && g_fin[1] == 1 && g_fin[2] == 1)
__CPROVER_ensures(g_catch[0] == 0 && g_catch[1] == 0 && g_catch[2] == 0 && g_ctx.caught == 0 && VC_CTX_SAME_CHAIN)
;
/* a throw inside the inner of two blocks: at the jump the sticky code is RLC_ERR, the inner frame is the target and carries
   the thrown code; nothing after the throw runs (the stub records what it saw) */
void vc_try2_throw(int e)
__CPROVER_requires(e >= 1 && e < ERR_MAX && e != ERR_CAUGHT && g_expect_e == e && g_after == 0 && g_body[0] == 0 && g_body[1] == 0 && g_jmp_code_ok == 0 && g_jmp_err_ok == 0 && g_may_throw == 1)
VC_ASSIGNS(g_ctx.code, g_ctx.last, g_ctx.caught, g_thrown, g_after, g_jmp_code_ok, g_jmp_err_ok, __CPROVER_object_whole(g_body), __CPROVER_object_whole(g_fin), __CPROVER_object_whole(g_catch), __CPROVER_object_whole(g_err))
__CPROVER_ensures(0)     /* never returns normally in this model: every path ends at the jump */
;
/* second-return model (harness/err_shapes.c): inner block left through a throw (g_sj[1] == 1) or normally (== 0), inner
   handler swallows: inner finaliser once, inner handler iff thrown, OUTER handler never, outer finaliser once, code after
   the inner block runs, chain restored, caught flag clear at the end */
extern int g_sj[4]; extern int g_sj_n; extern sts_t *g_outer_frame;
void vc_try2_swallow(void)
__CPROVER_requires(g_body[0] == 0 && g_fin[0] == 0 && g_catch[0] == 0 && g_body[1] == 0 && g_fin[1] == 0 && g_catch[1] == 0 && g_after == 0 && g_sj_n == 0 && g_sj[0] == 0 && (g_sj[1] == 0 || g_sj[1] == 1))
VC_ASSIGNS(g_ctx.last, g_ctx.caught, g_after, g_sj_n, __CPROVER_object_whole(g_body), __CPROVER_object_whole(g_fin), __CPROVER_object_whole(g_catch))
__CPROVER_ensures(g_body[0] == 1 && g_fin[0] == 1 && g_catch[0] == 0 && g_after == 1)
__CPROVER_ensures(g_fin[1] == 1 && g_catch[1] == g_sj[1] && g_body[1] == 1 - g_sj[1])
__CPROVER_ensures(g_ctx.caught == 0 && VC_CTX_SAME_CHAIN)
;
void vc_try2_rethrow(void)
__CPROVER_requires(g_body[0] == 0 && g_fin[0] == 0 && g_catch[0] == 0 && g_body[1] == 0 && g_fin[1] == 0 && g_catch[1] == 0 && g_after == 0 && g_sj_n == 0 && g_sj[0] == 0 && g_sj[1] == 1 && g_may_throw == 1 && g_ctx.code == RLC_ERR)
VC_ASSIGNS(g_ctx.code, g_ctx.last, g_ctx.caught, g_thrown, g_after, g_sj_n, g_outer_frame, __CPROVER_object_whole(g_body), __CPROVER_object_whole(g_fin), __CPROVER_object_whole(g_catch))
__CPROVER_ensures(0)     /* every path ends at the re-throw jump; the stub checks the state there */
;
#include "vc_spec_pop.h"
