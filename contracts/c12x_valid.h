/* Property C12, first sentence: the validity predicates g1_is_valid / g2_is_valid / gt_is_valid (src/pc/relic_pc_util.c).
   GUARD + DATA-FLOW CONTRACTS.  Every callee is ABSTRACT.  Each group element / scalar object carries a SYMBOLIC VALUE (a "term")
   in its first digit (ep: x[0]; ep2: x[0][0]; fp12: digit 0; bn: dp[0]); an abstract operation havocs its output object and sets
   the output's carrier to an UNINTERPRETED function of the operands' carriers (mul, add, psi, frb, exp, ...); the tests
   (identity, on-curve, cyclotomic, comparison, parity / sign / cofactor-is-one of a scalar) return an uninterpreted verdict of
   the carriers they were asked about and are additionally recorded in ghost state with the IDENTITY (integer id, DESIGN P34) of
   the object.  Parameter getters hand out the symbolic constants g12_par (curve parameter z), g12_ord (group order), g12_cof
   (cofactor); the family, ep_id and all verdicts are arbitrary public inputs.  Nothing about the arithmetic is assumed or claimed.
   The top-level postcondition is then an EXACT (both directions) statement over these terms:
       result == (not identity(A)) && on-curve/cyclotomic(A) && EQ(L(A, params), R(A, params))
   with L, R the two sides of the subgroup test of the branch taken, written from the formulas the source cites.
   Clauses the shipped code does not meet are under #ifndef C12X_WITHOUT_<NAME> (see the *.codeguards units). */
#pragma once
#include "vc_prelude.h"
#include <stddef.h>

typedef unsigned long long c12_id;
#define C12_ID(p)  ((((c12_id)__CPROVER_POINTER_OBJECT(p)) << 40) + (c12_id)__CPROVER_POINTER_OFFSET(p))

extern int g12_fam;                       /* verdict of ep_curve_is_pairf(): the curve family (public) */
extern dig_t g12_par, g12_ord, g12_cof;   /* symbolic values handed out by fp_prime_get_par / ep_curve_get_ord / ep_curve_get_cof */
extern int g12_spslen; extern int g12_sps[8];   /* sparse form of the parameter (fp_prime_get_par_sps) */
extern int g12_ops;                       /* number of group operations (mul, add, dbl, neg, psi, frb, exp, ...) so far */
extern int g12_inf_n, g12_onc_n, g12_cmp_n, g12_cmp_v, g12_cyc_n, g12_cyc_k, g12_cof_n, g12_cof_ok;
extern c12_id g12_inf_id, g12_onc_id, g12_cyc_id;     /* identity of the object of the LAST identity / on-curve / cyclotomic test */
extern dig_t g12_cmp_l, g12_cmp_r;        /* carriers of the operands of the LAST comparison */

/* ep_id lives outside the error prefix of the context: the units use -DVC_CTX_RAND (prefix + untouched gap + DRBG state) */
#ifdef VC_CTX_RAND
_Static_assert(offsetof(ctx_t, ep_id) > offsetof(ctx_t, caught) + sizeof(int) && offsetof(ctx_t, ep_id) + sizeof(int) <= offsetof(ctx_t, rand), "ep_id inside the gap");
#endif
#define C12_EPID (((const ctx_t *)&g_ctx)->ep_id)

/* carriers */
#define C12_E(p)   ((p)->x[0])
#define C12_E2(p)  ((p)->x[0][0])
#define C12_T(a)   (((dig_t *)(a))[0])
#define C12_B(n)   ((n)->dp[0])
#define C12_BNW(a) (a)->used, (a)->sign, __CPROVER_object_upto((a)->dp, sizeof((a)->dp))
#define C12_EW(r)  __CPROVER_object_upto(r, sizeof(ep_st))
#define C12_E2W(r) __CPROVER_object_upto(r, sizeof(ep2_st))
#define C12_TW(c)  __CPROVER_object_upto(c, sizeof(fp12_t))

/* uninterpreted operations over carriers */
dig_t __CPROVER_uninterpreted_c12_mul(dig_t p, dig_t k);
dig_t __CPROVER_uninterpreted_c12_muld(dig_t p, dig_t d);
dig_t __CPROVER_uninterpreted_c12_add(dig_t p, dig_t q);
dig_t __CPROVER_uninterpreted_c12_sub(dig_t p, dig_t q);
dig_t __CPROVER_uninterpreted_c12_dbl(dig_t p);
dig_t __CPROVER_uninterpreted_c12_neg(dig_t p);
dig_t __CPROVER_uninterpreted_c12_psi(dig_t p);
dig_t __CPROVER_uninterpreted_c12_frb(dig_t p, dig_t i);
dig_t __CPROVER_uninterpreted_c12_inf(dig_t p);
dig_t __CPROVER_uninterpreted_c12_onc(dig_t p);
dig_t __CPROVER_uninterpreted_c12_eq(dig_t p, dig_t q);
dig_t __CPROVER_uninterpreted_c12_bsqr(dig_t n);
dig_t __CPROVER_uninterpreted_c12_bmul(dig_t n, dig_t m);
dig_t __CPROVER_uninterpreted_c12_baddd(dig_t n, dig_t d);
dig_t __CPROVER_uninterpreted_c12_bsubd(dig_t n, dig_t d);
dig_t __CPROVER_uninterpreted_c12_bdivd(dig_t n, dig_t d);
dig_t __CPROVER_uninterpreted_c12_bmuld(dig_t n, dig_t d);
dig_t __CPROVER_uninterpreted_c12_bmodd(dig_t n, dig_t d);
dig_t __CPROVER_uninterpreted_c12_bhlv(dig_t n);
dig_t __CPROVER_uninterpreted_c12_bneg(dig_t n);
dig_t __CPROVER_uninterpreted_c12_beven(dig_t n);
dig_t __CPROVER_uninterpreted_c12_bsign(dig_t n);
dig_t __CPROVER_uninterpreted_c12_bcmpd(dig_t n, dig_t d);
dig_t __CPROVER_uninterpreted_c12_gmul(dig_t p, dig_t q);
dig_t __CPROVER_uninterpreted_c12_gsqr(dig_t p);
dig_t __CPROVER_uninterpreted_c12_ginv(dig_t p);
dig_t __CPROVER_uninterpreted_c12_gfrb(dig_t p, dig_t i);
dig_t __CPROVER_uninterpreted_c12_gexp(dig_t p, dig_t n);
dig_t __CPROVER_uninterpreted_c12_gsps(dig_t p, dig_t sign, dig_t k);
dig_t __CPROVER_uninterpreted_c12_guni(dig_t p, dig_t d);
dig_t __CPROVER_uninterpreted_c12_geq(dig_t p, dig_t q);
dig_t __CPROVER_uninterpreted_c12_gcyc(dig_t p, dig_t k);
#define uM    __CPROVER_uninterpreted_c12_mul
#define uMD   __CPROVER_uninterpreted_c12_muld
#define uADD  __CPROVER_uninterpreted_c12_add
#define uSUB  __CPROVER_uninterpreted_c12_sub
#define uDBL  __CPROVER_uninterpreted_c12_dbl
#define uNEG  __CPROVER_uninterpreted_c12_neg
#define uPSI  __CPROVER_uninterpreted_c12_psi
#define uFRB  __CPROVER_uninterpreted_c12_frb
#define uINF(p)   (__CPROVER_uninterpreted_c12_inf(p) != 0)
#define uONC(p)   (__CPROVER_uninterpreted_c12_onc(p) != 0)
#define uEQ(p, q) (__CPROVER_uninterpreted_c12_eq(p, q) != 0)
#define uBSQR  __CPROVER_uninterpreted_c12_bsqr
#define uBMUL  __CPROVER_uninterpreted_c12_bmul
#define uBADDD __CPROVER_uninterpreted_c12_baddd
#define uBSUBD __CPROVER_uninterpreted_c12_bsubd
#define uBDIVD __CPROVER_uninterpreted_c12_bdivd
#define uBMULD __CPROVER_uninterpreted_c12_bmuld
#define uBMODD __CPROVER_uninterpreted_c12_bmodd
#define uBHLV  __CPROVER_uninterpreted_c12_bhlv
#define uBNEG  __CPROVER_uninterpreted_c12_bneg
#define uBEVEN(n) (__CPROVER_uninterpreted_c12_beven(n) != 0)
#define uBSIGN(n) (__CPROVER_uninterpreted_c12_bsign(n) != 0 ? RLC_NEG : RLC_POS)
#define uBCMPD(n, d) (__CPROVER_uninterpreted_c12_bcmpd(n, d) == 0 ? RLC_EQ : (__CPROVER_uninterpreted_c12_bcmpd(n, d) == 1 ? RLC_GT : RLC_LT))
#define uGMUL  __CPROVER_uninterpreted_c12_gmul
#define uGSQR  __CPROVER_uninterpreted_c12_gsqr
#define uGINV  __CPROVER_uninterpreted_c12_ginv
#define uGFRB  __CPROVER_uninterpreted_c12_gfrb
#define uGEXP  __CPROVER_uninterpreted_c12_gexp
#define uGSPS  __CPROVER_uninterpreted_c12_gsps
#define uGUNI(p, d) (__CPROVER_uninterpreted_c12_guni(p, d) != 0)
#define uGEQ(p, q)  (__CPROVER_uninterpreted_c12_geq(p, q) != 0)
#define uGCYC(p, k) (__CPROVER_uninterpreted_c12_gcyc(p, k) != 0)

#define C12_INIT (g12_ops == 0 && g12_inf_n == 0 && g12_onc_n == 0 && g12_cmp_n == 0 && g12_cmp_v == 0 && g12_cyc_n == 0 && g12_cyc_k == 0 && g12_cof_n == 0 && \
	g12_cof_ok == 0 && g12_inf_id == 0 && g12_onc_id == 0 && g12_cyc_id == 0 && g12_spslen >= 0 && g12_spslen <= 8)
#define C12_GHOST g12_ops, g12_inf_n, g12_onc_n, g12_cmp_n, g12_cmp_v, g12_cyc_n, g12_cyc_k, g12_cof_n, g12_cof_ok, g12_inf_id, g12_onc_id, g12_cyc_id, g12_cmp_l, g12_cmp_r, \
	g_ctx.code, g_ctx.last, g_ctx.caught, g_ctx.error, g_ctx.number, g_thrown
#define C12_OP1 (g12_ops == __CPROVER_old(g12_ops) + 1)

#include "vc_spec_push.h"
/* ================================ abstract callees ========================================================================= */
/* ---- parameters ---- */
int ep_curve_is_pairf_c12(void) VC_ASSIGNS_NONE __CPROVER_ensures(__CPROVER_return_value == g12_fam);
void fp_prime_get_par_c12(bn_t x) VC_ASSIGNS(C12_BNW(x)) __CPROVER_ensures(C12_B(x) == g12_par);
void ep_curve_get_ord_c12(bn_t x) VC_ASSIGNS(C12_BNW(x)) __CPROVER_ensures(C12_B(x) == g12_ord);
void ep_curve_get_cof_c12(bn_t x) VC_ASSIGNS(C12_BNW(x)) __CPROVER_ensures(C12_B(x) == g12_cof);
const int *fp_prime_get_par_sps_c12(int *len) VC_ASSIGNS(*len) __CPROVER_ensures(*len == g12_spslen && __CPROVER_pointer_equals(__CPROVER_return_value, (const int *)g12_sps));
/* ---- scalar arithmetic and tests ---- */
void bn_sqr_comba_c12(bn_t c, const bn_t a) VC_ASSIGNS(C12_BNW(c)) __CPROVER_ensures(C12_B(c) == uBSQR(__CPROVER_old(C12_B(a))));
void bn_mul_comba_c12(bn_t c, const bn_t a, const bn_t b) VC_ASSIGNS(C12_BNW(c)) __CPROVER_ensures(C12_B(c) == uBMUL(__CPROVER_old(C12_B(a)), __CPROVER_old(C12_B(b))));
void bn_add_dig_c12(bn_t c, const bn_t a, dig_t b) VC_ASSIGNS(C12_BNW(c)) __CPROVER_ensures(C12_B(c) == uBADDD(__CPROVER_old(C12_B(a)), b));
void bn_sub_dig_c12(bn_t c, const bn_t a, dig_t b) VC_ASSIGNS(C12_BNW(c)) __CPROVER_ensures(C12_B(c) == uBSUBD(__CPROVER_old(C12_B(a)), b));
void bn_div_dig_c12(bn_t c, const bn_t a, dig_t b) VC_ASSIGNS(C12_BNW(c)) __CPROVER_ensures(C12_B(c) == uBDIVD(__CPROVER_old(C12_B(a)), b));
void bn_mul_dig_c12(bn_t c, const bn_t a, dig_t b) VC_ASSIGNS(C12_BNW(c)) __CPROVER_ensures(C12_B(c) == uBMULD(__CPROVER_old(C12_B(a)), b));
void bn_mod_dig_c12(dig_t *c, const bn_t a, dig_t b) VC_ASSIGNS(*c) __CPROVER_ensures(*c == uBMODD(C12_B(a), b));
void bn_hlv_c12(bn_t c, const bn_t a) VC_ASSIGNS(C12_BNW(c)) __CPROVER_ensures(C12_B(c) == uBHLV(__CPROVER_old(C12_B(a))));
void bn_neg_c12(bn_t c, const bn_t a) VC_ASSIGNS(C12_BNW(c)) __CPROVER_ensures(C12_B(c) == uBNEG(__CPROVER_old(C12_B(a))));
int bn_is_even_c12(const bn_t a) VC_ASSIGNS_NONE __CPROVER_ensures(__CPROVER_return_value == (uBEVEN(C12_B(a)) ? 1 : 0));
int bn_sign_c12(const bn_t a) VC_ASSIGNS_NONE __CPROVER_ensures(__CPROVER_return_value == uBSIGN(C12_B(a)));
/* the cofactor-is-one decision: recorded, with "asked about the cofactor object, against the digit 1" */
int bn_cmp_dig_c12(const bn_t a, dig_t b) VC_ASSIGNS(g12_cof_n, g12_cof_ok)
__CPROVER_ensures(__CPROVER_return_value == uBCMPD(C12_B(a), b) && g12_cof_n == __CPROVER_old(g12_cof_n) + 1 && g12_cof_ok == ((C12_B(a) == g12_cof && b == 1) ? 1 : 0));
/* ---- G1 ---- */
int ep_is_infty_c12(const ep_t p) VC_ASSIGNS(g12_inf_n, g12_inf_id)
__CPROVER_ensures(__CPROVER_return_value == (uINF(C12_E(p)) ? 1 : 0) && g12_inf_n == __CPROVER_old(g12_inf_n) + 1 && g12_inf_id == C12_ID(p));
int ep_on_curve_c12(const ep_t p) VC_ASSIGNS(g12_onc_n, g12_onc_id)
__CPROVER_ensures(__CPROVER_return_value == (uONC(C12_E(p)) ? 1 : 0) && g12_onc_n == __CPROVER_old(g12_onc_n) + 1 && g12_onc_id == C12_ID(p));
int ep_cmp_c12(const ep_t p, const ep_t q) VC_ASSIGNS(g12_cmp_n, g12_cmp_v, g12_cmp_l, g12_cmp_r)
__CPROVER_ensures(__CPROVER_return_value == (uEQ(C12_E(p), C12_E(q)) ? RLC_EQ : RLC_NE) && g12_cmp_n == __CPROVER_old(g12_cmp_n) + 1 && g12_cmp_v == (uEQ(C12_E(p), C12_E(q)) ? 1 : 0))
__CPROVER_ensures(g12_cmp_l == C12_E(p) && g12_cmp_r == C12_E(q));
void ep_mul_basic_c12(ep_t r, const ep_t p, const bn_t k) VC_ASSIGNS(C12_EW(r), g12_ops) __CPROVER_ensures(C12_OP1 && C12_E(r) == uM(__CPROVER_old(C12_E(p)), C12_B(k)));
void ep_mul_dig_c12(ep_t r, const ep_t p, dig_t k) VC_ASSIGNS(C12_EW(r), g12_ops) __CPROVER_ensures(C12_OP1 && C12_E(r) == uMD(__CPROVER_old(C12_E(p)), k));
void ep_add_projc_c12(ep_t r, const ep_t p, const ep_t q) VC_ASSIGNS(C12_EW(r), g12_ops) __CPROVER_ensures(C12_OP1 && C12_E(r) == uADD(__CPROVER_old(C12_E(p)), __CPROVER_old(C12_E(q))));
void ep_sub_c12(ep_t r, const ep_t p, const ep_t q) VC_ASSIGNS(C12_EW(r), g12_ops) __CPROVER_ensures(C12_OP1 && C12_E(r) == uSUB(__CPROVER_old(C12_E(p)), __CPROVER_old(C12_E(q))));
void ep_dbl_projc_c12(ep_t r, const ep_t p) VC_ASSIGNS(C12_EW(r), g12_ops) __CPROVER_ensures(C12_OP1 && C12_E(r) == uDBL(__CPROVER_old(C12_E(p))));
void ep_neg_c12(ep_t r, const ep_t p) VC_ASSIGNS(C12_EW(r), g12_ops) __CPROVER_ensures(C12_OP1 && C12_E(r) == uNEG(__CPROVER_old(C12_E(p))));
void ep_psi_c12(ep_t r, const ep_t p) VC_ASSIGNS(C12_EW(r), g12_ops) __CPROVER_ensures(C12_OP1 && C12_E(r) == uPSI(__CPROVER_old(C12_E(p))));
/* normalisation and copy keep the VALUE (the carrier); the representation is havocked */
void ep_norm_c12(ep_t r, const ep_t p) VC_ASSIGNS(C12_EW(r), g12_ops) __CPROVER_ensures(C12_OP1 && C12_E(r) == __CPROVER_old(C12_E(p)));
void ep_copy_c12(ep_t r, const ep_t p) VC_ASSIGNS(C12_EW(r), g12_ops) __CPROVER_ensures(C12_OP1 && C12_E(r) == __CPROVER_old(C12_E(p)));
/* ---- G2 ---- */
int ep2_is_infty_c12(const ep2_t p) VC_ASSIGNS(g12_inf_n, g12_inf_id)
__CPROVER_ensures(__CPROVER_return_value == (uINF(C12_E2(p)) ? 1 : 0) && g12_inf_n == __CPROVER_old(g12_inf_n) + 1 && g12_inf_id == C12_ID(p));
int ep2_on_curve_c12(const ep2_t p) VC_ASSIGNS(g12_onc_n, g12_onc_id)
__CPROVER_ensures(__CPROVER_return_value == (uONC(C12_E2(p)) ? 1 : 0) && g12_onc_n == __CPROVER_old(g12_onc_n) + 1 && g12_onc_id == C12_ID(p));
int ep2_cmp_c12(const ep2_t p, const ep2_t q) VC_ASSIGNS(g12_cmp_n, g12_cmp_v, g12_cmp_l, g12_cmp_r)
__CPROVER_ensures(__CPROVER_return_value == (uEQ(C12_E2(p), C12_E2(q)) ? RLC_EQ : RLC_NE) && g12_cmp_n == __CPROVER_old(g12_cmp_n) + 1 && g12_cmp_v == (uEQ(C12_E2(p), C12_E2(q)) ? 1 : 0))
__CPROVER_ensures(g12_cmp_l == C12_E2(p) && g12_cmp_r == C12_E2(q));
void ep2_mul_basic_c12(ep2_t r, const ep2_t p, const bn_t k) VC_ASSIGNS(C12_E2W(r), g12_ops) __CPROVER_ensures(C12_OP1 && C12_E2(r) == uM(__CPROVER_old(C12_E2(p)), C12_B(k)));
void ep2_add_projc_c12(ep2_t r, const ep2_t p, const ep2_t q) VC_ASSIGNS(C12_E2W(r), g12_ops) __CPROVER_ensures(C12_OP1 && C12_E2(r) == uADD(__CPROVER_old(C12_E2(p)), __CPROVER_old(C12_E2(q))));
void ep2_sub_c12(ep2_t r, const ep2_t p, const ep2_t q) VC_ASSIGNS(C12_E2W(r), g12_ops) __CPROVER_ensures(C12_OP1 && C12_E2(r) == uSUB(__CPROVER_old(C12_E2(p)), __CPROVER_old(C12_E2(q))));
void ep2_dbl_projc_c12(ep2_t r, const ep2_t p) VC_ASSIGNS(C12_E2W(r), g12_ops) __CPROVER_ensures(C12_OP1 && C12_E2(r) == uDBL(__CPROVER_old(C12_E2(p))));
void ep2_neg_c12(ep2_t r, const ep2_t p) VC_ASSIGNS(C12_E2W(r), g12_ops) __CPROVER_ensures(C12_OP1 && C12_E2(r) == uNEG(__CPROVER_old(C12_E2(p))));
void ep2_frb_c12(ep2_t r, const ep2_t p, int i) VC_ASSIGNS(C12_E2W(r), g12_ops) __CPROVER_ensures(C12_OP1 && C12_E2(r) == uFRB(__CPROVER_old(C12_E2(p)), (dig_t)i));
void ep2_copy_c12(ep2_t r, const ep2_t p) VC_ASSIGNS(C12_E2W(r), g12_ops) __CPROVER_ensures(C12_OP1 && C12_E2(r) == __CPROVER_old(C12_E2(p)));
/* ---- GT (the functions of the other embedding degrees are modelled on the same 12-degree object: in a build where such a
   branch is live, gt_t IS that type) ---- */
int fp12_cmp_dig_c12(const fp12_t a, const dig_t b) VC_ASSIGNS(g12_inf_n, g12_inf_id)
__CPROVER_ensures(__CPROVER_return_value == (uGUNI(C12_T(a), b) ? RLC_EQ : RLC_NE) && g12_inf_n == __CPROVER_old(g12_inf_n) + 1 && g12_inf_id == C12_ID(a));
int fp12_cmp_c12(const fp12_t a, const fp12_t b) VC_ASSIGNS(g12_cmp_n, g12_cmp_v, g12_cmp_l, g12_cmp_r)
__CPROVER_ensures(__CPROVER_return_value == (uGEQ(C12_T(a), C12_T(b)) ? RLC_EQ : RLC_NE) && g12_cmp_n == __CPROVER_old(g12_cmp_n) + 1 && g12_cmp_v == (uGEQ(C12_T(a), C12_T(b)) ? 1 : 0))
__CPROVER_ensures(g12_cmp_l == C12_T(a) && g12_cmp_r == C12_T(b));
#define C12_CYC(name, type, k) int name(const type a) VC_ASSIGNS(g12_cyc_n, g12_cyc_id, g12_cyc_k) \
	__CPROVER_ensures(__CPROVER_return_value == (uGCYC(C12_T(a), k) ? 1 : 0) && g12_cyc_n == __CPROVER_old(g12_cyc_n) + 1 && g12_cyc_id == C12_ID(a) && g12_cyc_k == k)
C12_CYC(fp12_test_cyc_c12, fp12_t, 12);
C12_CYC(fp16_test_cyc_c12, fp16_t, 16);
C12_CYC(fp18_test_cyc_c12, fp18_t, 18);
C12_CYC(fp24_test_cyc_c12, fp24_t, 24);
C12_CYC(fp48_test_cyc_c12, fp48_t, 48);
/* exponentiation by the sparse form of the curve parameter: must be handed THE sparse form of the parameter */
#define C12_SPS(name, type, ltype, k) void name(type c, const type a, const int *b, ltype l, int s) \
	__CPROVER_requires(C12_ID(b) == C12_ID(g12_sps) && (long)l == (long)g12_spslen) VC_ASSIGNS(C12_TW(c), g12_ops) \
	__CPROVER_ensures(C12_OP1 && C12_T(c) == uGSPS(__CPROVER_old(C12_T(a)), (dig_t)s, k))
C12_SPS(fp12_exp_cyc_sps_c12, fp12_t, size_t, 12);
C12_SPS(fp18_exp_cyc_sps_c12, fp18_t, int, 18);
C12_SPS(fp24_exp_cyc_sps_c12, fp24_t, size_t, 24);
C12_SPS(fp48_exp_cyc_sps_c12, fp48_t, size_t, 48);
void gt_exp_c12(gt_t c, const gt_t a, const bn_t b) VC_ASSIGNS(C12_TW(c), g12_ops) __CPROVER_ensures(C12_OP1 && C12_T(c) == uGEXP(__CPROVER_old(C12_T(a)), C12_B(b)));
void fp12_mul_lazyr_c12(fp12_t c, const fp12_t a, const fp12_t b) VC_ASSIGNS(C12_TW(c), g12_ops) __CPROVER_ensures(C12_OP1 && C12_T(c) == uGMUL(__CPROVER_old(C12_T(a)), __CPROVER_old(C12_T(b))));
void fp12_sqr_lazyr_c12(fp12_t c, const fp12_t a) VC_ASSIGNS(C12_TW(c), g12_ops) __CPROVER_ensures(C12_OP1 && C12_T(c) == uGSQR(__CPROVER_old(C12_T(a))));
void fp12_inv_cyc_c12(fp12_t c, const fp12_t a) VC_ASSIGNS(C12_TW(c), g12_ops) __CPROVER_ensures(C12_OP1 && C12_T(c) == uGINV(__CPROVER_old(C12_T(a))));
void fp12_frb_c12(fp12_t c, const fp12_t a, int i) VC_ASSIGNS(C12_TW(c), g12_ops) __CPROVER_ensures(C12_OP1 && C12_T(c) == uGFRB(__CPROVER_old(C12_T(a)), (dig_t)i));
void fp12_copy_c12(fp12_t c, const fp12_t a) VC_ASSIGNS(C12_TW(c), g12_ops) __CPROVER_ensures(C12_OP1 && C12_T(c) == __CPROVER_old(C12_T(a)));

/* ================================ expected verdicts (from the property + the formulas the source cites) ===================== */
#define C12_K16 (g12_fam == EP_K16)
/* G1.  cofactor 1: membership == on the curve and not the identity (no multiplication demanded).
   K16 is stated generically (C12_GENERIC below); K18 (NAF double-and-add loop of symbolic length) is outside the unit. */
static inline int c12_g1_expect(dig_t A) {
	dig_t Z = g12_par, L = 0, R = 0, n, u;
	if (uINF(A)) return 0;
	if (uBCMPD(g12_cof, 1) == RLC_EQ) return uONC(A) ? 1 : 0;
	switch (g12_fam) {
		case EP_B12: L = uPSI(uPSI(A)); R = uNEG(uM(uM(A, Z), Z)); break;                                   /* psi^2(P) == [-z^2]P */
		case EP_B24: L = uPSI(uPSI(A)); R = uNEG(uM(uM(uM(uM(A, Z), Z), Z), Z)); break;                     /* [-z^4]P */
		case EP_B48: L = uPSI(uPSI(A)); R = uNEG(uM(uM(uM(uM(uM(uM(uM(uM(A, Z), Z), Z), Z), Z), Z), Z), Z)); break;   /* [-z^8]P */
		case EP_AFG16:
			n = uBSQR(uBSQR(Z)); u = uPSI(A);
			if (!uBEVEN(n)) { n = uBHLV(uBSUBD(n, 1)); u = uSUB(u, A); }                                   /* (z^4-1)/2 (psi(P) - P) == P */
			L = uM(u, n); R = A; break;                                                                     /* z^4 psi(P) == P */
		case EP_FM16: L = uPSI(uM(uM(uM(uM(A, Z), Z), Z), Z)); R = A; break;                              /* P == psi([z^4]P) */
		case EP_FM18: L = uPSI(A); R = uM(A, uBSUBD(uBMUL(uBSQR(Z), Z), 1)); break;                       /* [z^3-1]P == psi(P) */
		case EP_SG18: u = uPSI(uPSI(A));
			L = A; R = uNEG(uADD(uMD(uM(uM(uM(u, Z), Z), Z), 9), uDBL(u))); break;                         /* [9z^3+2]psi'(P) == -P */
		default: L = uNEG(uM(A, uBSUBD(g12_ord, 1))); R = A; break;                                       /* -[r-1]P == P */
	}
	return (uONC(A) && uEQ(L, R)) ? 1 : 0;
}
static inline int c12_g2_expect(dig_t A, int epid) {
	dig_t Z = g12_par, L = 0, R = 0, u, v;
	if (uINF(A)) return 0;
	switch (g12_fam) {
		case EP_B12: case EP_B24: case EP_B48:
			if (epid == B12_383) { L = uADD(uFRB(A, 4), A); R = uFRB(A, 2); }                              /* psi^4(P) + P == psi^2(P) */
			else { L = uM(A, Z); R = uFRB(A, 1); }                                                         /* psi(P) == [z]P */
			break;
		case EP_BN: u = uM(A, Z); v = uFRB(u, 1);                                                          /* [z+1]P + psi([z]P) + psi^2([z]P) == psi^3([2z]P) */
			L = uADD(uADD(uADD(u, A), v), uFRB(v, 1)); R = uDBL(uFRB(uFRB(v, 1), 1)); break;
		case EP_AFG16:
			if (uBEVEN(Z)) { L = A; R = uFRB(uM(A, Z), 3); } else { L = uM(A, Z); R = uFRB(A, 5); }
			break;
		case EP_FM16: L = uM(A, Z); R = uFRB(A, 1); break;
		case EP_K18: u = uFRB(A, 2);                                                                      /* P + [z]psi^2(P) + 2 psi^3(P) == O */
			L = uNEG(uADD(uDBL(uFRB(u, 1)), uM(u, Z))); R = A; break;
		case EP_FM18: L = uFRB(uM(A, uBNEG(Z)), 2); R = A; break;                                        /* Q == -[z]psi^2(Q) */
		case EP_SG18: v = uFRB(A, 2);                                                                     /* [3z]P + 2 psi^2(P) == psi^5(P) */
			L = uADD(uADD(uM(A, uBMULD(Z, 3)), v), v); R = uFRB(A, 5); break;
		default: L = uNEG(uM(A, uBSUBD(g12_ord, 1))); R = A; break;
	}
	return (uONC(A) && uEQ(L, R)) ? 1 : 0;
}
/* GT.  cyc = the cyclotomic-subgroup test of the branch's embedding degree, on the argument. */
static inline int c12_gt_expect(dig_t A, int epid) {
	dig_t Z = g12_par, L = 0, R = 0, u, v, S = (dig_t)uBSIGN(g12_par);
	int cyc = 0;
	if (uGUNI(A, 1)) return 0;
	switch (g12_fam) {
		case EP_B12: cyc = uGCYC(A, 12);
#ifdef C12X_WITHOUT_B12_383_ORDER
			if (epid == B12_383) return cyc ? 1 : 0;          /* code: "GT-strong, so test for cyclotomic only" */
#endif
			L = uGFRB(A, 1); R = uGSPS(A, S, 12); break;                                                    /* a^p == a^z */
		case EP_B24: cyc = uGCYC(A, 24); L = uGFRB(A, 1); R = uGSPS(A, S, 24); break;
		case EP_B48: cyc = uGCYC(A, 48); L = uGFRB(A, 1); R = uGSPS(A, S, 48); break;
		case EP_BN: cyc = uGCYC(A, 12); u = uGSPS(A, S, 12); v = uGFRB(u, 1);
			L = uGMUL(uGMUL(uGMUL(u, A), v), uGFRB(v, 1)); R = uGSQR(uGFRB(uGFRB(v, 1), 1)); break;
		case EP_AFG16: cyc = uGCYC(A, 16);
			if (uBEVEN(Z)) { L = A; R = uGFRB(uGEXP(A, Z), 3); } else { L = uGEXP(A, Z); R = uGFRB(A, 5); }
			break;
		case EP_FM16: cyc = uGCYC(A, 16); L = uGEXP(A, Z); R = uGFRB(A, 1); break;
		case EP_K18: cyc = uGCYC(A, 18); u = uGFRB(A, 2);
			L = uGINV(uGMUL(uGSQR(uGFRB(u, 1)), uGSPS(u, S, 18))); R = A; break;
		case EP_FM18: cyc = uGCYC(A, 18); L = uGFRB(uGEXP(A, uBNEG(Z)), 2); R = A; break;
#ifndef C12X_WITHOUT_SG18_TEST
		case EP_SG18: cyc = uGCYC(A, 18); v = uGFRB(A, 2);                                                 /* a^(3z) frb^2(a)^2 == frb^5(a) */
			L = uGMUL(uGMUL(uGEXP(A, uBMULD(Z, 3)), v), v); R = uGFRB(A, 5); break;
#endif
		default:                                                                                            /* (a^(r-1))^-1 == a */
#ifdef C12X_WITHOUT_DEFAULT_CYC
			cyc = 1;
#else
			cyc = uGCYC(A, RLC_GT_EMBED);
#endif
			L = uGINV(uGEXP(A, uBSUBD(g12_ord, 1))); R = A; break;
	}
	return (cyc && uGEQ(L, R)) ? 1 : 0;
}

/* ================================ the functions under contract ============================================================== */
#define C12_BOOL(r)   ((r) == 0 || (r) == 1)
#define C12_NOERR     (g_ctx.code == __CPROVER_old(g_ctx.code) && g_thrown == 0)
/* K16 (long addition chains): guard form only */
#define C12_GENERIC(r, inf, onc) (((inf) ==> ((r) == 0)) && ((r) == 1 ==> (!(inf) && (onc) && g12_cmp_n == 1 && g12_cmp_v == 1)))

int g1_is_valid(const g1_t a)
__CPROVER_requires(__CPROVER_is_fresh(a, sizeof(ep_st)))
__CPROVER_requires(C12_INIT && g12_fam != EP_K18)
VC_ASSIGNS(C12_GHOST)
__CPROVER_ensures(C12_BOOL(__CPROVER_return_value) && C12_NOERR)
/* the identity test was evaluated on the argument object; identity ==> rejected before any group operation */
__CPROVER_ensures(g12_inf_n >= 1 && g12_inf_id == C12_ID(a))
__CPROVER_ensures(uINF(C12_E(a)) ==> (__CPROVER_return_value == 0 && g12_ops == 0))
/* accept ==> the on-curve test was evaluated on the argument object */
__CPROVER_ensures(__CPROVER_return_value == 1 ==> (g12_onc_n >= 1 && g12_onc_id == C12_ID(a)))
/* the cofactor-is-one decision came from the curve's cofactor, compared with 1 */
__CPROVER_ensures(!uINF(C12_E(a)) ==> (g12_cof_n == 1 && g12_cof_ok == 1))
/* exact verdict */
__CPROVER_ensures(!C12_K16 || uBCMPD(g12_cof, 1) == RLC_EQ ? __CPROVER_return_value == c12_g1_expect(C12_E(a)) : C12_GENERIC(__CPROVER_return_value, uINF(C12_E(a)), uONC(C12_E(a))))
/* accept outside the cofactor-1 shortcut ==> exactly one final comparison, and it returned "equal" */
__CPROVER_ensures((__CPROVER_return_value == 1 && uBCMPD(g12_cof, 1) != RLC_EQ) ==> (g12_cmp_n == 1 && g12_cmp_v == 1))
/* the argument is unchanged */
__CPROVER_ensures(C12_E(a) == __CPROVER_old(C12_E(a)));

int g2_is_valid(const g2_t a)
__CPROVER_requires(__CPROVER_is_fresh(a, sizeof(ep2_st)))
__CPROVER_requires(C12_INIT)
VC_ASSIGNS(C12_GHOST)
__CPROVER_ensures(C12_BOOL(__CPROVER_return_value) && C12_NOERR)
__CPROVER_ensures(g12_inf_n >= 1 && g12_inf_id == C12_ID(a))
__CPROVER_ensures(uINF(C12_E2(a)) ==> (__CPROVER_return_value == 0 && g12_ops == 0))
__CPROVER_ensures(__CPROVER_return_value == 1 ==> (g12_onc_n >= 1 && g12_onc_id == C12_ID(a)))
__CPROVER_ensures(!C12_K16 ? __CPROVER_return_value == c12_g2_expect(C12_E2(a), C12_EPID) : C12_GENERIC(__CPROVER_return_value, uINF(C12_E2(a)), uONC(C12_E2(a))))
__CPROVER_ensures(__CPROVER_return_value == 1 ==> (g12_cmp_n == 1 && g12_cmp_v == 1))
__CPROVER_ensures(C12_E2(a) == __CPROVER_old(C12_E2(a)));

#define C12_GT_LISTED (g12_fam == EP_B12 || g12_fam == EP_B24 || g12_fam == EP_B48 || g12_fam == EP_BN || g12_fam == EP_AFG16 || g12_fam == EP_K16 || \
	g12_fam == EP_FM16 || g12_fam == EP_K18 || g12_fam == EP_FM18)
#ifdef C12X_WITHOUT_DEFAULT_CYC
#define C12_GT_CYC_DEMANDED C12_GT_LISTED
#else
#define C12_GT_CYC_DEMANDED 1
#endif
#ifdef C12X_WITHOUT_B12_383_ORDER
#define C12_GT_CMP_DEMANDED (!(g12_fam == EP_B12 && C12_EPID == B12_383))
#else
#define C12_GT_CMP_DEMANDED 1
#endif
/* the family space is split over units by C12X_FAMSEL (the union of the registered units is every family value) */
#if C12X_FAMSEL == 1
#define C12_FAMSEL (g12_fam == EP_K16)
#elif C12X_FAMSEL == 2
#define C12_FAMSEL (g12_fam == EP_B12 || g12_fam == EP_B24 || g12_fam == EP_B48 || g12_fam == EP_BN)
#elif C12X_FAMSEL == 3
#define C12_FAMSEL (!(g12_fam == EP_K16 || g12_fam == EP_B12 || g12_fam == EP_B24 || g12_fam == EP_B48 || g12_fam == EP_BN))
#elif C12X_FAMSEL == 4
#define C12_FAMSEL (g12_fam == EP_FM16 || g12_fam == EP_AFG16 || g12_fam == EP_FM18)
#elif C12X_FAMSEL == 5
#define C12_FAMSEL (g12_fam == EP_K18)
#elif C12X_FAMSEL == 6
#define C12_FAMSEL (!(g12_fam == EP_K16 || g12_fam == EP_B12 || g12_fam == EP_B24 || g12_fam == EP_B48 || g12_fam == EP_BN || g12_fam == EP_FM16 || g12_fam == EP_AFG16 || g12_fam == EP_FM18 || g12_fam == EP_K18))
#else
#define C12_FAMSEL 1
#endif
int gt_is_valid(const gt_t a)
__CPROVER_requires(__CPROVER_is_fresh(a, sizeof(fp12_t)))
__CPROVER_requires(C12_INIT && C12_FAMSEL)
VC_ASSIGNS(C12_GHOST)
__CPROVER_ensures(C12_BOOL(__CPROVER_return_value) && C12_NOERR)
__CPROVER_ensures(g12_inf_n >= 1 && g12_inf_id == C12_ID(a))
__CPROVER_ensures(uGUNI(C12_T(a), 1) ==> (__CPROVER_return_value == 0 && g12_ops == 0))
/* accept ==> the cyclotomic-subgroup test was evaluated on the argument object */
__CPROVER_ensures((__CPROVER_return_value == 1 && C12_GT_CYC_DEMANDED) ==> (g12_cyc_n >= 1 && g12_cyc_id == C12_ID(a)))
__CPROVER_ensures(!C12_K16 ? __CPROVER_return_value == c12_gt_expect(C12_T(a), C12_EPID) : C12_GENERIC(__CPROVER_return_value, uGUNI(C12_T(a), 1), uGCYC(C12_T(a), 16)))
__CPROVER_ensures((__CPROVER_return_value == 1 && C12_GT_CMP_DEMANDED) ==> (g12_cmp_n == 1 && g12_cmp_v == 1))
__CPROVER_ensures(C12_T(a) == __CPROVER_old(C12_T(a)));
#include "vc_spec_pop.h"
