/* ECIES decryption cp_ecies_dec (property C06, last sentence: "ciphertexts with ... wrong length or failed authentication are
   rejected with an error rather than returning data"; the weaker frame/error-exit contract contracts/cp_ecies.h stays under C08).

   RLC_OK IMPLIES: in_len >= RLC_MD_LEN; the shared point was computed once from the caller's (r, d); the key material was derived
   once, 2 * size bytes (size = max(128, security level) / 8), from the x-coordinate buffer that was filled before; the MAC was
   computed once over EXACTLY the ciphertext bytes in[0 .. in_len - RLC_MD_LEN) with the SECOND half of that key material
   (key + size, size bytes); it was compared once, over RLC_MD_LEN bytes, against in + in_len - RLC_MD_LEN, and found equal BEFORE
   the block decryption was called; the block decryption ran once on (out, out_len, in, in_len - RLC_MD_LEN) with the FIRST half of
   the key material (size bytes), reported success, and *out_len is the length it reported.
   MAC MISMATCH (or no comparison at all) IMPLIES: RLC_ERR, the block decryption is never called, *out_len and every byte of out
   are unchanged.  in_len < RLC_MD_LEN: RLC_ERR and no callee ran at all.  A bad verdict of the block decryption (padding) is RLC_ERR.

   Callees ABSTRACT: exact frame, arbitrary verdict, argument identities (integers, DESIGN P34) and order recorded in ghost state. */
#pragma once
#include "vc_prelude.h"

typedef unsigned long long c6_id;
#define C6_ID(p)  ((((c6_id)__CPROVER_POINTER_OBJECT(p)) << 40) + (c6_id)__CPROVER_POINTER_OFFSET(p))
#define VC_UNASKED (-9)
#define C06X_EMAX 256

extern c6_id g_ex_in, g_ex_out, g_ex_outlen, g_ex_r, g_ex_d;      /* identities of the arguments, bound by the precondition */
extern size_t g_ex_inlen;
extern int g_ex_level;                                            /* answer of ep_param_level */
extern int g_ex_seq;
extern int g_ex_mul_calls, g_ex_mul_ok;
extern c6_id g_ex_p;                                              /* the point that received [d]r */
extern int g_ex_x_calls, g_ex_x_ok;
extern int g_ex_kdf_calls, g_ex_kdf_ok, g_ex_kdf_seq;
extern c6_id g_ex_key;                                            /* where the key material was put */
extern size_t g_ex_keylen;
extern int g_ex_mac_calls, g_ex_mac_ok, g_ex_mac_seq;
extern c6_id g_ex_mac;                                            /* where the MAC was put */
extern int g_ex_cmp_calls, g_ex_cmp_ok, g_ex_cmp_ret, g_ex_cmp_seq;
extern int g_ex_dec_calls, g_ex_dec_ok, g_ex_dec_ret, g_ex_dec_seq;
extern size_t g_ex_dec_len;

#define C06X_SIZE ((size_t)((g_ex_level > 128 ? g_ex_level : 128) + 7) / 8)

#include "vc_spec_push.h"
size_t util_bits_dig_g(dig_t a) VC_ASSIGNS_NONE __CPROVER_ensures(__CPROVER_return_value <= RLC_DIG && (a == 0) == (__CPROVER_return_value == 0));
int ep_param_level_g(void) VC_ASSIGNS_NONE
__CPROVER_ensures(__CPROVER_return_value == g_ex_level);
void ep_mul_lwnaf_g(ep_t r, const ep_t p, const bn_t k)
__CPROVER_requires(__CPROVER_is_fresh(p, sizeof(ep_st)) && __CPROVER_is_fresh(k, sizeof(bn_st)))
VC_ASSIGNS(__CPROVER_object_upto(r, sizeof(ep_st)), g_ex_mul_calls, g_ex_mul_ok, g_ex_p)
__CPROVER_ensures(g_ex_mul_calls == __CPROVER_old(g_ex_mul_calls) + 1 && g_ex_p == C6_ID(r) && g_ex_mul_ok == (C6_ID(p) == g_ex_r && C6_ID(k) == g_ex_d));
/* x-coordinate of the shared point as an integer */
void fp_prime_back_g(bn_t c, const fp_t a)
__CPROVER_requires(__CPROVER_is_fresh(c, sizeof(bn_st)) && c->alloc == RLC_BN_SIZE)
VC_ASSIGNS(c->used, c->sign, __CPROVER_object_upto(c->dp, sizeof(c->dp)), g_ex_x_calls, g_ex_x_ok)
__CPROVER_ensures(c->used >= 1 && c->used <= RLC_FP_DIGS && c->sign == RLC_POS && (c->dp[c->used - 1] != 0 || c->used == 1))
__CPROVER_ensures(g_ex_x_calls == __CPROVER_old(g_ex_x_calls) + 1 && g_ex_x_ok == (g_ex_mul_calls == 1 && g_ex_mul_ok == 1 && C6_ID(a) == g_ex_p + (c6_id)__builtin_offsetof(ep_st, x)));
void md_kdf_g(uint8_t *key, size_t key_len, const uint8_t *in, size_t in_len)
__CPROVER_requires(key_len <= 4096 && in_len <= 4096 && __CPROVER_is_fresh(key, key_len) && __CPROVER_is_fresh(in, in_len))
VC_ASSIGNS(__CPROVER_object_upto(key, key_len), g_ex_kdf_calls, g_ex_kdf_ok, g_ex_kdf_seq, g_ex_key, g_ex_keylen, g_ex_seq)
__CPROVER_ensures(g_ex_seq == __CPROVER_old(g_ex_seq) + 1 && g_ex_kdf_seq == g_ex_seq && g_ex_kdf_calls == __CPROVER_old(g_ex_kdf_calls) + 1)
__CPROVER_ensures(g_ex_key == C6_ID(key) && g_ex_keylen == key_len && g_ex_kdf_ok == (g_ex_x_calls == 1 && g_ex_x_ok == 1 && in_len >= 1));
/* the MAC: counts only if computed over exactly the ciphertext part of the caller's input with the second half of the derived key material */
void md_hmac_g(uint8_t *mac, const uint8_t *in, size_t in_len, const uint8_t *key, size_t key_len)
__CPROVER_requires(in_len <= 4096 && key_len <= 4096)
__CPROVER_requires(__CPROVER_is_fresh(mac, RLC_MD_LEN) && __CPROVER_is_fresh(in, in_len) && __CPROVER_is_fresh(key, key_len))
VC_ASSIGNS(__CPROVER_object_upto(mac, RLC_MD_LEN), g_ex_mac_calls, g_ex_mac_ok, g_ex_mac_seq, g_ex_mac, g_ex_seq)
__CPROVER_ensures(g_ex_seq == __CPROVER_old(g_ex_seq) + 1 && g_ex_mac_seq == g_ex_seq && g_ex_mac_calls == __CPROVER_old(g_ex_mac_calls) + 1 && g_ex_mac == C6_ID(mac))
__CPROVER_ensures(g_ex_mac_ok == (C6_ID(in) == g_ex_in && g_ex_inlen >= RLC_MD_LEN && in_len == g_ex_inlen - RLC_MD_LEN && \
	g_ex_kdf_calls == 1 && g_ex_kdf_ok == 1 && g_ex_keylen == 2 * C06X_SIZE && C6_ID(key) == g_ex_key + C06X_SIZE && key_len == C06X_SIZE));
/* the comparison (constant time; its own contract is proved under C20): verdict arbitrary; counts only if it is over the full MAC
   length, between the computed MAC and the tag at the end of the caller's input (either order), before any decryption */
int util_cmp_sec_g(const void *a, const void *b, size_t size)
__CPROVER_requires(size <= 4096 && __CPROVER_is_fresh(a, size) && __CPROVER_is_fresh(b, size))
VC_ASSIGNS(g_ex_cmp_calls, g_ex_cmp_ok, g_ex_cmp_ret, g_ex_cmp_seq, g_ex_seq)
__CPROVER_ensures(__CPROVER_return_value == RLC_EQ || __CPROVER_return_value == RLC_NE)
__CPROVER_ensures(g_ex_seq == __CPROVER_old(g_ex_seq) + 1 && g_ex_cmp_seq == g_ex_seq && g_ex_cmp_calls == __CPROVER_old(g_ex_cmp_calls) + 1 && g_ex_cmp_ret == __CPROVER_return_value)
__CPROVER_ensures(g_ex_cmp_ok == (size == RLC_MD_LEN && g_ex_mac_calls == 1 && g_ex_mac_ok == 1 && g_ex_dec_calls == 0 && g_ex_inlen >= RLC_MD_LEN && \
	((C6_ID(a) == g_ex_mac && C6_ID(b) == g_ex_in + (g_ex_inlen - RLC_MD_LEN)) || (C6_ID(b) == g_ex_mac && C6_ID(a) == g_ex_in + (g_ex_inlen - RLC_MD_LEN)))));
/* the block decryption: verdict and reported length arbitrary; counts only if called on the caller's buffers, the ciphertext part of
   the input, the first half of the key material, AFTER an equal comparison */
int bc_aes_cbc_dec_g(uint8_t *out, size_t *out_len, const uint8_t *in, size_t in_len, const uint8_t *key, size_t key_len, const uint8_t *iv)
__CPROVER_requires(in_len <= 4096 && key_len <= 64 && __CPROVER_is_fresh(out_len, sizeof(size_t)) && *out_len <= 4096)
__CPROVER_requires(__CPROVER_is_fresh(out, *out_len) && __CPROVER_is_fresh(in, in_len) && __CPROVER_is_fresh(key, key_len) && __CPROVER_is_fresh(iv, RLC_BC_LEN))
VC_ASSIGNS(__CPROVER_object_whole(out), *out_len, g_ex_dec_calls, g_ex_dec_ok, g_ex_dec_ret, g_ex_dec_seq, g_ex_dec_len, g_ex_seq)
__CPROVER_ensures((__CPROVER_return_value == RLC_OK || __CPROVER_return_value == RLC_ERR) && *out_len <= __CPROVER_old(*out_len))
__CPROVER_ensures(g_ex_seq == __CPROVER_old(g_ex_seq) + 1 && g_ex_dec_seq == g_ex_seq && g_ex_dec_calls == __CPROVER_old(g_ex_dec_calls) + 1)
__CPROVER_ensures(g_ex_dec_ret == __CPROVER_return_value && g_ex_dec_len == *out_len)
__CPROVER_ensures(g_ex_dec_ok == (C6_ID(out) == g_ex_out && C6_ID(out_len) == g_ex_outlen && C6_ID(in) == g_ex_in && g_ex_inlen >= RLC_MD_LEN && in_len == g_ex_inlen - RLC_MD_LEN && \
	C6_ID(key) == g_ex_key && key_len == C06X_SIZE && g_ex_kdf_calls == 1 && g_ex_kdf_ok == 1 && g_ex_keylen == 2 * C06X_SIZE && \
	g_ex_cmp_calls == 1 && g_ex_cmp_ok == 1 && g_ex_cmp_ret == RLC_EQ));

#define C06X_EOK (__CPROVER_return_value == RLC_OK)
int cp_ecies_dec(uint8_t *out, size_t *out_len, const ec_t r, const uint8_t *in, size_t in_len, const bn_t d)
__CPROVER_requires(in_len <= C06X_EMAX && __CPROVER_is_fresh(in, in_len))
__CPROVER_requires(__CPROVER_is_fresh(out_len, sizeof(size_t)) && *out_len <= C06X_EMAX && __CPROVER_is_fresh(out, *out_len))
__CPROVER_requires(__CPROVER_is_fresh(r, sizeof(ep_st)) && __CPROVER_is_fresh(d, sizeof(bn_st)))
__CPROVER_requires(g_ex_in == C6_ID(in) && g_ex_inlen == in_len && g_ex_out == C6_ID(out) && g_ex_outlen == C6_ID(out_len) && g_ex_r == C6_ID(r) && g_ex_d == C6_ID(d))
__CPROVER_requires(g_ex_level == 112 || g_ex_level == 128 || g_ex_level == 192 || g_ex_level == 256)
__CPROVER_requires(g_ex_seq == 0 && g_ex_mul_calls == 0 && g_ex_mul_ok == 0 && g_ex_p == 0 && g_ex_x_calls == 0 && g_ex_x_ok == 0 && g_ex_kdf_calls == 0 && g_ex_kdf_ok == 0 && g_ex_kdf_seq == 0 && \
	g_ex_key == 0 && g_ex_keylen == 0 && g_ex_mac_calls == 0 && g_ex_mac_ok == 0 && g_ex_mac_seq == 0 && g_ex_mac == 0 && g_ex_cmp_calls == 0 && g_ex_cmp_ok == 0 && g_ex_cmp_ret == VC_UNASKED && \
	g_ex_cmp_seq == 0 && g_ex_dec_calls == 0 && g_ex_dec_ok == 0 && g_ex_dec_ret == VC_UNASKED && g_ex_dec_seq == 0 && g_ex_dec_len == 0)
__CPROVER_requires(gk < *out_len ==> out[gk] == g_byte0)
VC_ASSIGNS(__CPROVER_object_whole(out), *out_len, g_ex_seq, g_ex_mul_calls, g_ex_mul_ok, g_ex_p, g_ex_x_calls, g_ex_x_ok, g_ex_kdf_calls, g_ex_kdf_ok, g_ex_kdf_seq, g_ex_key, g_ex_keylen, \
	g_ex_mac_calls, g_ex_mac_ok, g_ex_mac_seq, g_ex_mac, g_ex_cmp_calls, g_ex_cmp_ok, g_ex_cmp_ret, g_ex_cmp_seq, g_ex_dec_calls, g_ex_dec_ok, g_ex_dec_ret, g_ex_dec_seq, g_ex_dec_len, \
	g_ctx.code, g_ctx.last, g_ctx.caught, g_ctx.error, g_ctx.number, g_thrown)
__CPROVER_ensures(__CPROVER_return_value == RLC_OK || __CPROVER_return_value == RLC_ERR)
/* (2) wrong length */
__CPROVER_ensures(C06X_EOK ==> in_len >= RLC_MD_LEN)
__CPROVER_ensures(in_len < RLC_MD_LEN ==> (!C06X_EOK && g_ex_mul_calls == 0 && g_ex_kdf_calls == 0 && g_ex_mac_calls == 0 && g_ex_cmp_calls == 0 && g_ex_dec_calls == 0))
/* (4) the key of the protocol: one scalar multiplication of the caller's point by the caller's scalar, its x-coordinate, one derivation of 2 * size bytes */
__CPROVER_ensures(C06X_EOK ==> (g_ex_mul_calls == 1 && g_ex_mul_ok == 1 && g_ex_x_calls == 1 && g_ex_x_ok == 1 && g_ex_kdf_calls == 1 && g_ex_kdf_ok == 1 && g_ex_keylen == 2 * C06X_SIZE))
/* (5) authentication: MAC over exactly the ciphertext bytes with the MAC half of the key, one full-length comparison with the tag, equal, in this order, before the decryption */
__CPROVER_ensures(C06X_EOK ==> (g_ex_mac_calls == 1 && g_ex_mac_ok == 1 && g_ex_cmp_calls == 1 && g_ex_cmp_ok == 1 && g_ex_cmp_ret == RLC_EQ))
__CPROVER_ensures(C06X_EOK ==> (g_ex_kdf_seq < g_ex_mac_seq && g_ex_mac_seq < g_ex_cmp_seq && g_ex_cmp_seq < g_ex_dec_seq))
/* (7) one block decryption on the right objects with the encryption half of the key, good verdict, and the reported length is returned */
__CPROVER_ensures(C06X_EOK ==> (g_ex_dec_calls == 1 && g_ex_dec_ok == 1 && g_ex_dec_ret == RLC_OK && *out_len == g_ex_dec_len))
/* (8) failed authentication: error, the cipher is never run, nothing is returned */
__CPROVER_ensures(g_ex_cmp_ret != RLC_EQ ==> (!C06X_EOK && g_ex_dec_calls == 0 && *out_len == __CPROVER_old(*out_len) && (gk < *out_len ==> out[gk] == g_byte0)))
/* (9) the decryption never runs unauthenticated, whatever is returned; a bad decryption verdict (padding) is an error */
__CPROVER_ensures(g_ex_dec_calls >= 1 ==> (g_ex_dec_calls == 1 && g_ex_dec_ok == 1))
__CPROVER_ensures((g_ex_dec_calls == 1 && g_ex_dec_ret != RLC_OK) ==> !C06X_EOK)
__CPROVER_ensures(g_ctx.last == __CPROVER_old(g_ctx.last))
;
#include "vc_spec_pop.h"
