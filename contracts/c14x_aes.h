/* AES-CBC with PKCS#7 padding (SP 800-38A 6.2 + RFC 5652 6.3) around an ABSTRACT block function (property C14).
     encryption:  P' = P || p^p with p = 16 - len(P) mod 16 (1..16);  C_k = E(P'_k xor C_(k-1)),  C_(-1) = IV;  len(C) = (len(P) / 16 + 1) * 16
     decryption:  len(C) must be a positive multiple of 16;  P'_k = D(C_k) xor C_(k-1);  p = last byte of P'; accepted iff 1 <= p <= 16 and
                  the last p bytes all equal p; then P = P' without them.  Anything else is rejected.
   rijndaelEncrypt / rijndaelDecrypt are replaced by contracts over ghost state: call number k records which key schedule, round
   count, input buffer and output buffer it was given and all 16 bytes of its input block; it returns the ghost block g_eo[k] /
   g_do[k].  The postconditions of padEncrypt / padDecrypt say, for every block, what the block function was applied to (padding
   bytes and chaining value included), where its result went, and what ends up in the output buffer (ghost index gk: every byte).
   The AES rounds and the key schedule themselves (FIPS 197) are not covered. */
#pragma once
#include "vc_prelude.h"
#include "src/bc/rijndael-api-fst.h"
#ifndef VC_AES_MAXIN
#define VC_AES_MAXIN 40          /* 0, 1 or 2 complete blocks + the padded one */
#endif
#ifndef VC_AES_MININ
#define VC_AES_MININ (-0x7fffffff - 1)       /* the three padEncrypt units split the length range by the number of complete blocks */
#endif
#define VC_ANB 4
extern unsigned g_ec;                         /* block-function calls so far */
extern size_t g_erk_o[VC_ANB], g_erk_f[VC_ANB], g_ein_o[VC_ANB], g_ein_f[VC_ANB], g_eout_o[VC_ANB], g_eout_f[VC_ANB];   /* key schedule, input and output buffer of call k: (object, offset) */
extern int g_enr[VC_ANB];
extern uint8_t g_ei[VC_ANB][16];              /* the 16 bytes call k was applied to */
extern uint8_t g_eo[VC_ANB][16];              /* the 16 bytes call k returns */

#define VC_ALL16(P)  (P(0) && P(1) && P(2) && P(3) && P(4) && P(5) && P(6) && P(7) && P(8) && P(9) && P(10) && P(11) && P(12) && P(13) && P(14) && P(15))

#include "vc_spec_push.h"
#define VC_BLK_IN(j)   (g_ei[__CPROVER_old(g_ec) % VC_ANB][j] == src[j])
#define VC_BLK_OUT(j)  (dst[j] == g_eo[__CPROVER_old(g_ec) % VC_ANB][j])
/* (buffers are recorded as (object, offset) pairs of integers: a transcript of POINTERS with an element-wise assigns target g_ein[g_ec] made the
   replaced call unsatisfiable for pointers with a non-zero offset - measured on cbmc 6.11, the unit was vacuous for more than one block) */
#define VC_PTR_IS(o, f, k, p)  ((o)[k] == __CPROVER_POINTER_OBJECT(p) && (f)[k] == __CPROVER_POINTER_OFFSET(p))
#define VC_BLOCK_FN(name) \
void name(const u32 *rk, int Nr, const u8 *src, u8 *dst) \
__CPROVER_requires(g_ec < VC_ANB && __CPROVER_is_fresh(src, 16) && __CPROVER_is_fresh(dst, 16)) \
VC_ASSIGNS(__CPROVER_object_upto(dst, 16), g_ec, g_erk_o[g_ec], g_erk_f[g_ec], g_ein_o[g_ec], g_ein_f[g_ec], g_eout_o[g_ec], g_eout_f[g_ec], g_enr[g_ec], __CPROVER_object_upto(g_ei[g_ec], 16)) \
__CPROVER_ensures(g_ec == __CPROVER_old(g_ec) + 1 && g_enr[__CPROVER_old(g_ec) % VC_ANB] == Nr && VC_PTR_IS(g_erk_o, g_erk_f, __CPROVER_old(g_ec) % VC_ANB, rk) && \
	VC_PTR_IS(g_ein_o, g_ein_f, __CPROVER_old(g_ec) % VC_ANB, src) && VC_PTR_IS(g_eout_o, g_eout_f, __CPROVER_old(g_ec) % VC_ANB, dst)) \
__CPROVER_ensures(VC_ALL16(VC_BLK_IN) && VC_ALL16(VC_BLK_OUT))
VC_BLOCK_FN(rijndaelEncrypt_a);
VC_BLOCK_FN(rijndaelDecrypt_a);

/* ---- padEncrypt, CBC ---------------------------------------------------------------------------------------------------- */
#define VC_EN          ((unsigned)inputOctets)
#define VC_ENB         (VC_EN / 16 + 1)                                   /* blocks of the padded message */
#define VC_EPADV       ((uint8_t)(16 - VC_EN % 16))
#define VC_EPT(i)      ((i) < VC_EN ? input[(i) < VC_EN ? (i) : 0] : VC_EPADV)      /* byte i of P' */
#define VC_ECALL_OK(k, j) (g_ei[k][j] == (uint8_t)(VC_EPT(16 * (k) + (j)) ^ ((k) == 0 ? cipher->IV[j] : g_eo[((k) + VC_ANB - 1) % VC_ANB][j])))
#define VC_ECALL0(j)   VC_ECALL_OK(0, j)
#define VC_ECALL1(j)   VC_ECALL_OK(1, j)
#define VC_ECALL2(j)   VC_ECALL_OK(2, j)
#define VC_ECALL3(j)   VC_ECALL_OK(3, j)
#define VC_EWHERE(k)   (VC_PTR_IS(g_erk_o, g_erk_f, k, key->rk) && g_enr[k] == key->Nr && VC_PTR_IS(g_eout_o, g_eout_f, k, outBuffer + 16 * (k)))
#define VC_EACTIVE     (key->direction != DIR_DECRYPT && inputOctets > 0)
/* the output buffer has exactly the ciphertext length.  A unit whose length range has a single block count states it as the constant it then is
   (a symbolic-size output object costs 12 M variables / 250 s even for one block); for lengths <= 0 nothing may be written (frame) */
#ifdef VC_AES_OUTSZ
_Static_assert(VC_AES_MAXIN / 16 == (VC_AES_MININ > 0 ? VC_AES_MININ : 1) / 16 && VC_AES_OUTSZ == 16 * (VC_AES_MAXIN / 16 + 1), "constant output size only for a single block count");
#define VC_EOUTSZ      ((size_t)VC_AES_OUTSZ)
#else
#define VC_EOUTSZ      (inputOctets > 0 ? 16 * (size_t)VC_ENB : 0)
#endif
int padEncrypt(cipherInstance *cipher, keyInstance *key, BYTE *input, int inputOctets, BYTE *outBuffer)
__CPROVER_requires(inputOctets >= VC_AES_MININ && inputOctets <= VC_AES_MAXIN && g_ec == 0)
__CPROVER_requires(__CPROVER_is_fresh(cipher, sizeof(cipherInstance)) && __CPROVER_is_fresh(key, sizeof(keyInstance)) && cipher->mode == MODE_CBC)
__CPROVER_requires(__CPROVER_is_fresh(input, inputOctets > 0 ? (size_t)inputOctets : 0) && __CPROVER_is_fresh(outBuffer, VC_EOUTSZ))
__CPROVER_assigns(VC_EACTIVE: __CPROVER_object_upto(outBuffer, 16 * (size_t)VC_ENB))
VC_ASSIGNS(g_ec, __CPROVER_object_whole(g_erk_o), __CPROVER_object_whole(g_erk_f), __CPROVER_object_whole(g_ein_o), __CPROVER_object_whole(g_ein_f), __CPROVER_object_whole(g_eout_o), __CPROVER_object_whole(g_eout_f), __CPROVER_object_whole(g_enr), __CPROVER_object_whole(g_ei))
/* a decryption key is refused, an empty input is "nothing to do" (return 0): no block call, nothing written */
__CPROVER_ensures(key->direction == DIR_DECRYPT ==> (__CPROVER_return_value == BAD_CIPHER_STATE && g_ec == 0))
__CPROVER_ensures((key->direction != DIR_DECRYPT && inputOctets <= 0) ==> (__CPROVER_return_value == 0 && g_ec == 0))
/* length of the ciphertext; one block call per block of the padded message, in order, with the key's schedule, writing block k of the output */
__CPROVER_ensures(VC_EACTIVE ==> (__CPROVER_return_value == 16 * (int)VC_ENB && g_ec == VC_ENB))
__CPROVER_ensures(VC_EACTIVE ==> (VC_EWHERE(0) && (VC_ENB > 1 ==> VC_EWHERE(1)) && (VC_ENB > 2 ==> VC_EWHERE(2)) && (VC_ENB > 3 ==> VC_EWHERE(3))))
/* what each call encrypts: (message bytes, then the pad value in every pad position) xor (IV for the first block, the previous ciphertext block otherwise) */
__CPROVER_ensures(VC_EACTIVE ==> (VC_ALL16(VC_ECALL0) && (VC_ENB > 1 ==> VC_ALL16(VC_ECALL1)) && (VC_ENB > 2 ==> VC_ALL16(VC_ECALL2)) && (VC_ENB > 3 ==> VC_ALL16(VC_ECALL3))))
/* the output is the sequence of blocks the calls returned */
__CPROVER_ensures((VC_EACTIVE && gk < 16 * (size_t)VC_ENB) ==> outBuffer[gk] == g_eo[(gk / 16) % VC_ANB][gk % 16])
;
_Static_assert(VC_AES_MAXIN / 16 + 1 <= VC_ANB, "ghost transcript too small");

/* ---- padDecrypt, CBC ---------------------------------------------------------------------------------------------------- */
#define VC_DN          ((unsigned)inputOctets)
#define VC_DNB         (VC_DN / 16)
#define VC_DSHAPE      (key->direction != DIR_ENCRYPT && inputOctets > 0 && inputOctets % 16 == 0)
/* byte j of P'_k = D(C_k) xor C_(k-1) */
#define VC_DPT(k, j)   ((uint8_t)(g_eo[(k) % VC_ANB][j] ^ ((k) == 0 ? __CPROVER_old(cipher->IV[j]) : input[16 * (((k) + VC_ANB - 1) % VC_ANB) + (j)])))
#define VC_DLAST       (VC_DNB - 1)
#define VC_DPADV       VC_DPT(VC_DLAST, 15)
#define VC_DPADPOS(j)  ((j) < 16 - (int)VC_DPADV || VC_DPT(VC_DLAST, j) == VC_DPADV)
#define VC_DVALID      (VC_DPADV >= 1 && VC_DPADV <= 16 && VC_ALL16(VC_DPADPOS))
#define VC_DCALL_OK(k, j) (g_ei[k][j] == input[16 * (k) + (j)])
#define VC_DCALL0(j)   VC_DCALL_OK(0, j)
#define VC_DCALL1(j)   VC_DCALL_OK(1, j)
#define VC_DCALL2(j)   VC_DCALL_OK(2, j)
#define VC_DCALL3(j)   VC_DCALL_OK(3, j)
#define VC_DWHERE(k)   (VC_PTR_IS(g_erk_o, g_erk_f, k, key->rk) && g_enr[k] == key->Nr && VC_PTR_IS(g_ein_o, g_ein_f, k, input + 16 * (k)))
#ifndef VC_AES_MAXCT
#define VC_AES_MAXCT 50          /* up to 3 blocks; every length in between is rejected */
#endif
int padDecrypt(cipherInstance *cipher, keyInstance *key, BYTE *input, int inputOctets, BYTE *outBuffer)
__CPROVER_requires(inputOctets <= VC_AES_MAXCT && g_ec == 0)
__CPROVER_requires(__CPROVER_is_fresh(cipher, sizeof(cipherInstance)) && __CPROVER_is_fresh(key, sizeof(keyInstance)) && cipher->mode == MODE_CBC)
/* the plaintext buffer has room for len(C) - 1 bytes: the longest plaintext a valid ciphertext of that length carries */
__CPROVER_requires(__CPROVER_is_fresh(input, inputOctets > 0 ? (size_t)inputOctets : 0) && __CPROVER_is_fresh(outBuffer, inputOctets > 0 ? (size_t)inputOctets - 1 : 0))
__CPROVER_assigns(VC_DSHAPE: __CPROVER_object_upto(outBuffer, (size_t)inputOctets - 1), __CPROVER_object_upto(cipher->IV, 16))
VC_ASSIGNS(g_ec, __CPROVER_object_whole(g_erk_o), __CPROVER_object_whole(g_erk_f), __CPROVER_object_whole(g_ein_o), __CPROVER_object_whole(g_ein_f), __CPROVER_object_whole(g_eout_o), __CPROVER_object_whole(g_eout_f), __CPROVER_object_whole(g_enr), __CPROVER_object_whole(g_ei))
/* an encryption key is refused, an empty input is "nothing to do" (return 0), a length that is not a multiple of the block is rejected: no block call */
__CPROVER_ensures(key->direction == DIR_ENCRYPT ==> (__CPROVER_return_value == BAD_CIPHER_STATE && g_ec == 0))
__CPROVER_ensures((key->direction != DIR_ENCRYPT && inputOctets <= 0) ==> (__CPROVER_return_value == 0 && g_ec == 0))
__CPROVER_ensures((key->direction != DIR_ENCRYPT && inputOctets > 0 && inputOctets % 16 != 0) ==> (__CPROVER_return_value == BAD_DATA && g_ec == 0))
/* one block call per ciphertext block, in order, with the key's schedule, applied to block k of the input */
__CPROVER_ensures(VC_DSHAPE ==> (g_ec == VC_DNB && VC_DWHERE(0) && (VC_DNB > 1 ==> VC_DWHERE(1)) && (VC_DNB > 2 ==> VC_DWHERE(2)) && (VC_DNB > 3 ==> VC_DWHERE(3))))
__CPROVER_ensures(VC_DSHAPE ==> (VC_ALL16(VC_DCALL0) && (VC_DNB > 1 ==> VC_ALL16(VC_DCALL1)) && (VC_DNB > 2 ==> VC_ALL16(VC_DCALL2)) && (VC_DNB > 3 ==> VC_ALL16(VC_DCALL3))))
/* invalid padding (pad value outside 1..16, or a pad position holding another value) is rejected with a negative code */
__CPROVER_ensures((VC_DSHAPE && !VC_DVALID) ==> __CPROVER_return_value == BAD_DATA)
/* valid padding: the plaintext length is len(C) - p and the plaintext is the chained blocks without the padding */
__CPROVER_ensures((VC_DSHAPE && VC_DVALID) ==> __CPROVER_return_value == (int)VC_DN - (int)VC_DPADV)
__CPROVER_ensures((VC_DSHAPE && VC_DVALID && gk < (size_t)(VC_DN - VC_DPADV)) ==> outBuffer[gk] == VC_DPT(gk / 16, gk % 16))
;
_Static_assert((VC_AES_MAXCT + 15) / 16 <= VC_ANB, "ghost transcript too small");
#include "vc_spec_pop.h"
