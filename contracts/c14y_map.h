/* md_map_sh224 / md_map_sh384 / md_map_sh512 (property C14: the one-shot SHA-2 entry points used by HMAC, KDF, DRBG ...; selected with
   -DVC_XMD_H=224|384|512): exactly one hash computation, opened, fed the whole message once and closed on the same context object; the digest it
   returns is what the caller receives, in a buffer of EXACTLY the digest size (28 / 48 / 64 bytes, FIPS 180-4; property C08: nothing is written
   beyond it); a failing call of the streaming API is reported as an error and ends the function.  Streaming hash abstract: the contracts of
   c14y_xmd.h. */
#pragma once
#include "c14y_xmd.h"
#include "vc_spec_push.h"
void VC_XMAP(uint8_t *hash, const uint8_t *msg, size_t len)
/* (len is narrowed to the unsigned int of <H>Input: lengths >= 2^32 would be truncated silently - outside this unit's bound, reported) */
__CPROVER_requires(len <= 100000 && __CPROVER_is_fresh(hash, VC_XB) && __CPROVER_is_fresh(msg, len))
__CPROVER_requires(g_xn == 0 && g_xopen == 0 && g_xfail == 0 && g_xcalls == 0 && g_may_throw == 1)
VC_ASSIGNS(__CPROVER_object_upto(hash, VC_XB), g_xn, g_xopen, g_xctx, __CPROVER_object_whole(g_xlen), __CPROVER_object_whole(g_xobs), __CPROVER_object_whole(g_xset), g_xfail, g_xcalls,
	g_ctx.code, g_ctx.last, g_ctx.error, g_ctx.number, g_thrown)
__CPROVER_ensures(g_xfail ==> g_ctx.code == RLC_ERR)
__CPROVER_ensures(!g_xfail ==> (g_ctx.code == __CPROVER_old(g_ctx.code) && g_xn == 1 && g_xopen == 0 && g_xcalls == 3 && g_xlen[0] == len))
__CPROVER_ensures((!g_xfail && gk < len) ==> (g_xset[0] == 1 && g_xobs[0] == msg[gk < len ? gk : 0]))
__CPROVER_ensures(!g_xfail ==> hash[gk % VC_XB] == g_xd[0][gk % VC_XB])
;
#include "vc_spec_pop.h"
