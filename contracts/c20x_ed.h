/* Edwards curves (property C20, second half): ed_mul_lwreg -> ed_mul_reg_imp (regular fixed-window form) and ed_mul_monty (ladder).
   Same scheme as contracts/ct_reg.h / ct_ladder.h: every callee is abstract (exact frame, arbitrary result, one GROUP-LEVEL event appended
   to a ghost log); the monitor compares event number k with XE_EXPECT(k), an expression over k and PUBLIC inputs only.

   ed_mul_reg_imp: the recoding length is fixed by RLC_FP_BITS and RLC_WIDTH (configuration constants) - there is NO run-time public input
   at all; the recoded digits (results of the abstract bn_rec_reg), the parity and the sign of the scalar are unconstrained.
       tab rec ( dbl^(w-1) csel^(3*tbl) neg csel add )^L sub csel^3 norm neg csel,   L = ceil(RLC_FP_BITS/(w-1)) + 1
   ed_mul_monty (-DVC_ED_MONTY): the scalar bits (results of the abstract bn_get_bit) are unconstrained.
       copy ( swap^3 add dbl swap^3 )^bits norm                      bits = g_pub_bits
   STRICT reading (default): nothing else may follow - the sign of the scalar is secret.  With -DC20X_ED_SIGNPUB the sign is a second
   public input g_pub_neg and one `neg` follows when it is set (what the code does; see the report: finding on ed_mul_monty).
   Pre: k != 0, p != infinity (the early exit is outside "fixed bit length").  Callees are trusted to be constant-time as units. */
#pragma once
#include "vc_prelude.h"
#ifndef VC_MAXBITS
#define VC_MAXBITS 1024
#endif
extern size_t g_ev_n; extern int g_ev_bad; extern size_t g_pub_bits; extern int g_pub_neg;
#define XE_TAB 1
#define XE_REC 2
#define XE_DBL 3
#define XE_CSEL 4
#define XE_NEG 5
#define XE_ADD 6
#define XE_SUB 7
#define XE_NORM 8
#define XE_SWAP 9
#define XE_COPY 10
#define XE_RL(n) (((n) + RLC_WIDTH - 2) / (RLC_WIDTH - 1))           /* digits before the final one, as bn_rec_reg computes */
#define XE_TBL (1 << (RLC_WIDTH - 2))
#if ED_ADD == EXTND
#define XE_COORDS 4
#define XE_SGN 2
#else
#define XE_COORDS 3
#define XE_SGN 1
#endif
#define XE_STEP ((RLC_WIDTH - 1) + XE_COORDS * XE_TBL + 2 + XE_SGN)  /* dbl^(w-1) csel^(coords*tbl) neg csel^sgn add */
#define XE_L (XE_RL(RLC_FP_BITS) + 1)                                /* digits of the recoding: a configuration constant */
#define XE_TAIL (2 + XE_STEP * XE_L)
#define XE_J(k) (((k) - 2) % XE_STEP)
#define XE_REG_EXPECT(k) ((k) == 0 ? XE_TAB : (k) == 1 ? XE_REC : \
	(k) < XE_TAIL ? (XE_J(k) < RLC_WIDTH - 1 ? XE_DBL : XE_J(k) < RLC_WIDTH - 1 + XE_COORDS * XE_TBL ? XE_CSEL : \
		XE_J(k) == RLC_WIDTH - 1 + XE_COORDS * XE_TBL ? XE_NEG : XE_J(k) < XE_STEP - 1 ? XE_CSEL : XE_ADD) : \
	(k) == XE_TAIL ? XE_SUB : (k) <= XE_TAIL + 3 ? XE_CSEL : (k) == XE_TAIL + 4 ? XE_NORM : (k) == XE_TAIL + 5 ? XE_NEG : (k) <= XE_TAIL + 5 + XE_SGN ? XE_CSEL : 0)
#define XE_REG_TOTAL (XE_TAIL + 6 + XE_SGN)
/* ladder */
#define XM_SW (XE_COORDS)
#define XM_STEP (2 * XM_SW + 2)
#define XM_TAIL (1 + XM_STEP * g_pub_bits)
#define XM_J(k) (((k) - 1) % XM_STEP)
#ifdef C20X_ED_SIGNPUB
#define XM_AFTER(k) ((k) == XM_TAIL + 1 && g_pub_neg ? XE_NEG : 0)
#define XM_TOTAL (XM_TAIL + 1 + (g_pub_neg ? 1 : 0))
#else
#define XM_AFTER(k) 0
#define XM_TOTAL (XM_TAIL + 1)
#endif
#define XE_MONTY_EXPECT(k) ((k) == 0 ? XE_COPY : (k) < XM_TAIL ? (XM_J(k) == XM_SW ? XE_ADD : XM_J(k) == XM_SW + 1 ? XE_DBL : XE_SWAP) : (k) == XM_TAIL ? XE_NORM : XM_AFTER(k))
#ifdef VC_ED_MONTY
#define XE_EXPECT(k) XE_MONTY_EXPECT(k)
#else
#define XE_EXPECT(k) XE_REG_EXPECT(k)
#endif
#define XE_LOGGED(ev) (g_ev_n == __CPROVER_old(g_ev_n) + 1 && g_ev_bad == (__CPROVER_old(g_ev_bad) | (XE_EXPECT(__CPROVER_old(g_ev_n)) != (ev))))
#define VC_ED(p) __CPROVER_object_upto(p, sizeof(ed_st))
#define VC_BNF(a) (a)->used, (a)->sign, __CPROVER_object_upto((a)->dp, sizeof((a)->dp))
#define VC_FPV(c) __CPROVER_object_upto(c, RLC_FP_DIGS * sizeof(dig_t))

#include "vc_spec_push.h"
void ed_tab_xe(ed_t *t, const ed_t p, int w)
__CPROVER_requires(w == RLC_WIDTH)
VC_ASSIGNS(__CPROVER_object_upto(t, XE_TBL * sizeof(ed_t)), g_ev_n, g_ev_bad) __CPROVER_ensures(XE_LOGGED(XE_TAB));
/* the recoding: digits arbitrary (secret); frame and length as the real function's contracts (bn_conv.h, c20x_rec.h) promise: it clears and
   writes *len bytes of the buffer, so the caller's buffer must hold them (checked against the caller by the frame) */
void bn_rec_reg_xe(int8_t *naf, size_t *len, const bn_t k, size_t n, size_t w)
__CPROVER_requires(w == RLC_WIDTH && n == RLC_FP_BITS && *len > XE_RL(n))
VC_ASSIGNS(__CPROVER_object_upto(naf, *len), *len, g_ev_n, g_ev_bad) __CPROVER_ensures(*len == XE_RL(n) + 1 && XE_LOGGED(XE_REC));
void ed_dbl_projc_xe(ed_t r, const ed_t p) VC_ASSIGNS(VC_ED(r), g_ev_n, g_ev_bad) __CPROVER_ensures(XE_LOGGED(XE_DBL));
void ed_add_projc_xe(ed_t r, const ed_t p, const ed_t q) VC_ASSIGNS(VC_ED(r), g_ev_n, g_ev_bad) __CPROVER_ensures(XE_LOGGED(XE_ADD));
void ed_sub_projc_xe(ed_t r, const ed_t p, const ed_t q) VC_ASSIGNS(VC_ED(r), g_ev_n, g_ev_bad) __CPROVER_ensures(XE_LOGGED(XE_SUB));
void ed_neg_projc_xe(ed_t r, const ed_t p) VC_ASSIGNS(VC_ED(r), g_ev_n, g_ev_bad) __CPROVER_ensures(XE_LOGGED(XE_NEG));
void ed_norm_xe(ed_t r, const ed_t p) VC_ASSIGNS(VC_ED(r), g_ev_n, g_ev_bad) __CPROVER_ensures(XE_LOGGED(XE_NORM));
void ed_copy_xe(ed_t r, const ed_t p) VC_ASSIGNS(VC_ED(r), g_ev_n, g_ev_bad) __CPROVER_ensures(XE_LOGGED(XE_COPY));
void fp_copy_sec_xe(fp_t c, const fp_t a, dig_t bit) VC_ASSIGNS(VC_FPV(c), g_ev_n, g_ev_bad) __CPROVER_ensures(XE_LOGGED(XE_CSEL));
void dv_swap_sec_xe(dig_t *c, dig_t *a, size_t digits, dig_t bit)
__CPROVER_requires(digits == RLC_FP_DIGS)
VC_ASSIGNS(VC_FPV(c), VC_FPV(a), g_ev_n, g_ev_bad) __CPROVER_ensures(XE_LOGGED(XE_SWAP));
/* not group-level: arbitrary results, exact frames */
void ed_set_infty_xe(ed_t p) VC_ASSIGNS(VC_ED(p));
int bn_is_zero_xe(const bn_t a) VC_ASSIGNS_NONE __CPROVER_ensures(__CPROVER_return_value == 0);         /* pre: k != 0 */
int ed_is_infty_xe(const ed_t p) VC_ASSIGNS_NONE __CPROVER_ensures(__CPROVER_return_value == 0);      /* pre: p != infinity */
int bn_is_even_xe(const bn_t a) VC_ASSIGNS_NONE __CPROVER_ensures(__CPROVER_return_value == 0 || __CPROVER_return_value == 1);
#ifdef C20X_ED_SIGNPUB
int bn_sign_xe(const bn_t a) VC_ASSIGNS_NONE __CPROVER_ensures(__CPROVER_return_value == (g_pub_neg ? RLC_NEG : RLC_POS));
#else
int bn_sign_xe(const bn_t a) VC_ASSIGNS_NONE __CPROVER_ensures(__CPROVER_return_value == RLC_POS || __CPROVER_return_value == RLC_NEG);
#endif
size_t bn_bits_xe(const bn_t a) VC_ASSIGNS_NONE __CPROVER_ensures(__CPROVER_return_value == g_pub_bits);
int bn_get_bit_xe(const bn_t a, uint_t bit) VC_ASSIGNS_NONE __CPROVER_ensures(__CPROVER_return_value == 0 || __CPROVER_return_value == 1);
void bn_abs_xe(bn_t c, const bn_t a) VC_ASSIGNS(VC_BNF(c)) __CPROVER_ensures(c->used >= 1 && c->used <= RLC_BN_SIZE - 2);

#define VC_ED_MUL(f, total) void f(ed_t r, const ed_t p, const bn_t k) \
__CPROVER_requires(__CPROVER_is_fresh(r, sizeof(ed_st)) && __CPROVER_is_fresh(p, sizeof(ed_st)) && __CPROVER_is_fresh(k, sizeof(bn_st))) \
__CPROVER_requires(g_pub_bits >= 1 && g_pub_bits <= VC_MAXBITS && g_ev_n == 0 && g_ev_bad == 0) \
VC_ASSIGNS(VC_ED(r), g_ev_n, g_ev_bad, g_ctx.code, g_ctx.last, g_ctx.caught, g_ctx.error, g_ctx.number, g_thrown) \
__CPROVER_ensures(g_ev_bad == 0 && g_ev_n == (total)) \
__CPROVER_ensures(g_ctx.last == __CPROVER_old(g_ctx.last))
#ifdef VC_ED_MONTY
VC_ED_MUL(ed_mul_monty, XM_TOTAL);
#else
static VC_ED_MUL(ed_mul_reg_imp, XE_REG_TOTAL);
VC_ED_MUL(ed_mul_lwreg, XE_REG_TOTAL);
#endif
#include "vc_spec_pop.h"

/* ed_mul_reg_imp: loop 0 prepares the table (constant), loop 1 is the digit loop, loops 2 and 3 its inner loops, loop 4 frees the table */
#define XE_BASE (2 + XE_STEP * (l - 1 - (size_t)i))
#define VC_LOOP_ed_mul_reg_imp_1 \
	__CPROVER_assigns(i, j, n, s, __CPROVER_object_whole(r), __CPROVER_object_whole(u), __CPROVER_object_whole(v), g_ev_n, g_ev_bad) \
	__CPROVER_loop_invariant(i >= -1 && i <= (int)l - 1 && l == XE_L && g_ev_bad == 0 && g_ev_n == 2 + XE_STEP * (l - 1 - (size_t)i)) \
	__CPROVER_decreases(i + 1)
#define VC_LOOP_ed_mul_reg_imp_2 \
	__CPROVER_assigns(j, __CPROVER_object_whole(r), g_ev_n, g_ev_bad) \
	__CPROVER_loop_invariant(j >= 0 && j <= RLC_WIDTH - 1 && g_ev_bad == 0 && g_ev_n == XE_BASE + (size_t)j) \
	__CPROVER_decreases(RLC_WIDTH - 1 - j)
#define VC_LOOP_ed_mul_reg_imp_3 \
	__CPROVER_assigns(j, __CPROVER_object_whole(u), g_ev_n, g_ev_bad) \
	__CPROVER_loop_invariant(j >= 0 && j <= XE_TBL && g_ev_bad == 0 && g_ev_n == XE_BASE + (RLC_WIDTH - 1) + XE_COORDS * (size_t)j) \
	__CPROVER_decreases(XE_TBL - j)
/* ed_mul_monty: the ladder loop */
#define VC_LOOP_ed_mul_monty_0 \
	__CPROVER_assigns(i, __CPROVER_object_whole(t), g_ev_n, g_ev_bad) \
	__CPROVER_loop_invariant(i >= -1 && i <= (int)g_pub_bits - 1 && g_ev_bad == 0 && g_ev_n == 1 + XM_STEP * (g_pub_bits - 1 - (size_t)i)) \
	__CPROVER_decreases(i + 1)
/* the same facts as ghost assertions at the loops (woven): a deviation in the set-up or inside one step is reported as a function-level
   obligation of the function itself, not only as a broken invariant */
#define VC_PRE_ed_mul_reg_imp_1 __CPROVER_assert(g_ev_bad == 0 && g_ev_n == 2 && l == XE_L, "C20 public trace: set-up of ed_mul_reg_imp is tab rec, recoding length fixed by the configuration");
#define VC_END_ed_mul_reg_imp_1 __CPROVER_assert(g_ev_bad == 0 && g_ev_n == XE_BASE + XE_STEP, "C20 public trace: one digit of ed_mul_reg_imp = dbl^(w-1) csel^(coords*tbl) neg csel add");
#define VC_END_ed_mul_reg_imp_2 __CPROVER_assert(g_ev_bad == 0 && g_ev_n == XE_BASE + (size_t)j + 1, "C20 public trace: doubling loop of ed_mul_reg_imp");
#define VC_END_ed_mul_reg_imp_3 __CPROVER_assert(g_ev_bad == 0 && g_ev_n == XE_BASE + (RLC_WIDTH - 1) + XE_COORDS * ((size_t)j + 1), "C20 public trace: masked table scan of ed_mul_reg_imp copies every entry");
#define VC_PRE_ed_mul_monty_0 __CPROVER_assert(g_ev_bad == 0 && g_ev_n == 1, "C20 public trace: set-up of ed_mul_monty");
#define VC_END_ed_mul_monty_0 __CPROVER_assert(g_ev_bad == 0 && g_ev_n == 1 + XM_STEP * (g_pub_bits - (size_t)i), "C20 public trace: one ladder step of ed_mul_monty = swap^c add dbl swap^c");
