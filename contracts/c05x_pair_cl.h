/* Camenisch-Lysyanskaya (schemes A, B, C of CL04) and Pointcheval-Sanders signature verifiers: guard contracts.
   Included by c05x_pair.h (inside vc_spec_push/pop).  Conventions as there. */
#define C5_ACC (__CPROVER_return_value == 1)
#ifndef C05X_CLB_LMAX
#define C05X_CLB_LMAX 2
#endif
#define C5_MSG1(msg, len) (g_md_calls == 0 && g_read_calls == 1 && g_read_len == (len) && g_read_bin == C5_P(msg) && g_mod_calls == 1 && g_mod_a == g_read_a && g_mod_c == g_read_a && \
	g_mod_m == g_ord_n && g_ord_n != 0)
#define C5_ADD_OF(u, v) (g_add_p == (u) && g_add_q == C5_P(v) || g_add_q == (u) && g_add_p == C5_P(v))

/* ---- CL scheme A: sigma = (a, b, c) in G1^3, pk = (X, Y) in G2^2; accept iff e(a,Y) = e(b,g2) and e(a + [m]b, X) = e(c,g2), a,b,c well-formed
   tracked: 0 a, 1 b, 2 c, 3 x, 4 y */
int cp_cls_ver(const g1_t a, const g1_t b, const g1_t c, const uint8_t *msg, size_t len, const g2_t x, const g2_t y)
__CPROVER_requires(__CPROVER_is_fresh(a, sizeof(ep_st)) && __CPROVER_is_fresh(b, sizeof(ep_st)) && __CPROVER_is_fresh(c, sizeof(ep_st)) && __CPROVER_is_fresh(x, sizeof(ep2_st)) && \
	__CPROVER_is_fresh(y, sizeof(ep2_st)) && len <= 128 && __CPROVER_is_fresh(msg, len))
__CPROVER_requires(C5_BIND(a, b, c, x, y, NULL, NULL, NULL, NULL, NULL, NULL, NULL) && C5_INIT)
VC_ASSIGNS(C5_GHOST)
__CPROVER_ensures(C5_BOOL(__CPROVER_return_value))
/* no signature component is the identity */
__CPROVER_ensures(C5_ACC ==> (g_inf[0] == 0 && g_inf[1] == 0 && g_inf[2] == 0))
#ifndef C05X_WITHOUT_SIGVALID
/* every signature component is a point of the curve (off-curve points are rejected) */
__CPROVER_ensures(C5_ACC ==> (C5_WF(0) && C5_WF(1) && C5_WF(2)))
#endif
#ifndef C05X_WITHOUT_KEYVALID
__CPROVER_ensures(C5_ACC ==> (C5_WF(3) && C5_WF(4)))
#endif
/* two products of two pairings, each tested once to be the unit of GT, all tests true */
__CPROVER_ensures(C5_ACC ==> (g_pair_calls == 2 && g_pair_all2 == 1 && g_unity_calls == 2 && g_unity_ok == 1))
/* operands: a, b, c, X, Y each enter a product once by copy; [m]b + a normalised enters the second product */
__CPROVER_ensures(C5_ACC ==> (g_cpy[0] == 1 && g_cpy[1] == 1 && g_cpy[2] == 1 && g_cpy[3] == 1 && g_cpy[4] == 1 && g_mul_calls == 1 && g_mul_p == C5_P(b) && g_mul_k == g_mod_c && \
	g_add_calls == 1 && C5_ADD_OF(g_mul_r, a) && g_norm_calls == 1 && g_norm_p == g_add_r))
/* the scheme's definition, equation by equation: each equation e(P,Q) = e(P',g2) was tested as a product e(P,Q) e(P',-g2) of exactly two pairings whose operands
   were (copies of) THOSE arguments themselves / the negated generator / the normalised sum, and the unity test on that product's result was true */
__CPROVER_ensures(C5_ACC ==> (g_sovf == 0 && C5_TESTED(0, 4, 1, C5_T_NEGGEN) && C5_TESTED(C5_T_NORM, 3, 2, C5_T_NEGGEN)))
/* the message is read over its full length and reduced modulo the group order */
__CPROVER_ensures(C5_ACC ==> C5_MSG1(msg, len))
__CPROVER_ensures(g_ctx.last == __CPROVER_old(g_ctx.last))
C5_VAC
;
/* ---- CL scheme B (signature on a committed message m with opening r): sigma = (a, A, b, B, c), pk = (X, Y, Z);
   accept iff e(a,Z) = e(A,g2), e(a,Y) = e(b,g2), e(A,Y) = e(B,g2), e(a + [m]b + [r]B, X) = e(c,g2), all five components well-formed
   tracked: 0 a, 1 A, 2 b, 3 B, 4 c, 5 x, 6 y, 7 z */
int cp_cli_ver(g1_t a, g1_t A, g1_t b, g1_t B, g1_t c, const uint8_t *msg, size_t len, const bn_t r, const g2_t x, const g2_t y, const g2_t z)
__CPROVER_requires(__CPROVER_is_fresh(a, sizeof(ep_st)) && __CPROVER_is_fresh(A, sizeof(ep_st)) && __CPROVER_is_fresh(b, sizeof(ep_st)) && __CPROVER_is_fresh(B, sizeof(ep_st)) && \
	__CPROVER_is_fresh(c, sizeof(ep_st)) && __CPROVER_is_fresh(x, sizeof(ep2_st)) && __CPROVER_is_fresh(y, sizeof(ep2_st)) && __CPROVER_is_fresh(z, sizeof(ep2_st)) && \
	__CPROVER_is_fresh(r, sizeof(bn_st)) && len <= 128 && __CPROVER_is_fresh(msg, len))
__CPROVER_requires(C5_BIND(a, A, b, B, c, x, y, z, NULL, NULL, NULL, NULL) && C5_INIT)
VC_ASSIGNS(C5_GHOST)
__CPROVER_ensures(C5_BOOL(__CPROVER_return_value))
__CPROVER_ensures(C5_ACC ==> (g_inf[0] == 0 && g_inf[1] == 0 && g_inf[2] == 0 && g_inf[3] == 0 && g_inf[4] == 0))
#ifndef C05X_WITHOUT_SIGVALID
__CPROVER_ensures(C5_ACC ==> (C5_WF(0) && C5_WF(1) && C5_WF(2) && C5_WF(3) && C5_WF(4)))
#endif
#ifndef C05X_WITHOUT_KEYVALID
__CPROVER_ensures(C5_ACC ==> (C5_WF(5) && C5_WF(6) && C5_WF(7)))
#endif
__CPROVER_ensures(C5_ACC ==> (g_pair_calls == 4 && g_pair_all2 == 1 && g_unity_calls == 4 && g_unity_ok == 1))
/* a, b, B, c, X, Y, Z enter by one copy, A by two (first and third equation); [m]b + [r]B, plus a, normalised, enters the last product */
__CPROVER_ensures(C5_ACC ==> (g_cpy[0] == 1 && g_cpy[1] == 2 && g_cpy[2] == 1 && g_cpy[3] == 1 && g_cpy[4] == 1 && g_cpy[5] == 1 && g_cpy[6] == 1 && g_cpy[7] == 1 && \
	g_mul_calls == 1 && g_mulb[2] == 1 && g_mulb[3] == 1 && g_mul_k == g_mod_c && g_add_calls == 1 && C5_ADD_OF(g_mul_r, a) && g_norm_calls == 1 && g_norm_p == g_add_r))
/* the scheme's definition, equation by equation: each equation e(P,Q) = e(P',g2) was tested as a product e(P,Q) e(P',-g2) of exactly two pairings whose operands
   were (copies of) THOSE arguments themselves / the negated generator / the normalised sum, and the unity test on that product's result was true */
__CPROVER_ensures(C5_ACC ==> (g_sovf == 0 && C5_TESTED(0, 7, 1, C5_T_NEGGEN) && C5_TESTED(0, 6, 2, C5_T_NEGGEN) && C5_TESTED(1, 6, 3, C5_T_NEGGEN) && C5_TESTED(C5_T_NORM, 5, 4, C5_T_NEGGEN)))
__CPROVER_ensures(C5_ACC ==> C5_MSG1(msg, len))
__CPROVER_ensures(g_ctx.last == __CPROVER_old(g_ctx.last))
C5_VAC
;
/* ---- CL scheme C (blocks of l messages): sigma = (a, {A_i}, b, {B_i}, c), pk = (X, Y, {Z_i}), i = 1..l-1.
   BOUNDED: 1 <= l <= C05X_CLB_LMAX (default 2; 3 exceeds the object budget of the default pointer encoding), the arrays A, B, z have room for 2 elements, ms/ls for 3.
   tracked: 0 a, 1 b, 2 c, 3 A[0], 4 A[1], 5 B[0], 6 B[1], 7 x, 8 y, 9 z[0], 10 z[1] */
int cp_clb_ver(const g1_t a, const g1_t A[], const g1_t b, const g1_t B[], const g1_t c, const uint8_t *ms[], const size_t ls[], const g2_t x, const g2_t y, const g2_t z[], size_t l)
__CPROVER_requires(l >= 1 && l <= C05X_CLB_LMAX)
__CPROVER_requires(__CPROVER_is_fresh(a, sizeof(ep_st)) && __CPROVER_is_fresh(b, sizeof(ep_st)) && __CPROVER_is_fresh(c, sizeof(ep_st)) && __CPROVER_is_fresh(x, sizeof(ep2_st)) && \
	__CPROVER_is_fresh(y, sizeof(ep2_st)) && __CPROVER_is_fresh(A, 2 * sizeof(ep_t)) && __CPROVER_is_fresh(B, 2 * sizeof(ep_t)) && __CPROVER_is_fresh(z, 2 * sizeof(ep2_t)))
__CPROVER_requires(__CPROVER_is_fresh(ms, 3 * sizeof(uint8_t *)) && __CPROVER_is_fresh(ls, 3 * sizeof(size_t)) && ls[0] <= 40 && ls[1] <= 40 && ls[2] <= 40 && \
	__CPROVER_is_fresh(ms[0], ls[0]) && __CPROVER_is_fresh(ms[1], ls[1]) && __CPROVER_is_fresh(ms[2], ls[2]))
__CPROVER_requires(C5_BIND(a, b, c, &A[0], &A[1], &B[0], &B[1], x, y, &z[0], &z[1], NULL) && C5_INIT)
VC_ASSIGNS(C5_GHOST)
__CPROVER_ensures(C5_BOOL(__CPROVER_return_value))
__CPROVER_ensures(C5_ACC ==> (g_inf[0] == 0 && g_inf[1] == 0 && g_inf[2] == 0 && (l < 2 || (g_inf[3] == 0 && g_inf[5] == 0)) && (l < 3 || (g_inf[4] == 0 && g_inf[6] == 0))))
#ifndef C05X_WITHOUT_SIGVALID
__CPROVER_ensures(C5_ACC ==> (C5_WF(0) && C5_WF(1) && C5_WF(2) && (l < 2 || (C5_WF(3) && C5_WF(5))) && (l < 3 || (C5_WF(4) && C5_WF(6)))))
#endif
#ifndef C05X_WITHOUT_KEYVALID
__CPROVER_ensures(C5_ACC ==> (C5_WF(7) && C5_WF(8) && (l < 2 || C5_WF(9)) && (l < 3 || C5_WF(10))))
#endif
/* (l-1) + 1 + (l-1) + 1 products of two pairings, each tested once, all tests true */
__CPROVER_ensures(C5_ACC ==> (g_pair_calls == 2 * (int)l && g_pair_all2 == 1 && g_unity_calls == 2 * (int)l && g_unity_ok == 1))
/* operands: a, b, c, X, Y one copy; A_i two copies, B_i and Z_i one copy; [m_0]b and [m_i]B_i: one multiplication per message */
__CPROVER_ensures(C5_ACC ==> (g_cpy[0] == 1 && g_cpy[1] == 1 && g_cpy[2] == 1 && g_cpy[7] == 1 && g_cpy[8] == 1 && g_cpy[3] == (l >= 2 ? 2 : 0) && g_cpy[5] == (l >= 2 ? 1 : 0) && \
	g_cpy[9] == (l >= 2 ? 1 : 0) && g_cpy[4] == (l >= 3 ? 2 : 0) && g_cpy[6] == (l >= 3 ? 1 : 0) && g_cpy[10] == (l >= 3 ? 1 : 0)))
__CPROVER_ensures(C5_ACC ==> (g_mul_calls == (int)l && g_mulb[1] == 1 && g_mulb[5] == (l >= 2 ? 1 : 0) && g_mulb[6] == (l >= 3 ? 1 : 0) && g_add_calls == (int)l && g_norm_calls == 1 && g_norm_p == g_add_r))
/* the scheme's definition, equation by equation: each equation e(P,Q) = e(P',g2) was tested as a product e(P,Q) e(P',-g2) of exactly two pairings whose operands
   were (copies of) THOSE arguments themselves / the negated generator / the normalised sum, and the unity test on that product's result was true */
__CPROVER_ensures(C5_ACC ==> (g_sovf == 0 && C5_TESTED(0, 8, 1, C5_T_NEGGEN) && C5_TESTED(C5_T_NORM, 7, 2, C5_T_NEGGEN) && (l < 2 || (C5_TESTED(0, 9, 3, C5_T_NEGGEN) && C5_TESTED(3, 8, 5, C5_T_NEGGEN))) && \
	(l < 3 || (C5_TESTED(0, 10, 4, C5_T_NEGGEN) && C5_TESTED(4, 8, 6, C5_T_NEGGEN)))))
/* every message read over its own length and reduced modulo the order */
__CPROVER_ensures(C5_ACC ==> (g_md_calls == 0 && g_read_calls == (int)l && g_mod_calls == (int)l && g_read_len == ls[l - 1] && g_read_bin == C5_P(ms[l - 1]) && g_mod_a == g_read_a && \
	g_mod_m == g_ord_n && g_ord_n != 0))
__CPROVER_ensures(g_ctx.last == __CPROVER_old(g_ctx.last))
C5_VAC
;
/* ---- Pointcheval-Sanders: sigma = (a, b) in G1^2, a != O; pk = (g, X, Y) in G2^3; accept iff e(a, X + [m]Y) = e(b, g)
   tracked: 0 a, 1 b, 2 g, 3 x, 4 y */
int cp_pss_ver(const g1_t a, const g1_t b, const bn_t m, const g2_t g, const g2_t x, const g2_t y)
__CPROVER_requires(__CPROVER_is_fresh(a, sizeof(ep_st)) && __CPROVER_is_fresh(b, sizeof(ep_st)) && __CPROVER_is_fresh(m, sizeof(bn_st)) && __CPROVER_is_fresh(g, sizeof(ep2_st)) && \
	__CPROVER_is_fresh(x, sizeof(ep2_st)) && __CPROVER_is_fresh(y, sizeof(ep2_st)))
__CPROVER_requires(C5_BIND(a, b, g, x, y, NULL, NULL, NULL, NULL, NULL, NULL, NULL) && C5_INIT)
VC_ASSIGNS(C5_GHOST)
__CPROVER_ensures(C5_BOOL(__CPROVER_return_value))
/* the scheme's own guard: a is not the identity */
__CPROVER_ensures(C5_ACC ==> g_inf[0] == 0)
#ifndef C05X_WITHOUT_SIGVALID
/* both components are points of the curve, neither is the identity */
__CPROVER_ensures(C5_ACC ==> (C5_WF(0) && C5_WF(1)))
#endif
#ifndef C05X_WITHOUT_KEYVALID
__CPROVER_ensures(C5_ACC ==> (C5_WF(2) && C5_WF(3) && C5_WF(4)))
#endif
__CPROVER_ensures(C5_ACC ==> (g_pair_calls == 1 && g_pair_all2 == 1 && g_unity_calls == 1 && g_unity_ok == 1))
/* operands: a, b, g by one copy each; [m]Y + X normalised */
__CPROVER_ensures(C5_ACC ==> (g_cpy[0] == 1 && g_cpy[1] == 1 && g_cpy[2] == 1 && g_mul_calls == 1 && g_mul_p == C5_P(y) && g_mul_k == C5_P(m) && g_add_calls == 1 && C5_ADD_OF(g_mul_r, x) && \
	g_norm_calls == 1 && g_norm_p == g_add_r))
__CPROVER_ensures(g_ctx.last == __CPROVER_old(g_ctx.last))
C5_VAC
;
/* ---- Pointcheval-Sanders, block of l messages: accept iff e(a, X + sum [m_i]Y_i) = e(b, g), a != O.
   BOUNDED in the key-validity clause only (the logic is loop-free): 1 <= l <= 2, y has room for 2 elements.
   tracked: 0 a, 1 b, 2 g, 3 x, 4 y[0], 5 y[1] */
int cp_psb_ver(const g1_t a, const g1_t b, const bn_t ms[], const g2_t g, const g2_t x, const g2_t y[], size_t l)
__CPROVER_requires(l >= 1 && l <= 2)
__CPROVER_requires(__CPROVER_is_fresh(a, sizeof(ep_st)) && __CPROVER_is_fresh(b, sizeof(ep_st)) && __CPROVER_is_fresh(ms, 2 * sizeof(bn_t)) && __CPROVER_is_fresh(g, sizeof(ep2_st)) && \
	__CPROVER_is_fresh(x, sizeof(ep2_st)) && __CPROVER_is_fresh(y, 2 * sizeof(ep2_t)))
__CPROVER_requires(C5_BIND(a, b, g, x, &y[0], &y[1], NULL, NULL, NULL, NULL, NULL, NULL) && C5_INIT)
VC_ASSIGNS(C5_GHOST)
__CPROVER_ensures(C5_BOOL(__CPROVER_return_value))
__CPROVER_ensures(C5_ACC ==> g_inf[0] == 0)
#ifndef C05X_WITHOUT_SIGVALID
__CPROVER_ensures(C5_ACC ==> (C5_WF(0) && C5_WF(1)))
#endif
#ifndef C05X_WITHOUT_KEYVALID
__CPROVER_ensures(C5_ACC ==> (C5_WF(2) && C5_WF(3) && C5_WF(4) && (l < 2 || C5_WF(5))))
#endif
__CPROVER_ensures(C5_ACC ==> (g_pair_calls == 1 && g_pair_all2 == 1 && g_unity_calls == 1 && g_unity_ok == 1))
/* operands: a, b, g by one copy each; sum [m_i]Y_i over exactly the l keys and messages given, plus X, normalised */
__CPROVER_ensures(C5_ACC ==> (g_cpy[0] == 1 && g_cpy[1] == 1 && g_cpy[2] == 1 && g_mul_calls == 1 && g_mul_p == C5_P(y) && g_mul_k == C5_P(ms) && g_sz == l && g_add_calls == 1 && \
	C5_ADD_OF(g_mul_r, x) && g_norm_calls == 1 && g_norm_p == g_add_r))
__CPROVER_ensures(g_ctx.last == __CPROVER_old(g_ctx.last))
C5_VAC
;
