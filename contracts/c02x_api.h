/* The API layer between the callers and the verified fixed-size low level (property C02): src/fp/relic_fp_add.c, relic_fp_div.c (halving),
   relic_fp_cmp.c, relic_fp_util.c.  Value-level contracts over the RLC_FP_DIGS digits, SYMBOLIC modulus (fp_prime_get -> ghost g_p, as in
   fp_low.h).  The low-level functions are replaced by their PROVED contracts of fp_low.h (units of units_fp.py), so each wrapper unit shows
   that the wrapper dispatches to the right low-level function with the right operands and post-processes its result correctly:
   "c is the canonical residue of a (+,-,2*,/2,-) b".  Both selectable algorithms of an operation (BASIC / INTEG) carry the SAME contract text:
   "every selectable algorithm for the same operation returns the same value".
   Alias shapes of the function under proof: -DVC_XSHAPE=<shape>; replaced callees are checked against the general disjunction (VC_FSHAPE unset). */
#pragma once
#include "fp_low.h"
#include "c02x_common.h"
#ifndef VC_XSHAPE
#define VC_XSHAPE VC_F_GEN
#endif
#define VC_XREQ_B(a, b, n)     (VC_XSHAPE == VC_F_NONE || VC_XSHAPE == VC_F_CA || VC_XSHAPE == VC_F_CB ? VC_FPFRESH(b, n) : \
                                VC_XSHAPE == VC_F_CAB ? VC_PTR_SAME(b, a) : (VC_PTR_SAME(b, a) || VC_FPFRESH(b, n)))
#define VC_XREQ_C3(c, a, b, n) (VC_XSHAPE == VC_F_NONE ? VC_FPFRESH(c, n) : (VC_XSHAPE == VC_F_CA || VC_XSHAPE == VC_F_CAB) ? VC_PTR_SAME(c, a) : \
                                VC_XSHAPE == VC_F_CB ? VC_PTR_SAME(c, b) : (VC_PTR_SAME(c, a) || VC_PTR_SAME(c, b) || VC_FPFRESH(c, n)))
#define VC_XREQ_C2(c, a, n)    (VC_XSHAPE == VC_F_NONE ? VC_FPFRESH(c, n) : VC_XSHAPE == VC_F_CA ? VC_PTR_SAME(c, a) : (VC_PTR_SAME(c, a) || VC_FPFRESH(c, n)))
#define VC_XV(p)      vc_fpv(p, VC_FN)
#define VC_XO(p)      VC_FPV_OLD(p, VC_FN)
#define VC_XFRAME_C(c)     VC_ASSIGNS(__CPROVER_object_upto(c, VC_FN * sizeof(dig_t)))
#define VC_XFRAME_CCTX(c)  VC_ASSIGNS(__CPROVER_object_upto(c, VC_FN * sizeof(dig_t)), g_ctx.code, g_ctx.last, g_ctx.caught, g_ctx.error, g_ctx.number, g_thrown)

/* ghost state of the abstract conversion callees */
extern int g_x_cd_calls; extern dig_t g_x_cd_dig; extern vc_fpw g_x_cd_val; extern vc_xid g_x_cd_dst;
extern int g_x_pb_calls, g_x_ev_calls, g_x_ev_v; extern vc_xid g_x_pb_src, g_x_pb_dst, g_x_ev_arg;

#include "vc_spec_push.h"
/* ---- c = a op b, canonical ------------------------------------------------------------------------------------------------------ */
#define VC_X_ADDV  (VC_XO(a) + VC_XO(b) >= VC_P ? VC_XO(a) + VC_XO(b) - VC_P : VC_XO(a) + VC_XO(b))
#define VC_X_SUBV  (VC_XO(a) >= VC_XO(b) ? VC_XO(a) - VC_XO(b) : VC_XO(a) + VC_P - VC_XO(b))
#define VC_X_BINOP(f, val) void f(fp_t c, const fp_t a, const fp_t b) \
__CPROVER_requires(VC_FPFRESH(a, VC_FN)) __CPROVER_requires(VC_XREQ_B(a, b, VC_FN)) __CPROVER_requires(VC_XREQ_C3(c, a, b, VC_FN)) \
__CPROVER_requires(VC_P_OK && VC_XV(a) < VC_P && VC_XV(b) < VC_P) \
VC_XFRAME_C(c) \
__CPROVER_ensures(VC_XV(c) < VC_P) \
__CPROVER_ensures(VC_XV(c) == (val))
VC_X_BINOP(fp_add_basic, VC_X_ADDV);
VC_X_BINOP(fp_add_integ, VC_X_ADDV);
VC_X_BINOP(fp_sub_basic, VC_X_SUBV);
VC_X_BINOP(fp_sub_integ, VC_X_SUBV);

/* ---- c = op a, canonical ---------------------------------------------------------------------------------------------------------- */
#define VC_X_UNOP(f, frame, post) void f(fp_t c, const fp_t a) \
__CPROVER_requires(VC_FPFRESH(a, VC_FN)) __CPROVER_requires(VC_XREQ_C2(c, a, VC_FN)) \
__CPROVER_requires(VC_P_OK && VC_XV(a) < VC_P) \
frame(c) \
__CPROVER_ensures(VC_XV(c) < VC_P) \
__CPROVER_ensures(post)
#define VC_X_NEGP  (VC_XV(c) == (VC_XO(a) == 0 ? (vc_fpw)0 : VC_P - VC_XO(a)))
#define VC_X_DBLP  (VC_XV(c) == (2 * VC_XO(a) >= VC_P ? 2 * VC_XO(a) - VC_P : 2 * VC_XO(a)))
#define VC_X_HLVP  (2 * VC_XV(c) == ((VC_XO(a) & 1) ? VC_XO(a) + VC_P : VC_XO(a)))
VC_X_UNOP(fp_neg_basic, VC_XFRAME_CCTX, VC_X_NEGP);       /* fp_zero -> dv_zero has a (statically unreachable) precision-error exit */
VC_X_UNOP(fp_neg_integ, VC_XFRAME_CCTX, VC_X_NEGP);
VC_X_UNOP(fp_dbl_basic, VC_XFRAME_C, VC_X_DBLP);
VC_X_UNOP(fp_dbl_integ, VC_XFRAME_C, VC_X_DBLP);
VC_X_UNOP(fp_hlv_basic, VC_XFRAME_C, VC_X_HLVP);
VC_X_UNOP(fp_hlv_integ, VC_XFRAME_C, VC_X_HLVP);

/* ---- predicates and bit access ------------------------------------------------------------------------------------------------------ */
/* zero test: the all-zero vector and (non-canonical) the modulus itself; on canonical input exactly "a == 0" */
int fp_is_zero(const fp_t a)
__CPROVER_requires(VC_FPFRESH(a, VC_FN))
VC_ASSIGNS_NONE
__CPROVER_ensures(__CPROVER_return_value == ((VC_XV(a) == 0 || VC_XV(a) == VC_P) ? 1 : 0))
__CPROVER_ensures(VC_XV(a) < VC_P ==> __CPROVER_return_value == (VC_XV(a) == 0 ? 1 : 0))
;
/* normalisation of a canonical element is the identity (the reducing loop for non-canonical input is not covered) */
void fp_norm(fp_t c, const fp_t a)
__CPROVER_requires(VC_FPFRESH(a, VC_FN)) __CPROVER_requires(VC_XREQ_C2(c, a, VC_FN))
__CPROVER_requires(VC_P_OK && VC_XV(a) < VC_P)
VC_XFRAME_C(c)
__CPROVER_ensures(VC_XV(c) == VC_XO(a))
;
#ifndef VC_CSHAPE
#define VC_CSHAPE VC_F_GEN       /* own shape selector: fp_cmp replaces fp_sub_*, whose contract reads VC_XSHAPE */
#endif
/* equality of field elements coincides with equality of residues; no error, handler chain restored */
int fp_cmp(const fp_t a, const fp_t b)
__CPROVER_requires(VC_FPFRESH(a, VC_FN)) __CPROVER_requires(VC_CSHAPE == VC_F_NONE ? VC_FPFRESH(b, VC_FN) : VC_CSHAPE == VC_F_CAB ? VC_PTR_SAME(b, a) : (VC_PTR_SAME(b, a) || VC_FPFRESH(b, VC_FN)))
__CPROVER_requires(VC_P_OK && VC_XV(a) < VC_P && VC_XV(b) < VC_P)
VC_ASSIGNS(g_ctx.code, g_ctx.last, g_ctx.caught, g_ctx.error, g_ctx.number, g_thrown)
__CPROVER_ensures(__CPROVER_return_value == (VC_XV(a) == VC_XV(b) ? RLC_EQ : RLC_NE))
__CPROVER_ensures(g_ctx.code == __CPROVER_old(g_ctx.code) && g_ctx.last == __CPROVER_old(g_ctx.last) && g_thrown == 0)
;
/* conversion of a digit to the field representation: abstract (Montgomery multiplication), canonical result recorded as ghost value */
void fp_prime_conv_dig_x(fp_t c, dig_t a)
__CPROVER_requires(VC_FPFRESH(c, VC_FN))
VC_ASSIGNS(__CPROVER_object_upto(c, VC_FN * sizeof(dig_t)), g_x_cd_calls, g_x_cd_dig, g_x_cd_val, g_x_cd_dst)
__CPROVER_ensures(g_x_cd_calls == __CPROVER_old(g_x_cd_calls) + 1 && g_x_cd_dig == a && g_x_cd_dst == VC_XID(c) && VC_XV(c) == g_x_cd_val && g_x_cd_val < VC_P)
;
/* a compared with the field representation of the digit b */
int fp_cmp_dig(const fp_t a, dig_t b)
__CPROVER_requires(VC_FPFRESH(a, VC_FN))
__CPROVER_requires(VC_P_OK && VC_XV(a) < VC_P && g_x_cd_calls == 0)
VC_ASSIGNS(g_ctx.code, g_ctx.last, g_ctx.caught, g_ctx.error, g_ctx.number, g_thrown, g_x_cd_calls, g_x_cd_dig, g_x_cd_val, g_x_cd_dst)
__CPROVER_ensures(g_x_cd_calls == 1 && g_x_cd_dig == b)
__CPROVER_ensures(__CPROVER_return_value == (VC_XV(a) == g_x_cd_val ? RLC_EQ : RLC_NE))
__CPROVER_ensures(g_ctx.code == __CPROVER_old(g_ctx.code) && g_ctx.last == __CPROVER_old(g_ctx.last) && g_thrown == 0)
;
void fp_set_dig(fp_t c, dig_t a)
__CPROVER_requires(VC_FPFRESH(c, VC_FN))
__CPROVER_requires(VC_P_OK && g_x_cd_calls == 0)
VC_ASSIGNS(__CPROVER_object_upto(c, VC_FN * sizeof(dig_t)), g_x_cd_calls, g_x_cd_dig, g_x_cd_val, g_x_cd_dst)
__CPROVER_ensures(g_x_cd_calls == 1 && g_x_cd_dig == a && g_x_cd_dst == VC_XID(c) && VC_XV(c) == g_x_cd_val && VC_XV(c) < VC_P)
;
int fp_get_bit(const fp_t a, uint_t bit)
__CPROVER_requires(VC_FPFRESH(a, VC_FN) && bit < VC_FN * RLC_DIG)
VC_ASSIGNS_NONE
__CPROVER_ensures(__CPROVER_return_value == (int)((VC_XV(a) >> bit) & 1))
;
void fp_set_bit(fp_t a, uint_t bit, int value)
__CPROVER_requires(VC_FPFRESH(a, VC_FN) && bit < VC_FN * RLC_DIG && (value == 0 || value == 1))
VC_XFRAME_C(a)
__CPROVER_ensures(VC_XV(a) == (value ? (VC_XO(a) | (((vc_fpw)1) << bit)) : (VC_XO(a) & ~(((vc_fpw)1) << bit))))
;
/* significant bits of a digit: same text as contracts/bn_api.h (x64: lzcnt through a function pointer, trusted there; enforced on ARCH=none) */
size_t util_bits_dig_x(dig_t a)
VC_ASSIGNS_NONE
__CPROVER_ensures(__CPROVER_return_value <= RLC_DIG)
__CPROVER_ensures(((vc_dbl)a >> __CPROVER_return_value) == 0)
__CPROVER_ensures(__CPROVER_return_value == 0 || ((vc_dbl)a >> (__CPROVER_return_value - 1)) == 1)
;
/* bit length of the stored digit vector: a < 2^r, and a >= 2^(r-1) unless r == 0 */
size_t fp_bits(const fp_t a)
__CPROVER_requires(VC_FPFRESH(a, VC_FN))
VC_ASSIGNS_NONE
__CPROVER_ensures(__CPROVER_return_value <= VC_FN * RLC_DIG)
__CPROVER_ensures((VC_XV(a) >> __CPROVER_return_value) == 0)
__CPROVER_ensures(__CPROVER_return_value == 0 || (VC_XV(a) >> (__CPROVER_return_value - 1)) == 1)
;
void fp_copy(fp_t c, const fp_t a)
__CPROVER_requires(VC_FPFRESH(a, VC_FN)) __CPROVER_requires(VC_XREQ_C2(c, a, VC_FN))
VC_XFRAME_C(c)
__CPROVER_ensures(VC_XV(c) == VC_XO(a))
;
void fp_zero(fp_t a)
__CPROVER_requires(VC_FPFRESH(a, VC_FN))
VC_XFRAME_CCTX(a)
__CPROVER_ensures(VC_XV(a) == 0 && g_ctx.code == __CPROVER_old(g_ctx.code) && g_thrown == 0)
;
/* parity of the integer the element stands for: the verdict of bn_is_even on what fp_prime_back made of a (both abstract) */
void bn_make_y(bn_t a, size_t digits)
__CPROVER_requires(digits == RLC_BN_SIZE)
VC_ASSIGNS(__CPROVER_object_whole(a))
__CPROVER_ensures(a->alloc == RLC_BN_SIZE && a->used == 1 && a->sign == RLC_POS)
;
void fp_prime_back_x(bn_t c, const fp_t a)
__CPROVER_requires(c->alloc == RLC_BN_SIZE)
VC_ASSIGNS(__CPROVER_object_whole(c), g_x_pb_calls, g_x_pb_src, g_x_pb_dst)
__CPROVER_ensures(g_x_pb_calls == __CPROVER_old(g_x_pb_calls) + 1 && g_x_pb_src == VC_XID(a) && g_x_pb_dst == VC_XID(c) && c->alloc == RLC_BN_SIZE && c->used >= 1 && c->used <= RLC_BN_SIZE)
;
int bn_is_even_x(const bn_t a)
VC_ASSIGNS(g_x_ev_calls, g_x_ev_v, g_x_ev_arg)
__CPROVER_ensures((__CPROVER_return_value == 0 || __CPROVER_return_value == 1) && g_x_ev_v == __CPROVER_return_value && g_x_ev_calls == __CPROVER_old(g_x_ev_calls) + 1 &&
                  g_x_ev_arg == (g_x_pb_calls == 1 ? VC_XID(a) : (vc_xid)0))       /* the converted value exists when it is tested */
;
int fp_is_even(const fp_t a)
__CPROVER_requires(VC_FPFRESH(a, VC_FN))
__CPROVER_requires(g_x_pb_calls == 0 && g_x_ev_calls == 0)
VC_ASSIGNS(g_ctx.code, g_ctx.last, g_ctx.caught, g_ctx.error, g_ctx.number, g_thrown, g_x_pb_calls, g_x_pb_src, g_x_pb_dst, g_x_ev_calls, g_x_ev_v, g_x_ev_arg)
__CPROVER_ensures(g_x_pb_calls == 1 && g_x_pb_src == VC_XID(a) && g_x_ev_calls == 1 && g_x_ev_arg == g_x_pb_dst && g_x_ev_arg != (vc_xid)0 && __CPROVER_return_value == g_x_ev_v)
__CPROVER_ensures(g_ctx.code == __CPROVER_old(g_ctx.code) && g_ctx.last == __CPROVER_old(g_ctx.last) && g_thrown == 0)
;
#include "vc_spec_pop.h"
