/* Boneh-Franklin IBE decryption cp_ibe_dec (property C06, last sentence, the "wrong length" part; this function has no padding and
   no authentication): a ciphertext is  U (uncompressed G1 point, L = 2 * RLC_FP_BYTES + 1 bytes) | V (1..RLC_MD_LEN bytes).

   RLC_OK IMPLIES: L < in_len <= L + RLC_MD_LEN, the caller's buffer holds in_len - L bytes, *out_len == in_len - L, the point was
   decoded once from in[0 .. L) by the validating decoder, one pairing of that point with the caller's private key, the pairing value
   serialised once (uncompressed, length asked from fp12_size_bin on that value) and hashed once over exactly that length, and
   out[i] == in[L + i] ^ H[i] for every i < *out_len; the bytes beyond are untouched.
   WRONG LENGTH or TOO SMALL A BUFFER: RLC_ERR, decided before any callee ran, *out_len and out untouched.

   Callees ABSTRACT (exact frame, identities recorded).  NOT modelled: the exceptional exit of ep_read_bin on an invalid point
   (abstract callees do not throw here); that the decoder validates is the contract of ep_read_bin (C07). */
#pragma once
#include "vc_prelude.h"
extern const void *__CPROVER_alloca_object;
typedef unsigned long long c6_id;
#define C6_ID(p)  ((((c6_id)__CPROVER_POINTER_OBJECT(p)) << 40) + (c6_id)__CPROVER_POINTER_OFFSET(p))
#define C06X_IL ((size_t)(2 * RLC_FP_BYTES + 1))
#define C06X_IMAX 160

extern c6_id g_ix_in, g_ix_prv, g_ix_p, g_ix_e, g_ix_buf;
extern int g_ix_sz;
extern int g_ix_rd_calls, g_ix_rd_ok, g_ix_map_calls, g_ix_map_ok, g_ix_sz_calls, g_ix_sz_ok, g_ix_wr_calls, g_ix_wr_ok, g_ix_md_calls, g_ix_md_ok;
extern uint8_t g_ix_H[RLC_MD_LEN], g_ix_v;

#include "vc_spec_push.h"
static inline int c06x_eq32(const uint8_t *a, const uint8_t *b) {
	int r = 1;
	for (int i = 0; i < RLC_MD_LEN; i++) {
		if (a[i] != b[i]) r = 0;
	}
	return r;
}
void ep_read_bin_g(ep_t a, const uint8_t *bin, size_t len)
__CPROVER_requires(__CPROVER_is_fresh(a, sizeof(ep_st)) && len >= 1 && len <= C06X_IMAX && __CPROVER_is_fresh(bin, len))
VC_ASSIGNS(__CPROVER_object_upto(a, sizeof(ep_st)), g_ix_rd_calls, g_ix_rd_ok, g_ix_p)
__CPROVER_ensures(g_ix_rd_calls == __CPROVER_old(g_ix_rd_calls) + 1 && g_ix_p == C6_ID(a) && g_ix_rd_ok == (C6_ID(bin) == g_ix_in && len == C06X_IL));
void pp_map_oatep_k12_g(fp12_t r, const ep_t p, const ep2_t q)
__CPROVER_requires(__CPROVER_is_fresh(r, sizeof(fp12_t)) && __CPROVER_is_fresh(p, sizeof(ep_st)) && __CPROVER_is_fresh(q, sizeof(ep2_st)))
VC_ASSIGNS(__CPROVER_object_upto(r, sizeof(fp12_t)), g_ix_map_calls, g_ix_map_ok, g_ix_e)
__CPROVER_ensures(g_ix_map_calls == __CPROVER_old(g_ix_map_calls) + 1 && g_ix_e == C6_ID(r) && \
	g_ix_map_ok == (g_ix_rd_calls == 1 && g_ix_rd_ok == 1 && C6_ID(p) == g_ix_p && C6_ID(q) == g_ix_prv));
int fp12_size_bin_g(fp12_t a, int pack)
__CPROVER_requires(__CPROVER_is_fresh(a, sizeof(fp12_t)))
VC_ASSIGNS(g_ix_sz_calls, g_ix_sz_ok)
__CPROVER_ensures(__CPROVER_return_value == g_ix_sz && g_ix_sz_calls == __CPROVER_old(g_ix_sz_calls) + 1 && g_ix_sz_ok == (C6_ID(a) == g_ix_e && pack == 0 && g_ix_map_calls == 1 && g_ix_map_ok == 1));
void fp12_write_bin_g(uint8_t *bin, size_t len, const fp12_t a, int pack)
__CPROVER_requires(len <= 12 * RLC_FP_BYTES && __CPROVER_is_fresh(bin, len) && __CPROVER_is_fresh(a, sizeof(fp12_t)))
VC_ASSIGNS(__CPROVER_object_whole(bin), g_ix_wr_calls, g_ix_wr_ok, g_ix_buf)
__CPROVER_ensures(g_ix_wr_calls == __CPROVER_old(g_ix_wr_calls) + 1 && g_ix_buf == C6_ID(bin) && \
	g_ix_wr_ok == (C6_ID(a) == g_ix_e && pack == 0 && g_ix_sz_calls == 1 && g_ix_sz_ok == 1 && len == (size_t)g_ix_sz));
void md_map_sh256_g(uint8_t *hash, const uint8_t *msg, size_t len)
__CPROVER_requires(__CPROVER_is_fresh(hash, RLC_MD_LEN) && len <= 12 * RLC_FP_BYTES && __CPROVER_is_fresh(msg, len))
VC_ASSIGNS(__CPROVER_object_upto(hash, RLC_MD_LEN), g_ix_md_calls, g_ix_md_ok)
__CPROVER_ensures(g_ix_md_calls == __CPROVER_old(g_ix_md_calls) + 1 && g_ix_md_ok == (C6_ID(msg) == g_ix_buf && g_ix_wr_calls == 1 && g_ix_wr_ok == 1 && len == (size_t)g_ix_sz))
__CPROVER_ensures(g_ix_md_ok ==> c06x_eq32(hash, g_ix_H));

#define C06X_IOK (__CPROVER_return_value == RLC_OK)
#define C06X_ILEN_OK(in_len, cap) ((in_len) > C06X_IL && (in_len) <= C06X_IL + RLC_MD_LEN && (cap) >= (in_len) - C06X_IL)
int cp_ibe_dec(uint8_t *out, size_t *out_len, const uint8_t *in, size_t in_len, const g2_t prv)
__CPROVER_requires(in_len <= C06X_IMAX && __CPROVER_is_fresh(in, in_len))
__CPROVER_requires(__CPROVER_is_fresh(out_len, sizeof(size_t)) && *out_len <= C06X_IMAX && __CPROVER_is_fresh(out, *out_len))
__CPROVER_requires(__CPROVER_is_fresh(prv, sizeof(ep2_st)))
__CPROVER_requires(g_ix_in == C6_ID(in) && g_ix_prv == C6_ID(prv) && (g_ix_sz == 8 * RLC_FP_BYTES || g_ix_sz == 12 * RLC_FP_BYTES))
__CPROVER_requires(g_ix_p == 0 && g_ix_e == 0 && g_ix_buf == 0 && g_ix_rd_calls == 0 && g_ix_rd_ok == 0 && g_ix_map_calls == 0 && g_ix_map_ok == 0 && g_ix_sz_calls == 0 && g_ix_sz_ok == 0 && \
	g_ix_wr_calls == 0 && g_ix_wr_ok == 0 && g_ix_md_calls == 0 && g_ix_md_ok == 0)
__CPROVER_requires(gk < C06X_IMAX && (gk < *out_len ==> out[gk] == g_byte0) && (gk + C06X_IL < in_len ==> in[gk + C06X_IL] == g_ix_v))
VC_ASSIGNS(__CPROVER_object_whole(out), *out_len, __CPROVER_alloca_object, g_ix_p, g_ix_e, g_ix_buf, g_ix_rd_calls, g_ix_rd_ok, g_ix_map_calls, g_ix_map_ok, g_ix_sz_calls, g_ix_sz_ok, \
	g_ix_wr_calls, g_ix_wr_ok, g_ix_md_calls, g_ix_md_ok, g_ctx.code, g_ctx.last, g_ctx.caught, g_ctx.error, g_ctx.number, g_thrown)
__CPROVER_ensures(__CPROVER_return_value == RLC_OK || __CPROVER_return_value == RLC_ERR)
/* (2) wrong length / too small a buffer <==> error, decided before any callee; nothing returned */
__CPROVER_ensures(C06X_IOK == C06X_ILEN_OK(in_len, __CPROVER_old(*out_len)))
__CPROVER_ensures(!C06X_IOK ==> (g_ix_rd_calls == 0 && g_ix_map_calls == 0 && g_ix_md_calls == 0 && *out_len == __CPROVER_old(*out_len) && (gk < *out_len ==> out[gk] == g_byte0)))
/* (4) the mask is the hash of the serialised pairing of (decoded point, private key) */
__CPROVER_ensures(C06X_IOK ==> (g_ix_rd_calls == 1 && g_ix_rd_ok == 1 && g_ix_map_calls == 1 && g_ix_map_ok == 1 && g_ix_sz_calls == 1 && g_ix_sz_ok == 1 && \
	g_ix_wr_calls == 1 && g_ix_wr_ok == 1 && g_ix_md_calls == 1 && g_ix_md_ok == 1))
/* (5) plaintext = V xor mask over exactly in_len - L bytes; the rest of the buffer untouched */
__CPROVER_ensures(C06X_IOK ==> *out_len == in_len - C06X_IL)
__CPROVER_ensures((C06X_IOK && gk < *out_len) ==> out[gk] == (uint8_t)((g_ix_v) ^ g_ix_H[gk]))
__CPROVER_ensures((C06X_IOK && gk >= *out_len && gk < __CPROVER_old(*out_len)) ==> out[gk] == g_byte0)
__CPROVER_ensures(g_ctx.last == __CPROVER_old(g_ctx.last))
;
#include "vc_spec_pop.h"
