#pragma CPROVER check pop
