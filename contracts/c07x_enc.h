/* Encoders of prime-field elements and prime-curve points (property C07, the encoding half; C08 for the exact-size buffers).
   Guard/structure contracts in the style of dec.h: every callee is abstract (exact frame, nondeterministic result, what it was
   applied to recorded in ghost state keyed by argument identity).  What is proved: the advertised length, the length test and
   the error exit, the tag byte, that the point is normalised BEFORE any coordinate is read, that each coordinate of the
   NORMALISED point goes through the field encoder at the right offset with the full field length, zero padding, the frame.
   Not covered: the arithmetic (Montgomery back-conversion, normalisation, the value of the parity bit). */
#pragma once
#include "vc_prelude.h"
#define VC_UNASKED (-9)
/* identities bound by the precondition of the function under proof */
extern const void *g_w_bin0, *g_w_src;
extern size_t g_w_len;
extern int g_w_pack;
/* what the abstract callees saw */
extern const void *g_w_tmp;                 /* the object the back-conversion / normalisation wrote */
extern int g_w_pb_calls, g_w_pb_ok, g_w_wr_calls, g_w_wr_ok, g_w_cal_err;
extern int g_w_infty, g_w_infty_calls, g_w_nrm_calls, g_w_nrm_ok, g_w_pck_calls, g_w_pck_ok, g_w_bit, g_w_bit_ok, g_w_bit_calls;
extern int g_w_wx, g_w_wy, g_w_wcalls;
extern unsigned char g_w_out, g_w_outx, g_w_outy;      /* byte gk of what the abstract encoder left in its buffer */

#include "vc_spec_push.h"
#ifdef VC_C07X_FPW
/* ---- fp_write_bin ------------------------------------------------------------------------------------------------------ */
void fp_prime_back_w(bn_t c, const fp_t a)
__CPROVER_requires(__CPROVER_is_fresh(c, sizeof(bn_st)) && c->alloc == RLC_BN_SIZE)
VC_ASSIGNS(c->used, c->sign, __CPROVER_object_upto(c->dp, sizeof(c->dp)), g_w_pb_calls, g_w_pb_ok, g_w_tmp)
__CPROVER_ensures(c->used >= 1 && c->used <= RLC_BN_SIZE && g_w_pb_calls == __CPROVER_old(g_w_pb_calls) + 1 && g_w_tmp == (const void *)c)
__CPROVER_ensures(g_w_pb_ok == ((const void *)a == g_w_src && __CPROVER_old(g_w_wr_calls) == 0));
void bn_write_bin_w(uint8_t *bin, size_t len, const bn_t a)
VC_ASSIGNS(__CPROVER_object_upto(bin, len), g_w_wr_calls, g_w_wr_ok, g_w_cal_err, g_w_out, g_ctx.code)
__CPROVER_ensures(gk < len ==> bin[gk] == g_w_out)
__CPROVER_ensures(g_w_wr_calls == __CPROVER_old(g_w_wr_calls) + 1)
__CPROVER_ensures(g_w_wr_ok == ((const void *)bin == g_w_bin0 && len == RLC_FP_BYTES && (const void *)a == g_w_tmp && __CPROVER_old(g_w_pb_calls) == 1))
__CPROVER_ensures((g_ctx.code == __CPROVER_old(g_ctx.code) && g_w_cal_err == __CPROVER_old(g_w_cal_err)) || (g_ctx.code == RLC_ERR && g_w_cal_err == 1));

/* field element: the buffer must have exactly RLC_FP_BYTES bytes, otherwise an error is reported and nothing is written; then the
   element is converted back exactly once and THAT integer is written by the integer encoder over exactly the whole buffer; no error
   of its own */
void fp_write_bin(uint8_t *bin, size_t len, const fp_t a)
__CPROVER_requires(len <= 2 * RLC_FP_BYTES + 2 && __CPROVER_is_fresh(bin, len) && __CPROVER_is_fresh(a, RLC_FP_DIGS * sizeof(dig_t)))
__CPROVER_requires(g_may_throw == 1 && g_ctx.code == RLC_OK && g_w_bin0 == bin && g_w_src == (const void *)a && g_w_pb_calls == 0 && g_w_wr_calls == 0 && g_w_cal_err == 0 && g_w_pb_ok == 0 && g_w_wr_ok == 0)
__CPROVER_requires(gk < len ==> bin[gk] == g_byte0)
VC_ASSIGNS(__CPROVER_object_upto(bin, len), g_w_pb_calls, g_w_pb_ok, g_w_tmp, g_w_wr_calls, g_w_wr_ok, g_w_cal_err, g_w_out, \
	g_ctx.code, g_ctx.last, g_ctx.caught, g_ctx.error, g_ctx.number, g_thrown)
__CPROVER_ensures(g_ctx.code == RLC_OK || g_ctx.code == RLC_ERR)
__CPROVER_ensures(len != RLC_FP_BYTES ==> (g_ctx.code == RLC_ERR && g_w_pb_calls == 0 && g_w_wr_calls == 0 && (gk < len ==> bin[gk] == g_byte0)))
__CPROVER_ensures(len == RLC_FP_BYTES ==> (g_w_pb_calls == 1 && g_w_pb_ok == 1 && g_w_wr_calls == 1 && g_w_wr_ok == 1 && (gk < len ==> bin[gk] == g_w_out)))
__CPROVER_ensures((len == RLC_FP_BYTES && g_w_cal_err == 0) ==> g_ctx.code == RLC_OK)
;
#endif

#if defined(VC_C07X_EPW) || defined(VC_C07X_EPS)
int ep_is_infty_w(const ep_t p)
VC_ASSIGNS(g_w_infty, g_w_infty_calls)
__CPROVER_ensures((__CPROVER_return_value == 0 || __CPROVER_return_value == 1) && g_w_infty_calls == __CPROVER_old(g_w_infty_calls) + 1)
__CPROVER_ensures(g_w_infty == ((const void *)p == g_w_src ? __CPROVER_return_value : __CPROVER_old(g_w_infty)));

/* advertised length: 1 for the identity, else 1 + B (compressed) or 1 + 2B; the identity test is asked about the argument */
size_t ep_size_bin(const ep_t a, int pack)
__CPROVER_requires(__CPROVER_is_fresh(a, sizeof(ep_st)) && g_w_src == (const void *)a && g_w_infty == VC_UNASKED && g_w_infty_calls == 0)
VC_ASSIGNS(g_w_infty, g_w_infty_calls)
__CPROVER_ensures(g_w_infty == 0 || g_w_infty == 1)
__CPROVER_ensures(__CPROVER_return_value == (g_w_infty == 1 ? 1 : (pack ? 1 + RLC_FP_BYTES : 1 + 2 * RLC_FP_BYTES)))
;
#endif

#ifdef VC_C07X_EPW
#define VC_EPW_TX ((const void *)((const ep_st *)g_w_tmp)->x)
#define VC_EPW_TY ((const void *)((const ep_st *)g_w_tmp)->y)
/* the length ep_size_bin advertises for this point and format */
#define VC_EPW_NEED (g_w_infty == 1 ? 1 : (g_w_pack ? 1 + RLC_FP_BYTES : 1 + 2 * RLC_FP_BYTES))
void ep_norm_w(ep_t r, const ep_t p)
VC_ASSIGNS(__CPROVER_object_upto(r, sizeof(ep_st)), g_w_nrm_calls, g_w_nrm_ok, g_w_tmp)
__CPROVER_ensures(g_w_nrm_calls == __CPROVER_old(g_w_nrm_calls) + 1 && g_w_tmp == (const void *)r)
__CPROVER_ensures(g_w_nrm_ok == ((const void *)p == g_w_src && (const void *)r != g_w_src && __CPROVER_old(g_w_wcalls) == 0 && __CPROVER_old(g_w_bit_calls) == 0 && __CPROVER_old(g_w_pck_calls) == 0));
void ep_pck_w(ep_t r, const ep_t p)
VC_ASSIGNS(__CPROVER_object_upto(r, sizeof(ep_st)), g_w_pck_calls, g_w_pck_ok)
__CPROVER_ensures(g_w_pck_calls == __CPROVER_old(g_w_pck_calls) + 1)
__CPROVER_ensures(g_w_pck_ok == ((const void *)r == g_w_tmp && (const void *)p == g_w_tmp && g_w_nrm_calls == 1 && __CPROVER_old(g_w_wcalls) == 0 && __CPROVER_old(g_w_bit_calls) == 0));
int fp_get_bit_w(const fp_t a, uint_t bit)
VC_ASSIGNS(g_w_bit, g_w_bit_ok, g_w_bit_calls)
__CPROVER_ensures((__CPROVER_return_value == 0 || __CPROVER_return_value == 1) && g_w_bit == __CPROVER_return_value && g_w_bit_calls == __CPROVER_old(g_w_bit_calls) + 1)
__CPROVER_ensures(g_w_bit_ok == ((const void *)a == VC_EPW_TY && bit == 0 && g_w_nrm_calls == 1 && g_w_pck_calls == 1));
/* the field encoder: writes exactly len bytes at bin; which coordinate of the normalised point went to which offset */
void fp_write_bin_w(uint8_t *bin, size_t len, const fp_t a)
VC_ASSIGNS(__CPROVER_object_upto(bin, len), g_w_wx, g_w_wy, g_w_wcalls, g_w_cal_err, g_w_outx, g_w_outy, g_ctx.code)
__CPROVER_ensures(((const void *)bin == (const void *)((const uint8_t *)g_w_bin0 + 1) && gk < len) ? bin[gk] == g_w_outx : g_w_outx == __CPROVER_old(g_w_outx))
__CPROVER_ensures(((const void *)bin == (const void *)((const uint8_t *)g_w_bin0 + 1 + RLC_FP_BYTES) && gk < len) ? bin[gk] == g_w_outy : g_w_outy == __CPROVER_old(g_w_outy))
__CPROVER_ensures(g_w_wcalls == __CPROVER_old(g_w_wcalls) + 1)
__CPROVER_ensures(g_w_wx == (((const void *)bin == (const void *)((const uint8_t *)g_w_bin0 + 1) && len == RLC_FP_BYTES && (const void *)a == VC_EPW_TX && g_w_nrm_calls == 1 && g_w_pck_calls == (g_w_pack ? 1 : 0)) ? 1 : __CPROVER_old(g_w_wx)))
__CPROVER_ensures(g_w_wy == (((const void *)bin == (const void *)((const uint8_t *)g_w_bin0 + 1 + RLC_FP_BYTES) && len == RLC_FP_BYTES && (const void *)a == VC_EPW_TY && g_w_nrm_calls == 1 && g_w_pck_calls == 0) ? 1 : __CPROVER_old(g_w_wy)))
__CPROVER_ensures((g_ctx.code == __CPROVER_old(g_ctx.code) && g_w_cal_err == __CPROVER_old(g_w_cal_err)) || (g_ctx.code == RLC_ERR && g_w_cal_err == 1));

/* point encoder.  Returns normally without error ==> the buffer is at least as long as the advertised length, and
     identity:      every byte is 0 (the advertised string is the single byte 0), nothing else was called;
     compressed:    the point was normalised once (from the argument, into a temporary) before anything else, packed in place, the
                    tag is 2 | (bit 0 of the y of THAT temporary, read after packing), x of THAT temporary was encoded at offset 1 over
                    exactly B bytes, one field encoding only;
     uncompressed:  normalised likewise, never packed, tag 4, x at offset 1 and y at offset 1 + B, B bytes each, two encodings only;
     the bytes at 1..B (and 1+B..2B) are those the field encoder left there; every byte beyond the advertised length is 0.
   Error exits: an error of its own is raised only when len is smaller than the advertised length (the longjmp stub of this unit
   checks exactly that, and that no coordinate has been written yet); with len >= the advertised length and no callee error the
   code stays RLC_OK.  Nothing outside bin[0..len) is written (frame). */
void ep_write_bin(uint8_t *bin, size_t len, const ep_t a, int pack)
__CPROVER_requires(len <= 2 * RLC_FP_BYTES + 3 && __CPROVER_is_fresh(bin, len) && __CPROVER_is_fresh(a, sizeof(ep_st)))
__CPROVER_requires(g_may_throw == 1 && g_ctx.code == RLC_OK && g_w_bin0 == bin && g_w_src == (const void *)a && g_w_len == len && g_w_pack == (pack != 0))
__CPROVER_requires(g_w_infty == VC_UNASKED && g_w_infty_calls == 0 && g_w_nrm_calls == 0 && g_w_nrm_ok == 0 && g_w_pck_calls == 0 && g_w_pck_ok == 0 && g_w_bit_calls == 0 && g_w_bit_ok == 0 \
	&& g_w_wx == 0 && g_w_wy == 0 && g_w_wcalls == 0 && g_w_cal_err == 0 && g_w_tmp == NULL)
VC_ASSIGNS(__CPROVER_object_upto(bin, len), g_w_infty, g_w_infty_calls, g_w_nrm_calls, g_w_nrm_ok, g_w_tmp, g_w_pck_calls, g_w_pck_ok, g_w_bit, g_w_bit_ok, g_w_bit_calls, \
	g_w_wx, g_w_wy, g_w_wcalls, g_w_cal_err, g_w_outx, g_w_outy, g_ctx.code, g_ctx.last, g_ctx.caught, g_ctx.error, g_ctx.number, g_thrown)
__CPROVER_ensures(g_ctx.code == RLC_OK || g_ctx.code == RLC_ERR)
__CPROVER_ensures(g_w_infty == 0 || g_w_infty == 1)
__CPROVER_ensures(g_ctx.code == RLC_OK ==> len >= VC_EPW_NEED)
__CPROVER_ensures((len >= VC_EPW_NEED && g_w_cal_err == 0) ==> g_ctx.code == RLC_OK)
__CPROVER_ensures((g_ctx.code == RLC_OK && g_w_infty == 1) ==> ((gk < len ==> bin[gk] == 0) && g_w_nrm_calls == 0 && g_w_wcalls == 0))
__CPROVER_ensures((g_ctx.code == RLC_OK && g_w_infty == 0) ==> (g_w_nrm_calls == 1 && g_w_nrm_ok == 1 && g_w_wx == 1 && ((gk < len && gk >= VC_EPW_NEED) ==> bin[gk] == 0)))
__CPROVER_ensures((g_ctx.code == RLC_OK && g_w_infty == 0 && pack) ==> (g_w_pck_calls == 1 && g_w_pck_ok == 1 && g_w_bit_calls == 1 && g_w_bit_ok == 1 && bin[0] == (2 | g_w_bit) && g_w_wcalls == 1))
__CPROVER_ensures((g_ctx.code == RLC_OK && g_w_infty == 0 && gk < RLC_FP_BYTES) ==> (bin[1 + gk] == g_w_outx && (!pack ==> bin[1 + RLC_FP_BYTES + gk] == g_w_outy)))
__CPROVER_ensures((g_ctx.code == RLC_OK && g_w_infty == 0 && !pack) ==> (g_w_pck_calls == 0 && g_w_bit_calls == 0 && bin[0] == 4 && g_w_wy == 1 && g_w_wcalls == 2))
/* a too-short buffer: error, and no coordinate encoder was run */
__CPROVER_ensures(len < VC_EPW_NEED ==> (g_ctx.code == RLC_ERR && g_w_wcalls == 0))
;
#endif
#include "vc_spec_pop.h"
