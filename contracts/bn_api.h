/* Value-level contracts of the bignum API (property C01).  Postconditions are the property statement:
   exact result over Z in wide bit-vectors, normal form of the result, inputs unchanged (frame), error only when the
   result cannot fit RLC_BN_SIZE digits. */
#pragma once
#include "vc_prelude.h"

/* shapes for (out c, in a, in b) */
#define VC_S3_GEN   0   /* any admissible aliasing (call-site replacement) */
#define VC_S3_NONE  1
#define VC_S3_CA    2
#define VC_S3_CB    3
#define VC_S3_AB    4
#define VC_S3_CAB   5
#define VC_REQ3_B(s, a, b)    ((s) == VC_S3_NONE || (s) == VC_S3_CA || (s) == VC_S3_CB ? VC_BN_FRESH(b) : \
                               (s) == VC_S3_AB || (s) == VC_S3_CAB ? VC_BN_SAME(b, a) : (VC_BN_SAME(b, a) || VC_BN_FRESH(b)))
#define VC_REQ3_C(s, c, a, b) ((s) == VC_S3_NONE || (s) == VC_S3_AB ? VC_BN_FRESH(c) : \
                               (s) == VC_S3_CA || (s) == VC_S3_CAB ? VC_BN_SAME(c, a) : \
                               (s) == VC_S3_CB ? VC_BN_SAME(c, b) : (VC_BN_SAME(c, a) || VC_BN_SAME(c, b) || VC_BN_FRESH(c)))
/* shapes for (out c, in a) */
#define VC_S2_GEN   0
#define VC_S2_NONE  1
#define VC_S2_CA    2
#define VC_REQ2_C(s, c, a)    ((s) == VC_S2_NONE ? VC_BN_FRESH(c) : (s) == VC_S2_CA ? VC_BN_SAME(c, a) : (VC_BN_SAME(c, a) || VC_BN_FRESH(c)))

/* an output-only object: storage of an initialised bn whose current content is irrelevant */
#define VC_BN_OUT(c)  ((c)->alloc == RLC_BN_SIZE)

#include "vc_spec_push.h"

/* ---- memory / normalisation helpers ------------------------------------------------------------------------------ */

/* bn_grow (ALLOC=AUTO): error iff the request exceeds the fixed capacity; never touches the object.
   With an enclosing handler the throw does not return (postcondition unsatisfiable = path ends, DESIGN 3.3). */
void bn_grow(bn_t a, size_t digits)
__CPROVER_requires(digits <= RLC_BN_SIZE || g_may_throw)
VC_ASSIGNS(g_ctx.code, g_ctx.last, g_ctx.error, g_ctx.number, g_thrown)
__CPROVER_ensures(digits <= RLC_BN_SIZE ==> (g_ctx.code == __CPROVER_old(g_ctx.code) && g_ctx.last == __CPROVER_old(g_ctx.last) && g_thrown == __CPROVER_old(g_thrown)))
__CPROVER_ensures(digits > RLC_BN_SIZE ==> (__CPROVER_old(g_ctx.last) == NULL && g_ctx.code == RLC_ERR && g_ctx.last == &g_ctx.error && g_ctx.number == ERR_NO_PRECI))
;

/* bn_trim: normal form, value unchanged.  Admits the transient states the library calls it in: used may be 0. */
void bn_trim(bn_t a)
__CPROVER_requires(VC_BN_FRESH(a))
__CPROVER_requires(a->alloc == RLC_BN_SIZE && a->used <= RLC_BN_SIZE)
VC_ASSIGNS(a->used, a->sign, a->dp[0])
__CPROVER_ensures(a->used >= 1 && a->used <= VC_MAX(__CPROVER_old(a->used), 1) && a->alloc == RLC_BN_SIZE)
__CPROVER_ensures(a->dp[a->used - 1] != 0 || (a->used == 1 && a->sign == RLC_POS))
__CPROVER_ensures(a->sign == __CPROVER_old(a->sign) || (a->used == 1 && a->dp[0] == 0 && a->sign == RLC_POS))
__CPROVER_ensures(vc_mag(a) == VC_MAG_OLD(a))
;

#ifndef VC_SHAPE_bn_copy
#define VC_SHAPE_bn_copy VC_S2_GEN
#endif
void bn_copy(bn_t c, const bn_t a)
__CPROVER_requires(VC_BN_FRESH(a))
__CPROVER_requires(VC_REQ2_C(VC_SHAPE_bn_copy, c, a))
__CPROVER_requires(a->alloc == RLC_BN_SIZE && a->used <= RLC_BN_SIZE && VC_BN_OUT(c))
VC_ASSIGNS(__CPROVER_object_whole(c), g_ctx.code, g_ctx.last, g_ctx.error, g_ctx.number, g_thrown)
__CPROVER_ensures(g_ctx.code == __CPROVER_old(g_ctx.code) && g_ctx.last == __CPROVER_old(g_ctx.last) && g_thrown == __CPROVER_old(g_thrown))
__CPROVER_ensures(c == a || (vc_mag(c) == vc_mag(a) && c->used >= 1 && c->used <= VC_MAX(a->used, 1) && c->alloc == RLC_BN_SIZE && \
	(c->dp[c->used - 1] != 0 || (c->used == 1 && c->sign == RLC_POS)) && (c->sign == a->sign || (c->used == 1 && c->dp[0] == 0))))
__CPROVER_ensures(c == a ==> (c->used == __CPROVER_old(c->used) && c->sign == __CPROVER_old(c->sign) && c->alloc == RLC_BN_SIZE && vc_mag(c) == VC_MAG_OLD(c)))
;

int bn_cmp_abs(const bn_t a, const bn_t b)
__CPROVER_requires(VC_BN_FRESH(a))
__CPROVER_requires(VC_BN_SAME(b, a) || VC_BN_FRESH(b))
__CPROVER_requires(VC_BN_NFMAG(a) && VC_BN_NFMAG(b))
VC_ASSIGNS_NONE
__CPROVER_ensures(__CPROVER_return_value == (vc_mag(a) < vc_mag(b) ? RLC_LT : vc_mag(a) > vc_mag(b) ? RLC_GT : RLC_EQ))
;

/* ---- magnitude add / subtract (static helpers of relic_bn_add.c) --------------------------------------------------- */
#ifdef VC_WITH_BN_ADD_STATICS
#ifndef VC_SHAPE_bn_add_imp
#define VC_SHAPE_bn_add_imp VC_S3_GEN
#endif
/* |c| = |a| + |b| for used(a) >= used(b); sign of c untouched unless the result is zero */
static void bn_add_imp(bn_t c, const bn_t a, const bn_t b)
__CPROVER_requires(VC_BN_FRESH(a))
__CPROVER_requires(VC_REQ3_B(VC_SHAPE_bn_add_imp, a, b))
__CPROVER_requires(VC_REQ3_C(VC_SHAPE_bn_add_imp, c, a, b))
__CPROVER_requires(VC_BN_NFMAG(a) && VC_BN_NFMAG(b) && VC_BN_OUT(c) && a->used >= b->used)
__CPROVER_requires(a->used + 1 <= RLC_BN_SIZE || g_may_throw)
VC_ASSIGNS(c->used, c->sign, __CPROVER_object_upto(c->dp, sizeof(c->dp)), g_ctx.code, g_ctx.last, g_ctx.caught, g_ctx.error, g_ctx.number, g_thrown)
__CPROVER_ensures(g_ctx.code == __CPROVER_old(g_ctx.code) && g_ctx.last == __CPROVER_old(g_ctx.last))
__CPROVER_ensures(c->used >= 1 && c->used <= RLC_BN_SIZE && c->alloc == RLC_BN_SIZE && (c->dp[c->used - 1] != 0 || (c->used == 1 && c->sign == RLC_POS)))
__CPROVER_ensures(vc_mag(c) == VC_MAG_OLD(a) + VC_MAG_OLD(b))
__CPROVER_ensures(c->sign == __CPROVER_old(c->sign) || (c->used == 1 && c->dp[0] == 0 && c->sign == RLC_POS))
;
#ifndef VC_SHAPE_bn_sub_imp
#define VC_SHAPE_bn_sub_imp VC_S3_GEN
#endif
/* |c| = |a| - |b| for |a| >= |b| */
static void bn_sub_imp(bn_t c, const bn_t a, const bn_t b)
__CPROVER_requires(VC_BN_FRESH(a))
__CPROVER_requires(VC_REQ3_B(VC_SHAPE_bn_sub_imp, a, b))
__CPROVER_requires(VC_REQ3_C(VC_SHAPE_bn_sub_imp, c, a, b))
__CPROVER_requires(VC_BN_NFMAG(a) && VC_BN_NFMAG(b) && VC_BN_OUT(c) && vc_mag(a) >= vc_mag(b))
VC_ASSIGNS(c->used, c->sign, __CPROVER_object_upto(c->dp, sizeof(c->dp)), g_ctx.code, g_ctx.last, g_ctx.caught, g_ctx.error, g_ctx.number, g_thrown)
__CPROVER_ensures(g_ctx.code == __CPROVER_old(g_ctx.code) && g_ctx.last == __CPROVER_old(g_ctx.last))
__CPROVER_ensures(c->used >= 1 && c->used <= RLC_BN_SIZE && c->alloc == RLC_BN_SIZE && (c->dp[c->used - 1] != 0 || (c->used == 1 && c->sign == RLC_POS)))
__CPROVER_ensures(vc_mag(c) + VC_MAG_OLD(b) == VC_MAG_OLD(a))
__CPROVER_ensures(c->sign == __CPROVER_old(c->sign) || (c->used == 1 && c->dp[0] == 0 && c->sign == RLC_POS))
;
#endif

#ifndef VC_SHAPE_bn_add
#define VC_SHAPE_bn_add VC_S3_GEN
#endif
void bn_add(bn_t c, const bn_t a, const bn_t b)
__CPROVER_requires(VC_BN_FRESH(a))
__CPROVER_requires(VC_REQ3_B(VC_SHAPE_bn_add, a, b))
__CPROVER_requires(VC_REQ3_C(VC_SHAPE_bn_add, c, a, b))
__CPROVER_requires(VC_BN_NF(a) && VC_BN_NF(b) && VC_BN_OUT(c))
__CPROVER_requires(VC_MAX(a->used, b->used) + 1 <= RLC_BN_SIZE || g_may_throw)
VC_ASSIGNS(__CPROVER_object_whole(c), g_ctx.code, g_ctx.last, g_ctx.caught, g_ctx.error, g_ctx.number, g_thrown)
__CPROVER_ensures(g_ctx.code == __CPROVER_old(g_ctx.code) && g_ctx.last == __CPROVER_old(g_ctx.last))
__CPROVER_ensures(VC_BN_NF(c) && vc_sval(c) == VC_SVAL_OLD(a) + VC_SVAL_OLD(b))
;

#ifndef VC_SHAPE_bn_sub
#define VC_SHAPE_bn_sub VC_S3_GEN
#endif
void bn_sub(bn_t c, const bn_t a, const bn_t b)
__CPROVER_requires(VC_BN_FRESH(a))
__CPROVER_requires(VC_REQ3_B(VC_SHAPE_bn_sub, a, b))
__CPROVER_requires(VC_REQ3_C(VC_SHAPE_bn_sub, c, a, b))
__CPROVER_requires(VC_BN_NF(a) && VC_BN_NF(b) && VC_BN_OUT(c))
__CPROVER_requires(VC_MAX(a->used, b->used) + 1 <= RLC_BN_SIZE || g_may_throw)
VC_ASSIGNS(__CPROVER_object_whole(c), g_ctx.code, g_ctx.last, g_ctx.caught, g_ctx.error, g_ctx.number, g_thrown)
__CPROVER_ensures(g_ctx.code == __CPROVER_old(g_ctx.code) && g_ctx.last == __CPROVER_old(g_ctx.last))
__CPROVER_ensures(VC_BN_NF(c) && vc_sval(c) == VC_SVAL_OLD(a) - VC_SVAL_OLD(b))
;

/* ---- single-digit add / subtract ------------------------------------------------------------------------------------ */
#ifndef VC_SHAPE_bn_add_dig
#define VC_SHAPE_bn_add_dig VC_S2_GEN
#endif
void bn_add_dig(bn_t c, const bn_t a, dig_t b)
__CPROVER_requires(VC_BN_FRESH(a))
__CPROVER_requires(VC_REQ2_C(VC_SHAPE_bn_add_dig, c, a))
__CPROVER_requires(VC_BN_NF(a) && VC_BN_OUT(c))
__CPROVER_requires(a->used + 1 <= RLC_BN_SIZE || g_may_throw)
VC_ASSIGNS(__CPROVER_object_whole(c), g_ctx.code, g_ctx.last, g_ctx.caught, g_ctx.error, g_ctx.number, g_thrown)
__CPROVER_ensures(g_ctx.code == __CPROVER_old(g_ctx.code) && g_ctx.last == __CPROVER_old(g_ctx.last))
__CPROVER_ensures(VC_BN_NF(c) && vc_sval(c) == VC_SVAL_OLD(a) + (vc_swide)b)
;
#ifndef VC_SHAPE_bn_sub_dig
#define VC_SHAPE_bn_sub_dig VC_S2_GEN
#endif
void bn_sub_dig(bn_t c, const bn_t a, dig_t b)
__CPROVER_requires(VC_BN_FRESH(a))
__CPROVER_requires(VC_REQ2_C(VC_SHAPE_bn_sub_dig, c, a))
__CPROVER_requires(VC_BN_NF(a) && VC_BN_OUT(c))
__CPROVER_requires(a->used + 1 <= RLC_BN_SIZE || g_may_throw)
VC_ASSIGNS(__CPROVER_object_whole(c), g_ctx.code, g_ctx.last, g_ctx.caught, g_ctx.error, g_ctx.number, g_thrown)
__CPROVER_ensures(g_ctx.code == __CPROVER_old(g_ctx.code) && g_ctx.last == __CPROVER_old(g_ctx.last))
__CPROVER_ensures(VC_BN_NF(c) && vc_sval(c) == VC_SVAL_OLD(a) - (vc_swide)b)
;

/* ---- predicates, comparison, bit access ------------------------------------------------------------------------------ */
int bn_is_zero(const bn_t a)
__CPROVER_requires(VC_BN_FRESH(a) && a->used <= RLC_BN_SIZE)
VC_ASSIGNS_NONE
__CPROVER_ensures(__CPROVER_return_value == (a->used == 0 || (a->used == 1 && a->dp[0] == 0)))
__CPROVER_ensures(VC_BN_NF(a) ==> (__CPROVER_return_value == (vc_mag(a) == 0)))
;
int bn_is_even(const bn_t a)
__CPROVER_requires(VC_BN_FRESH(a) && VC_BN_NF(a))
VC_ASSIGNS_NONE
__CPROVER_ensures(__CPROVER_return_value == ((vc_mag(a) & 1) == 0))
;
int bn_sign(const bn_t a)
__CPROVER_requires(VC_BN_FRESH(a))
VC_ASSIGNS_NONE
__CPROVER_ensures(__CPROVER_return_value == a->sign)
;
size_t bn_bits(const bn_t a)
__CPROVER_requires(VC_BN_FRESH(a) && VC_BN_NF(a))
VC_ASSIGNS_NONE
__CPROVER_ensures(__CPROVER_return_value <= RLC_BN_SIZE * RLC_DIG)
__CPROVER_ensures((vc_mag(a) >> __CPROVER_return_value) == 0)
__CPROVER_ensures(__CPROVER_return_value == 0 || ((vc_mag(a) >> (__CPROVER_return_value - 1)) == 1))
;
int bn_get_bit(const bn_t a, uint_t bit)
__CPROVER_requires(VC_BN_FRESH(a) && VC_BN_NF(a))
VC_ASSIGNS_NONE
__CPROVER_ensures(bit < RLC_DIG * VC_W ==> __CPROVER_return_value == (int)((vc_mag(a) >> bit) & 1))
__CPROVER_ensures(bit >= RLC_DIG * VC_W ==> __CPROVER_return_value == 0)
;
int bn_cmp_dig(const bn_t a, dig_t b)
__CPROVER_requires(VC_BN_FRESH(a) && VC_BN_NF(a))
VC_ASSIGNS_NONE
__CPROVER_ensures(__CPROVER_return_value == (vc_sval(a) < (vc_swide)b ? RLC_LT : vc_sval(a) > (vc_swide)b ? RLC_GT : RLC_EQ))
;
int bn_cmp(const bn_t a, const bn_t b)
__CPROVER_requires(VC_BN_FRESH(a))
__CPROVER_requires(VC_BN_SAME(b, a) || VC_BN_FRESH(b))
__CPROVER_requires(VC_BN_NF(a) && VC_BN_NF(b))
VC_ASSIGNS_NONE
__CPROVER_ensures(__CPROVER_return_value == (vc_sval(a) < vc_sval(b) ? RLC_LT : vc_sval(a) > vc_sval(b) ? RLC_GT : RLC_EQ))
;

/* ---- copies and sign changes ------------------------------------------------------------------------------------------ */
#ifndef VC_SHAPE_bn_abs
#define VC_SHAPE_bn_abs VC_S2_GEN
#endif
void bn_abs(bn_t c, const bn_t a)
__CPROVER_requires(VC_BN_FRESH(a))
__CPROVER_requires(VC_REQ2_C(VC_SHAPE_bn_abs, c, a))
__CPROVER_requires(VC_BN_NF(a) && VC_BN_OUT(c))
VC_ASSIGNS(__CPROVER_object_whole(c), g_ctx.code, g_ctx.last, g_ctx.error, g_ctx.number, g_thrown)
__CPROVER_ensures(g_ctx.code == __CPROVER_old(g_ctx.code) && g_ctx.last == __CPROVER_old(g_ctx.last))
__CPROVER_ensures(VC_BN_NF(c) && c->sign == RLC_POS && vc_mag(c) == VC_MAG_OLD(a))
;
#ifndef VC_SHAPE_bn_neg
#define VC_SHAPE_bn_neg VC_S2_GEN
#endif
void bn_neg(bn_t c, const bn_t a)
__CPROVER_requires(VC_BN_FRESH(a))
__CPROVER_requires(VC_REQ2_C(VC_SHAPE_bn_neg, c, a))
__CPROVER_requires(VC_BN_NF(a) && VC_BN_OUT(c))
VC_ASSIGNS(__CPROVER_object_whole(c), g_ctx.code, g_ctx.last, g_ctx.error, g_ctx.number, g_thrown)
__CPROVER_ensures(g_ctx.code == __CPROVER_old(g_ctx.code) && g_ctx.last == __CPROVER_old(g_ctx.last))
__CPROVER_ensures(VC_BN_NF(c) && vc_sval(c) == -VC_SVAL_OLD(a))
;
void bn_zero(bn_t a)
__CPROVER_requires(VC_BN_FRESH(a) && VC_BN_OUT(a))
VC_ASSIGNS(__CPROVER_object_whole(a))
__CPROVER_ensures(VC_BN_NF(a) && a->used == 1 && a->dp[0] == 0 && vc_val(a->dp, RLC_BN_SIZE) == 0)
;
void bn_set_dig(bn_t a, dig_t digit)
__CPROVER_requires(VC_BN_FRESH(a) && VC_BN_OUT(a))
VC_ASSIGNS(__CPROVER_object_whole(a))
__CPROVER_ensures(VC_BN_NF(a) && vc_sval(a) == (vc_swide)digit)
;
void bn_set_2b(bn_t a, size_t b)
__CPROVER_requires(VC_BN_FRESH(a) && VC_BN_OUT(a))
__CPROVER_requires(b < RLC_BN_SIZE * RLC_DIG || g_may_throw)
VC_ASSIGNS(__CPROVER_object_whole(a), g_ctx.code, g_ctx.last, g_ctx.error, g_ctx.number, g_thrown)
__CPROVER_ensures(b < RLC_BN_SIZE * RLC_DIG ==> (VC_BN_NF(a) && vc_sval(a) == (((vc_swide)1) << b) && g_ctx.code == __CPROVER_old(g_ctx.code)))
__CPROVER_ensures(b >= RLC_BN_SIZE * RLC_DIG ==> g_ctx.code == RLC_ERR)
;

/* set or clear one bit of the magnitude; a position beyond the precision is a precision error */
void bn_set_bit(bn_t a, uint_t bit, int value)
__CPROVER_requires(VC_BN_FRESH(a) && VC_BN_NF(a) && (value == 0 || value == 1) && bit <= 2 * RLC_BN_SIZE * RLC_DIG)
__CPROVER_requires(bit < RLC_BN_SIZE * RLC_DIG || g_may_throw)
VC_ASSIGNS(__CPROVER_object_whole(a), g_ctx.code, g_ctx.last, g_ctx.caught, g_ctx.error, g_ctx.number, g_thrown)
__CPROVER_ensures(bit < RLC_BN_SIZE * RLC_DIG ==> (g_ctx.code == __CPROVER_old(g_ctx.code) && VC_BN_NF(a) && \
	vc_mag(a) == (value ? (VC_MAG_OLD(a) | (((vc_wide)1) << bit)) : (VC_MAG_OLD(a) & ~(((vc_wide)1) << bit))) && \
	(a->sign == __CPROVER_old(a->sign) || vc_mag(a) == 0)))
__CPROVER_ensures(bit >= RLC_BN_SIZE * RLC_DIG ==> (g_ctx.code == RLC_ERR || value == 0))
;

/* ---- shifts ----------------------------------------------------------------------------------------------------------- */
#ifndef VC_SHAPE_bn_dbl
#define VC_SHAPE_bn_dbl VC_S2_GEN
#endif
void bn_dbl(bn_t c, const bn_t a)
__CPROVER_requires(VC_BN_FRESH(a))
__CPROVER_requires(VC_REQ2_C(VC_SHAPE_bn_dbl, c, a))
__CPROVER_requires(VC_BN_NF(a) && VC_BN_OUT(c))
__CPROVER_requires(a->used + 1 <= RLC_BN_SIZE || g_may_throw)
VC_ASSIGNS(__CPROVER_object_whole(c), g_ctx.code, g_ctx.last, g_ctx.caught, g_ctx.error, g_ctx.number, g_thrown)
__CPROVER_ensures(g_ctx.code == __CPROVER_old(g_ctx.code) && g_ctx.last == __CPROVER_old(g_ctx.last))
__CPROVER_ensures(VC_BN_NF(c) && vc_sval(c) == VC_SVAL_OLD(a) + VC_SVAL_OLD(a))
;
#ifndef VC_SHAPE_bn_hlv
#define VC_SHAPE_bn_hlv VC_S2_GEN
#endif
/* halving truncates the magnitude (rounds towards zero) */
void bn_hlv(bn_t c, const bn_t a)
__CPROVER_requires(VC_BN_FRESH(a))
__CPROVER_requires(VC_REQ2_C(VC_SHAPE_bn_hlv, c, a))
__CPROVER_requires(VC_BN_NF(a) && VC_BN_OUT(c))
VC_ASSIGNS(__CPROVER_object_whole(c), g_ctx.code, g_ctx.last, g_ctx.error, g_ctx.number, g_thrown)
__CPROVER_ensures(g_ctx.code == __CPROVER_old(g_ctx.code) && g_ctx.last == __CPROVER_old(g_ctx.last))
__CPROVER_ensures(VC_BN_NF(c) && vc_mag(c) == (VC_MAG_OLD(a) >> 1) && (c->sign == __CPROVER_old(a->sign) || vc_mag(c) == 0))
;
#ifndef VC_SHAPE_bn_lsh
#define VC_SHAPE_bn_lsh VC_S2_GEN
#endif
void bn_lsh(bn_t c, const bn_t a, uint_t bits)
__CPROVER_requires(VC_BN_FRESH(a))
__CPROVER_requires(VC_REQ2_C(VC_SHAPE_bn_lsh, c, a))
__CPROVER_requires(VC_BN_NF(a) && VC_BN_OUT(c) && bits <= 4 * RLC_BN_SIZE * RLC_DIG)
__CPROVER_requires(a->used + bits / RLC_DIG + (bits % RLC_DIG > 0) <= RLC_BN_SIZE || g_may_throw)
VC_ASSIGNS(__CPROVER_object_whole(c), g_ctx.code, g_ctx.last, g_ctx.caught, g_ctx.error, g_ctx.number, g_thrown)
__CPROVER_ensures(g_ctx.code == __CPROVER_old(g_ctx.code) && g_ctx.last == __CPROVER_old(g_ctx.last))
__CPROVER_ensures(VC_BN_NF(c) && vc_mag(c) == (VC_MAG_OLD(a) << bits) && (c->sign == __CPROVER_old(a->sign) || vc_mag(c) == 0))
;
#ifndef VC_SHAPE_bn_rsh
#define VC_SHAPE_bn_rsh VC_S2_GEN
#endif
void bn_rsh(bn_t c, const bn_t a, uint_t bits)
__CPROVER_requires(VC_BN_FRESH(a))
__CPROVER_requires(VC_REQ2_C(VC_SHAPE_bn_rsh, c, a))
__CPROVER_requires(VC_BN_NF(a) && VC_BN_OUT(c) && bits <= 4 * RLC_BN_SIZE * RLC_DIG)
VC_ASSIGNS(__CPROVER_object_whole(c), g_ctx.code, g_ctx.last, g_ctx.caught, g_ctx.error, g_ctx.number, g_thrown)
__CPROVER_ensures(g_ctx.code == __CPROVER_old(g_ctx.code) && g_ctx.last == __CPROVER_old(g_ctx.last))
__CPROVER_ensures(VC_BN_NF(c) && vc_mag(c) == (bits < RLC_DIG * VC_W ? (VC_MAG_OLD(a) >> bits) : (vc_wide)0) && (c->sign == __CPROVER_old(a->sign) || vc_mag(c) == 0))
;

#ifndef VC_SHAPE_bn_mod_2b
#define VC_SHAPE_bn_mod_2b VC_S2_GEN
#endif
/* reduction modulo 2^b (C09): the magnitude keeps its b low bits, the sign is kept unless the result is zero; b <= 0 gives zero */
void bn_mod_2b(bn_t c, const bn_t a, int b)
__CPROVER_requires(VC_BN_FRESH(a))
__CPROVER_requires(VC_REQ2_C(VC_SHAPE_bn_mod_2b, c, a))
__CPROVER_requires(VC_BN_NF(a) && VC_BN_OUT(c) && b >= -4 && b <= 2 * (int)(RLC_BN_SIZE * RLC_DIG))
VC_ASSIGNS(__CPROVER_object_whole(c), g_ctx.code, g_ctx.last, g_ctx.error, g_ctx.number, g_thrown)
__CPROVER_ensures(g_ctx.code == __CPROVER_old(g_ctx.code) && g_ctx.last == __CPROVER_old(g_ctx.last))
__CPROVER_ensures(VC_BN_NF(c) && (c->sign == __CPROVER_old(a->sign) || vc_mag(c) == 0))
__CPROVER_ensures(vc_mag(c) == (b <= 0 ? (vc_wide)0 : b >= (int)(RLC_DIG * VC_W) ? VC_MAG_OLD(a) : (VC_MAG_OLD(a) & ((((vc_wide)1) << b) - 1))))
;

/* number of significant bits of a digit (x64: lzcnt instruction through a context function pointer - trusted there;
   ARCH=none: table implementation, enforced) */
size_t util_bits_dig(dig_t a)
VC_ASSIGNS_NONE
__CPROVER_ensures(__CPROVER_return_value <= RLC_DIG)
__CPROVER_ensures(((vc_dbl)a >> __CPROVER_return_value) == 0)
__CPROVER_ensures(__CPROVER_return_value == 0 || ((vc_dbl)a >> (__CPROVER_return_value - 1)) == 1)
;

#include "vc_spec_pop.h"
