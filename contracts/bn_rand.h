/* bn_rand: at most the requested bit length, requested sign (zero is non-negative), precision error beyond the capacity
   without touching memory outside *a (C15, C08) */
#pragma once
#include "rand.h"
#include "bn_api.h"
#include "vc_spec_push.h"
/* frame-only view of rand_bytes (same requires and assigns as its proven contract in rand.h, postcondition weakened to what
   bn_rand needs: the bytes are arbitrary, the error state is unchanged) */
void rand_bytes_frame(uint8_t *buf, size_t size)
__CPROVER_requires(size <= (1 << 16))
__CPROVER_requires(__CPROVER_is_fresh(buf, size))
__CPROVER_requires(g_ctx.counter >= 1 && g_ctx.counter < INT_MAX - 256)
VC_ASSIGNS(__CPROVER_object_upto(buf, size), __CPROVER_object_upto(g_ctx.rand, sizeof(g_ctx.rand)), g_ctx.counter)
__CPROVER_ensures(g_ctx.counter == __CPROVER_old(g_ctx.counter) + 1)
;
void bn_rand(bn_t a, int sign, size_t bits)
__CPROVER_requires((sign == RLC_POS || sign == RLC_NEG) && bits <= 2 * RLC_BN_SIZE * RLC_DIG)
__CPROVER_requires(VC_BN_FRESH(a) && VC_BN_OUT(a))
__CPROVER_requires(g_ctx.counter >= 1 && g_ctx.counter < INT_MAX - 256)
__CPROVER_requires((bits + RLC_DIG - 1) / RLC_DIG <= RLC_BN_SIZE || g_may_throw)
VC_ASSIGNS(__CPROVER_object_whole(a), __CPROVER_object_whole(g_ctx.rand), g_ctx.counter, g_ctx.code, g_ctx.last, g_ctx.caught, g_ctx.error, g_ctx.number, g_thrown)
__CPROVER_ensures(g_ctx.code == __CPROVER_old(g_ctx.code))
__CPROVER_ensures(VC_BN_NF(a) && (vc_mag(a) >> bits) == 0 && (a->sign == sign || vc_mag(a) == 0))
;
#include "vc_spec_pop.h"

#include "vc_spec_push.h"
/* ASSUMED (division is not verified): reduction returns a normalised value of magnitude below the modulus */
void bn_mod_basic_abs(bn_t c, const bn_t a, const bn_t m)
__CPROVER_requires(VC_BN_FRESH(a))
__CPROVER_requires(VC_BN_FRESH(m))
__CPROVER_requires(VC_BN_SAME(c, a) || VC_BN_FRESH(c))
__CPROVER_requires(VC_BN_NF(a) && VC_BN_NF(m) && vc_mag(m) != 0 && VC_BN_OUT(c))
VC_ASSIGNS(__CPROVER_object_whole(c), g_ctx.code, g_ctx.last, g_ctx.caught, g_ctx.error, g_ctx.number, g_thrown)
__CPROVER_ensures(g_ctx.code == __CPROVER_old(g_ctx.code) && g_ctx.last == __CPROVER_old(g_ctx.last))
__CPROVER_ensures(VC_BN_NF(c) && vc_mag(c) < vc_mag(m))
;
/* sampling below a bound: on return the result is non-zero, of magnitude below |b| (termination is probabilistic and
   not claimed: the loop contract has no decreases clause) */
void bn_rand_mod(bn_t a, const bn_t b)
__CPROVER_requires(VC_BN_FRESH(b))
__CPROVER_requires(VC_BN_FRESH(a))
__CPROVER_requires(VC_BN_NF(b) && vc_mag(b) != 0 && VC_BN_OUT(a) && b->used + 2 <= RLC_BN_SIZE)
__CPROVER_requires(g_ctx.counter >= 1 && g_ctx.counter < 1000)
VC_ASSIGNS(__CPROVER_object_whole(a), __CPROVER_object_upto(g_ctx.rand, sizeof(g_ctx.rand)), g_ctx.counter, g_ctx.code, g_ctx.last, g_ctx.caught, g_ctx.error, g_ctx.number, g_thrown)
__CPROVER_ensures(g_ctx.code == __CPROVER_old(g_ctx.code))
__CPROVER_ensures(VC_BN_NF(a) && vc_mag(a) != 0 && vc_mag(a) < vc_mag(b))
;
/* frame view of bn_rand for callers (proved contract: bn_rand above) */
void bn_rand_frame(bn_t a, int sign, size_t bits)
__CPROVER_requires((sign == RLC_POS || sign == RLC_NEG) && (bits + RLC_DIG - 1) / RLC_DIG <= RLC_BN_SIZE)
__CPROVER_requires(VC_BN_FRESH(a) && VC_BN_OUT(a))
__CPROVER_requires(g_ctx.counter >= 1 && g_ctx.counter < INT_MAX - 256)
VC_ASSIGNS(__CPROVER_object_whole(a), __CPROVER_object_upto(g_ctx.rand, sizeof(g_ctx.rand)), g_ctx.counter, g_ctx.code, g_ctx.last, g_ctx.caught, g_ctx.error, g_ctx.number, g_thrown)
__CPROVER_ensures(g_ctx.code == __CPROVER_old(g_ctx.code) && g_ctx.last == __CPROVER_old(g_ctx.last) && g_ctx.counter == __CPROVER_old(g_ctx.counter) + 1)
__CPROVER_ensures(VC_BN_NF(a) && (vc_mag(a) >> bits) == 0)
;
#include "vc_spec_pop.h"
#define VC_LOOP_bn_rand_mod_0 \
	__CPROVER_assigns(__CPROVER_object_whole(a), __CPROVER_object_upto(g_ctx.rand, sizeof(g_ctx.rand)), g_ctx.counter, g_ctx.code, g_ctx.last, g_ctx.caught, g_ctx.error, g_ctx.number, g_thrown) \
	__CPROVER_loop_invariant(VC_BN_OUT(a) && VC_BN_NF(t) && VC_VAL(t->dp, t->used) == VC_VAL(b->dp, b->used) && t->used == b->used && g_ctx.counter >= 1 && g_ctx.last == &_this && g_ctx.code == vc_code0)
#define VC_PRE_bn_rand_mod_0  int vc_code0 = g_ctx.code;
/* ASSUMPTION: fewer than 2^31 - 600 generate calls since the last (re)seed (the int reseed counter does not overflow) */
#define VC_TOP_bn_rand_mod_0  __CPROVER_assume(g_ctx.counter < INT_MAX - 600);
