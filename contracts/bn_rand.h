/* bn_rand: at most the requested bit length, requested sign (zero is non-negative), precision error beyond the capacity
   without touching memory outside *a (C15, C08) */
#pragma once
#include "rand.h"
#include "bn_api.h"
#include "vc_spec_push.h"
/* frame-only view of rand_bytes (same requires and assigns as its proven contract in rand.h, postcondition weakened to what
   bn_rand needs: the bytes are arbitrary, the error state is unchanged) */
void rand_bytes_frame(uint8_t *buf, size_t size)
__CPROVER_requires(size <= (1 << 16))
__CPROVER_requires(__CPROVER_is_fresh(buf, size))
__CPROVER_requires(g_ctx.counter >= 1 && g_ctx.counter < INT_MAX - 256)
VC_ASSIGNS(__CPROVER_object_upto(buf, size), __CPROVER_object_upto(g_ctx.rand, sizeof(g_ctx.rand)), g_ctx.counter)
__CPROVER_ensures(g_ctx.counter == __CPROVER_old(g_ctx.counter) + 1)
;
void bn_rand(bn_t a, int sign, size_t bits)
__CPROVER_requires((sign == RLC_POS || sign == RLC_NEG) && bits <= 2 * RLC_BN_SIZE * RLC_DIG)
__CPROVER_requires(VC_BN_FRESH(a) && VC_BN_OUT(a))
__CPROVER_requires(g_ctx.counter >= 1 && g_ctx.counter < INT_MAX - 256)
__CPROVER_requires((bits + RLC_DIG - 1) / RLC_DIG <= RLC_BN_SIZE || g_may_throw)
VC_ASSIGNS(__CPROVER_object_whole(a), __CPROVER_object_whole(g_ctx.rand), g_ctx.counter, g_ctx.code, g_ctx.last, g_ctx.caught, g_ctx.error, g_ctx.number, g_thrown)
__CPROVER_ensures(g_ctx.code == __CPROVER_old(g_ctx.code))
__CPROVER_ensures(VC_BN_NF(a) && (vc_mag(a) >> bits) == 0 && (a->sign == sign || vc_mag(a) == 0))
;
#include "vc_spec_pop.h"
