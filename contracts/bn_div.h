/* Division of the bignum API (property C01; bn_mod_basic: C09): floor division with remainder.

   The digit-level division kernels (Knuth D bn_divn_low, the single-digit bn_div1_low) are NOT verified - no installed back
   end decides multiplication/division facts (DESIGN P7, P21).  They are replaced by ASSUMED contracts that return an abstract
   quotient/remainder pair (Q, R) with R < |b| and record the operands they were asked about.  What is proved on the real
   bn_div / bn_div_rem / bn_div_dig / bn_div_rem_dig / bn_mod_basic is everything around the kernel, for every operand value,
   sign combination and alias shape: the |a| < |b| short cut, the operands and lengths handed to the kernel, the FLOOR
   fix-up of quotient and remainder for operands of different sign, normal form of both results, division by zero reported,
   inputs unchanged.  The postcondition is the property statement "floor-divide with remainder" written over (Q, R):
        a = Q |b| + R (assumed)   ==>   floor(a/b) and a - floor(a/b) b   as computed by vc_fdiv_q / vc_fdiv_r below.  */
#pragma once
#include "bn_low.h"
#include "bn_api.h"

extern vc_wide g_dq, g_dr, g_da, g_db;     /* abstract quotient / remainder, and the magnitudes the kernel was called on */
extern int g_div_calls;
extern dig_t g_d1r, g_d1b;                 /* single-digit kernel: remainder returned, divisor passed */

#include "vc_spec_push.h"
/* floor quotient and remainder of A / B from the magnitudes' quotient Q and remainder R (|A| = Q |B| + R, 0 <= R < |B|) */
static inline vc_swide vc_fdiv_q(vc_swide A, vc_swide B, vc_wide Q, vc_wide R) {
	int same = (A < 0) == (B < 0) || A == 0;
	if (same) return (vc_swide)Q;
	return R == 0 ? -(vc_swide)Q : -(vc_swide)Q - 1;
}
static inline vc_swide vc_fdiv_r(vc_swide A, vc_swide B, vc_wide Q, vc_wide R) {
	int same = (A < 0) == (B < 0) || A == 0;
	vc_swide mb = B < 0 ? -B : B;
	vc_swide r = (same || R == 0) ? (vc_swide)R : mb - (vc_swide)R;
	return B < 0 ? -r : r;
}
#define VC_SABS(x) ((x) < 0 ? (vc_wide)(-(x)) : (vc_wide)(x))

/* ASSUMED: Knuth algorithm D.  Frame and preconditions are those of the real function as called on AUTO-allocated integers
   (each vector has RLC_BN_SIZE digits of room; the quotient vector must be zeroed: the code increments c[n-t]). */
void bn_divn_low_abs(dig_t *c, dig_t *d, dig_t *a, size_t sa, dig_t *b, size_t sb)
__CPROVER_requires(sb >= 1 && sa >= sb && sa + 1 <= RLC_BN_SIZE)
__CPROVER_requires(VC_DIGS_FRESH(c, RLC_BN_SIZE) && VC_DIGS_FRESH(d, RLC_BN_SIZE) && VC_DIGS_FRESH(a, RLC_BN_SIZE) && VC_DIGS_FRESH(b, RLC_BN_SIZE))
__CPROVER_requires(b[sb - 1] != 0 && vc_val(c, RLC_BN_SIZE) == 0)
VC_ASSIGNS(__CPROVER_object_upto(c, RLC_BN_SIZE * sizeof(dig_t)), __CPROVER_object_upto(d, RLC_BN_SIZE * sizeof(dig_t)), \
	__CPROVER_object_upto(a, RLC_BN_SIZE * sizeof(dig_t)), __CPROVER_object_upto(b, RLC_BN_SIZE * sizeof(dig_t)), g_dq, g_dr, g_da, g_db, g_div_calls)
__CPROVER_ensures(g_div_calls == __CPROVER_old(g_div_calls) + 1 && g_da == VC_VAL_OLD(a, sa) && g_db == VC_VAL_OLD(b, sb))
__CPROVER_ensures(g_dq == vc_val(c, sa - sb + 1) && g_dr == vc_val(d, sb) && g_dr < g_db && g_dq <= g_da)
;
/* ASSUMED: division of a digit vector by one digit; c may be a */
void bn_div1_low_abs(dig_t *c, dig_t *d, const dig_t *a, dig_t b, size_t size)
__CPROVER_requires(size >= 1 && size <= RLC_BN_SIZE && b != 0)
__CPROVER_requires(VC_DIGS_FRESH(a, size) && VC_DIGS_FRESH(c, RLC_BN_SIZE) && __CPROVER_is_fresh(d, sizeof(dig_t)))
/* the frame is the whole digit array of the quotient (constant size): with the symbolic slice `size * sizeof(dig_t)` cbmc 6.11 did NOT havoc the
   quotient in this replaced contract - the quotient silently stayed the dividend and every path with another quotient was cut (found by seeded
   change C01-16; probes in DESIGN P37).  A wider assumed frame is a weaker assumption about the kernel. */
VC_ASSIGNS(__CPROVER_object_upto(c, RLC_BN_SIZE * sizeof(dig_t)), *d, g_dq, g_da, g_d1r, g_d1b, g_div_calls)
__CPROVER_ensures(g_div_calls == __CPROVER_old(g_div_calls) + 1 && g_da == VC_VAL_OLD(a, size) && g_d1b == b)
__CPROVER_ensures(g_dq == vc_val(c, size) && *d == g_d1r && g_d1r < b && g_dq <= g_da)
;

/* ---- bn_div_rem(c, d, a, b): c = floor(a / b), d = a - c b; c may be NULL; either output may be one of the inputs ------- */
#define VC_DS_GEN    0
#define VC_DS_NONE   1   /* c, d fresh */
#define VC_DS_CA     2   /* c == a */
#define VC_DS_CB     3
#define VC_DS_DA     4   /* d == a */
#define VC_DS_DB     5
#define VC_DS_CA_DB  6
#define VC_DS_CB_DA  7
#define VC_DS_CN     8   /* c == NULL, d fresh */
#define VC_DS_CN_DA  9   /* c == NULL, d == a  (bn_mod in place) */
#define VC_DS_CN_DB  10
#ifndef VC_SHAPE_bn_div_rem
#define VC_SHAPE_bn_div_rem VC_DS_GEN
#endif
#define VC_DS VC_SHAPE_bn_div_rem
#define VC_DREQ_C(c, a, b) (VC_DS == VC_DS_NONE || VC_DS == VC_DS_DA || VC_DS == VC_DS_DB ? VC_BN_FRESH(c) : \
	VC_DS == VC_DS_CA || VC_DS == VC_DS_CA_DB ? VC_BN_SAME(c, a) : VC_DS == VC_DS_CB || VC_DS == VC_DS_CB_DA ? VC_BN_SAME(c, b) : \
	VC_DS == VC_DS_GEN ? (c == NULL || VC_BN_SAME(c, a) || VC_BN_SAME(c, b) || VC_BN_FRESH(c)) : c == NULL)
#define VC_DREQ_D(d, a, b) (VC_DS == VC_DS_NONE || VC_DS == VC_DS_CA || VC_DS == VC_DS_CB || VC_DS == VC_DS_CN ? VC_BN_FRESH(d) : \
	VC_DS == VC_DS_DA || VC_DS == VC_DS_CB_DA || VC_DS == VC_DS_CN_DA ? VC_BN_SAME(d, a) : \
	VC_DS == VC_DS_GEN ? (VC_BN_SAME(d, a) || VC_BN_SAME(d, b) || VC_BN_FRESH(d)) : VC_BN_SAME(d, b))
/* post-state of one call: Q, R are the kernel's answer when it was consulted (|a| >= |b|), else Q = 0, R = |a| */
#define VC_DIV_Q_OLD(a, b)  (VC_MAG_OLD(a) < VC_MAG_OLD(b) ? (vc_wide)0 : g_dq)
#define VC_DIV_R_OLD(a, b)  (VC_MAG_OLD(a) < VC_MAG_OLD(b) ? VC_MAG_OLD(a) : g_dr)
#define VC_DIV_ASKED_OLD(a, b) (VC_MAG_OLD(a) < VC_MAG_OLD(b) ? g_div_calls == __CPROVER_old(g_div_calls) : \
	(g_div_calls == __CPROVER_old(g_div_calls) + 1 && g_da == VC_MAG_OLD(a) && g_db == VC_MAG_OLD(b) && g_dr < g_db && g_dq <= g_da))

void bn_div_rem(bn_t c, bn_t d, const bn_t a, const bn_t b)
__CPROVER_requires(VC_BN_FRESH(a) && VC_BN_FRESH(b))
__CPROVER_requires(VC_DREQ_C(c, a, b))
__CPROVER_requires(VC_DREQ_D(d, a, b))
__CPROVER_requires(VC_BN_NF(a) && VC_BN_NF(b) && (c == NULL || VC_BN_OUT(c)) && VC_BN_OUT(d) && c != d)
__CPROVER_requires((vc_mag(b) != 0 && a->used + 1 <= RLC_BN_SIZE && b->used + 1 <= RLC_BN_SIZE) || g_may_throw)
VC_ASSIGNS(c != NULL: __CPROVER_object_whole(c); __CPROVER_object_whole(d), g_dq, g_dr, g_da, g_db, g_div_calls, g_ctx.code, g_ctx.last, g_ctx.caught, g_ctx.error, g_ctx.number, g_thrown)
/* division by zero is reported (and, without an enclosing handler, nothing is computed) */
__CPROVER_ensures(VC_MAG_OLD(b) == 0 ==> (g_ctx.code == RLC_ERR && g_div_calls == __CPROVER_old(g_div_calls)))
__CPROVER_ensures(VC_MAG_OLD(b) != 0 ==> (g_ctx.code == __CPROVER_old(g_ctx.code) && g_ctx.last == __CPROVER_old(g_ctx.last) && VC_DIV_ASKED_OLD(a, b)))
__CPROVER_ensures((VC_MAG_OLD(b) != 0 && c != NULL) ==> (VC_BN_NF(c) && vc_sval(c) == vc_fdiv_q(VC_SVAL_OLD(a), VC_SVAL_OLD(b), VC_DIV_Q_OLD(a, b), VC_DIV_R_OLD(a, b))))
__CPROVER_ensures(VC_MAG_OLD(b) != 0 ==> (VC_BN_NF(d) && vc_sval(d) == vc_fdiv_r(VC_SVAL_OLD(a), VC_SVAL_OLD(b), VC_DIV_Q_OLD(a, b), VC_DIV_R_OLD(a, b))))
;

/* view of the same contract for call sites that pass c == NULL (bn_mod_basic): a conditional assigns target guarded by c != NULL makes the
   REPLACED contract unsatisfiable in cbmc 6.11 when c is NULL (canary unreachable), so the c-free frame is spelt out; the enforcing units
   bn_div_rem.cn* prove the general contract for c == NULL, of which this is the instance */
void bn_div_rem_cn(bn_t c, bn_t d, const bn_t a, const bn_t b)
__CPROVER_requires(VC_BN_FRESH(a) && VC_BN_FRESH(b) && c == NULL)
__CPROVER_requires(VC_BN_SAME(d, a) || VC_BN_SAME(d, b) || VC_BN_FRESH(d))
__CPROVER_requires(VC_BN_NF(a) && VC_BN_NF(b) && VC_BN_OUT(d))
__CPROVER_requires((vc_mag(b) != 0 && a->used + 1 <= RLC_BN_SIZE && b->used + 1 <= RLC_BN_SIZE) || g_may_throw)
VC_ASSIGNS(__CPROVER_object_whole(d), g_dq, g_dr, g_da, g_db, g_div_calls, g_ctx.code, g_ctx.last, g_ctx.caught, g_ctx.error, g_ctx.number, g_thrown)
__CPROVER_ensures(VC_MAG_OLD(b) == 0 ==> (g_ctx.code == RLC_ERR && g_div_calls == __CPROVER_old(g_div_calls)))
__CPROVER_ensures(VC_MAG_OLD(b) != 0 ==> (g_ctx.code == __CPROVER_old(g_ctx.code) && g_ctx.last == __CPROVER_old(g_ctx.last) && VC_DIV_ASKED_OLD(a, b)))
__CPROVER_ensures(VC_MAG_OLD(b) != 0 ==> (VC_BN_NF(d) && vc_sval(d) == vc_fdiv_r(VC_SVAL_OLD(a), VC_SVAL_OLD(b), VC_DIV_Q_OLD(a, b), VC_DIV_R_OLD(a, b))))
;

/* ---- bn_div(c, a, b): quotient only --------------------------------------------------------------------------------------- */
#ifndef VC_SHAPE_bn_div
#define VC_SHAPE_bn_div VC_S3_GEN
#endif
void bn_div(bn_t c, const bn_t a, const bn_t b)
__CPROVER_requires(VC_BN_FRESH(a) && VC_BN_FRESH(b))
__CPROVER_requires(VC_SHAPE_bn_div == VC_S3_NONE ? VC_BN_FRESH(c) : VC_SHAPE_bn_div == VC_S3_CA ? VC_BN_SAME(c, a) : VC_SHAPE_bn_div == VC_S3_CB ? VC_BN_SAME(c, b) : \
	(VC_BN_SAME(c, a) || VC_BN_SAME(c, b) || VC_BN_FRESH(c)))
__CPROVER_requires(VC_BN_NF(a) && VC_BN_NF(b) && VC_BN_OUT(c))
__CPROVER_requires((vc_mag(b) != 0 && a->used + 1 <= RLC_BN_SIZE && b->used + 1 <= RLC_BN_SIZE) || g_may_throw)
VC_ASSIGNS(__CPROVER_object_whole(c), g_dq, g_dr, g_da, g_db, g_div_calls, g_ctx.code, g_ctx.last, g_ctx.caught, g_ctx.error, g_ctx.number, g_thrown)
__CPROVER_ensures(VC_MAG_OLD(b) == 0 ==> (g_ctx.code == RLC_ERR && g_div_calls == __CPROVER_old(g_div_calls)))
__CPROVER_ensures(VC_MAG_OLD(b) != 0 ==> (g_ctx.code == __CPROVER_old(g_ctx.code) && g_ctx.last == __CPROVER_old(g_ctx.last) && VC_DIV_ASKED_OLD(a, b)))
__CPROVER_ensures(VC_MAG_OLD(b) != 0 ==> (VC_BN_NF(c) && vc_sval(c) == vc_fdiv_q(VC_SVAL_OLD(a), VC_SVAL_OLD(b), VC_DIV_Q_OLD(a, b), VC_DIV_R_OLD(a, b))))
;

/* ---- single-digit forms: c = floor(a / b), *d = a - c b in [0, b) -------------------------------------------------------- */
#define VC_D1_Q_OLD(a, b)  ((b) == 1 || VC_MAG_OLD(a) == 0 ? VC_MAG_OLD(a) : g_dq)
#define VC_D1_R_OLD(a, b)  ((b) == 1 || VC_MAG_OLD(a) == 0 ? (vc_wide)0 : (vc_wide)g_d1r)
#define VC_D1_ASKED_OLD(a, b) ((b) == 1 || VC_MAG_OLD(a) == 0 ? g_div_calls == __CPROVER_old(g_div_calls) : \
	(g_div_calls == __CPROVER_old(g_div_calls) + 1 && g_da == VC_MAG_OLD(a) && g_d1b == (b) && g_d1r < (b) && g_dq <= g_da))
#ifndef VC_SHAPE_bn_div_rem_dig
#define VC_SHAPE_bn_div_rem_dig VC_S2_GEN
#endif
void bn_div_rem_dig(bn_t c, dig_t *d, const bn_t a, dig_t b)
__CPROVER_requires(VC_BN_FRESH(a) && __CPROVER_is_fresh(d, sizeof(dig_t)))
__CPROVER_requires(VC_SHAPE_bn_div_rem_dig == VC_S2_NONE ? VC_BN_FRESH(c) : VC_SHAPE_bn_div_rem_dig == VC_S2_CA ? VC_BN_SAME(c, a) : (c == NULL || VC_BN_SAME(c, a) || VC_BN_FRESH(c)))
__CPROVER_requires(VC_BN_NF(a) && (c == NULL || VC_BN_OUT(c)))
__CPROVER_requires((b != 0 && a->used + 1 <= RLC_BN_SIZE) || g_may_throw)
VC_ASSIGNS(c != NULL: __CPROVER_object_whole(c); *d, g_dq, g_da, g_d1r, g_d1b, g_div_calls, g_ctx.code, g_ctx.last, g_ctx.caught, g_ctx.error, g_ctx.number, g_thrown)
__CPROVER_ensures(b == 0 ==> (g_ctx.code == RLC_ERR && g_div_calls == __CPROVER_old(g_div_calls)))
__CPROVER_ensures(b != 0 ==> (g_ctx.code == __CPROVER_old(g_ctx.code) && g_ctx.last == __CPROVER_old(g_ctx.last) && VC_D1_ASKED_OLD(a, b)))
__CPROVER_ensures((b != 0 && c != NULL) ==> (VC_BN_NF(c) && vc_sval(c) == vc_fdiv_q(VC_SVAL_OLD(a), (vc_swide)b, VC_D1_Q_OLD(a, b), VC_D1_R_OLD(a, b))))
__CPROVER_ensures(b != 0 ==> ((vc_swide)*d == vc_fdiv_r(VC_SVAL_OLD(a), (vc_swide)b, VC_D1_Q_OLD(a, b), VC_D1_R_OLD(a, b))))
;
#ifndef VC_SHAPE_bn_div_dig
#define VC_SHAPE_bn_div_dig VC_S2_GEN
#endif
void bn_div_dig(bn_t c, const bn_t a, dig_t b)
__CPROVER_requires(VC_BN_FRESH(a))
__CPROVER_requires(VC_REQ2_C(VC_SHAPE_bn_div_dig, c, a))
__CPROVER_requires(VC_BN_NF(a) && VC_BN_OUT(c))
__CPROVER_requires((b != 0 && a->used + 1 <= RLC_BN_SIZE) || g_may_throw)
VC_ASSIGNS(__CPROVER_object_whole(c), g_dq, g_da, g_d1r, g_d1b, g_div_calls, g_ctx.code, g_ctx.last, g_ctx.caught, g_ctx.error, g_ctx.number, g_thrown)
__CPROVER_ensures(b == 0 ==> (g_ctx.code == RLC_ERR && g_div_calls == __CPROVER_old(g_div_calls)))
__CPROVER_ensures(b != 0 ==> (g_ctx.code == __CPROVER_old(g_ctx.code) && g_ctx.last == __CPROVER_old(g_ctx.last) && VC_D1_ASKED_OLD(a, b)))
__CPROVER_ensures(b != 0 ==> (VC_BN_NF(c) && vc_sval(c) == vc_fdiv_q(VC_SVAL_OLD(a), (vc_swide)b, VC_D1_Q_OLD(a, b), VC_D1_R_OLD(a, b))))
;

/* ---- bn_mod_basic(c, a, m) = a mod m by division: remainder of the floor division (C09) ------------------------------------- */
#ifndef VC_SHAPE_bn_mod_basic
#define VC_SHAPE_bn_mod_basic VC_S3_GEN
#endif
void bn_mod_basic(bn_t c, const bn_t a, const bn_t m)
__CPROVER_requires(VC_BN_FRESH(a) && VC_BN_FRESH(m))
__CPROVER_requires(VC_SHAPE_bn_mod_basic == VC_S3_NONE ? VC_BN_FRESH(c) : VC_SHAPE_bn_mod_basic == VC_S3_CA ? VC_BN_SAME(c, a) : VC_SHAPE_bn_mod_basic == VC_S3_CB ? VC_BN_SAME(c, m) : \
	(VC_BN_SAME(c, a) || VC_BN_SAME(c, m) || VC_BN_FRESH(c)))
__CPROVER_requires(VC_BN_NF(a) && VC_BN_NF(m) && VC_BN_OUT(c))
__CPROVER_requires((vc_mag(m) != 0 && a->used + 1 <= RLC_BN_SIZE && m->used + 1 <= RLC_BN_SIZE) || g_may_throw)
VC_ASSIGNS(__CPROVER_object_whole(c), g_dq, g_dr, g_da, g_db, g_div_calls, g_ctx.code, g_ctx.last, g_ctx.caught, g_ctx.error, g_ctx.number, g_thrown)
__CPROVER_ensures(VC_MAG_OLD(m) == 0 ==> g_ctx.code == RLC_ERR)
__CPROVER_ensures(VC_MAG_OLD(m) != 0 ==> (g_ctx.code == __CPROVER_old(g_ctx.code) && g_ctx.last == __CPROVER_old(g_ctx.last) && VC_DIV_ASKED_OLD(a, m)))
__CPROVER_ensures(VC_MAG_OLD(m) != 0 ==> (VC_BN_NF(c) && vc_sval(c) == vc_fdiv_r(VC_SVAL_OLD(a), VC_SVAL_OLD(m), VC_DIV_Q_OLD(a, m), VC_DIV_R_OLD(a, m))))
/* consequence stated for callers: the residue lies in [0, m) for m > 0 (resp. (m, 0] for m < 0) */
__CPROVER_ensures(VC_MAG_OLD(m) != 0 ==> (vc_mag(c) < VC_MAG_OLD(m) && (vc_mag(c) == 0 || c->sign == __CPROVER_old(m->sign))))
;
#include "vc_spec_pop.h"
