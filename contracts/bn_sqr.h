/* Squaring of the integer layer with the DIGIT PRODUCT ABSTRACT (property C01), product-scanning (Comba) form.
   Same abstraction as bn_mul.h: RLC_MUL_DIG -> uninterpreted (mulhi, mullo) with PROD <= (B-1)^2.  The Comba squaring computes each
   cross product PROD(a_j, a_k), j < k, ONCE (first factor = lower index, as the code passes them) and doubles it inside the
   triple-word accumulator; the contract states exactly that sum:
        c[0 .. 2n) = sum_j PROD(a_j, a_j) B^(2j) + sum_{j<k} 2 PROD(a_j, a_k) B^(j+k)
   i.e. doubling, carry chain of the three accumulator words, column placement and lengths are proved; the digit product is assumed.
   The schoolbook squaring bn_sqr_basic / bn_sqra_low multiplies in the double-digit C type directly and is NOT covered. */
#pragma once
#include "bn_mul.h"
#include "vc_spec_push.h"
#ifndef VC_SQR_MAX
#define VC_SQR_MAX RLC_BN_SIZE
#endif
void bn_sqrn_low(dig_t *c, const dig_t *a, size_t size)
__CPROVER_requires(size >= 1 && size <= VC_SQR_MAX / 2)
__CPROVER_requires(VC_MDIGS(a, size) && VC_MDIGS(c, 2 * size))
VC_ASSIGNS(__CPROVER_object_upto(c, 2 * size * sizeof(dig_t)))
__CPROVER_ensures(vc_val(c, 2 * size) == VC_SQRSUM(a, size))
;
#ifndef VC_SHAPE_bn_sqr_comba
#define VC_SHAPE_bn_sqr_comba VC_S2_GEN
#endif
/* c = a^2: magnitude as above, non-negative, normal form, a unchanged unless it is the output */
void bn_sqr_comba(bn_t c, const bn_t a)
__CPROVER_requires(VC_BN_FRESH(a))
__CPROVER_requires(VC_REQ2_C(VC_SHAPE_bn_sqr_comba, c, a))
__CPROVER_requires(VC_BN_NF(a) && VC_BN_OUT(c))
__CPROVER_requires(a->used <= VC_SQR_MAX / 2)       /* bounded: the product-scanning kernel is discharged up to this length only */
VC_ASSIGNS(__CPROVER_object_whole(c), g_ctx.code, g_ctx.last, g_ctx.caught, g_ctx.error, g_ctx.number, g_thrown)
__CPROVER_ensures(g_ctx.code == __CPROVER_old(g_ctx.code) && g_ctx.last == __CPROVER_old(g_ctx.last))
__CPROVER_ensures(VC_BN_NF(c) && c->sign == RLC_POS && vc_mag(c) == VC_SQRSUM_OLD(a))
;
#include "vc_spec_pop.h"
