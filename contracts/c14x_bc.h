/* bc_aes_cbc_enc / bc_aes_cbc_dec (property C14: output length, capacity check, error reporting of the AES-CBC/PKCS#7 entry points).
   makeKey2, cipherInit, padEncrypt and padDecrypt are replaced by ABSTRACT VIEWS that record how they were called (which objects, lengths,
   direction, mode, the 16 IV bytes in the cipher instance at the time of the call) and return a nondeterministic verdict / length kept in
   ghost state.  The views of padEncrypt / padDecrypt REQUIRE the output room that the proved contracts in c14x_aes.h need
   (16 * (n / 16 + 1) resp. n - 1 bytes): the capacity check of the entry points is verified as a caller-side precondition.
   What padEncrypt / padDecrypt return and write is proved in c14x_aes.h (units padEncrypt, padDecrypt). */
#pragma once
#include "vc_prelude.h"
#include "src/bc/rijndael-api-fst.h"
#define VC_BC_MAXIN 100
#define VC_BC_MAXCAP 200
extern unsigned g_mk_calls, g_ci_calls, g_pp_calls;
extern int g_mk_ret, g_mk_dir, g_mk_bits; extern size_t g_mk_inst_o, g_mk_key_o, g_mk_key_f;
extern int g_ci_ret, g_ci_mode, g_ci_ivnull; extern size_t g_ci_inst_o;
extern int g_pp_ret, g_pp_n, g_pp_mode; extern size_t g_pp_ci_o, g_pp_key_o, g_pp_in_o, g_pp_in_f, g_pp_out_o, g_pp_out_f; extern uint8_t g_pp_iv[16];
#define VC_KEYBITS_OK(b) ((b) == 128 || (b) == 192 || (b) == 256)
#define VC_IS(o, f, p)  ((o) == __CPROVER_POINTER_OBJECT(p) && (f) == __CPROVER_POINTER_OFFSET(p))
#define VC_ALL16B(P)  (P(0) && P(1) && P(2) && P(3) && P(4) && P(5) && P(6) && P(7) && P(8) && P(9) && P(10) && P(11) && P(12) && P(13) && P(14) && P(15))
#include "vc_spec_push.h"
int makeKey2_v(keyInstance *key, BYTE direction, int keyLen, char *keyMaterial)
__CPROVER_requires(g_mk_calls == 0 && __CPROVER_is_fresh(key, sizeof(keyInstance)) && __CPROVER_is_fresh(keyMaterial, VC_KEYBITS_OK(keyLen) ? (size_t)keyLen / 8 : 0))
VC_ASSIGNS(__CPROVER_object_whole(key), g_mk_calls, g_mk_ret, g_mk_dir, g_mk_bits, g_mk_inst_o, g_mk_key_o, g_mk_key_f)
__CPROVER_ensures(g_mk_calls == 1 && g_mk_ret == __CPROVER_return_value && g_mk_dir == direction && g_mk_bits == keyLen && g_mk_inst_o == __CPROVER_POINTER_OBJECT(key) && VC_IS(g_mk_key_o, g_mk_key_f, keyMaterial))
__CPROVER_ensures(VC_KEYBITS_OK(keyLen) || __CPROVER_return_value != TRUE)
__CPROVER_ensures(__CPROVER_return_value == TRUE ==> key->direction == direction)
;
int cipherInit_v(cipherInstance *cipher, BYTE mode, char *IV)
__CPROVER_requires(g_ci_calls == 0 && __CPROVER_is_fresh(cipher, sizeof(cipherInstance)))
VC_ASSIGNS(__CPROVER_object_whole(cipher), g_ci_calls, g_ci_ret, g_ci_mode, g_ci_ivnull, g_ci_inst_o)
__CPROVER_ensures(g_ci_calls == 1 && g_ci_ret == __CPROVER_return_value && g_ci_mode == mode && g_ci_ivnull == (IV == NULL) && g_ci_inst_o == __CPROVER_POINTER_OBJECT(cipher))
__CPROVER_ensures(__CPROVER_return_value == TRUE ==> cipher->mode == mode)
;
#define VC_PP_IV(j)  (g_pp_iv[j] == cipher->IV[j])
#define VC_PP_VIEW(name, room) \
int name(cipherInstance *cipher, keyInstance *key, BYTE *input, int inputOctets, BYTE *outBuffer) \
__CPROVER_requires(g_pp_calls == 0 && inputOctets >= 0 && __CPROVER_is_fresh(cipher, sizeof(cipherInstance)) && __CPROVER_is_fresh(key, sizeof(keyInstance))) \
__CPROVER_requires(__CPROVER_is_fresh(input, (size_t)inputOctets) && __CPROVER_is_fresh(outBuffer, inputOctets > 0 ? (room) : 0)) \
__CPROVER_assigns(inputOctets > 0: __CPROVER_object_upto(outBuffer, room)) \
VC_ASSIGNS(__CPROVER_object_upto(cipher->IV, 16), g_pp_calls, g_pp_ret, g_pp_n, g_pp_mode, g_pp_ci_o, g_pp_key_o, g_pp_in_o, g_pp_in_f, g_pp_out_o, g_pp_out_f, __CPROVER_object_whole(g_pp_iv)) \
__CPROVER_ensures(g_pp_calls == 1 && g_pp_ret == __CPROVER_return_value && g_pp_n == inputOctets && g_pp_mode == cipher->mode && g_pp_ci_o == __CPROVER_POINTER_OBJECT(cipher) && g_pp_key_o == __CPROVER_POINTER_OBJECT(key)) \
__CPROVER_ensures(VC_IS(g_pp_in_o, g_pp_in_f, input) && VC_IS(g_pp_out_o, g_pp_out_f, outBuffer) && VC_ALL16B(VC_PP_IV))
#undef VC_PP_IV
#define VC_PP_IV(j)  (g_pp_iv[j] == __CPROVER_old(cipher->IV[j]))
VC_PP_VIEW(padEncrypt_v, 16 * ((size_t)inputOctets / 16 + 1));
VC_PP_VIEW(padDecrypt_v, (size_t)inputOctets - 1);

#define VC_BC_IV(j)   (g_pp_iv[j] == iv[j])
#define VC_BC_COMMON(dir) \
	(g_mk_calls == 1 && g_mk_dir == (dir) && g_mk_bits == (int)(8 * key_len) && VC_IS(g_mk_key_o, g_mk_key_f, key) && \
	 (g_mk_ret != TRUE ? (__CPROVER_return_value == RLC_ERR && g_ci_calls == 0 && g_pp_calls == 0) : \
	  (g_ci_calls == 1 && g_ci_mode == MODE_CBC && g_ci_ivnull == 1 && \
	   (g_ci_ret != TRUE ? (__CPROVER_return_value == RLC_ERR && g_pp_calls == 0) : \
	    (g_pp_calls == 1 && g_pp_mode == MODE_CBC && g_pp_ci_o == g_ci_inst_o && g_pp_key_o == g_mk_inst_o && g_pp_n == (int)in_len && \
	     VC_IS(g_pp_in_o, g_pp_in_f, in) && VC_IS(g_pp_out_o, g_pp_out_f, out) && VC_ALL16B(VC_BC_IV) && \
	     (g_pp_ret > 0 ? (__CPROVER_return_value == RLC_OK && *out_len == (size_t)g_pp_ret) : (__CPROVER_return_value == RLC_ERR && *out_len == 0)))))))
#define VC_BC_PRE \
__CPROVER_requires(in_len <= VC_BC_MAXIN && key_len <= 64 && g_mk_calls == 0 && g_ci_calls == 0 && g_pp_calls == 0) \
__CPROVER_requires(__CPROVER_is_fresh(out_len, sizeof(size_t)) && *out_len <= VC_BC_MAXCAP && __CPROVER_is_fresh(out, *out_len) && __CPROVER_is_fresh(in, in_len) && __CPROVER_is_fresh(key, key_len) && __CPROVER_is_fresh(iv, 16))
#define VC_BC_GHOSTS g_mk_calls, g_mk_ret, g_mk_dir, g_mk_bits, g_mk_inst_o, g_mk_key_o, g_mk_key_f, g_ci_calls, g_ci_ret, g_ci_mode, g_ci_ivnull, g_ci_inst_o, \
	g_pp_calls, g_pp_ret, g_pp_n, g_pp_mode, g_pp_ci_o, g_pp_key_o, g_pp_in_o, g_pp_in_f, g_pp_out_o, g_pp_out_f, __CPROVER_object_whole(g_pp_iv)

/* room needed: the padded length (in_len / 16 + 1) * 16; less => RLC_ERR, no callee is started, nothing (not even *out_len) is written */
#define VC_ENC_CT  ((in_len / 16 + 1) * 16)
int bc_aes_cbc_enc(uint8_t *out, size_t *out_len, const uint8_t *in, size_t in_len, const uint8_t *key, size_t key_len, const uint8_t *iv)
VC_BC_PRE
__CPROVER_assigns(*out_len >= VC_ENC_CT: __CPROVER_object_upto(out, VC_ENC_CT), *out_len)
VC_ASSIGNS(VC_BC_GHOSTS)
__CPROVER_ensures(__CPROVER_old(*out_len) < VC_ENC_CT ==> (__CPROVER_return_value == RLC_ERR && g_mk_calls == 0 && g_ci_calls == 0 && g_pp_calls == 0))
__CPROVER_ensures(__CPROVER_old(*out_len) >= VC_ENC_CT ==> VC_BC_COMMON(DIR_ENCRYPT))
;
/* room needed: in_len (the plaintext is shorter); the plaintext length is reported only when padDecrypt accepted the padding (result > 0) */
int bc_aes_cbc_dec(uint8_t *out, size_t *out_len, const uint8_t *in, size_t in_len, const uint8_t *key, size_t key_len, const uint8_t *iv)
VC_BC_PRE
__CPROVER_assigns(*out_len >= in_len && in_len > 0: __CPROVER_object_upto(out, in_len - 1))
__CPROVER_assigns(*out_len >= in_len: *out_len)
VC_ASSIGNS(VC_BC_GHOSTS)
__CPROVER_ensures(__CPROVER_old(*out_len) < in_len ==> (__CPROVER_return_value == RLC_ERR && g_mk_calls == 0 && g_ci_calls == 0 && g_pp_calls == 0))
__CPROVER_ensures(__CPROVER_old(*out_len) >= in_len ==> VC_BC_COMMON(DIR_DECRYPT))
;
#include "vc_spec_pop.h"
