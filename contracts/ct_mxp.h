/* Montgomery-ladder modular exponentiation bn_mxp_monty (property C20): the sequence of ring-level operations
   (masked swaps, multiplications, squarings, reductions) depends only on the public bit length of the exponent.  Same
   scheme as ct_ladder.h: callees abstract, each appends one event; the monitor compares event k with EX_EXPECT(k), an
   expression over k and the public g_xbits.  Pre: m != 1, b > 0 (the early exits and the inversion for negative exponents
   are outside "fixed bit length").  The bits of the exponent (abstract bn_get_bit) are unconstrained. */
#pragma once
#include "vc_prelude.h"
#ifndef VC_MAXBITS
#define VC_MAXBITS 4096
#endif
extern size_t g_xn; extern int g_xbad; extern size_t g_xbits;
#define EX_SWAP 1
#define EX_MUL 2
#define EX_SQR 3
#define EX_RED 4
/* ( swap mul red sqr red swap )^bits */
#define EX_EXPECT(k) ((k) < 6 * g_xbits ? (((k) % 6) == 0 || ((k) % 6) == 5 ? EX_SWAP : ((k) % 6) == 1 ? EX_MUL : ((k) % 6) == 3 ? EX_SQR : EX_RED) : 0)
#define EX_LOGGED(ev) (g_xn == __CPROVER_old(g_xn) + 1 && g_xbad == (__CPROVER_old(g_xbad) | (EX_EXPECT(__CPROVER_old(g_xn)) != (ev))))
#define VC_BNF(a) (a)->used, (a)->sign, __CPROVER_object_upto((a)->dp, sizeof((a)->dp))
#define VC_USED_OK(a) ((a)->used >= 1 && (a)->used <= RLC_BN_SIZE && ((a)->sign == RLC_POS || (a)->sign == RLC_NEG))
#include "vc_spec_push.h"
void dv_swap_sec_x(dig_t *c, dig_t *a, size_t digits, dig_t bit)
__CPROVER_requires(digits <= RLC_BN_SIZE && bit <= 1)
VC_ASSIGNS(__CPROVER_object_upto(c, digits * sizeof(dig_t)), __CPROVER_object_upto(a, digits * sizeof(dig_t)), g_xn, g_xbad) __CPROVER_ensures(EX_LOGGED(EX_SWAP));
void bn_mul_comba_x(bn_t c, const bn_t a, const bn_t b) VC_ASSIGNS(VC_BNF(c), g_xn, g_xbad) __CPROVER_ensures(EX_LOGGED(EX_MUL) && VC_USED_OK(c));
void bn_sqr_comba_x(bn_t c, const bn_t a) VC_ASSIGNS(VC_BNF(c), g_xn, g_xbad) __CPROVER_ensures(EX_LOGGED(EX_SQR) && VC_USED_OK(c));
void bn_mod_monty_comba_x(bn_t c, const bn_t a, const bn_t m, const bn_t u) VC_ASSIGNS(VC_BNF(c), g_xn, g_xbad) __CPROVER_ensures(EX_LOGGED(EX_RED) && VC_USED_OK(c));
int bn_get_bit_x(const bn_t a, uint_t bit) VC_ASSIGNS_NONE __CPROVER_ensures(__CPROVER_return_value == 0 || __CPROVER_return_value == 1);
int bn_cmp_dig_x(const bn_t a, dig_t b) VC_ASSIGNS_NONE __CPROVER_ensures(__CPROVER_return_value == RLC_GT);      /* pre: m > 1 */
int bn_is_zero_x(const bn_t a) VC_ASSIGNS_NONE __CPROVER_ensures(__CPROVER_return_value == 0);                     /* pre: b != 0 */
int bn_sign_x(const bn_t a) VC_ASSIGNS_NONE __CPROVER_ensures(__CPROVER_return_value == RLC_POS);                   /* pre: b > 0 */
size_t bn_bits_x(const bn_t a) VC_ASSIGNS_NONE __CPROVER_ensures(__CPROVER_return_value == g_xbits);
void bn_mod_pre_monty_x(bn_t u, const bn_t m) VC_ASSIGNS(VC_BNF(u)) __CPROVER_ensures(VC_USED_OK(u));
void bn_set_dig_x(bn_t a, dig_t d) VC_ASSIGNS(VC_BNF(a)) __CPROVER_ensures(VC_USED_OK(a));
void bn_mod_monty_conv_x(bn_t c, const bn_t a, const bn_t m) VC_ASSIGNS(VC_BNF(c)) __CPROVER_ensures(VC_USED_OK(c));
void bn_mod_monty_back_x(bn_t c, const bn_t a, const bn_t m) VC_ASSIGNS(VC_BNF(c)) __CPROVER_ensures(VC_USED_OK(c));
void bn_copy_x(bn_t c, const bn_t a) VC_ASSIGNS(VC_BNF(c)) __CPROVER_ensures(VC_USED_OK(c));
void bn_grow_x(bn_t a, size_t digits) __CPROVER_requires(digits <= RLC_BN_SIZE) VC_ASSIGNS_NONE;

void bn_mxp_monty(bn_t c, const bn_t a, const bn_t b, const bn_t m)
__CPROVER_requires(VC_BN_FRESH(c) && VC_BN_FRESH(a) && VC_BN_FRESH(b) && VC_BN_FRESH(m) && m->alloc == RLC_BN_SIZE && c->alloc == RLC_BN_SIZE)
__CPROVER_requires(g_xbits >= 1 && g_xbits <= VC_MAXBITS && g_xn == 0 && g_xbad == 0)
VC_ASSIGNS(VC_BNF(c), g_xn, g_xbad, g_ctx.code, g_ctx.last, g_ctx.caught, g_ctx.error, g_ctx.number, g_thrown)
__CPROVER_ensures(g_xbad == 0 && g_xn == 6 * g_xbits)
__CPROVER_ensures(g_ctx.last == __CPROVER_old(g_ctx.last))
;
#include "vc_spec_pop.h"
#define VC_LOOP_bn_mxp_monty_0 \
	__CPROVER_assigns(i, j, t, mask, __CPROVER_object_whole(tab), g_xn, g_xbad) \
	__CPROVER_loop_invariant(i >= -1 && (size_t)((long)i + 1) <= g_xbits && g_xbad == 0 && g_xn == 6 * (g_xbits - 1 - (size_t)i) && tab[0]->alloc == RLC_BN_SIZE && tab[1]->alloc == RLC_BN_SIZE) \
	__CPROVER_decreases((long)i + 1)
