/* Multiplication structure of the fixed-size field layer with the DIGIT PRODUCT ABSTRACT (property C02; same device as contracts/bn_mul.h,
   DESIGN P7/P21): RLC_MUL_DIG is mapped to the uninterpreted pair (mulhi, mullo) with the one range fact the code relies on
   (PROD <= (B-1)^2, an explicit assumption inside the macro), and the contracts state the result as the sum of those same terms:
     fp_mul1_low : c + ret*B^n        = sum_k PROD(a_k, d) B^k
     fp_mula_low : c + ret*B^n        = old c + sum_k PROD(a_k, d) B^k
     fp_muln_low : c[0..2n)           = sum_{j,k} PROD(a_j, b_k) B^(j+k)                       (Comba, product scanning)
     fp_sqrn_low : c[0..2n)           = sum_j PROD(a_j, a_j) B^(2j) + 2 sum_{j<k} PROD(a_j, a_k) B^(j+k)   (Comba squaring)
   What is proved: carry propagation through the triple register, column placement, which digit pairs enter which column, frames.
   ASSUMED (machine arithmetic): mulhi:mullo is the exact double-digit product.  Montgomery reduction fp_rdcn_low is NOT covered.
   REGISTERED: fp_mul1_low, fp_mula_low.  The Comba contracts (fp_muln_low, fp_sqrn_low) are stated but their units are experimental only
   (C02X_EXPERIMENTAL=1): muln did not finish in 600 s, sqrn needed 494 s. */
#pragma once
#include "fp_low.h"
_Static_assert(RLC_FP_DIGS == 4, "c02x_mul.h spells the sums out for 4 digits (shipped 256-bit field, 64-bit digits)");
dig_t __CPROVER_uninterpreted_mulhi(dig_t a, dig_t b);
dig_t __CPROVER_uninterpreted_mullo(dig_t a, dig_t b);
#undef RLC_MUL_DIG
#define VC_DMAX ((dig_t)(((vc_dbl)1 << RLC_DIG) - 1))
#define RLC_MUL_DIG(H, L, A, B)  H = __CPROVER_uninterpreted_mulhi(A, B); L = __CPROVER_uninterpreted_mullo(A, B); \
	__CPROVER_assume((H) <= (dig_t)(VC_DMAX - 1) && ((H) < (dig_t)(VC_DMAX - 1) || (L) <= 1));   /* PROD <= (B-1)^2 */
#define VC_FPROD(x, y) ((((vc_fpw)__CPROVER_uninterpreted_mulhi(x, y)) << RLC_DIG) | (vc_fpw)__CPROVER_uninterpreted_mullo(x, y))
#define VC_SH(v, k)    ((v) << (RLC_DIG * (k)))
#ifndef VC_XSHAPE
#define VC_XSHAPE VC_F_NONE
#endif

#include "vc_spec_push.h"
#define VC_FROW(a0, a1, a2, a3, d)  (VC_FPROD(a0, d) + VC_SH(VC_FPROD(a1, d), 1) + VC_SH(VC_FPROD(a2, d), 2) + VC_SH(VC_FPROD(a3, d), 3))
#define VC_FROW_OLD(a, d)  VC_FROW(__CPROVER_old((a)[0]), __CPROVER_old((a)[1]), __CPROVER_old((a)[2]), __CPROVER_old((a)[3]), d)
#define VC_FROW_NOW(a, d)  VC_FROW((a)[0], (a)[1], (a)[2], (a)[3], d)
dig_t fp_mul1_low(dig_t *c, const dig_t *a, dig_t digit)
__CPROVER_requires(VC_FPFRESH(a, VC_FN)) __CPROVER_requires(VC_XSHAPE == VC_F_CA ? VC_PTR_SAME(c, a) : VC_FPFRESH(c, VC_FN))
VC_ASSIGNS(__CPROVER_object_upto(c, VC_FN * sizeof(dig_t)))
__CPROVER_ensures(vc_fpv(c, VC_FN) + (vc_fpw)__CPROVER_return_value * VC_BN1 == VC_FROW_OLD(a, digit))
;
dig_t fp_mula_low(dig_t *c, const dig_t *a, dig_t digit)
__CPROVER_requires(VC_FPFRESH(a, VC_FN) && VC_FPFRESH(c, VC_FN))
VC_ASSIGNS(__CPROVER_object_upto(c, VC_FN * sizeof(dig_t)))
__CPROVER_ensures(vc_fpv(c, VC_FN) + (vc_fpw)__CPROVER_return_value * VC_BN1 == VC_FPV_OLD(c, VC_FN) + VC_FROW_NOW(a, digit))
;
/* a, b are not written (frame), so their post-state digits are the inputs */
#define VC_FCOL(a, b)  (VC_FROW_NOW(a, (b)[0]) + VC_SH(VC_FROW_NOW(a, (b)[1]), 1) + VC_SH(VC_FROW_NOW(a, (b)[2]), 2) + VC_SH(VC_FROW_NOW(a, (b)[3]), 3))
void fp_muln_low(dig_t *c, const dig_t *a, const dig_t *b)
__CPROVER_requires(VC_FPFRESH(a, VC_FN)) __CPROVER_requires(VC_XSHAPE == VC_F_CAB ? VC_PTR_SAME(b, a) : VC_FPFRESH(b, VC_FN)) __CPROVER_requires(VC_FPFRESH(c, 2 * VC_FN))
VC_ASSIGNS(__CPROVER_object_upto(c, 2 * VC_FN * sizeof(dig_t)))
__CPROVER_ensures(vc_fpv(c, 2 * VC_FN) == VC_FCOL(a, b))
;
#define VC_FSQ(a) (VC_FPROD((a)[0], (a)[0]) + VC_SH(VC_FPROD((a)[1], (a)[1]), 2) + VC_SH(VC_FPROD((a)[2], (a)[2]), 4) + VC_SH(VC_FPROD((a)[3], (a)[3]), 6) + \
	2 * (VC_SH(VC_FPROD((a)[0], (a)[1]), 1) + VC_SH(VC_FPROD((a)[0], (a)[2]), 2) + VC_SH(VC_FPROD((a)[0], (a)[3]), 3) + VC_SH(VC_FPROD((a)[1], (a)[2]), 3) + \
	     VC_SH(VC_FPROD((a)[1], (a)[3]), 4) + VC_SH(VC_FPROD((a)[2], (a)[3]), 5)))
void fp_sqrn_low(dig_t *c, const dig_t *a)
__CPROVER_requires(VC_FPFRESH(a, VC_FN)) __CPROVER_requires(VC_FPFRESH(c, 2 * VC_FN))
VC_ASSIGNS(__CPROVER_object_upto(c, 2 * VC_FN * sizeof(dig_t)))
__CPROVER_ensures(vc_fpv(c, 2 * VC_FN) == VC_FSQ(a))
;
#include "vc_spec_pop.h"
