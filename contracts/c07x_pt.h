/* Point decoders of binary curves (eb_read_bin) and Edwards curves (ed_read_bin), and the binary-field decoder fb_read_bin
   (property C07, validation half; C08).  One contract text, instantiated per curve type by the unit's -D switch; the guard contract
   is the one of ep2_read_bin in c07x_ep2.h (ghost state shared).  Every callee abstract. */
#pragma once
#include "c07x_ep2.h"
extern int g_d2_cp_calls, g_d2_cp_ok, g_d2_bits_calls, g_d2_bits_ok;
extern size_t g_d2_bits;

#if defined(VC_C07X_EBR)
#define PT_ST eb_st
#define PT_FE fb_t
#define PT_B RLC_FB_BYTES
#define PT_DIGS (3 * RLC_FB_DIGS)
#define PT_C1 x                 /* the coordinate that is always transmitted */
#define PT_C2 y
#define PT_FUNC eb_read_bin
#define PT_READ fb_read_bin_r
#define PT_ZERO fb_zero_r
#define PT_SETBIT fb_set_bit_r
#define PT_SETDIG fb_set_dig_r
#define PT_UPK eb_upk_r
#define PT_SETINF eb_set_infty_r
#define PT_ONC eb_on_curve_r
#elif defined(VC_C07X_EDR)
#define PT_ST ed_st
#define PT_FE fp_t
#define PT_B RLC_FP_BYTES
#define PT_DIGS (4 * RLC_FP_DIGS)
#define PT_C1 y
#define PT_C2 x
#define PT_FUNC ed_read_bin
#define PT_READ fp_read_bin_r
#define PT_ZERO fp_zero_r
#define PT_SETBIT fp_set_bit_r
#define PT_SETDIG fp_set_dig_r
#define PT_UPK ed_upk_r
#define PT_SETINF ed_set_infty_r
#define PT_ONC ed_on_curve_r
#endif

#include "vc_spec_push.h"
#ifdef PT_ST
#define VC_PT(m) ((const void *)((const PT_ST *)g_d2_dst)->m)
void PT_SETINF(PT_ST *p) VC_ASSIGNS(__CPROVER_object_upto(p, sizeof(PT_ST)), g_d2_inf_calls, g_d2_inf_ok)
__CPROVER_ensures(g_d2_inf_calls == __CPROVER_old(g_d2_inf_calls) + 1 && g_d2_inf_ok == ((const void *)p == g_d2_dst));
void PT_SETDIG(PT_FE a, dig_t b) VC_ASSIGNS(__CPROVER_object_upto(a, sizeof(PT_FE)), g_d2_wcnt) __CPROVER_ensures(g_d2_wcnt == __CPROVER_old(g_d2_wcnt) + 1);
void PT_READ(PT_FE a, const uint8_t *bin, size_t len)
__CPROVER_requires(__CPROVER_is_fresh(bin, len) && len == PT_B)
VC_ASSIGNS(__CPROVER_object_upto(a, sizeof(PT_FE)), g_d2_rx, g_d2_ry, g_d2_rcalls, g_d2_wcnt, g_d2_rd_wcnt, g_d2_cal_err, g_ctx.code)
__CPROVER_ensures(g_d2_rcalls == __CPROVER_old(g_d2_rcalls) + 1 && g_d2_wcnt == __CPROVER_old(g_d2_wcnt) + 1 && g_d2_rd_wcnt == g_d2_wcnt && VC_ERRFLOW(g_d2_cal_err))
__CPROVER_ensures(g_d2_rx == (((const void *)a == VC_PT(PT_C1) && (const void *)bin == (const void *)((const uint8_t *)g_d2_bin0 + 1)) ? 1 : __CPROVER_old(g_d2_rx)))
__CPROVER_ensures(g_d2_ry == (((const void *)a == VC_PT(PT_C2) && (const void *)bin == (const void *)((const uint8_t *)g_d2_bin0 + 1 + PT_B)) ? 1 : __CPROVER_old(g_d2_ry)));
void PT_ZERO(PT_FE a) VC_ASSIGNS(__CPROVER_object_upto(a, sizeof(PT_FE)), g_d2_yz, g_d2_ybit, g_d2_wcnt)
__CPROVER_ensures(g_d2_wcnt == __CPROVER_old(g_d2_wcnt) + 1 && g_d2_yz == ((const void *)a == VC_PT(PT_C2) ? 1 : __CPROVER_old(g_d2_yz)) && g_d2_ybit == ((const void *)a == VC_PT(PT_C2) ? 0 : __CPROVER_old(g_d2_ybit)));
void PT_SETBIT(PT_FE a, uint_t bit, int value) VC_ASSIGNS(__CPROVER_object_upto(a, sizeof(PT_FE)), g_d2_ybit, g_d2_wcnt)
__CPROVER_ensures(g_d2_wcnt == __CPROVER_old(g_d2_wcnt) + 1 && g_d2_ybit == ((const void *)a == VC_PT(PT_C2) ? ((bit == 0 && (value == 0 || value == 1)) ? value : 2) : __CPROVER_old(g_d2_ybit)));
int PT_UPK(PT_ST *r, const PT_ST *p) VC_ASSIGNS(__CPROVER_object_upto(r, sizeof(PT_ST)), g_d2_upk_calls, g_d2_upk_ok, g_d2_wcnt, g_d2_upk_wcnt, g_d2_cal_err, g_ctx.code)
__CPROVER_ensures((__CPROVER_return_value == 0 || __CPROVER_return_value == 1) && g_d2_upk_wcnt == g_d2_wcnt && g_d2_upk_calls == __CPROVER_old(g_d2_upk_calls) + 1 && g_d2_wcnt == __CPROVER_old(g_d2_wcnt) + 1 && VC_ERRFLOW(g_d2_cal_err))
__CPROVER_ensures(g_d2_upk_ok == ((const void *)r == g_d2_dst && (const void *)p == g_d2_dst && g_d2_rx == 1 && g_d2_yz == 1 && g_d2_ybit == g_d2_tagbit));
int PT_ONC(const PT_ST *p) VC_ASSIGNS(g_d2_onc, g_d2_onc_ok, g_d2_onc_calls, g_d2_onc_wcnt)
__CPROVER_ensures((__CPROVER_return_value == 0 || __CPROVER_return_value == 1) && g_d2_onc == __CPROVER_return_value && g_d2_onc_calls == __CPROVER_old(g_d2_onc_calls) + 1 && g_d2_onc_wcnt == g_d2_wcnt)
__CPROVER_ensures(g_d2_onc_ok == ((const void *)p == g_d2_dst && g_d2_rx == 1 && (g_d2_len == 2 * PT_B + 1 ? (g_d2_ry == 1 && g_d2_upk_calls == 0 && g_d2_rd_wcnt == g_d2_wcnt) : (g_d2_upk_calls == 1 && g_d2_upk_ok == 1 && g_d2_upk_wcnt == g_d2_wcnt))));

/* point: accepted only as (1 byte, tag 0) = identity, (B+1 bytes, tag 2|3) = compressed, (2B+1 bytes, tag 4) = uncompressed.
   No error reported ==> the transmitted coordinate went through the validating field decoder from offset 1 over B bytes; uncompressed:
   the other coordinate likewise from offset 1+B, nothing decompressed; compressed: the other coordinate was cleared and its bit 0 set
   to (tag == 3) before the point was decompressed in place, exactly once; the curve test was asked once, about THE RESULT OBJECT, right after that
   (no callee wrote to the point in between), returned true, and no callee wrote to the point afterwards; no decoder reported an error.  Wrong lengths: error, output
   untouched.  (Edwards curves transmit y and recover x; the others transmit x.) */
void PT_FUNC(PT_ST *a, const uint8_t *bin, size_t len)
__CPROVER_requires(len >= 1 && len <= 2 * PT_B + 3 && __CPROVER_is_fresh(a, sizeof(PT_ST)) && __CPROVER_is_fresh(bin, len))
__CPROVER_requires(g_may_throw == 1 && g_ctx.code == RLC_OK && g_d2_bin0 == bin && g_d2_dst == (const void *)a && g_d2_len == len && g_d2_tagbit == (bin[0] == 3))
__CPROVER_requires(g_d2_rx == 0 && g_d2_ry == 0 && g_d2_rcalls == 0 && g_d2_yz == 0 && g_d2_ybit == 0 && g_d2_upk_calls == 0 && g_d2_upk_ok == 0 && g_d2_onc == VC_UNASKED && g_d2_onc_ok == 0 && g_d2_onc_calls == 0 \
	&& g_d2_wcnt == 0 && g_d2_onc_wcnt == 0 && g_d2_cal_err == 0 && g_d2_inf_calls == 0 && g_d2_inf_ok == 0)
__CPROVER_requires(gk < PT_DIGS ==> ((const dig_t *)a)[gk] == g_dig0)
VC_ASSIGNS(__CPROVER_object_whole(a), g_d2_rx, g_d2_ry, g_d2_rcalls, g_d2_yz, g_d2_ybit, g_d2_upk_calls, g_d2_upk_ok, g_d2_onc, g_d2_onc_ok, g_d2_onc_calls, g_d2_wcnt, g_d2_onc_wcnt, g_d2_upk_wcnt, g_d2_rd_wcnt, g_d2_cal_err, g_d2_inf_calls, g_d2_inf_ok, \
	g_ctx.code, g_ctx.last, g_ctx.caught, g_ctx.error, g_ctx.number, g_thrown)
__CPROVER_ensures(g_ctx.code == RLC_OK || g_ctx.code == RLC_ERR)
__CPROVER_ensures(g_ctx.code == RLC_OK ==> ((len == 1 && bin[0] == 0) || (len == PT_B + 1 && (bin[0] == 2 || bin[0] == 3)) || (len == 2 * PT_B + 1 && bin[0] == 4)))
__CPROVER_ensures((g_ctx.code == RLC_OK && len == 1) ==> (g_d2_inf_calls == 1 && g_d2_inf_ok == 1 && g_d2_rcalls == 0 && g_d2_upk_calls == 0))
__CPROVER_ensures((g_ctx.code == RLC_OK && len > 1) ==> (g_d2_rx == 1 && g_d2_onc == 1 && g_d2_onc_calls == 1 && g_d2_onc_ok == 1 && g_d2_onc_wcnt == g_d2_wcnt && g_d2_cal_err == 0 && g_d2_inf_calls == 0))
__CPROVER_ensures((g_ctx.code == RLC_OK && len == 2 * PT_B + 1) ==> (g_d2_ry == 1 && g_d2_rcalls == 2 && g_d2_upk_calls == 0))
__CPROVER_ensures((g_ctx.code == RLC_OK && len == PT_B + 1) ==> (g_d2_upk_calls == 1 && g_d2_upk_ok == 1 && g_d2_rcalls == 1))
__CPROVER_ensures((len != 1 && len != PT_B + 1 && len != 2 * PT_B + 1) ==> (g_ctx.code == RLC_ERR && g_d2_rcalls == 0 && g_d2_wcnt == 0 && (gk < PT_DIGS ==> ((const dig_t *)a)[gk] == g_dig0)))
__CPROVER_ensures(((len == 1 && bin[0] == 0) || (((len == PT_B + 1 && (bin[0] == 2 || bin[0] == 3)) || (len == 2 * PT_B + 1 && bin[0] == 4)) && g_d2_cal_err == 0 && g_d2_onc == 1)) ==> g_ctx.code == RLC_OK)
;
#endif

#ifdef VC_C07X_FBR
/* ---- fb_read_bin --------------------------------------------------------------------------------------------------------- */
void bn_read_bin_b(bn_t a, const uint8_t *bin, size_t len)
__CPROVER_requires(__CPROVER_is_fresh(a, sizeof(bn_st)) && a->alloc == RLC_BN_SIZE && __CPROVER_is_fresh(bin, len) && len <= RLC_BN_SIZE * (RLC_DIG / 8))
VC_ASSIGNS(a->used, a->sign, __CPROVER_object_upto(a->dp, sizeof(a->dp)), g_d2_rcalls, g_d2_rx, g_d2_tmp, g_d2_cal_err, g_ctx.code)
__CPROVER_ensures(a->used >= 1 && a->used <= RLC_BN_SIZE && g_d2_rcalls == __CPROVER_old(g_d2_rcalls) + 1 && g_d2_tmp == (const void *)a->dp && VC_ERRFLOW(g_d2_cal_err))
__CPROVER_ensures(g_d2_rx == ((const void *)bin == g_d2_bin0 && len == RLC_FB_BYTES));
/* bit length of an integer: arbitrary verdict, recorded together with whether it was asked about the decoded integer, after the
   decoding and before the copy */
size_t bn_bits_b(const bn_t a) VC_ASSIGNS(g_d2_bits, g_d2_bits_calls, g_d2_bits_ok)
__CPROVER_ensures(g_d2_bits == __CPROVER_return_value && g_d2_bits_calls == __CPROVER_old(g_d2_bits_calls) + 1)
__CPROVER_ensures(g_d2_bits_ok == ((const void *)a->dp == g_d2_tmp && g_d2_rcalls == 1 && g_d2_cp_calls == 0));
void fb_copy_b(fb_t c, const fb_t a) VC_ASSIGNS(__CPROVER_object_upto(c, sizeof(fb_t)), g_d2_cp_calls, g_d2_cp_ok)
__CPROVER_ensures(g_d2_cp_calls == __CPROVER_old(g_d2_cp_calls) + 1 && g_d2_cp_ok == ((const void *)c == g_d2_dst && (const void *)a == g_d2_tmp && g_d2_rcalls == 1 && g_d2_bits_calls == 1));

/* binary-field element: exactly RLC_FB_BYTES bytes, otherwise error and the output is untouched; the whole buffer goes through the
   integer decoder once; the bit length of THAT integer was asked once, before the copy, and was <= RLC_FB_BITS (a reduced element:
   degree below the field degree); the digits of THAT integer are copied to the output once.  The only errors of its own are the
   wrong length and a bit length above RLC_FB_BITS, both before the output is written (longjmp stub of the unit). */
void fb_read_bin(fb_t a, const uint8_t *bin, size_t len)
__CPROVER_requires(len <= 2 * RLC_FB_BYTES + 2 && __CPROVER_is_fresh(a, sizeof(fb_t)) && __CPROVER_is_fresh(bin, len))
__CPROVER_requires(g_may_throw == 1 && g_ctx.code == RLC_OK && g_d2_bin0 == bin && g_d2_dst == (const void *)a && g_d2_len == len && g_d2_rcalls == 0 && g_d2_rx == 0 && g_d2_cp_calls == 0 && g_d2_cp_ok == 0 && g_d2_cal_err == 0 \
	&& g_d2_bits_calls == 0 && g_d2_bits_ok == 0)
__CPROVER_requires(gk < RLC_FB_DIGS ==> a[gk] == g_dig0)
VC_ASSIGNS(__CPROVER_object_upto(a, sizeof(fb_t)), g_d2_rcalls, g_d2_rx, g_d2_tmp, g_d2_cp_calls, g_d2_cp_ok, g_d2_cal_err, g_d2_bits, g_d2_bits_calls, g_d2_bits_ok, g_ctx.code, g_ctx.last, g_ctx.caught, g_ctx.error, g_ctx.number, g_thrown)
__CPROVER_ensures(g_ctx.code == RLC_OK || g_ctx.code == RLC_ERR)
__CPROVER_ensures(len != RLC_FB_BYTES ==> (g_ctx.code == RLC_ERR && g_d2_rcalls == 0 && g_d2_cp_calls == 0 && g_d2_bits_calls == 0 && (gk < RLC_FB_DIGS ==> a[gk] == g_dig0)))
__CPROVER_ensures(len == RLC_FB_BYTES ==> (g_d2_rcalls == 1 && g_d2_rx == 1 && g_d2_cp_calls == 1 && g_d2_cp_ok == 1))
__CPROVER_ensures(len == RLC_FB_BYTES ==> (g_d2_bits_calls == 1 && g_d2_bits_ok == 1 && g_d2_bits <= RLC_FB_BITS))
__CPROVER_ensures((len == RLC_FB_BYTES && g_d2_cal_err == 0) ==> g_ctx.code == RLC_OK)
;
#endif
#include "vc_spec_pop.h"
