/* Regular (fixed-window, signed digits) scalar multiplication ep_mul_lwreg -> ep_mul_reg_imp (property C20, second half): the
   sequence of GROUP-LEVEL operations - table build, recoding, doublings, masked table scan (one masked copy per table entry and
   coordinate, whatever the digit), negation, masked sign selection, unconditional addition, final masked corrections - is a
   function of the public bit length of the group order and of RLC_WIDTH only.  Every callee is abstract: exact frame, arbitrary
   result, one event appended to a ghost log; the monitor compares event number k with RG_EXPECT(k), an expression over k and the
   public g_pub_bits only.  The recoded digits (results of the abstract bn_rec_reg), the parity and the sign of the scalar are
   unconstrained, so acceptance for all of them is the claim.  Pre: k != 0, p != infinity, no endomorphism (the plain path).
   The callees themselves are trusted to be constant-time as units (fp_copy_sec is dv_copy_sec, proved separately). */
#pragma once
#include "vc_prelude.h"
#ifndef VC_MAXBITS
#define VC_MAXBITS (RLC_FP_BITS + 1)      /* the bounded arbiter lowers this */
#endif
extern size_t g_ev_n; extern int g_ev_bad; extern size_t g_pub_bits;
#define RG_TAB 1
#define RG_REC 2
#define RG_DBL 3
#define RG_CSEL 4
#define RG_NEG 5
#define RG_ADD 6
#define RG_SUB 7
#define RG_NORM 8
#define VC_RG_L(n) (((n) + RLC_WIDTH - 2) / (RLC_WIDTH - 1))       /* digits before the final one, as bn_rec_reg computes */
#define RG_TBL (1 << (RLC_WIDTH - 2))                                /* table entries */
#if defined(EP_MIXED)
#define RG_COORDS 2
#else
#define RG_COORDS 3
#endif
#define RG_STEP ((RLC_WIDTH - 1) + RG_COORDS * RG_TBL + 3)             /* dbl^(w-1) csel^(coords*tbl) neg csel add */
#define RG_L ((g_pub_bits + RLC_WIDTH - 2) / (RLC_WIDTH - 1) + 1)      /* digits of the recoding */
#define RG_TAIL (2 + RG_STEP * RG_L)
/* tab rec ( dbl^(w-1) csel^(coords*tbl) neg csel add )^l sub csel^3 norm neg csel */
#define RG_EXPECT(k) ((k) == 0 ? RG_TAB : (k) == 1 ? RG_REC : \
	(k) < RG_TAIL ? ((((k) - 2) % RG_STEP) < RLC_WIDTH - 1 ? RG_DBL : (((k) - 2) % RG_STEP) < RLC_WIDTH - 1 + RG_COORDS * RG_TBL ? RG_CSEL : \
		(((k) - 2) % RG_STEP) == RG_STEP - 3 ? RG_NEG : (((k) - 2) % RG_STEP) == RG_STEP - 2 ? RG_CSEL : RG_ADD) : \
	(k) == RG_TAIL ? RG_SUB : (k) <= RG_TAIL + 3 ? RG_CSEL : (k) == RG_TAIL + 4 ? RG_NORM : (k) == RG_TAIL + 5 ? RG_NEG : (k) == RG_TAIL + 6 ? RG_CSEL : 0)
#define RG_PSI 9
#define RG_GLV 10
#define RG_MOD 11
/* GLV form (ep_mul_reg_glv): mod glv norm neg csel tab rec rec ( dbl^(w-1) csel^(6*tbl) neg csel add psi neg csel add )^l
   sub csel^3 psi neg csel sub csel^3 norm, l = ceil((bits >> 1)/(w-1)) + 1 */
#define GL_STEP ((RLC_WIDTH - 1) + 6 * RG_TBL + 7)
#define GL_L (((g_pub_bits >> 1) + RLC_WIDTH - 2) / (RLC_WIDTH - 1) + 1)
#define GL_TAIL (8 + GL_STEP * GL_L)
#define GL_J(k) (((k) - 8) % GL_STEP)
#define GL_EXPECT(k) ((k) == 0 ? RG_MOD : (k) == 1 ? RG_GLV : (k) == 2 ? RG_NORM : (k) == 3 ? RG_NEG : (k) == 4 ? RG_CSEL : (k) == 5 ? RG_TAB : (k) <= 7 ? RG_REC : \
	(k) < GL_TAIL ? (GL_J(k) < RLC_WIDTH - 1 ? RG_DBL : GL_J(k) < RLC_WIDTH - 1 + 6 * RG_TBL ? RG_CSEL : \
		GL_J(k) == GL_STEP - 7 ? RG_NEG : GL_J(k) == GL_STEP - 6 ? RG_CSEL : GL_J(k) == GL_STEP - 5 ? RG_ADD : GL_J(k) == GL_STEP - 4 ? RG_PSI : \
		GL_J(k) == GL_STEP - 3 ? RG_NEG : GL_J(k) == GL_STEP - 2 ? RG_CSEL : RG_ADD) : \
	(k) == GL_TAIL ? RG_SUB : (k) <= GL_TAIL + 3 ? RG_CSEL : (k) == GL_TAIL + 4 ? RG_PSI : (k) == GL_TAIL + 5 ? RG_NEG : (k) == GL_TAIL + 6 ? RG_CSEL : \
	(k) == GL_TAIL + 7 ? RG_SUB : (k) <= GL_TAIL + 10 ? RG_CSEL : (k) == GL_TAIL + 11 ? RG_NORM : 0)
#ifdef VC_REG_GLV
#undef RG_EXPECT
#define RG_EXPECT(k) GL_EXPECT(k)
#endif
#define RG_LOGGED(ev) (g_ev_n == __CPROVER_old(g_ev_n) + 1 && g_ev_bad == (__CPROVER_old(g_ev_bad) | (RG_EXPECT(__CPROVER_old(g_ev_n)) != (ev))))
#define VC_EP(p) __CPROVER_object_upto(p, sizeof(ep_st))
#define VC_BNF(a) (a)->used, (a)->sign, __CPROVER_object_upto((a)->dp, sizeof((a)->dp))

#include "vc_spec_push.h"
void ep_tab_rg(ep_t *t, const ep_t p, int w)
__CPROVER_requires(w == RLC_WIDTH)
VC_ASSIGNS(__CPROVER_object_upto(t, RG_TBL * sizeof(ep_t)), g_ev_n, g_ev_bad) __CPROVER_ensures(RG_LOGGED(RG_TAB));
/* the recoding: digits arbitrary (secret), length as the real function's contract (bn_conv.h) promises */
void bn_rec_reg_rg(int8_t *naf, size_t *len, const bn_t k, size_t n, size_t w)
__CPROVER_requires(w == RLC_WIDTH && (n == g_pub_bits || n == (g_pub_bits >> 1)) && *len > VC_RG_L(n))
VC_ASSIGNS(__CPROVER_object_upto(naf, *len), *len, g_ev_n, g_ev_bad) __CPROVER_ensures(*len == VC_RG_L(n) + 1 && RG_LOGGED(RG_REC));
void ep_dbl_projc_rg(ep_t r, const ep_t p) VC_ASSIGNS(VC_EP(r), g_ev_n, g_ev_bad) __CPROVER_ensures(RG_LOGGED(RG_DBL));
void ep_add_projc_rg(ep_t r, const ep_t p, const ep_t q) VC_ASSIGNS(VC_EP(r), g_ev_n, g_ev_bad) __CPROVER_ensures(RG_LOGGED(RG_ADD));
void ep_sub_rg(ep_t r, const ep_t p, const ep_t q) VC_ASSIGNS(VC_EP(r), g_ev_n, g_ev_bad) __CPROVER_ensures(RG_LOGGED(RG_SUB));
void ep_neg_rg(ep_t r, const ep_t p) VC_ASSIGNS(VC_EP(r), g_ev_n, g_ev_bad) __CPROVER_ensures(RG_LOGGED(RG_NEG));
void ep_norm_rg(ep_t r, const ep_t p) VC_ASSIGNS(VC_EP(r), g_ev_n, g_ev_bad) __CPROVER_ensures(RG_LOGGED(RG_NORM));
void fp_copy_sec_rg(fp_t c, const fp_t a, dig_t bit)
VC_ASSIGNS(__CPROVER_object_upto(c, RLC_FP_DIGS * sizeof(dig_t)), g_ev_n, g_ev_bad) __CPROVER_ensures(RG_LOGGED(RG_CSEL));
/* not group-level: arbitrary results, exact frames */
void ep_set_infty_rg(ep_t p) VC_ASSIGNS(VC_EP(p));
void fp_set_dig_rg(fp_t c, dig_t a) VC_ASSIGNS(__CPROVER_object_upto(c, RLC_FP_DIGS * sizeof(dig_t)));
int bn_is_zero_rg(const bn_t a) VC_ASSIGNS_NONE __CPROVER_ensures(__CPROVER_return_value == 0);         /* pre: k != 0 */
int ep_is_infty_rg(const ep_t p) VC_ASSIGNS_NONE __CPROVER_ensures(__CPROVER_return_value == 0);      /* pre: p != infinity */
int bn_is_even_rg(const bn_t a) VC_ASSIGNS_NONE __CPROVER_ensures(__CPROVER_return_value == 0 || __CPROVER_return_value == 1);
int bn_sign_rg(const bn_t a) VC_ASSIGNS_NONE __CPROVER_ensures(__CPROVER_return_value == RLC_POS || __CPROVER_return_value == RLC_NEG);
size_t bn_bits_rg(const bn_t a) VC_ASSIGNS_NONE __CPROVER_ensures(__CPROVER_return_value == g_pub_bits);
void ep_curve_get_ord_rg(bn_t n) VC_ASSIGNS(VC_BNF(n)) __CPROVER_ensures(n->used >= 1 && n->used <= RLC_BN_SIZE - 2);
void bn_abs_rg(bn_t c, const bn_t a) VC_ASSIGNS(VC_BNF(c)) __CPROVER_ensures(c->used >= 1 && c->used <= RLC_BN_SIZE - 2);

void ep_psi_rg(ep_t r, const ep_t p) VC_ASSIGNS(VC_EP(r), g_ev_n, g_ev_bad) __CPROVER_ensures(RG_LOGGED(RG_PSI));
void dv_copy_sec_rg(dig_t *c, const dig_t *a, size_t digits, dig_t bit)
__CPROVER_requires(digits == RLC_FP_DIGS)
VC_ASSIGNS(__CPROVER_object_upto(c, RLC_FP_DIGS * sizeof(dig_t)), g_ev_n, g_ev_bad) __CPROVER_ensures(RG_LOGGED(RG_CSEL));
void bn_mod_basic_rg(bn_t c, const bn_t a, const bn_t m) VC_ASSIGNS(VC_BNF(c), g_ev_n, g_ev_bad) __CPROVER_ensures(c->used >= 1 && c->used <= RLC_BN_SIZE - 2 && RG_LOGGED(RG_MOD));
void bn_rec_glv_rg(bn_t k0, bn_t k1, const bn_t k, const bn_t n, const bn_st *v1, const bn_st *v2)
VC_ASSIGNS(VC_BNF(k0), VC_BNF(k1), g_ev_n, g_ev_bad)
__CPROVER_ensures(k0->used >= 1 && k0->used <= RLC_BN_SIZE - 2 && k1->used >= 1 && k1->used <= RLC_BN_SIZE - 2 && RG_LOGGED(RG_GLV));
const bn_st *ep_curve_get_v1_rg(void) __CPROVER_requires(1) VC_ASSIGNS_NONE __CPROVER_ensures(1);
const bn_st *ep_curve_get_v2_rg(void) __CPROVER_requires(1) VC_ASSIGNS_NONE __CPROVER_ensures(1);
/* the two static workers (each enforced in its own unit with its loop contracts; the public entry is proved over these contracts).
   RG_TOTAL / GL_TOTAL events, none unexpected. */
#define RG_TOTAL (RG_TAIL + 7)
#define GL_TOTAL (GL_TAIL + 12)
#define VC_REG_WORKER(f, total) static void f(ep_t r, const ep_t p, const bn_t k) \
__CPROVER_requires(__CPROVER_is_fresh(r, sizeof(ep_st)) && __CPROVER_is_fresh(p, sizeof(ep_st)) && __CPROVER_is_fresh(k, sizeof(bn_st))) \
/* the order of a curve over a field of RLC_FP_BITS bits has at most RLC_FP_BITS + 1 bits (Hasse) */ \
__CPROVER_requires(g_pub_bits >= 1 && g_pub_bits <= RLC_FP_BITS + 1 && g_pub_bits <= VC_MAXBITS && g_ev_n == 0 && g_ev_bad == 0) \
VC_ASSIGNS(VC_EP(r), g_ev_n, g_ev_bad, g_ctx.code, g_ctx.last, g_ctx.caught, g_ctx.error, g_ctx.number, g_thrown) \
__CPROVER_ensures(g_ev_bad == 0 && g_ev_n == (total)) \
__CPROVER_ensures(g_ctx.last == __CPROVER_old(g_ctx.last))
#if defined(EP_PLAIN) || defined(EP_SUPER)
VC_REG_WORKER(ep_mul_reg_imp, RG_TOTAL);
#endif
#if defined(EP_ENDOM)
VC_REG_WORKER(ep_mul_reg_glv, GL_TOTAL);
#endif
/* the public entry: which worker runs is decided by a property of the CURVE (public, recorded in g_endom), never by the scalar */
extern int g_endom;
int ep_curve_is_endom_rg(void) VC_ASSIGNS(g_endom) __CPROVER_ensures((__CPROVER_return_value == 0 || __CPROVER_return_value == 1) && g_endom == __CPROVER_return_value);
void ep_mul_lwreg(ep_t r, const ep_t p, const bn_t k)
__CPROVER_requires(__CPROVER_is_fresh(r, sizeof(ep_st)) && __CPROVER_is_fresh(p, sizeof(ep_st)) && __CPROVER_is_fresh(k, sizeof(bn_st)))
__CPROVER_requires(g_pub_bits >= 1 && g_pub_bits <= RLC_FP_BITS + 1 && g_pub_bits <= VC_MAXBITS && g_ev_n == 0 && g_ev_bad == 0)
VC_ASSIGNS(VC_EP(r), g_endom, g_ev_n, g_ev_bad, g_ctx.code, g_ctx.last, g_ctx.caught, g_ctx.error, g_ctx.number, g_thrown)
__CPROVER_ensures(g_ev_bad == 0 && g_ev_n == (g_endom ? GL_TOTAL : RG_TOTAL))
__CPROVER_ensures(g_ctx.last == __CPROVER_old(g_ctx.last))
;
#include "vc_spec_pop.h"

/* ep_mul_reg_imp: loop 0 prepares the table, loop 1 is the digit loop, loops 2 and 3 (constant trip counts) are unwound */
#define VC_LOOP_ep_mul_reg_imp_1 \
	__CPROVER_assigns(i, j, n, s, __CPROVER_object_whole(r), __CPROVER_object_whole(u), __CPROVER_object_whole(v), g_ev_n, g_ev_bad) \
	__CPROVER_loop_invariant(i >= -1 && i <= (int)l - 1 && l == RG_L && l <= (RLC_FP_BITS + RLC_WIDTH - 1) / (RLC_WIDTH - 1) + 1 && g_ev_bad == 0 && g_ev_n == 2 + RG_STEP * (l - 1 - (size_t)i)) \
	__CPROVER_decreases(i + 1)
#define RG_BASE (2 + RG_STEP * (l - 1 - (size_t)i))
#define VC_LOOP_ep_mul_reg_imp_2 \
	__CPROVER_assigns(j, __CPROVER_object_whole(r), g_ev_n, g_ev_bad) \
	__CPROVER_loop_invariant(j >= 0 && j <= RLC_WIDTH - 1 && g_ev_bad == 0 && g_ev_n == RG_BASE + (size_t)j) \
	__CPROVER_decreases(RLC_WIDTH - 1 - j)
#define VC_LOOP_ep_mul_reg_imp_3 \
	__CPROVER_assigns(j, __CPROVER_object_whole(u), g_ev_n, g_ev_bad) \
	__CPROVER_loop_invariant(j >= 0 && j <= RG_TBL && g_ev_bad == 0 && g_ev_n == RG_BASE + (RLC_WIDTH - 1) + RG_COORDS * (size_t)j) \
	__CPROVER_decreases(RG_TBL - j)

/* ep_mul_reg_glv: loops 0, 1, 5 (constant bounds, set-up) are unwound; 2 is the digit loop, 3 and 4 its inner loops */
#define GL_BASE (8 + GL_STEP * (l - 1 - (size_t)i))
#define VC_LOOP_ep_mul_reg_glv_2 \
	__CPROVER_assigns(i, n0, c0, n1, c1, __CPROVER_object_whole(r), __CPROVER_object_whole(q), __CPROVER_object_whole(u), __CPROVER_object_whole(w), g_ev_n, g_ev_bad) \
	__CPROVER_loop_invariant(i >= -1 && i <= (int)l - 1 && l == GL_L && l <= RLC_FP_BITS + 1 && g_ev_bad == 0 && g_ev_n == 8 + GL_STEP * (l - 1 - (size_t)i)) \
	__CPROVER_decreases(i + 1)
#define VC_LOOP_ep_mul_reg_glv_3 \
	__CPROVER_assigns(j, __CPROVER_object_whole(r), g_ev_n, g_ev_bad) \
	__CPROVER_loop_invariant(j <= RLC_WIDTH - 1 && g_ev_bad == 0 && g_ev_n == GL_BASE + j) \
	__CPROVER_decreases(RLC_WIDTH - 1 - j)
#define VC_LOOP_ep_mul_reg_glv_4 \
	__CPROVER_assigns(j, __CPROVER_object_whole(u), __CPROVER_object_whole(w), g_ev_n, g_ev_bad) \
	__CPROVER_loop_invariant(j <= RG_TBL && g_ev_bad == 0 && g_ev_n == GL_BASE + (RLC_WIDTH - 1) + 6 * j) \
	__CPROVER_decreases(RG_TBL - j)
