/* bn_rec_sac (signed aligned column recoding; property C20): the recoding length *len decides how many columns - hence how many group
   operations - every regular GLS multiplication / exponentiation built on it performs (ep2_mul_reg_gls = g2_mul_sec, gt_exp_reg_sac =
   gt_exp_sec, ep3/ep4/ep8 forms).  It therefore has to be a function of PUBLIC inputs only: n (bit length of the group order), c, m and the
   bit length of the curve parameter u.  The subscalars k[i] are secret: their bit lengths (results of the abstract bn_bits on anything but u)
   and their bits (abstract bn_get_bit) are unconstrained.
   Clause LEN below is EXPECTED TO FAIL on curves with cofactor 1 (cof != 0): the code takes the maximum with bits(k[i]) + 1 (finding F-C);
   every other obligation (frame, memory safety, no error) is written to hold for all cof.
   Pre: the buffer holds m * *len digits, *len exceeds the initial length, bits(u) + 1 and every bits(k[i]) + 1 (otherwise the function
   writes past the columns it was given - not the subject of this unit).  Bounded unit: small lengths, loops unwound. */
#pragma once
#include "vc_prelude.h"
#ifndef VC_MAXBITS
#define VC_MAXBITS 3
#endif
#define XS_MAXM 2
extern size_t g_pub_ubits, g_len0;
extern const void *__CPROVER_alloca_object;
#define XS_MAX(a, b) ((a) > (b) ? (a) : (b))
#define XS_L(n, c, m) XS_MAX(((n) - 1) / ((c) * (m)) + 2, g_pub_ubits + 1)       /* public: ceil(n / (c m)) + 1 and bits(u) + 1 */
#define VC_BNF(a) (a)->used, (a)->sign, __CPROVER_object_upto((a)->dp, sizeof((a)->dp))

#include "vc_spec_push.h"
void bn_make_xs(bn_t a, size_t digits) VC_ASSIGNS(__CPROVER_object_upto(a, sizeof(bn_st))) __CPROVER_ensures(a->used >= 1 && a->used <= RLC_BN_SIZE - 2 && a->alloc == RLC_BN_SIZE);
void bn_copy_xs(bn_t c, const bn_t a) VC_ASSIGNS(VC_BNF(c)) __CPROVER_ensures(c->used >= 1 && c->used <= RLC_BN_SIZE - 2);
void bn_hlv_xs(bn_t c, const bn_t a) VC_ASSIGNS(VC_BNF(c)) __CPROVER_ensures(c->used >= 1 && c->used <= RLC_BN_SIZE - 2);
void bn_add_dig_xs(bn_t c, const bn_t a, dig_t b) VC_ASSIGNS(VC_BNF(c)) __CPROVER_ensures(c->used >= 1 && c->used <= RLC_BN_SIZE - 2);
int bn_get_bit_xs(const bn_t a, uint_t bit) VC_ASSIGNS_NONE __CPROVER_ensures(__CPROVER_return_value == 0 || __CPROVER_return_value == 1);
/* public for u; for a subscalar: SECRET, any length that fits the caller's columns */
/* u is recognised by a ghost TAG in its (otherwise unused here) alloc field: pointer identity is prohibitively expensive (DESIGN P18) and call
   order does not work (RLC_MAX evaluates bn_bits twice, depending on the data); u is only ever handed to this abstract bn_bits, the scratch
   copies t[i] get alloc == RLC_BN_SIZE from the abstract bn_make */
#define XS_UTAG 0x5AC0
size_t bn_bits_xs(const bn_t a) VC_ASSIGNS_NONE
__CPROVER_ensures(a->alloc == XS_UTAG ? __CPROVER_return_value == g_pub_ubits : __CPROVER_return_value < g_len0);
void *memset_xs(void *s, int c, size_t n) VC_ASSIGNS(__CPROVER_object_upto(s, n));

void bn_rec_sac(int8_t *b, size_t *len, const bn_t *k, const bn_t u, size_t c, size_t m, size_t n, int cof)
__CPROVER_requires(m == XS_MAXM && c == 1 && n >= 1 && n <= VC_MAXBITS)
__CPROVER_requires(__CPROVER_is_fresh(len, sizeof(size_t)) && *len <= VC_MAXBITS + 2 && g_len0 == *len)
__CPROVER_requires(__CPROVER_is_fresh(b, XS_MAXM * (VC_MAXBITS + 2)) && __CPROVER_is_fresh(k, XS_MAXM * sizeof(bn_t)) && __CPROVER_is_fresh(u, sizeof(bn_st)))
#ifdef C20X_SAC_COF0
__CPROVER_requires(cof == 0)     /* curves with a cofactor: the clause LEN holds */
#endif
__CPROVER_requires(u->alloc == XS_UTAG && g_pub_ubits >= 1 && XS_L(n, c, m) < *len)
/* no error on this path: the frame excludes the error state except what RLC_TRY itself saves and restores */
VC_ASSIGNS(__CPROVER_alloca_object, __CPROVER_object_whole(b), *len, g_ctx.last, g_ctx.caught, g_ctx.error, g_ctx.number, g_thrown)
__CPROVER_ensures(g_ctx.last == __CPROVER_old(g_ctx.last))
/* LEN: the recoding length is a function of n, c, m and bits(u) alone */
__CPROVER_ensures(*len == XS_L(n, c, m))
;
#include "vc_spec_pop.h"
