/* Pairing / EC based signature verifiers (property C05, the guard / encoding half): GUARD CONTRACTS.
   Every callee is replaced by an ABSTRACT contract: exact frame, arbitrary result, and the verdict recorded in ghost state
   keyed by the IDENTITY of the argument object.  The tracked objects g_t[0..C5_N-1] are bound to the verifier's arguments by
   its precondition.  Nothing is claimed about the group arithmetic, the pairing or the hash: only the accept / reject LOGIC:
   accept ==> every guard the scheme's definition and the property demand was evaluated on the right object and held, the
   pairings were evaluated the expected number of times on the expected operands, the final comparison / unity test was true.
   Clauses the shipped code does not meet are SEPARATE ensures under #ifndef C05X_WITHOUT_<NAME> (see the *.codeguards units). */
#pragma once
#include "vc_prelude.h"

#define C5_N 12
#define VC_UNASKED (-9)
typedef unsigned long long c5_id;                /* identity of an object as an INTEGER (object number, offset): a pointer-typed ghost re-assigned by a
                                                    replaced callee on a second call with another address cuts the path silently (DESIGN P34) */
extern c5_id g_t[C5_N];                    /* tracked argument objects (signature components, key components) */
extern int g_val[C5_N];                          /* verdict of g1_is_valid / g2_is_valid / gt_is_valid on object i */
extern int g_inf[C5_N];                          /* verdict of ep_is_infty / ep2_is_infty on object i */
extern int g_onc[C5_N];                          /* verdict of ep_on_curve / ep2_on_curve on object i */
extern int g_sgn[C5_N], g_zer[C5_N], g_cmpn[C5_N];   /* bn_sign, bn_is_zero, bn_cmp(. , the order object) on object i */
extern int g_cpy[C5_N];                          /* number of times object i was the source of a point copy */
extern int g_mulb[C5_N];                         /* number of times object i was the base (or scalar) of a multiplication */
extern int g_inf_other;                          /* last ep_is_infty verdict on an untracked object (computed point) */
/* data flow: identity of the operands of the LAST call of each abstract operation */
extern int g_pair_calls, g_pair_m, g_pair_all2; extern c5_id g_pair_r, g_pair_p, g_pair_q;
extern int g_cmp_calls, g_cmp; extern c5_id g_cmp_a, g_cmp_b;
extern int g_unity_calls, g_unity_ok;
extern int g_md_calls, g_read_calls, g_mod_calls, g_mulgen_calls, g_mul_calls, g_add_calls, g_norm_calls;
extern size_t g_read_len; extern c5_id g_read_a, g_read_bin, g_md_msg, g_md_out; extern size_t g_md_len;
extern c5_id g_mod_c, g_mod_a, g_mod_m, g_ord_n;
extern c5_id g_mulgen_r, g_mulgen_k, g_mul_r, g_mul_p, g_mul_k, g_add_r, g_add_p, g_add_q, g_norm_r, g_norm_p;
extern c5_id g_neg_r, g_gen_r, g_sub_r, g_sub_p, g_sub_q;
extern int g_wr_calls; extern size_t g_sz;
/* CONTENT of point objects (which argument a scratch object currently holds a copy of): up to C5_S destination objects of the abstract point
   operations are entered into a table on their first write (g_sid: identity, g_src: content tag); every later abstract write replaces the tag.
   tag = index of the tracked argument it is a copy of | C5_T_GEN the generator | C5_T_NEGGEN its negative | C5_T_NORM result of a normalisation |
   C5_T_OTHER any other computed point.  g_sovf: the table overflowed or a TRACKED argument was itself overwritten (tags are then unreliable). */
#define C5_S 4
#define C5_E 6
#define C5_T_OTHER (-1)
#define C5_T_GEN 20
#define C5_T_NEGGEN 21
#define C5_T_NORM 30
extern c5_id g_sid[C5_S]; extern int g_src[C5_S]; extern int g_sovf;
/* operands (content tags, pre-state of the call) of the n-th product of two pairings, n < C5_E, and the verdict of the unity test(s) on ITS result:
   1 = tested, every test "== 1" true; 0 = some test false or against another constant; VC_UNASKED = never tested */
extern int g_eq_p0[C5_E], g_eq_q0[C5_E], g_eq_p1[C5_E], g_eq_q1[C5_E], g_eq_un[C5_E];

#define C5_P(p) ((((c5_id)__CPROVER_POINTER_OBJECT(p)) << 40) + (c5_id)__CPROVER_POINTER_OFFSET(p))
#define C5_REC1(arr, i, p) (arr[i] == (C5_P(p) == g_t[i] ? __CPROVER_return_value : __CPROVER_old(arr[i])))
#define C5_REC(arr, p) (C5_REC1(arr,0,p) && C5_REC1(arr,1,p) && C5_REC1(arr,2,p) && C5_REC1(arr,3,p) && C5_REC1(arr,4,p) && C5_REC1(arr,5,p) && \
	C5_REC1(arr,6,p) && C5_REC1(arr,7,p) && C5_REC1(arr,8,p) && C5_REC1(arr,9,p) && C5_REC1(arr,10,p) && C5_REC1(arr,11,p))
#define C5_CNT1(arr, i, p) (arr[i] == __CPROVER_old(arr[i]) + (C5_P(p) == g_t[i] ? 1 : 0))
#define C5_CNT(arr, p) (C5_CNT1(arr,0,p) && C5_CNT1(arr,1,p) && C5_CNT1(arr,2,p) && C5_CNT1(arr,3,p) && C5_CNT1(arr,4,p) && C5_CNT1(arr,5,p) && \
	C5_CNT1(arr,6,p) && C5_CNT1(arr,7,p) && C5_CNT1(arr,8,p) && C5_CNT1(arr,9,p) && C5_CNT1(arr,10,p) && C5_CNT1(arr,11,p))
#define C5_CNT2_1(arr, i, p, q) (arr[i] == __CPROVER_old(arr[i]) + (C5_P(p) == g_t[i] ? 1 : 0) + (C5_P(q) == g_t[i] ? 1 : 0))
#define C5_CNT2(arr, p, q) (C5_CNT2_1(arr,0,p,q) && C5_CNT2_1(arr,1,p,q) && C5_CNT2_1(arr,2,p,q) && C5_CNT2_1(arr,3,p,q) && C5_CNT2_1(arr,4,p,q) && C5_CNT2_1(arr,5,p,q) && \
	C5_CNT2_1(arr,6,p,q) && C5_CNT2_1(arr,7,p,q) && C5_CNT2_1(arr,8,p,q) && C5_CNT2_1(arr,9,p,q) && C5_CNT2_1(arr,10,p,q) && C5_CNT2_1(arr,11,p,q))
#define C5_IS_TRACKED(p) (C5_P(p) == g_t[0] || C5_P(p) == g_t[1] || C5_P(p) == g_t[2] || C5_P(p) == g_t[3] || C5_P(p) == g_t[4] || C5_P(p) == g_t[5] || \
	C5_P(p) == g_t[6] || C5_P(p) == g_t[7] || C5_P(p) == g_t[8] || C5_P(p) == g_t[9] || C5_P(p) == g_t[10] || C5_P(p) == g_t[11])
#define C5_ALL1(arr, v) (arr[0] == (v) && arr[1] == (v) && arr[2] == (v) && arr[3] == (v) && arr[4] == (v) && arr[5] == (v) && arr[6] == (v) && arr[7] == (v) && \
	arr[8] == (v) && arr[9] == (v) && arr[10] == (v) && arr[11] == (v))
#define C5_BOOL(r) ((r) == 0 || (r) == 1)
#define C5_TRK(p) (C5_P(p) == g_t[0] ? 0 : C5_P(p) == g_t[1] ? 1 : C5_P(p) == g_t[2] ? 2 : C5_P(p) == g_t[3] ? 3 : C5_P(p) == g_t[4] ? 4 : C5_P(p) == g_t[5] ? 5 : C5_P(p) == g_t[6] ? 6 : \
	C5_P(p) == g_t[7] ? 7 : C5_P(p) == g_t[8] ? 8 : C5_P(p) == g_t[9] ? 9 : C5_P(p) == g_t[10] ? 10 : C5_P(p) == g_t[11] ? 11 : C5_T_OTHER)
/* content tag of the object p in the PRE-state of the call (ensures clauses only) */
#define C5_TAG(p) (C5_IS_TRACKED(p) ? C5_TRK(p) : C5_P(p) == __CPROVER_old(g_sid[0]) ? __CPROVER_old(g_src[0]) : C5_P(p) == __CPROVER_old(g_sid[1]) ? __CPROVER_old(g_src[1]) : \
	C5_P(p) == __CPROVER_old(g_sid[2]) ? __CPROVER_old(g_src[2]) : C5_P(p) == __CPROVER_old(g_sid[3]) ? __CPROVER_old(g_src[3]) : C5_T_OTHER)
#define C5_HIT(j, r) (__CPROVER_old(g_sid[j]) == C5_P(r))
#define C5_ANYHIT(r) (C5_HIT(0, r) || C5_HIT(1, r) || C5_HIT(2, r) || C5_HIT(3, r))
#define C5_FREE0(r) (!C5_ANYHIT(r) && __CPROVER_old(g_sid[0]) == 0)
#define C5_FREE1(r) (!C5_ANYHIT(r) && __CPROVER_old(g_sid[0]) != 0 && __CPROVER_old(g_sid[1]) == 0)
#define C5_FREE2(r) (!C5_ANYHIT(r) && __CPROVER_old(g_sid[0]) != 0 && __CPROVER_old(g_sid[1]) != 0 && __CPROVER_old(g_sid[2]) == 0)
#define C5_FREE3(r) (!C5_ANYHIT(r) && __CPROVER_old(g_sid[0]) != 0 && __CPROVER_old(g_sid[1]) != 0 && __CPROVER_old(g_sid[2]) != 0 && __CPROVER_old(g_sid[3]) == 0)
#define C5_FULL(r) (!C5_ANYHIT(r) && __CPROVER_old(g_sid[0]) != 0 && __CPROVER_old(g_sid[1]) != 0 && __CPROVER_old(g_sid[2]) != 0 && __CPROVER_old(g_sid[3]) != 0)
#define C5_PUT1(j, fr, r, T) (g_sid[j] == ((fr) ? C5_P(r) : __CPROVER_old(g_sid[j])) && g_src[j] == ((C5_HIT(j, r) || (fr)) ? (T) : __CPROVER_old(g_src[j])))
/* the abstract operation wrote the object r: its content tag becomes T */
#define C5_PUT(r, T) (C5_PUT1(0, C5_FREE0(r), r, T) && C5_PUT1(1, C5_FREE1(r), r, T) && C5_PUT1(2, C5_FREE2(r), r, T) && C5_PUT1(3, C5_FREE3(r), r, T) && \
	g_sovf == ((__CPROVER_old(g_sovf) != 0 || C5_FULL(r) || C5_IS_TRACKED(r)) ? 1 : 0))
#define C5_SLOTS __CPROVER_object_whole(g_sid), __CPROVER_object_whole(g_src), g_sovf
#define C5_EQREC1(n, p, q, m) (g_eq_p0[n] == (__CPROVER_old(g_pair_calls) == (n) ? ((m) == 2 ? C5_TAG((p)[0]) : C5_T_OTHER) : __CPROVER_old(g_eq_p0[n])) && \
	g_eq_q0[n] == (__CPROVER_old(g_pair_calls) == (n) ? ((m) == 2 ? C5_TAG((q)[0]) : C5_T_OTHER) : __CPROVER_old(g_eq_q0[n])) && \
	g_eq_p1[n] == (__CPROVER_old(g_pair_calls) == (n) ? ((m) == 2 ? C5_TAG((p)[1]) : C5_T_OTHER) : __CPROVER_old(g_eq_p1[n])) && \
	g_eq_q1[n] == (__CPROVER_old(g_pair_calls) == (n) ? ((m) == 2 ? C5_TAG((q)[1]) : C5_T_OTHER) : __CPROVER_old(g_eq_q1[n])) && \
	g_eq_un[n] == (__CPROVER_old(g_pair_calls) == (n) ? VC_UNASKED : __CPROVER_old(g_eq_un[n])))
#define C5_EQREC(p, q, m) (C5_EQREC1(0, p, q, m) && C5_EQREC1(1, p, q, m) && C5_EQREC1(2, p, q, m) && C5_EQREC1(3, p, q, m) && C5_EQREC1(4, p, q, m) && C5_EQREC1(5, p, q, m))
#define C5_UNREC1(n, a, b) (g_eq_un[n] == ((g_pair_calls == (n) + 1 && C5_P(a) == g_pair_r) ? \
	((__CPROVER_return_value == RLC_EQ && (b) == 1 && __CPROVER_old(g_eq_un[n]) != 0) ? 1 : 0) : __CPROVER_old(g_eq_un[n])))
#define C5_UNREC(a, b) (C5_UNREC1(0, a, b) && C5_UNREC1(1, a, b) && C5_UNREC1(2, a, b) && C5_UNREC1(3, a, b) && C5_UNREC1(4, a, b) && C5_UNREC1(5, a, b))
#define C5_EQS __CPROVER_object_whole(g_eq_p0), __CPROVER_object_whole(g_eq_q0), __CPROVER_object_whole(g_eq_p1), __CPROVER_object_whole(g_eq_q1), __CPROVER_object_whole(g_eq_un)
/* "the equation e(P0,Q0) e(P1,Q1) = 1 was tested": some product of exactly two pairings had these operands (as content tags, either order) and its
   result was tested for unity, verdict true */
#define C5_EQN(n, P0, Q0, P1, Q1) (g_eq_un[n] == 1 && ((g_eq_p0[n] == (P0) && g_eq_q0[n] == (Q0) && g_eq_p1[n] == (P1) && g_eq_q1[n] == (Q1)) || \
	(g_eq_p0[n] == (P1) && g_eq_q0[n] == (Q1) && g_eq_p1[n] == (P0) && g_eq_q1[n] == (Q0))))
#define C5_TESTED(P0, Q0, P1, Q1) (C5_EQN(0, P0, Q0, P1, Q1) || C5_EQN(1, P0, Q0, P1, Q1) || C5_EQN(2, P0, Q0, P1, Q1) || C5_EQN(3, P0, Q0, P1, Q1) || \
	C5_EQN(4, P0, Q0, P1, Q1) || C5_EQN(5, P0, Q0, P1, Q1))
#define C5_ALLE(arr, v) (arr[0] == (v) && arr[1] == (v) && arr[2] == (v) && arr[3] == (v) && arr[4] == (v) && arr[5] == (v))
#define C5_BNW(a) (a)->used, (a)->sign, __CPROVER_object_upto((a)->dp, sizeof((a)->dp))
#define C5_BN_ANY(a) ((a)->alloc == RLC_BN_SIZE && (a)->used >= 1 && (a)->used <= RLC_BN_SIZE)
/* initial ghost state: nothing asked, nothing counted */
#define C5_INIT (C5_ALL1(g_val, VC_UNASKED) && C5_ALL1(g_inf, VC_UNASKED) && C5_ALL1(g_onc, VC_UNASKED) && C5_ALL1(g_sgn, VC_UNASKED) && C5_ALL1(g_zer, VC_UNASKED) && \
	C5_ALL1(g_cmpn, VC_UNASKED) && C5_ALL1(g_cpy, 0) && C5_ALL1(g_mulb, 0) && g_inf_other == VC_UNASKED && g_pair_calls == 0 && g_pair_all2 == 1 && g_cmp_calls == 0 && g_cmp == VC_UNASKED && \
	g_unity_calls == 0 && g_unity_ok == 1 && g_md_calls == 0 && g_read_calls == 0 && g_mod_calls == 0 && g_mulgen_calls == 0 && g_mul_calls == 0 && g_add_calls == 0 && \
	g_norm_calls == 0 && g_wr_calls == 0 && g_read_len == 0 && g_pair_r == 0 && g_pair_p == 0 && g_pair_q == 0 && g_cmp_a == 0 && g_cmp_b == 0 && g_read_a == 0 && \
	g_read_bin == 0 && g_md_msg == 0 && g_md_out == 0 && g_mod_c == 0 && g_mod_a == 0 && g_mod_m == 0 && g_ord_n == 0 && g_mulgen_r == 0 && g_mulgen_k == 0 && \
	g_mul_r == 0 && g_mul_p == 0 && g_mul_k == 0 && g_add_r == 0 && g_add_p == 0 && g_add_q == 0 && g_norm_r == 0 && g_norm_p == 0 && g_neg_r == 0 && \
	g_gen_r == 0 && g_sub_r == 0 && g_sub_p == 0 && g_sub_q == 0 && g_sid[0] == 0 && g_sid[1] == 0 && g_sid[2] == 0 && g_sid[3] == 0 && g_sovf == 0 && \
	C5_ALLE(g_eq_p0, VC_UNASKED) && C5_ALLE(g_eq_q0, VC_UNASKED) && C5_ALLE(g_eq_p1, VC_UNASKED) && C5_ALLE(g_eq_q1, VC_UNASKED) && C5_ALLE(g_eq_un, VC_UNASKED))
#define C5_GHOST __CPROVER_object_whole(g_val), __CPROVER_object_whole(g_inf), __CPROVER_object_whole(g_onc), __CPROVER_object_whole(g_sgn), __CPROVER_object_whole(g_zer), \
	__CPROVER_object_whole(g_cmpn), __CPROVER_object_whole(g_cpy), __CPROVER_object_whole(g_mulb), g_inf_other, g_pair_calls, g_pair_m, g_pair_all2, g_pair_r, g_pair_p, g_pair_q, g_cmp_calls, g_cmp, g_cmp_a, g_cmp_b, \
	g_unity_calls, g_unity_ok, g_md_calls, g_read_calls, g_mod_calls, g_mulgen_calls, g_mul_calls, g_add_calls, g_norm_calls, g_read_len, g_read_a, g_read_bin, g_md_msg, g_md_out, g_md_len, \
	g_mod_c, g_mod_a, g_mod_m, g_ord_n, g_mulgen_r, g_mulgen_k, g_mul_r, g_mul_p, g_mul_k, g_add_r, g_add_p, g_add_q, g_norm_r, g_norm_p, g_neg_r, g_gen_r, g_sub_r, g_sub_p, g_sub_q, g_wr_calls, g_sz, C5_SLOTS, C5_EQS, \
	g_ctx.code, g_ctx.last, g_ctx.caught, g_ctx.error, g_ctx.number, g_thrown

#include "vc_spec_push.h"
/* ---- membership / well-formedness tests: arbitrary verdict, recorded for the tracked object it was asked about ------------ */
int g1_is_valid_c5(const g1_t a) VC_ASSIGNS(__CPROVER_object_whole(g_val)) __CPROVER_ensures(C5_BOOL(__CPROVER_return_value) && C5_REC(g_val, a));
int g2_is_valid_c5(const g2_t a) VC_ASSIGNS(__CPROVER_object_whole(g_val)) __CPROVER_ensures(C5_BOOL(__CPROVER_return_value) && C5_REC(g_val, a));
int gt_is_valid_c5(const gt_t a) VC_ASSIGNS(__CPROVER_object_whole(g_val)) __CPROVER_ensures(C5_BOOL(__CPROVER_return_value) && C5_REC(g_val, a));
int ep_is_infty_c5(const ep_t p) VC_ASSIGNS(__CPROVER_object_whole(g_inf), g_inf_other)
__CPROVER_ensures(C5_BOOL(__CPROVER_return_value) && C5_REC(g_inf, p) && g_inf_other == (C5_IS_TRACKED(p) ? __CPROVER_old(g_inf_other) : __CPROVER_return_value));
int ep2_is_infty_c5(const ep2_t p) VC_ASSIGNS(__CPROVER_object_whole(g_inf), g_inf_other)
__CPROVER_ensures(C5_BOOL(__CPROVER_return_value) && C5_REC(g_inf, p) && g_inf_other == (C5_IS_TRACKED(p) ? __CPROVER_old(g_inf_other) : __CPROVER_return_value));
int ep_on_curve_c5(const ep_t p) VC_ASSIGNS(__CPROVER_object_whole(g_onc)) __CPROVER_ensures(C5_BOOL(__CPROVER_return_value) && C5_REC(g_onc, p));
int ep2_on_curve_c5(const ep2_t p) VC_ASSIGNS(__CPROVER_object_whole(g_onc)) __CPROVER_ensures(C5_BOOL(__CPROVER_return_value) && C5_REC(g_onc, p));
/* ---- scalars ----------------------------------------------------------------------------------------------------------------- */
int bn_sign_c5(const bn_t a) VC_ASSIGNS(__CPROVER_object_whole(g_sgn))
__CPROVER_ensures((__CPROVER_return_value == RLC_POS || __CPROVER_return_value == RLC_NEG) && C5_REC(g_sgn, a));
int bn_is_zero_c5(const bn_t a) VC_ASSIGNS(__CPROVER_object_whole(g_zer)) __CPROVER_ensures(C5_BOOL(__CPROVER_return_value) && C5_REC(g_zer, a));
/* comparison; recorded for a tracked first operand only when the second operand is the order object; otherwise the general verdict */
int bn_cmp_c5(const bn_t a, const bn_t b) VC_ASSIGNS(__CPROVER_object_whole(g_cmpn), g_cmp_calls, g_cmp, g_cmp_a, g_cmp_b)
__CPROVER_ensures(__CPROVER_return_value == RLC_LT || __CPROVER_return_value == RLC_EQ || __CPROVER_return_value == RLC_GT)
__CPROVER_ensures(C5_P(b) == g_ord_n ? (C5_REC(g_cmpn, a) && g_cmp_calls == __CPROVER_old(g_cmp_calls) && g_cmp == __CPROVER_old(g_cmp) && g_cmp_a == __CPROVER_old(g_cmp_a) && g_cmp_b == __CPROVER_old(g_cmp_b)) \
	: (C5_REC(g_cmpn, NULL) && g_cmp_calls == __CPROVER_old(g_cmp_calls) + 1 && g_cmp == __CPROVER_return_value && g_cmp_a == C5_P(a) && g_cmp_b == C5_P(b)));
void ep_curve_get_ord_c5(bn_t n) __CPROVER_requires(n->alloc == RLC_BN_SIZE) VC_ASSIGNS(C5_BNW(n), g_ord_n) __CPROVER_ensures(C5_BN_ANY(n) && g_ord_n == C5_P(n));
void md_map_sh256_c5(uint8_t *hash, const uint8_t *msg, size_t len)
__CPROVER_requires(__CPROVER_is_fresh(hash, RLC_MD_LEN) && __CPROVER_is_fresh(msg, len))
VC_ASSIGNS(__CPROVER_object_upto(hash, RLC_MD_LEN), g_md_calls, g_md_msg, g_md_out, g_md_len)
__CPROVER_ensures(g_md_calls == __CPROVER_old(g_md_calls) + 1 && g_md_msg == C5_P(msg) && g_md_out == C5_P(hash) && g_md_len == len);
void bn_read_bin_c5(bn_t a, const uint8_t *bin, size_t len)
__CPROVER_requires(a->alloc == RLC_BN_SIZE && __CPROVER_is_fresh(bin, len))
VC_ASSIGNS(C5_BNW(a), g_read_calls, g_read_len, g_read_a, g_read_bin)
__CPROVER_ensures(C5_BN_ANY(a) && g_read_calls == __CPROVER_old(g_read_calls) + 1 && g_read_len == len && g_read_a == C5_P(a) && g_read_bin == C5_P(bin));
void bn_mod_basic_c5(bn_t c, const bn_t a, const bn_t m)
VC_ASSIGNS(C5_BNW(c), g_mod_calls, g_mod_c, g_mod_a, g_mod_m)
__CPROVER_ensures(C5_BN_ANY(c) && g_mod_calls == __CPROVER_old(g_mod_calls) + 1 && g_mod_c == C5_P(c) && g_mod_a == C5_P(a) && g_mod_m == C5_P(m));
/* ---- group operations: frame only + identity of the operands ---------------------------------------------------------------- */
void g1_mul_gen_c5(g1_t r, const bn_t k) VC_ASSIGNS(__CPROVER_object_upto(r, sizeof(ep_st)), g_mulgen_calls, g_mulgen_r, g_mulgen_k)
__CPROVER_ensures(g_mulgen_calls == __CPROVER_old(g_mulgen_calls) + 1 && g_mulgen_r == C5_P(r) && g_mulgen_k == C5_P(k));
void g2_mul_gen_c5(g2_t r, const bn_t k) VC_ASSIGNS(__CPROVER_object_upto(r, sizeof(ep2_st)), g_mulgen_calls, g_mulgen_r, g_mulgen_k)
__CPROVER_ensures(g_mulgen_calls == __CPROVER_old(g_mulgen_calls) + 1 && g_mulgen_r == C5_P(r) && g_mulgen_k == C5_P(k));
void ep_mul_gen_c5(ep_t r, const bn_t k) VC_ASSIGNS(__CPROVER_object_upto(r, sizeof(ep_st)), g_mulgen_calls, g_mulgen_r, g_mulgen_k, __CPROVER_object_whole(g_mulb))
__CPROVER_ensures(g_mulgen_calls == __CPROVER_old(g_mulgen_calls) + 1 && g_mulgen_r == C5_P(r) && g_mulgen_k == C5_P(k) && C5_CNT(g_mulb, k));
void g1_mul_c5(g1_t r, const g1_t p, const bn_t k) VC_ASSIGNS(C5_SLOTS, __CPROVER_object_upto(r, sizeof(ep_st)), g_mul_calls, g_mul_r, g_mul_p, g_mul_k, __CPROVER_object_whole(g_mulb))
__CPROVER_ensures(g_mul_calls == __CPROVER_old(g_mul_calls) + 1 && g_mul_r == C5_P(r) && g_mul_p == C5_P(p) && g_mul_k == C5_P(k) && C5_CNT2(g_mulb, p, k))
__CPROVER_ensures(C5_PUT(r, C5_T_OTHER));
void g2_mul_c5(g2_t r, const g2_t p, const bn_t k) VC_ASSIGNS(__CPROVER_object_upto(r, sizeof(ep2_st)), g_mul_calls, g_mul_r, g_mul_p, g_mul_k, __CPROVER_object_whole(g_mulb))
__CPROVER_ensures(g_mul_calls == __CPROVER_old(g_mul_calls) + 1 && g_mul_r == C5_P(r) && g_mul_p == C5_P(p) && g_mul_k == C5_P(k) && C5_CNT2(g_mulb, p, k));
void ep_mul_lwnaf_c5(ep_t r, const ep_t p, const bn_t k) VC_ASSIGNS(__CPROVER_object_upto(r, sizeof(ep_st)), g_mul_calls, g_mul_r, g_mul_p, g_mul_k, __CPROVER_object_whole(g_mulb))
__CPROVER_ensures(g_mul_calls == __CPROVER_old(g_mul_calls) + 1 && g_mul_r == C5_P(r) && g_mul_p == C5_P(p) && g_mul_k == C5_P(k))
__CPROVER_ensures(C5_CNT2(g_mulb, p, k));
/* r = [k]p + [m]q */
void ep_mul_sim_inter_c5(ep_t r, const ep_t p, const bn_t k, const ep_t q, const bn_t m)
VC_ASSIGNS(C5_SLOTS, __CPROVER_object_upto(r, sizeof(ep_st)), g_mul_calls, g_mul_r, g_mul_p, g_mul_k, __CPROVER_object_whole(g_mulb))
__CPROVER_ensures(g_mul_calls == __CPROVER_old(g_mul_calls) + 1 && g_mul_r == C5_P(r) && g_mul_p == C5_P(p) && g_mul_k == C5_P(k))
__CPROVER_ensures(C5_CNT2(g_mulb, p, q))
__CPROVER_ensures(C5_PUT(r, C5_T_OTHER));
void ep_add_projc_c5(ep_t r, const ep_t p, const ep_t q) VC_ASSIGNS(C5_SLOTS, __CPROVER_object_upto(r, sizeof(ep_st)), g_add_calls, g_add_r, g_add_p, g_add_q)
__CPROVER_ensures(g_add_calls == __CPROVER_old(g_add_calls) + 1 && g_add_r == C5_P(r) && g_add_p == C5_P(p) && g_add_q == C5_P(q))
__CPROVER_ensures(C5_PUT(r, C5_T_OTHER));
void ep2_add_projc_c5(ep2_t r, const ep2_t p, const ep2_t q) VC_ASSIGNS(__CPROVER_object_upto(r, sizeof(ep2_st)), g_add_calls, g_add_r, g_add_p, g_add_q)
__CPROVER_ensures(g_add_calls == __CPROVER_old(g_add_calls) + 1 && g_add_r == C5_P(r) && g_add_p == C5_P(p) && g_add_q == C5_P(q));
void ep_sub_c5(ep_t r, const ep_t p, const ep_t q) VC_ASSIGNS(__CPROVER_object_upto(r, sizeof(ep_st)), g_sub_r, g_sub_p, g_sub_q)
__CPROVER_ensures(g_sub_r == C5_P(r) && g_sub_p == C5_P(p) && g_sub_q == C5_P(q));
void ep_norm_c5(ep_t r, const ep_t p) VC_ASSIGNS(C5_SLOTS, __CPROVER_object_upto(r, sizeof(ep_st)), g_norm_calls, g_norm_r, g_norm_p)
__CPROVER_ensures(g_norm_calls == __CPROVER_old(g_norm_calls) + 1 && g_norm_r == C5_P(r) && g_norm_p == C5_P(p))
__CPROVER_ensures(C5_PUT(r, C5_T_NORM));
void ep2_norm_c5(ep2_t r, const ep2_t p) VC_ASSIGNS(__CPROVER_object_upto(r, sizeof(ep2_st)), g_norm_calls, g_norm_r, g_norm_p)
__CPROVER_ensures(g_norm_calls == __CPROVER_old(g_norm_calls) + 1 && g_norm_r == C5_P(r) && g_norm_p == C5_P(p));
void ep_copy_c5(ep_t r, const ep_t p) VC_ASSIGNS(C5_SLOTS, __CPROVER_object_upto(r, sizeof(ep_st)), __CPROVER_object_whole(g_cpy)) __CPROVER_ensures(C5_CNT(g_cpy, p))
__CPROVER_ensures(C5_PUT(r, C5_TAG(p)));
void ep2_copy_c5(ep2_t r, const ep2_t p) VC_ASSIGNS(C5_SLOTS, __CPROVER_object_upto(r, sizeof(ep2_st)), __CPROVER_object_whole(g_cpy)) __CPROVER_ensures(C5_CNT(g_cpy, p))
__CPROVER_ensures(C5_PUT(r, C5_TAG(p)));
void ep2_neg_c5(ep2_t r, const ep2_t p) VC_ASSIGNS(C5_SLOTS, __CPROVER_object_upto(r, sizeof(ep2_st)), g_neg_r) __CPROVER_ensures(g_neg_r == C5_P(r))
__CPROVER_ensures(C5_PUT(r, (C5_TAG(p) == C5_T_GEN ? C5_T_NEGGEN : C5_T_OTHER)));
void ep2_curve_get_gen_c5(ep2_t g) VC_ASSIGNS(C5_SLOTS, __CPROVER_object_upto(g, sizeof(ep2_st)), g_gen_r) __CPROVER_ensures(g_gen_r == C5_P(g))
__CPROVER_ensures(C5_PUT(g, C5_T_GEN));
/* [k_0]p_0 + ... + [k_{n-1}]p_{n-1}; the arrays are the verifier's key and message arrays */
void ep2_mul_sim_lot_c5(ep2_t r, const ep2_t p[], const bn_t k[], size_t n)
VC_ASSIGNS(__CPROVER_object_upto(r, sizeof(ep2_st)), g_mul_calls, g_mul_r, g_mul_p, g_mul_k, g_sz)
__CPROVER_ensures(g_mul_calls == __CPROVER_old(g_mul_calls) + 1 && g_mul_r == C5_P(r) && g_mul_p == C5_P(p) && g_mul_k == C5_P(k) && g_sz == n);
/* ---- pairings and the decision ----------------------------------------------------------------------------------------------- */
void pp_map_oatep_k12_c5(fp12_t r, const ep_t p, const ep2_t q)
VC_ASSIGNS(__CPROVER_object_upto(r, sizeof(fp12_t)), g_pair_calls, g_pair_m, g_pair_r, g_pair_p, g_pair_q)
__CPROVER_ensures(g_pair_calls == __CPROVER_old(g_pair_calls) + 1 && g_pair_m == 1 && g_pair_r == C5_P(r) && g_pair_p == C5_P(p) && g_pair_q == C5_P(q));
void pp_map_sim_oatep_k12_c5(fp12_t r, const ep_t *p, const ep2_t *q, int m)
VC_ASSIGNS(C5_EQS, __CPROVER_object_upto(r, sizeof(fp12_t)), g_pair_calls, g_pair_m, g_pair_all2, g_pair_r, g_pair_p, g_pair_q)
__CPROVER_ensures(g_pair_all2 == (__CPROVER_old(g_pair_all2) == 1 && m == 2 ? 1 : 0))      /* every product so far was over exactly two pairs */
__CPROVER_ensures(g_pair_calls == __CPROVER_old(g_pair_calls) + 1 && g_pair_m == m && g_pair_r == C5_P(r) && g_pair_p == C5_P(p) && g_pair_q == C5_P(q))
__CPROVER_ensures(C5_EQREC(p, q, m));
int fp12_cmp_c5(const fp12_t a, const fp12_t b) VC_ASSIGNS(g_cmp_calls, g_cmp, g_cmp_a, g_cmp_b)
__CPROVER_ensures((__CPROVER_return_value == RLC_EQ || __CPROVER_return_value == RLC_NE) && g_cmp_calls == __CPROVER_old(g_cmp_calls) + 1 && g_cmp == __CPROVER_return_value && \
	g_cmp_a == C5_P(a) && g_cmp_b == C5_P(b));
/* unity test of a pairing product: g_unity_ok stays 1 only while every test so far was "== 1", on the result of the latest pairing, one test per pairing */
int fp12_cmp_dig_c5(const fp12_t a, dig_t b) VC_ASSIGNS(__CPROVER_object_whole(g_eq_un), g_unity_calls, g_unity_ok)
__CPROVER_ensures((__CPROVER_return_value == RLC_EQ || __CPROVER_return_value == RLC_NE) && g_unity_calls == __CPROVER_old(g_unity_calls) + 1 && \
	g_unity_ok == (__CPROVER_old(g_unity_ok) == 1 && __CPROVER_return_value == RLC_EQ && b == 1 && C5_P(a) == g_pair_r && g_unity_calls == g_pair_calls ? 1 : 0))
__CPROVER_ensures(C5_UNREC(a, b));

/* ================================================ the verifiers ================================================================ */
/* development aid (vacuity of the accepting path): with -DC05X_VACUITY every verifier additionally "ensures" rejection, which must FAIL */
#ifdef C05X_VACUITY
#define C5_VAC __CPROVER_ensures(__CPROVER_return_value == 0)
#else
#define C5_VAC
#endif
/* "well-formed group element" in the sense of the property (identity and off-curve points rejected): the full membership test held,
   or the point was tested to be on the curve and tested not to be the identity */
#define C5_WF(i) (g_val[i] == 1 || (g_onc[i] == 1 && g_inf[i] == 0))
#define C5_BIND(a0, a1, a2, a3, a4, a5, a6, a7, a8, a9, a10, a11) (g_t[0] == C5_P(a0) && g_t[1] == C5_P(a1) && g_t[2] == C5_P(a2) && g_t[3] == C5_P(a3) && g_t[4] == C5_P(a4) && \
	g_t[5] == C5_P(a5) && g_t[6] == C5_P(a6) && g_t[7] == C5_P(a7) && g_t[8] == C5_P(a8) && g_t[9] == C5_P(a9) && g_t[10] == C5_P(a10) && g_t[11] == C5_P(a11))
#define C5_BIND2(a0, a1) (g_t[0] == C5_P(a0) && g_t[1] == C5_P(a1) && g_t[2] == 0 && g_t[3] == 0 && g_t[4] == 0 && g_t[5] == 0 && g_t[6] == 0 && g_t[7] == 0 && \
	g_t[8] == 0 && g_t[9] == 0 && g_t[10] == 0 && g_t[11] == 0)

/* ---- Boneh-Boyen short signature: accept iff e(s, [m]g2 + q) == z, s in G1 \ {O}, q in G2 \ {O} --------------------------------
   tracked: 0 = s (signature, G1), 1 = q (public key, G2) */
int cp_bbs_ver(g1_t s, const uint8_t *msg, size_t len, int hash, const g2_t q, const gt_t z)
__CPROVER_requires(__CPROVER_is_fresh(s, sizeof(ep_st)) && __CPROVER_is_fresh(q, sizeof(ep2_st)) && __CPROVER_is_fresh(z, sizeof(fp12_t)) && len <= 128 && __CPROVER_is_fresh(msg, len))
__CPROVER_requires(C5_BIND2(s, q) && C5_INIT)
VC_ASSIGNS(C5_GHOST)
__CPROVER_ensures(C5_BOOL(__CPROVER_return_value))
/* signature component well-formed: on the curve, in the order-r subgroup, not the identity */
__CPROVER_ensures(__CPROVER_return_value == 1 ==> C5_WF(0))
#ifndef C05X_WITHOUT_KEYVALID
/* public key well-formed (as cp_bls_ver does): a valid G2 element */
__CPROVER_ensures(__CPROVER_return_value == 1 ==> C5_WF(1))
#endif
/* the decision: one pairing, of s with normalise([m]g2 + q), its result compared equal with z */
__CPROVER_ensures(__CPROVER_return_value == 1 ==> (g_pair_calls == 1 && g_pair_m == 1 && g_pair_p == C5_P(s) && g_pair_q == g_norm_r && g_norm_p == g_add_r && g_norm_calls == 1 && \
	g_add_calls == 1 && (g_add_p == g_mulgen_r && g_add_q == C5_P(q) || g_add_q == g_mulgen_r && g_add_p == C5_P(q)) && g_mulgen_calls == 1 && g_mulgen_k == g_mod_c))
__CPROVER_ensures(__CPROVER_return_value == 1 ==> (g_cmp_calls == 1 && g_cmp == RLC_EQ && (g_cmp_a == g_pair_r && g_cmp_b == C5_P(z) || g_cmp_b == g_pair_r && g_cmp_a == C5_P(z))))
/* message handling: hashed exactly once unless pre-hashed, read over its full length, reduced modulo the group order */
__CPROVER_ensures(__CPROVER_return_value == 1 ==> (g_md_calls == (hash ? 0 : 1) && g_read_calls == 1 && g_read_len == (hash ? len : (size_t)RLC_MD_LEN) && \
	g_read_bin == (hash ? C5_P(msg) : g_md_out) && (hash || (g_md_msg == C5_P(msg) && g_md_len == len)) && g_mod_calls == 1 && g_mod_a == g_read_a && g_mod_m == g_ord_n && g_ord_n != 0))
__CPROVER_ensures(g_ctx.last == __CPROVER_old(g_ctx.last))
C5_VAC
;
/* ---- Zhang-Safavi-Naini-Susilo: accept iff e([m]g1 + q, s) == z, s in G2 \ {O}, q in G1 \ {O} ------------------------------------
   tracked: 0 = s (signature, G2), 1 = q (public key, G1) */
int cp_zss_ver(const g2_t s, const uint8_t *msg, size_t len, int hash, const g1_t q, const gt_t z)
__CPROVER_requires(__CPROVER_is_fresh(s, sizeof(ep2_st)) && __CPROVER_is_fresh(q, sizeof(ep_st)) && __CPROVER_is_fresh(z, sizeof(fp12_t)) && len <= 128 && __CPROVER_is_fresh(msg, len))
__CPROVER_requires(C5_BIND2(s, q) && C5_INIT)
VC_ASSIGNS(C5_GHOST)
__CPROVER_ensures(C5_BOOL(__CPROVER_return_value))
#ifndef C05X_WITHOUT_SIGVALID
/* signature component well-formed: on the twist, in the order-r subgroup, not the identity */
__CPROVER_ensures(__CPROVER_return_value == 1 ==> C5_WF(0))
#endif
#ifndef C05X_WITHOUT_KEYVALID
__CPROVER_ensures(__CPROVER_return_value == 1 ==> C5_WF(1))
#endif
__CPROVER_ensures(__CPROVER_return_value == 1 ==> (g_pair_calls == 1 && g_pair_m == 1 && g_pair_q == C5_P(s) && g_pair_p == g_norm_r && g_norm_p == g_add_r && g_norm_calls == 1 && \
	g_add_calls == 1 && (g_add_p == g_mulgen_r && g_add_q == C5_P(q) || g_add_q == g_mulgen_r && g_add_p == C5_P(q)) && g_mulgen_calls == 1 && g_mulgen_k == g_mod_c))
__CPROVER_ensures(__CPROVER_return_value == 1 ==> (g_cmp_calls == 1 && g_cmp == RLC_EQ && (g_cmp_a == g_pair_r && g_cmp_b == C5_P(z) || g_cmp_b == g_pair_r && g_cmp_a == C5_P(z))))
__CPROVER_ensures(__CPROVER_return_value == 1 ==> (g_md_calls == (hash ? 0 : 1) && g_read_calls == 1 && g_read_len == (hash ? len : (size_t)RLC_MD_LEN) && \
	g_read_bin == (hash ? C5_P(msg) : g_md_out) && (hash || (g_md_msg == C5_P(msg) && g_md_len == len)) && g_mod_calls == 1 && g_mod_a == g_read_a && g_mod_m == g_ord_n && g_ord_n != 0))
__CPROVER_ensures(g_ctx.last == __CPROVER_old(g_ctx.last))
C5_VAC
;
#include "c05x_pair_cl.h"
#include "c05x_pair_vbnn.h"
#include "vc_spec_pop.h"
