/* Lopez-Dahab ladder on binary curves eb_mul_lodah (property C20, second half; documented "constant-time").  The ladder is x-only, so the
   events are FIELD-LEVEL operations (binary-field multiplications, squarings, additions, reductions, masked swaps, the inversion, the
   blinding draws), each logged by an abstract callee contract (exact frame, arbitrary result, one event).  The monitor compares event number
   k with XB_EXPECT(k), an expression over k and PUBLIC inputs only: g_pub_bits = bit length of the group order, and the shape of the curve
   coefficient b (eb_curve_opt_b(): a curve property; one enforcing unit per shape, -DC20X_EB_OPTB=RLC_ZERO|RLC_ONE|RLC_TINY|RLC_HUGE).
   The scalar is padded to the order length (k + n or k + 2n); its bits (results of the abstract bn_get_bit) are unconstrained.
       sqr sqr zero swapn [b] rand mul rand mul mul ( mul mul add muln swap^2 sqr muln addd rdcn sqr sqr mul [step b] swap^2 )^bits
       isz isz mul mul add mul mul add mul sqr add mul add mul inv mul mul add mul add copy copy setdig   add copysec
   STRICT reading: the SIGN of the scalar is secret too (the abstract bn_sign returns an unconstrained verdict).  The result is negated without
   branching: one field addition (x + y) and one masked copy dv_copy_sec of the public length RLC_FB_DIGS, whose selector is the secret sign;
   any conditional negation (eb_neg, or a guarded masked copy) is an unexpected / missing event.
   Pre: k != 0; the result and its successor are finite (z1 != 0 and z2 != 0 after the ladder, i.e. k is not 0 or -1 modulo the order): the
   two exceptional exits are outside the regular path.  Callees are trusted to be constant-time as units. */
#pragma once
#include "vc_prelude.h"
#ifndef VC_MAXBITS
#define VC_MAXBITS 1024
#endif
#ifndef C20X_EB_OPTB
#define C20X_EB_OPTB RLC_HUGE
#endif
extern size_t g_ev_n; extern int g_ev_bad; extern size_t g_pub_bits;
#define XB_SQR 1
#define XB_MUL 2
#define XB_ADD 3
#define XB_MULN 4
#define XB_SWAP 5
#define XB_ADDD 6
#define XB_RDCN 7
#define XB_SQRL 8
#define XB_MUL1 9
#define XB_ADDN 10
#define XB_ADDDIG 11
#define XB_RAND 12
#define XB_INV 13
#define XB_COPY 14
#define XB_SETDIG 15
#define XB_ISZ 16
#define XB_ZERO 17
#define XB_SWAPN 18
#define XB_NEG 19
#define XB_COPYSEC 20
/* the part that depends on the shape of b: set-up (XB_PB events) and ladder step (XB_SB events) */
#if C20X_EB_OPTB == RLC_ZERO
#define XB_PB 0
#define XB_PBE(j) 0
#define XB_SB 1
#define XB_SBE(j) XB_SQR
#elif C20X_EB_OPTB == RLC_ONE
#define XB_PB 1
#define XB_PBE(j) XB_ADDDIG
#define XB_SB 2
#define XB_SBE(j) ((j) == 0 ? XB_ADD : XB_SQR)
#elif C20X_EB_OPTB == RLC_TINY
#define XB_PB 1
#define XB_PBE(j) XB_ADDDIG
#define XB_SB 5
#define XB_SBE(j) ((j) == 0 ? XB_SQR : (j) == 1 ? XB_SQRL : (j) == 2 ? XB_MUL1 : (j) == 3 ? XB_ADDD : XB_RDCN)
#else
#define XB_PB 1
#define XB_PBE(j) XB_ADDN
#define XB_SB 5
#define XB_SBE(j) ((j) == 0 ? XB_SQR : (j) == 1 ? XB_SQRL : (j) == 2 ? XB_MULN : (j) == 3 ? XB_ADDD : XB_RDCN)
#endif
#define XB_PRE (4 + XB_PB + 5)
#define XB_PREE(k) ((k) <= 1 ? XB_SQR : (k) == 2 ? XB_ZERO : (k) == 3 ? XB_SWAPN : (k) < 4 + XB_PB ? XB_PBE((k) - 4) : \
	((k) - 4 - XB_PB) == 0 || ((k) - 4 - XB_PB) == 2 ? XB_RAND : XB_MUL)
#define XB_STEP (13 + XB_SB + 2)
#define XB_STEPE(j) ((j) <= 1 ? XB_MUL : (j) == 2 ? XB_ADD : (j) == 3 ? XB_MULN : (j) <= 5 ? XB_SWAP : (j) == 6 ? XB_SQR : (j) == 7 ? XB_MULN : (j) == 8 ? XB_ADDD : \
	(j) == 9 ? XB_RDCN : (j) <= 11 ? XB_SQR : (j) == 12 ? XB_MUL : (j) < 13 + XB_SB ? XB_SBE((j) - 13) : XB_SWAP)
#define XB_TAIL (XB_PRE + XB_STEP * g_pub_bits)
#define XB_POST 23
#define XB_POSTE(j) ((j) <= 1 ? XB_ISZ : (j) == 2 || (j) == 3 ? XB_MUL : (j) == 4 ? XB_ADD : (j) == 5 || (j) == 6 ? XB_MUL : (j) == 7 ? XB_ADD : (j) == 8 ? XB_MUL : \
	(j) == 9 ? XB_SQR : (j) == 10 ? XB_ADD : (j) == 11 ? XB_MUL : (j) == 12 ? XB_ADD : (j) == 13 ? XB_MUL : (j) == 14 ? XB_INV : (j) == 15 || (j) == 16 ? XB_MUL : \
	(j) == 17 ? XB_ADD : (j) == 18 ? XB_MUL : (j) == 19 ? XB_ADD : (j) <= 21 ? XB_COPY : XB_SETDIG)
/* branch-free negation: add copysec, then nothing */
#define XB_AFTER(k) ((k) == XB_TAIL + XB_POST ? XB_ADD : (k) == XB_TAIL + XB_POST + 1 ? XB_COPYSEC : 0)
#define XB_TOTAL (XB_TAIL + XB_POST + 2)
#define XB_EXPECT(k) ((k) < XB_PRE ? XB_PREE(k) : (k) < XB_TAIL ? XB_STEPE(((k) - XB_PRE) % XB_STEP) : (k) < XB_TAIL + XB_POST ? XB_POSTE((k) - XB_TAIL) : XB_AFTER(k))
#define XB_LOGGED(ev) (g_ev_n == __CPROVER_old(g_ev_n) + 1 && g_ev_bad == (__CPROVER_old(g_ev_bad) | (XB_EXPECT(__CPROVER_old(g_ev_n)) != (ev))))
#define VC_EB(p) __CPROVER_object_upto(p, sizeof(eb_st))
#define VC_BNF(a) (a)->used, (a)->sign, __CPROVER_object_upto((a)->dp, sizeof((a)->dp))
#define VC_FBV(c) __CPROVER_object_upto(c, RLC_FB_DIGS * sizeof(dig_t))
#define VC_FBD(c) __CPROVER_object_upto(c, 2 * RLC_FB_DIGS * sizeof(dig_t))

#include "vc_spec_push.h"
void fb_sqr_quick_xb(fb_t c, const fb_t a) VC_ASSIGNS(VC_FBV(c), g_ev_n, g_ev_bad) __CPROVER_ensures(XB_LOGGED(XB_SQR));
void fb_mul_lodah_xb(fb_t c, const fb_t a, const fb_t b) VC_ASSIGNS(VC_FBV(c), g_ev_n, g_ev_bad) __CPROVER_ensures(XB_LOGGED(XB_MUL));
void fb_add_xb(fb_t c, const fb_t a, const fb_t b) VC_ASSIGNS(VC_FBV(c), g_ev_n, g_ev_bad) __CPROVER_ensures(XB_LOGGED(XB_ADD));
void fb_add_dig_xb(fb_t c, const fb_t a, dig_t b) VC_ASSIGNS(VC_FBV(c), g_ev_n, g_ev_bad) __CPROVER_ensures(XB_LOGGED(XB_ADDDIG));
void fb_addn_low_xb(dig_t *c, const dig_t *a, const dig_t *b) VC_ASSIGNS(VC_FBV(c), g_ev_n, g_ev_bad) __CPROVER_ensures(XB_LOGGED(XB_ADDN));
void fb_addd_low_xb(dig_t *c, const dig_t *a, const dig_t *b, size_t size)
__CPROVER_requires(size <= 2 * RLC_FB_DIGS)
VC_ASSIGNS(__CPROVER_object_upto(c, size * sizeof(dig_t)), g_ev_n, g_ev_bad) __CPROVER_ensures(XB_LOGGED(XB_ADDD));
void fb_muln_low_xb(dig_t *c, const dig_t *a, const dig_t *b) VC_ASSIGNS(VC_FBD(c), g_ev_n, g_ev_bad) __CPROVER_ensures(XB_LOGGED(XB_MULN));
void fb_sqrl_low_xb(dig_t *c, const dig_t *a) VC_ASSIGNS(VC_FBD(c), g_ev_n, g_ev_bad) __CPROVER_ensures(XB_LOGGED(XB_SQRL));
void fb_mul1_low_xb(dig_t *c, const dig_t *a, dig_t digit) VC_ASSIGNS(__CPROVER_object_upto(c, (RLC_FB_DIGS + 1) * sizeof(dig_t)), g_ev_n, g_ev_bad) __CPROVER_ensures(XB_LOGGED(XB_MUL1));
/* the reduction may use its double-length input as scratch */
void fb_rdcn_low_xb(dig_t *c, dig_t *a) VC_ASSIGNS(VC_FBV(c), VC_FBD(a), g_ev_n, g_ev_bad) __CPROVER_ensures(XB_LOGGED(XB_RDCN));
void fb_rand_xb(fb_t a) VC_ASSIGNS(VC_FBV(a), g_ev_n, g_ev_bad) __CPROVER_ensures(XB_LOGGED(XB_RAND));
void fb_inv_exgcd_xb(fb_t c, const fb_t a) VC_ASSIGNS(VC_FBV(c), g_ev_n, g_ev_bad) __CPROVER_ensures(XB_LOGGED(XB_INV));
void fb_copy_xb(fb_t c, const fb_t a) VC_ASSIGNS(VC_FBV(c), g_ev_n, g_ev_bad) __CPROVER_ensures(XB_LOGGED(XB_COPY));
void fb_set_dig_xb(fb_t c, dig_t a) VC_ASSIGNS(VC_FBV(c), g_ev_n, g_ev_bad) __CPROVER_ensures(XB_LOGGED(XB_SETDIG));
/* pre: the result and its successor are finite */
int fb_is_zero_xb(const fb_t a) VC_ASSIGNS(g_ev_n, g_ev_bad) __CPROVER_ensures(XB_LOGGED(XB_ISZ) && __CPROVER_return_value == 0);
void dv_zero_xb(dig_t *a, size_t digits)
__CPROVER_requires(digits <= RLC_DV_DIGS)
VC_ASSIGNS(__CPROVER_object_upto(a, digits * sizeof(dig_t)), g_ev_n, g_ev_bad) __CPROVER_ensures(XB_LOGGED(XB_ZERO));
/* two uses: the padded scalar against its alternative (bn digits: SWAPN), and the ladder registers (SWAP) */
void dv_swap_sec_xb(dig_t *c, dig_t *a, size_t digits, dig_t bit)
__CPROVER_requires(digits <= RLC_BN_SIZE)
VC_ASSIGNS(__CPROVER_object_upto(c, digits * sizeof(dig_t)), __CPROVER_object_upto(a, digits * sizeof(dig_t)), g_ev_n, g_ev_bad)
__CPROVER_ensures(XB_LOGGED(__CPROVER_old(g_ev_n) == 3 ? XB_SWAPN : XB_SWAP) && (__CPROVER_old(g_ev_n) == 3 || digits == RLC_FB_DIGS));
void eb_neg_projc_xb(eb_t r, const eb_t p) VC_ASSIGNS(VC_EB(r), g_ev_n, g_ev_bad) __CPROVER_ensures(XB_LOGGED(XB_NEG));
/* masked copy: the length is public and must be RLC_FB_DIGS (a different length is an unexpected event); the selector `bit` is secret */
void dv_copy_sec_xb(dig_t *c, const dig_t *a, size_t digits, dig_t bit)
__CPROVER_requires(digits <= RLC_FB_DIGS)
VC_ASSIGNS(__CPROVER_object_upto(c, digits * sizeof(dig_t)), g_ev_n, g_ev_bad)
__CPROVER_ensures(XB_LOGGED(digits == RLC_FB_DIGS ? XB_COPYSEC : 0));
/* not field-level: arbitrary results, exact frames */
void eb_set_infty_xb(eb_t p) VC_ASSIGNS(VC_EB(p));
dig_t *eb_curve_get_b_xb(void) __CPROVER_requires(1) VC_ASSIGNS_NONE __CPROVER_ensures(__CPROVER_is_fresh(__CPROVER_return_value, RLC_FB_DIGS * sizeof(dig_t)));
int eb_curve_opt_b_xb(void) __CPROVER_requires(1) VC_ASSIGNS_NONE __CPROVER_ensures(__CPROVER_return_value == C20X_EB_OPTB);
void eb_curve_get_ord_xb(bn_t n) VC_ASSIGNS(VC_BNF(n)) __CPROVER_ensures(n->used >= 1 && n->used <= RLC_BN_SIZE - 2);
size_t bn_bits_xb(const bn_t a) VC_ASSIGNS_NONE __CPROVER_ensures(__CPROVER_return_value == g_pub_bits);
void bn_abs_xb(bn_t c, const bn_t a) VC_ASSIGNS(VC_BNF(c)) __CPROVER_ensures(c->used >= 1 && c->used <= RLC_BN_SIZE - 2);
void bn_add_xb(bn_t c, const bn_t a, const bn_t b) VC_ASSIGNS(VC_BNF(c)) __CPROVER_ensures(c->used >= 1 && c->used <= RLC_BN_SIZE);
int bn_get_bit_xb(const bn_t a, uint_t bit) VC_ASSIGNS_NONE __CPROVER_ensures(__CPROVER_return_value == 0 || __CPROVER_return_value == 1);
int bn_is_zero_xb(const bn_t a) VC_ASSIGNS_NONE __CPROVER_ensures(__CPROVER_return_value == 0);         /* pre: k != 0 */
/* the sign is secret: unconstrained verdict */
int bn_sign_xb(const bn_t a) VC_ASSIGNS_NONE __CPROVER_ensures(__CPROVER_return_value == RLC_POS || __CPROVER_return_value == RLC_NEG);

void eb_mul_lodah(eb_t r, const eb_t p, const bn_t k)
__CPROVER_requires(__CPROVER_is_fresh(r, sizeof(eb_st)) && __CPROVER_is_fresh(p, sizeof(eb_st)) && __CPROVER_is_fresh(k, sizeof(bn_st)))
__CPROVER_requires(g_pub_bits >= 1 && g_pub_bits <= VC_MAXBITS && g_ev_n == 0 && g_ev_bad == 0)
VC_ASSIGNS(VC_EB(r), g_ev_n, g_ev_bad, g_ctx.code, g_ctx.last, g_ctx.caught, g_ctx.error, g_ctx.number, g_thrown)
__CPROVER_ensures(g_ev_bad == 0 && g_ev_n == XB_TOTAL)
__CPROVER_ensures(g_ctx.last == __CPROVER_old(g_ctx.last))
;
#include "vc_spec_pop.h"

#define VC_LOOP_eb_mul_lodah_0 \
	__CPROVER_assigns(i, __CPROVER_object_whole(x1), __CPROVER_object_whole(z1), __CPROVER_object_whole(x2), __CPROVER_object_whole(z2), __CPROVER_object_whole(r1), \
		__CPROVER_object_whole(r2), __CPROVER_object_whole(r3), __CPROVER_object_whole(r4), __CPROVER_object_whole(r5), g_ev_n, g_ev_bad) \
	__CPROVER_loop_invariant(i >= -1 && i <= (int)bits - 1 && bits == g_pub_bits && g_ev_bad == 0 && g_ev_n == XB_PRE + XB_STEP * (bits - 1 - (size_t)i)) \
	__CPROVER_decreases(i + 1)
/* the same facts as ghost assertions at the loop (woven): a deviation in the set-up or inside one ladder step is reported as a function-level
   obligation of eb_mul_lodah itself, not only as a broken invariant */
#define VC_PRE_eb_mul_lodah_0 __CPROVER_assert(g_ev_bad == 0 && g_ev_n == XB_PRE && bits == g_pub_bits, "C20 public trace: set-up of eb_mul_lodah");
#define VC_END_eb_mul_lodah_0 __CPROVER_assert(g_ev_bad == 0 && g_ev_n == XB_PRE + XB_STEP * (bits - (size_t)i), "C20 public trace: one ladder step of eb_mul_lodah is the public field-operation sequence");
