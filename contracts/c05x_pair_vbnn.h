/* vBNN-IBS (Cao, Kou, Dang, Zhao 2008) verification: sigma = (R, z, h); c = H1(ID || R); Z = [z]P - [h](R + [c]P0); accept iff h == H2(ID || m || R || Z) mod n.
   Included by c05x_pair.h (inside vc_spec_push/pop).  tracked: 0 r (the point R), 1 z, 2 h, 3 mpk (P0) */
extern const void *__CPROVER_alloca_object;
extern size_t g_szr, g_szo;      /* ghost: encoded size of R resp. of any other point; arbitrary in 1..33, fixed for the call */
size_t ep_size_bin_c5(const ep_t a, int pack) VC_ASSIGNS_NONE
__CPROVER_ensures(__CPROVER_return_value == (C5_P(a) == g_t[0] ? g_szr : g_szo));
void ep_write_bin_c5(uint8_t *bin, size_t len, const ep_t a, int pack)
__CPROVER_requires(len <= 33 && __CPROVER_is_fresh(bin, len))
VC_ASSIGNS(__CPROVER_object_upto(bin, len), g_wr_calls, __CPROVER_object_whole(g_cpy))
__CPROVER_ensures(g_wr_calls == __CPROVER_old(g_wr_calls) + 1 && C5_CNT(g_cpy, a));      /* g_cpy[0]: how often R was serialised into a hash input */

int cp_vbnn_ver(const ec_t r, const bn_t z, const bn_t h, const uint8_t *id, size_t id_len, const uint8_t *msg, int msg_len, const ec_t mpk)
__CPROVER_requires(__CPROVER_is_fresh(r, sizeof(ep_st)) && __CPROVER_is_fresh(z, sizeof(bn_st)) && __CPROVER_is_fresh(h, sizeof(bn_st)) && __CPROVER_is_fresh(mpk, sizeof(ep_st)))
__CPROVER_requires(id_len <= 8 && msg_len >= 0 && msg_len <= 8 && __CPROVER_is_fresh(id, id_len) && __CPROVER_is_fresh(msg, msg_len) && g_szr >= 1 && g_szr <= 33 && g_szo >= 1 && g_szo <= 33)
#ifdef C05X_WITHOUT_SIGVALID
/* R is never validated, and the scratch buffer is sized as id_len + msg_len + 2 * |R| although it receives R and the recomputed point Z: for R = identity
   (1 byte) and Z finite (33 bytes) the write of Z overruns the buffer (findings/c05y_vbnn_identity_r_overflow.c; the strict unit reports it as the failed
   preconditions of ep_write_bin / md_map and the failed frame).  The reading "only the guards the code has" excludes that case: no point is longer than R */
__CPROVER_requires(g_szo <= g_szr)
#endif
__CPROVER_requires(C5_BIND(r, z, h, mpk, NULL, NULL, NULL, NULL, NULL, NULL, NULL, NULL) && C5_INIT)
VC_ASSIGNS(C5_GHOST, __CPROVER_alloca_object)
__CPROVER_ensures(C5_BOOL(__CPROVER_return_value))
/* the decision: h compared equal, once, with the second hash value reduced modulo the group order (this also confines h to 0 <= h < n: the
   comparison is of signed values against a reduced one); two hashes, both read over the full digest and reduced modulo the order */
__CPROVER_ensures(C5_ACC ==> (g_cmp_calls == 1 && g_cmp == RLC_EQ && (g_cmp_a == C5_P(h) && g_cmp_b == g_mod_c || g_cmp_b == C5_P(h) && g_cmp_a == g_mod_c) && g_mod_m == g_ord_n && g_ord_n != 0 && \
	g_mod_a == g_read_a && g_md_calls == 2 && g_read_calls == 2 && g_mod_calls == 2 && g_read_len == (size_t)RLC_MD_LEN && g_read_bin == g_md_out && \
	g_md_len == id_len + (size_t)msg_len + g_szr + g_szo))
/* data flow: [z]P once; P0 and h each enter one multiplication; R is added; Z = [z]P - [h](...) normalised; R serialised three times (sizes aside), Z once */
__CPROVER_ensures(C5_ACC ==> (g_mulgen_calls == 1 && g_mulgen_k == C5_P(z) && g_mul_calls == 2 && g_mulb[3] == 1 && g_mulb[2] == 1 && g_mulb[0] == 0 && g_add_calls == 1 && \
	(g_add_p == C5_P(r) || g_add_q == C5_P(r)) && g_mul_k == C5_P(h) && g_sub_p == g_mulgen_r && g_sub_q == g_mul_r && g_norm_p == g_sub_r && g_cpy[0] == 2 && g_wr_calls == 3))
#ifndef C05X_WITHOUT_SIGVALID
/* R is a point of the curve and not the identity */
__CPROVER_ensures(C5_ACC ==> C5_WF(0))
#endif
#ifndef C05X_WITHOUT_ZRANGE
/* 0 <= z < n: otherwise (R, z + n, h) is a second accepted signature */
__CPROVER_ensures(C5_ACC ==> (g_sgn[1] == RLC_POS && g_cmpn[1] == RLC_LT))
#endif
#ifndef C05X_WITHOUT_KEYVALID
/* the master public key is a point of the curve and not the identity */
__CPROVER_ensures(C5_ACC ==> C5_WF(3))
#endif
__CPROVER_ensures(g_ctx.last == __CPROVER_old(g_ctx.last))
C5_VAC
;
