/* RSA decryption cp_rsa_dec (property C06, last sentence: "Ciphertexts with invalid padding, wrong length or failed
   authentication are rejected with an error rather than returning data").

   RLC_OK IMPLIES: the ciphertext has exactly the length of the modulus (RFC 8017 7.1.2 / 7.2.2 step 1), the ciphertext
   representative was read from the whole ciphertext buffer once, was compared with the modulus and found smaller BEFORE the
   exponentiation (RSADP step 1; clause (3), the only one the code does not implement: switch C06X_NO_RANGE), exactly one private-key
   exponentiation ran on it with the key's own exponents and moduli (CRT form, sqr = 0), the padding checker of the configured
   scheme ran exactly once on that result with the DECRYPT operation and the modulus length and returned RLC_OK, the message
   length k - pad_len it reported fits the caller's buffer, *out_len is that length and the bytes out[0 .. *out_len) are the
   bytes the writer produced from the checker's output; bytes beyond are untouched.
   NOT RLC_OK IMPLIES: the result is RLC_ERR, *out_len is unchanged (not a plaintext length) and NO byte of out was written
   (padding error, wrong length and buffer-too-small alike).

   Every callee is an ABSTRACT contract: exact frame, arbitrary verdict, identity of the arguments recorded in ghost state.
   Nothing is claimed about the exponentiation or - in this unit - the padding parser (pad_pkcs1 RSA_DEC: c06x_rsa_pad.h).

   Configuration: shipped CP_RSAPD=PKCS2 (OAEP), CP_CRT on.  -DC06X_RSAPD=PKCS1 / BASIC re-selects the cmake option CP_RSAPD for
   this translation unit (the macro is used in relic_cp_rsa.c only), as the c05x units do. */
#pragma once
#include "vc_prelude.h"

#ifdef C06X_RSAPD
#undef CP_RSAPD
#define CP_RSAPD C06X_RSAPD
#endif

extern const void *__CPROVER_alloca_object;

typedef unsigned long long c6_id;
#define C6_ID(p)  ((((c6_id)__CPROVER_POINTER_OBJECT(p)) << 40) + (c6_id)__CPROVER_POINTER_OFFSET(p))

#ifndef C06X_MAXOUT
#define C06X_MAXOUT 80          /* capacity of the caller's plaintext buffer (bound of the memset loop) */
#endif
#define C06X_MAXIN  300         /* ciphertext lengths 0..300: below, equal to and above every admissible modulus length (<= 272) */
#define C06X_RSA_DEC 2
#if CP_RSAPD == PKCS1
#define C06X_PADLEN 11
#elif CP_RSAPD == PKCS2
#define C06X_PADLEN (2 * RLC_MD_LEN + 2)
#else
#define C06X_PADLEN 2
#endif

/* ---- ghost state -------------------------------------------------------------------------------------------------------- */
extern c6_id g_dx_in, g_dx_out, g_dx_n, g_dx_dp, g_dx_dq, g_dx_crt;   /* identities of the arguments, bound by the precondition */
extern size_t g_dx_inlen, g_dx_cap;
extern size_t g_dx_k;                           /* byte length of the modulus (answer of bn_size_bin on the modulus) */
extern c6_id g_dx_eb;                           /* the bn object that received the ciphertext representative */
extern int g_dx_seq;
extern int g_dx_rd_calls, g_dx_rd_ok, g_dx_rd_seq;
extern int g_dx_cmpn, g_dx_cmpn_seq;
extern int g_dx_mxp_calls, g_dx_mxp_ok, g_dx_mxp_seq;
extern int g_dx_pad_calls, g_dx_pad_ok, g_dx_pad_ret, g_dx_pad_op, g_dx_pad_seq;
extern size_t g_dx_pad_k, g_dx_pad_plen;
extern int g_dx_wr_calls, g_dx_wr_ok, g_dx_wr_seq;
extern size_t g_dx_wr_len;
extern uint8_t g_dx_W[C06X_MAXOUT];             /* witness: the bytes the writer produces from the padding checker's output */

#define VC_UNASKED (-9)
#define VC_BNP(p)    __CPROVER_is_fresh(p, sizeof(bn_st))
#define VC_BN_ANY(a) ((a)->alloc == RLC_BN_SIZE && (a)->used >= 1 && (a)->used <= RLC_BN_SIZE)

#include "vc_spec_push.h"
/* ---- abstract callees --------------------------------------------------------------------------------------------------- */
/* only ever asked about the modulus */
size_t bn_size_bin_g(const bn_t a)
__CPROVER_requires(C6_ID(a) == g_dx_n)
VC_ASSIGNS_NONE
__CPROVER_ensures(__CPROVER_return_value == g_dx_k)
;
void bn_read_bin_g(bn_t a, const uint8_t *bin, size_t len)
__CPROVER_requires(VC_BNP(a) && a->alloc == RLC_BN_SIZE && len <= RLC_BN_SIZE * (RLC_DIG / 8) && __CPROVER_is_fresh(bin, len))
VC_ASSIGNS(a->used, a->sign, __CPROVER_object_upto(a->dp, sizeof(a->dp)), g_dx_eb, g_dx_rd_calls, g_dx_rd_ok, g_dx_rd_seq, g_dx_seq)
__CPROVER_ensures(VC_BN_ANY(a) && a->sign == RLC_POS)
__CPROVER_ensures(g_dx_seq == __CPROVER_old(g_dx_seq) + 1 && g_dx_rd_seq == g_dx_seq && g_dx_rd_calls == __CPROVER_old(g_dx_rd_calls) + 1)
__CPROVER_ensures(g_dx_eb == C6_ID(a) && g_dx_rd_ok == (C6_ID(bin) == g_dx_in && len == g_dx_inlen))
;
/* range check: the verdict counts only if it is about (ciphertext representative, modulus), after the read, before the exponentiation */
int bn_cmp_g(const bn_t a, const bn_t b)
__CPROVER_requires(VC_BNP(a) && VC_BNP(b))
VC_ASSIGNS(g_dx_cmpn, g_dx_cmpn_seq, g_dx_seq)
__CPROVER_ensures(__CPROVER_return_value == RLC_LT || __CPROVER_return_value == RLC_EQ || __CPROVER_return_value == RLC_GT)
__CPROVER_ensures(g_dx_seq == __CPROVER_old(g_dx_seq) + 1)
__CPROVER_ensures((C6_ID(a) == g_dx_eb && C6_ID(b) == g_dx_n && g_dx_rd_calls == 1 && g_dx_mxp_calls == 0) ? \
	(g_dx_cmpn == __CPROVER_return_value && g_dx_cmpn_seq == g_dx_seq) : (g_dx_cmpn == __CPROVER_old(g_dx_cmpn) && g_dx_cmpn_seq == __CPROVER_old(g_dx_cmpn_seq)))
;
/* the private-key operation (CP_CRT): d = a^(b, c) modulo the moduli of crt */
void bn_mxp_crt_g(bn_t d, const bn_t a, const bn_t b, const bn_t c, const crt_t crt, int sqr)
__CPROVER_requires(VC_BNP(a) && __CPROVER_pointer_equals(d, a) && VC_BNP(b) && VC_BNP(c))
VC_ASSIGNS(d->used, d->sign, __CPROVER_object_upto(d->dp, sizeof(d->dp)), g_dx_mxp_calls, g_dx_mxp_ok, g_dx_mxp_seq, g_dx_seq)
__CPROVER_ensures(VC_BN_ANY(d))
__CPROVER_ensures(g_dx_seq == __CPROVER_old(g_dx_seq) + 1 && g_dx_mxp_seq == g_dx_seq && g_dx_mxp_calls == __CPROVER_old(g_dx_mxp_calls) + 1)
__CPROVER_ensures(g_dx_mxp_ok == (C6_ID(a) == g_dx_eb && C6_ID(b) == g_dx_dp && C6_ID(c) == g_dx_dq && C6_ID(crt) == g_dx_crt && sqr == 0 && g_dx_rd_calls == 1))
;
/* the same for a library configured without CP_CRT: c = a^b mod m with the key's d and n (not used by the shipped configuration) */
void bn_mxp_slide_g(bn_t c, const bn_t a, const bn_t b, const bn_t m)
__CPROVER_requires(VC_BNP(a) && __CPROVER_pointer_equals(c, a) && VC_BNP(b) && VC_BNP(m))
VC_ASSIGNS(c->used, c->sign, __CPROVER_object_upto(c->dp, sizeof(c->dp)), g_dx_mxp_calls, g_dx_mxp_ok, g_dx_mxp_seq, g_dx_seq)
__CPROVER_ensures(VC_BN_ANY(c))
__CPROVER_ensures(g_dx_seq == __CPROVER_old(g_dx_seq) + 1 && g_dx_mxp_seq == g_dx_seq && g_dx_mxp_calls == __CPROVER_old(g_dx_mxp_calls) + 1)
__CPROVER_ensures(g_dx_mxp_ok == 0)
;
/* the padding checker of the configured scheme (static in relic_cp_rsa.c).  Precondition (checked at the call): the DECRYPT
   operation, the encoded-message length is the modulus length k (RFC 8017 7.1.2 / 7.2.2: EM has k octets).  Verdict arbitrary;
   on RLC_OK the number of removed bytes is in [1, k]. */
int c06x_pad_g(bn_t m, size_t *p_len, size_t m_len, size_t k_len, int operation)
__CPROVER_requires(VC_BNP(m) && __CPROVER_is_fresh(p_len, sizeof(size_t)))
__CPROVER_requires(operation == C06X_RSA_DEC)
__CPROVER_requires(k_len == g_dx_k && k_len >= C06X_PADLEN)
VC_ASSIGNS(m->used, m->sign, __CPROVER_object_upto(m->dp, sizeof(m->dp)), *p_len, g_dx_pad_calls, g_dx_pad_ok, g_dx_pad_ret, g_dx_pad_op, g_dx_pad_seq, g_dx_pad_k, g_dx_pad_plen, g_dx_seq)
__CPROVER_ensures(__CPROVER_return_value == RLC_OK || __CPROVER_return_value == RLC_ERR)
__CPROVER_ensures(VC_BN_ANY(m))
__CPROVER_ensures(__CPROVER_return_value == RLC_OK ==> (*p_len >= 1 && *p_len <= k_len))
__CPROVER_ensures(g_dx_seq == __CPROVER_old(g_dx_seq) + 1 && g_dx_pad_seq == g_dx_seq && g_dx_pad_calls == __CPROVER_old(g_dx_pad_calls) + 1)
__CPROVER_ensures(g_dx_pad_ret == __CPROVER_return_value && g_dx_pad_op == operation && g_dx_pad_k == k_len && g_dx_pad_plen == *p_len)
__CPROVER_ensures(g_dx_pad_ok == (C6_ID(m) == g_dx_eb && g_dx_mxp_calls == 1 && g_dx_mxp_ok == 1))
;
/* writes the plaintext: the witness bytes g_dx_W if (and only then) the source is the accepted output of the padding checker and
   the destination is the caller's buffer; otherwise arbitrary bytes.  Constant-size frame (brief, lessons): the destination
   must have room for len bytes (precondition), the contract may write the whole caller buffer - that the bytes from len on
   keep their value is a separate clause. */
void bn_write_bin_g(uint8_t *bin, size_t len, const bn_t a)
__CPROVER_requires(len <= C06X_MAXOUT && __CPROVER_is_fresh(bin, len) && VC_BNP(a))
__CPROVER_requires(gk < C06X_MAXOUT)
VC_ASSIGNS(__CPROVER_object_upto(bin, len), g_dx_wr_calls, g_dx_wr_ok, g_dx_wr_seq, g_dx_wr_len, g_dx_seq)
__CPROVER_ensures(g_dx_seq == __CPROVER_old(g_dx_seq) + 1 && g_dx_wr_seq == g_dx_seq && g_dx_wr_calls == __CPROVER_old(g_dx_wr_calls) + 1 && g_dx_wr_len == len)
__CPROVER_ensures(g_dx_wr_ok == (C6_ID(bin) == g_dx_out && C6_ID(a) == g_dx_eb && g_dx_pad_calls == 1 && g_dx_pad_ok == 1 && g_dx_pad_ret == RLC_OK))
__CPROVER_ensures((g_dx_wr_ok && gk < len) ==> bin[gk] == g_dx_W[gk])
;

/* ---- the decryption ------------------------------------------------------------------------------------------------------- */
#define C06X_PRV_N(prv) ((prv)->crt->n)
#define C06X_OK (__CPROVER_return_value == RLC_OK)
int cp_rsa_dec(uint8_t *out, size_t *out_len, const uint8_t *in, size_t in_len, const rsa_t prv)
__CPROVER_requires(__CPROVER_is_fresh(prv, sizeof(_rsa_st)) && VC_BN_ANY(C06X_PRV_N(prv)) && VC_BN_ANY(prv->crt->dp) && VC_BN_ANY(prv->crt->dq) && VC_BN_ANY(prv->d))
__CPROVER_requires(in_len <= C06X_MAXIN && __CPROVER_is_fresh(in, in_len))
__CPROVER_requires(__CPROVER_is_fresh(out_len, sizeof(size_t)) && *out_len <= C06X_MAXOUT && __CPROVER_is_fresh(out, *out_len))
__CPROVER_requires(gk < C06X_MAXOUT && (gk < *out_len ==> out[gk] == g_byte0))
__CPROVER_requires(g_dx_in == C6_ID(in) && g_dx_inlen == in_len && g_dx_out == C6_ID(out) && g_dx_cap == *out_len && g_dx_n == C6_ID(C06X_PRV_N(prv)) && \
	g_dx_dp == C6_ID(prv->crt->dp) && g_dx_dq == C6_ID(prv->crt->dq) && g_dx_crt == C6_ID(prv->crt))
__CPROVER_requires(g_dx_k >= 1 && g_dx_k <= RLC_BN_SIZE * (RLC_DIG / 8))
__CPROVER_requires(g_dx_eb == 0 && g_dx_seq == 0 && g_dx_rd_calls == 0 && g_dx_rd_ok == 0 && g_dx_rd_seq == 0 && g_dx_cmpn == VC_UNASKED && g_dx_cmpn_seq == 0 && \
	g_dx_mxp_calls == 0 && g_dx_mxp_ok == 0 && g_dx_mxp_seq == 0 && g_dx_pad_calls == 0 && g_dx_pad_ok == 0 && g_dx_pad_ret == VC_UNASKED && g_dx_pad_seq == 0 && \
	g_dx_pad_plen == 0 && g_dx_wr_calls == 0 && g_dx_wr_ok == 0 && g_dx_wr_seq == 0 && g_dx_wr_len == 0)
VC_ASSIGNS(__CPROVER_object_whole(out), *out_len, g_dx_eb, g_dx_seq, g_dx_rd_calls, g_dx_rd_ok, g_dx_rd_seq, g_dx_cmpn, g_dx_cmpn_seq, g_dx_mxp_calls, g_dx_mxp_ok, g_dx_mxp_seq, \
	g_dx_pad_calls, g_dx_pad_ok, g_dx_pad_ret, g_dx_pad_op, g_dx_pad_seq, g_dx_pad_k, g_dx_pad_plen, g_dx_wr_calls, g_dx_wr_ok, g_dx_wr_seq, g_dx_wr_len, \
	g_ctx.code, g_ctx.last, g_ctx.caught, g_ctx.error, g_ctx.number, g_thrown)
__CPROVER_ensures(__CPROVER_return_value == RLC_OK || __CPROVER_return_value == RLC_ERR)
/* (1) wrong length: the ciphertext is exactly as long as the modulus, and long enough for the scheme */
__CPROVER_ensures(C06X_OK ==> (in_len == g_dx_k && in_len >= C06X_PADLEN))
/* (2) the whole ciphertext buffer was converted, once */
__CPROVER_ensures(C06X_OK ==> (g_dx_rd_calls == 1 && g_dx_rd_ok == 1))
/* (3) range: the ciphertext representative was compared with the modulus before the exponentiation and is smaller (RSADP step 1) */
#ifndef C06X_NO_RANGE
__CPROVER_ensures(C06X_OK ==> (g_dx_cmpn == RLC_LT && g_dx_rd_seq < g_dx_cmpn_seq && g_dx_cmpn_seq < g_dx_mxp_seq))
#endif
/* (4) exactly one private-key exponentiation on the value read, with the key's own exponents and moduli */
__CPROVER_ensures(C06X_OK ==> (g_dx_mxp_calls == 1 && g_dx_mxp_ok == 1 && g_dx_rd_seq < g_dx_mxp_seq))
/* (5) invalid padding: the checker ran once, on that result, as the DECRYPT operation over the modulus length, and accepted */
__CPROVER_ensures(C06X_OK ==> (g_dx_pad_calls == 1 && g_dx_pad_ok == 1 && g_dx_pad_ret == RLC_OK && g_dx_pad_op == C06X_RSA_DEC && g_dx_pad_k == g_dx_k && g_dx_mxp_seq < g_dx_pad_seq))
/* (6) the plaintext length is what the checker reported, fits the caller's buffer, and was written once from the checker's output afterwards */
__CPROVER_ensures(C06X_OK ==> (*out_len == g_dx_k - g_dx_pad_plen && *out_len <= __CPROVER_old(*out_len)))
__CPROVER_ensures(C06X_OK ==> (g_dx_wr_calls == 1 && g_dx_wr_ok == 1 && g_dx_wr_len == *out_len && g_dx_pad_seq < g_dx_wr_seq))
/* (7) the plaintext bytes are the writer's, the rest of the buffer is untouched */
__CPROVER_ensures((C06X_OK && gk < *out_len) ==> out[gk] == g_dx_W[gk])
__CPROVER_ensures((C06X_OK && gk >= *out_len && gk < __CPROVER_old(*out_len)) ==> out[gk] == g_byte0)
/* (8) rejection: an error is returned, *out_len is not a plaintext length (unchanged), no byte of the caller's buffer is written and the writer never ran */
__CPROVER_ensures(!C06X_OK ==> (*out_len == __CPROVER_old(*out_len) && g_dx_wr_calls == 0 && (gk < *out_len ==> out[gk] == g_byte0)))
/* (9) wrong length is decided before anything else: no read, no private-key operation */
__CPROVER_ensures((in_len != g_dx_k || in_len < C06X_PADLEN) ==> (!C06X_OK && g_dx_rd_calls == 0 && g_dx_mxp_calls == 0 && g_dx_pad_calls == 0))
/* (10) a padding error or a too small buffer is an error (the converse of (5)/(6) on the paths that got that far) */
__CPROVER_ensures((g_dx_pad_calls == 1 && (g_dx_pad_ret != RLC_OK || g_dx_k - g_dx_pad_plen > __CPROVER_old(*out_len))) ==> !C06X_OK)
__CPROVER_ensures(g_ctx.last == __CPROVER_old(g_ctx.last))
;
#include "vc_spec_pop.h"
