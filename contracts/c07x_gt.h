/* Codecs of the extension tower used for the target group (fp6 / fp12; gt_read_bin, gt_write_bin, gt_size_bin are macros for the fp12
   functions in the shipped configuration).  Property C07 (structure/guard half), C08.  Every callee abstract. */
#pragma once
#include "c07x_ep2.h"
extern int g_d2_rmask, g_d2_zmask, g_d2_bc_calls, g_d2_bc_ok, g_d2_wmask;
#define VC_F2(k) ((const void *)((const fp2_t *)g_d2_dst)[k])        /* k-th quadratic coefficient of the object (fp6: 0..2, fp12: 3*i+j) */
#define VC_F6(k) ((const void *)((const fp6_t *)g_d2_dst)[k])
#define VC_AT(off) ((const void *)((const uint8_t *)g_d2_bin0 + (off)))
/* the length fp12_size_bin advertises, as a function of the compression request and the unitarity verdict; used by the contracts of
   fp12_size_bin AND fp12_write_bin */
#define VC_FP12_ADV(pack, cyc) (((pack) && (cyc) == 1) ? 8 * VC_B : 12 * VC_B)

#include "vc_spec_push.h"
#ifdef VC_C07X_FP6R
void fp2_read_bin_s(fp2_t a, const uint8_t *bin, size_t len)
__CPROVER_requires(__CPROVER_is_fresh(bin, len) && len == 2 * VC_B)
VC_ASSIGNS(__CPROVER_object_upto(a, sizeof(fp2_t)), g_d2_rmask, g_d2_rcalls, g_d2_cal_err, g_ctx.code)
__CPROVER_ensures(g_d2_rcalls == __CPROVER_old(g_d2_rcalls) + 1 && VC_ERRFLOW(g_d2_cal_err))
__CPROVER_ensures(g_d2_rmask == (__CPROVER_old(g_d2_rmask) | (((const void *)a == VC_F2(0) && (const void *)bin == VC_AT(0)) ? 1 : 0) | (((const void *)a == VC_F2(1) && (const void *)bin == VC_AT(2 * VC_B)) ? 2 : 0) \
	| (((const void *)a == VC_F2(2) && (const void *)bin == VC_AT(4 * VC_B)) ? 4 : 0)));
/* sextic-extension element: exactly 6B bytes (else error, output untouched); the three quadratic coefficients through the F_p^2 decoder
   at offsets 0, 2B, 4B with the uncompressed length 2B; exactly three decodings; no error of its own */
void fp6_read_bin(fp6_t a, const uint8_t *bin, size_t len)
__CPROVER_requires(len <= 6 * VC_B + 2 && __CPROVER_is_fresh(a, sizeof(fp6_t)) && __CPROVER_is_fresh(bin, len))
__CPROVER_requires(g_may_throw == 1 && g_ctx.code == RLC_OK && g_d2_bin0 == bin && g_d2_dst == (const void *)a && g_d2_rmask == 0 && g_d2_rcalls == 0 && g_d2_cal_err == 0)
__CPROVER_requires(gk < 6 * RLC_FP_DIGS ==> ((const dig_t *)a)[gk] == g_dig0)
VC_ASSIGNS(__CPROVER_object_upto(a, sizeof(fp6_t)), g_d2_rmask, g_d2_rcalls, g_d2_cal_err, g_ctx.code, g_ctx.last, g_ctx.caught, g_ctx.error, g_ctx.number, g_thrown)
__CPROVER_ensures(g_ctx.code == RLC_OK || g_ctx.code == RLC_ERR)
__CPROVER_ensures(len != 6 * VC_B ==> (g_ctx.code == RLC_ERR && g_d2_rcalls == 0 && (gk < 6 * RLC_FP_DIGS ==> ((const dig_t *)a)[gk] == g_dig0)))
__CPROVER_ensures(len == 6 * VC_B ==> (g_d2_rmask == 7 && g_d2_rcalls == 3))
__CPROVER_ensures((len == 6 * VC_B && g_d2_cal_err == 0) ==> g_ctx.code == RLC_OK)
;
#endif

#ifdef VC_C07X_FP12R
#define VC_RD12(k, off) (((const void *)a == VC_F2(k) && (const void *)bin == VC_AT(off)) ? (1 << (k)) : 0)
/* every callee that writes to the object resets the membership verdict: a verdict that survives was given after the last write */
void fp2_zero_t(fp2_t a) VC_ASSIGNS(__CPROVER_object_upto(a, sizeof(fp2_t)), g_d2_zmask, g_d2_cyc)
__CPROVER_ensures(g_d2_cyc == VC_UNASKED && g_d2_zmask == (__CPROVER_old(g_d2_zmask) | ((const void *)a == VC_F2(0) ? 1 : 0) | ((const void *)a == VC_F2(4) ? 16 : 0) | (((const void *)a != VC_F2(0) && (const void *)a != VC_F2(4)) ? 64 : 0)));
void fp2_read_bin_t(fp2_t a, const uint8_t *bin, size_t len)
__CPROVER_requires(__CPROVER_is_fresh(bin, len) && len == 2 * VC_B)
VC_ASSIGNS(__CPROVER_object_upto(a, sizeof(fp2_t)), g_d2_rmask, g_d2_rcalls, g_d2_cal_err, g_d2_cyc, g_ctx.code)
__CPROVER_ensures(g_d2_rcalls == __CPROVER_old(g_d2_rcalls) + 1 && g_d2_cyc == VC_UNASKED && VC_ERRFLOW(g_d2_cal_err))
__CPROVER_ensures(g_d2_rmask == (__CPROVER_old(g_d2_rmask) | VC_RD12(1, 0) | VC_RD12(2, 2 * VC_B) | VC_RD12(3, 4 * VC_B) | VC_RD12(5, 6 * VC_B)));
void fp6_read_bin_t(fp6_t a, const uint8_t *bin, size_t len)
__CPROVER_requires(__CPROVER_is_fresh(bin, len) && len == 6 * VC_B)
VC_ASSIGNS(__CPROVER_object_upto(a, sizeof(fp6_t)), g_d2_rx, g_d2_ry, g_d2_wcalls, g_d2_cal_err, g_d2_cyc, g_ctx.code)
__CPROVER_ensures(g_d2_wcalls == __CPROVER_old(g_d2_wcalls) + 1 && g_d2_cyc == VC_UNASKED && VC_ERRFLOW(g_d2_cal_err))
__CPROVER_ensures(g_d2_rx == (((const void *)a == VC_F6(0) && (const void *)bin == VC_AT(0)) ? 1 : __CPROVER_old(g_d2_rx)))
__CPROVER_ensures(g_d2_ry == (((const void *)a == VC_F6(1) && (const void *)bin == VC_AT(6 * VC_B)) ? 1 : __CPROVER_old(g_d2_ry)));
void fp12_back_cyc_t(fp12_t c, const fp12_t a) VC_ASSIGNS(__CPROVER_object_upto(c, sizeof(fp12_t)), g_d2_bc_calls, g_d2_bc_ok, g_d2_cal_err, g_d2_cyc, g_ctx.code)
__CPROVER_ensures(g_d2_bc_calls == __CPROVER_old(g_d2_bc_calls) + 1 && g_d2_cyc == VC_UNASKED && VC_ERRFLOW(g_d2_cal_err))
__CPROVER_ensures(g_d2_bc_ok == ((const void *)c == g_d2_dst && (const void *)a == g_d2_dst && g_d2_rmask == 46 && g_d2_rcalls == 4 && g_d2_zmask == 17));
int fp12_test_cyc_t(const fp12_t a) VC_ASSIGNS(g_d2_cyc, g_d2_cyc_calls)
__CPROVER_ensures((__CPROVER_return_value == 0 || __CPROVER_return_value == 1) && g_d2_cyc_calls == __CPROVER_old(g_d2_cyc_calls) + 1)
__CPROVER_ensures(g_d2_cyc == (((const void *)a == g_d2_dst && g_d2_bc_calls == 1 && g_d2_bc_ok == 1) ? __CPROVER_return_value : 2));

/* dodecic-extension / target-group element: 12B bytes = the two sextic halves through the F_p^6 decoder at offsets 0 and 6B (exactly
   two decodings, nothing else); 8B bytes (compressed unitary element) = coefficients [0][0] and [1][1] cleared, [0][1], [0][2], [1][0],
   [1][2] through the F_p^2 decoder at offsets 0, 2B, 4B, 6B (2B bytes each, exactly four decodings), then decompressed in place exactly
   once, after all of that; no error reported ==> membership in the cyclotomic subgroup was tested once, on THE RESULT OBJECT, after
   the last write to it, and the test returned true; any other length: error and the output is untouched; no error of its own
   otherwise. */
void fp12_read_bin(fp12_t a, const uint8_t *bin, size_t len)
__CPROVER_requires(len <= 12 * VC_B + 2 && __CPROVER_is_fresh(a, sizeof(fp12_t)) && __CPROVER_is_fresh(bin, len))
__CPROVER_requires(g_may_throw == 1 && g_ctx.code == RLC_OK && g_d2_bin0 == bin && g_d2_dst == (const void *)a && g_d2_rmask == 0 && g_d2_zmask == 0 && g_d2_rcalls == 0 && g_d2_wcalls == 0 && g_d2_rx == 0 && g_d2_ry == 0 \
	&& g_d2_bc_calls == 0 && g_d2_bc_ok == 0 && g_d2_cal_err == 0 && g_d2_cyc == VC_UNASKED && g_d2_cyc_calls == 0)
__CPROVER_requires(gk < 12 * RLC_FP_DIGS ==> ((const dig_t *)a)[gk] == g_dig0)
VC_ASSIGNS(__CPROVER_object_upto(a, sizeof(fp12_t)), g_d2_rmask, g_d2_zmask, g_d2_rcalls, g_d2_wcalls, g_d2_rx, g_d2_ry, g_d2_bc_calls, g_d2_bc_ok, g_d2_cal_err, g_d2_cyc, g_d2_cyc_calls, \
	g_ctx.code, g_ctx.last, g_ctx.caught, g_ctx.error, g_ctx.number, g_thrown)
__CPROVER_ensures(g_ctx.code == RLC_OK || g_ctx.code == RLC_ERR)
__CPROVER_ensures((len != 8 * VC_B && len != 12 * VC_B) ==> (g_ctx.code == RLC_ERR && g_d2_rcalls == 0 && g_d2_wcalls == 0 && g_d2_zmask == 0 && g_d2_bc_calls == 0 && g_d2_cyc_calls == 0 && (gk < 12 * RLC_FP_DIGS ==> ((const dig_t *)a)[gk] == g_dig0)))
__CPROVER_ensures(len == 12 * VC_B ==> (g_d2_rx == 1 && g_d2_ry == 1 && g_d2_wcalls == 2 && g_d2_rcalls == 0 && g_d2_zmask == 0 && g_d2_bc_calls == 0 && g_d2_cyc_calls == 0))
__CPROVER_ensures(len == 8 * VC_B ==> (g_d2_rmask == 46 && g_d2_rcalls == 4 && g_d2_zmask == 17 && g_d2_bc_calls == 1 && g_d2_bc_ok == 1 && g_d2_wcalls == 0))
/* the property's clause */
__CPROVER_ensures((g_ctx.code == RLC_OK && len == 8 * VC_B) ==> (g_d2_cyc == 1 && g_d2_cyc_calls == 1))
__CPROVER_ensures((len == 12 * VC_B && g_d2_cal_err == 0) ==> g_ctx.code == RLC_OK)
__CPROVER_ensures((len == 8 * VC_B && g_d2_cal_err == 0 && g_d2_cyc == 1) ==> g_ctx.code == RLC_OK)
;
#endif

#ifdef VC_C07X_FP12W
#define VC_FP12W_NEED VC_FP12_ADV(g_d2_pack, g_d2_cyc)
#define VC_NOOFF ((size_t)-1)
/* offset of a callee's buffer inside the buffer under proof, if it is one of the expected ones */
#define VC_OFF12 ((const void *)bin == VC_AT(0) ? (size_t)0 : (const void *)bin == VC_AT(2 * VC_B) ? (size_t)(2 * VC_B) : (const void *)bin == VC_AT(4 * VC_B) ? (size_t)(4 * VC_B) : (const void *)bin == VC_AT(6 * VC_B) ? (size_t)(6 * VC_B) : VC_NOOFF)
#define VC_OFF6 ((const void *)bin == VC_AT(0) ? (size_t)0 : (const void *)bin == VC_AT(6 * VC_B) ? (size_t)(6 * VC_B) : VC_NOOFF)
#define VC_WR12(k, off) (((const void *)a == VC_F2(k) && (const void *)bin == VC_AT(off)) ? (1 << (k)) : 0)
int fp12_test_cyc_u(const fp12_t a) VC_ASSIGNS(g_d2_cyc, g_d2_cyc_calls)
__CPROVER_ensures((__CPROVER_return_value == 0 || __CPROVER_return_value == 1) && g_d2_cyc_calls == __CPROVER_old(g_d2_cyc_calls) + 1)
__CPROVER_ensures(g_d2_cyc == (((const void *)a == g_d2_dst && g_d2_wcalls == 0 && g_d2_rcalls == 0) ? __CPROVER_return_value : 2));
void fp12_pck_u(fp12_t c, const fp12_t a) VC_ASSIGNS(__CPROVER_object_upto(c, sizeof(fp12_t)), g_d2_pck_calls, g_d2_pck_ok)
__CPROVER_ensures(g_d2_pck_calls == __CPROVER_old(g_d2_pck_calls) + 1 && g_d2_pck_ok == ((const void *)a == g_d2_dst && (const void *)c != g_d2_dst));
void fp2_write_bin_u(uint8_t *bin, size_t len, const fp2_t a, int pack)
VC_ASSIGNS(__CPROVER_object_upto(bin, len), g_d2_wmask, g_d2_wcalls, g_d2_cal_err, g_ctx.code)
__CPROVER_ensures(g_d2_wcalls == __CPROVER_old(g_d2_wcalls) + 1 && VC_ERRFLOW(g_d2_cal_err))
__CPROVER_ensures(g_d2_wmask == (__CPROVER_old(g_d2_wmask) | ((len == 2 * VC_B && pack == 0) ? (VC_WR12(1, 0) | VC_WR12(2, 2 * VC_B) | VC_WR12(3, 4 * VC_B) | VC_WR12(5, 6 * VC_B)) : 64)));
void fp6_write_bin_u(uint8_t *bin, size_t len, const fp6_t a)
VC_ASSIGNS(__CPROVER_object_upto(bin, len), g_d2_wx, g_d2_wy, g_d2_rcalls, g_d2_cal_err, g_ctx.code)
__CPROVER_ensures(g_d2_rcalls == __CPROVER_old(g_d2_rcalls) + 1 && VC_ERRFLOW(g_d2_cal_err))
__CPROVER_ensures(g_d2_wx == (((const void *)a == VC_F6(0) && (const void *)bin == VC_AT(0) && len == 6 * VC_B) ? 1 : __CPROVER_old(g_d2_wx)))
__CPROVER_ensures(g_d2_wy == (((const void *)a == VC_F6(1) && (const void *)bin == VC_AT(6 * VC_B) && len == 6 * VC_B) ? 1 : __CPROVER_old(g_d2_wy)));

/* length demanded = the length fp12_size_bin advertises (VC_FP12_ADV: 8B iff compression is requested and the unitarity test, asked
   about THE ARGUMENT before anything is written, returned true; else 12B) - exactly: a return at all ==> len is that length; the only
   error of its own is the wrong-length error, raised before anything is written (longjmp stub).  The compressed branch is taken iff
   pack and the recorded verdict is 1: coefficients [0][1], [0][2], [1][0], [1][2] OF THE ARGUMENT through the F_p^2 encoder,
   uncompressed (2B bytes), at offsets 0, 2B, 4B, 6B; exactly four encodings.  Otherwise: the two sextic halves through the F_p^6
   encoder at 0 and 6B; exactly two.  The unitarity test is not asked when compression is not requested. */
void fp12_write_bin(uint8_t *bin, size_t len, const fp12_t a, int pack)
__CPROVER_requires(len <= 12 * VC_B + 2 && __CPROVER_is_fresh(bin, len) && __CPROVER_is_fresh(a, sizeof(fp12_t)))
__CPROVER_requires(g_may_throw == 1 && g_ctx.code == RLC_OK && g_d2_bin0 == bin && g_d2_dst == (const void *)a && g_d2_len == len && g_d2_pack == (pack != 0))
__CPROVER_requires(g_d2_pck_calls == 0 && g_d2_pck_ok == 0 && g_d2_wmask == 0 && g_d2_wcalls == 0 && g_d2_rcalls == 0 && g_d2_wx == 0 && g_d2_wy == 0 && g_d2_cal_err == 0 && g_d2_cyc == VC_UNASKED && g_d2_cyc_calls == 0)
VC_ASSIGNS(__CPROVER_object_upto(bin, len), g_d2_pck_calls, g_d2_pck_ok, g_d2_wmask, g_d2_wcalls, g_d2_rcalls, g_d2_wx, g_d2_wy, g_d2_cal_err, g_d2_cyc, g_d2_cyc_calls, g_ctx.code, g_ctx.last, g_ctx.caught, g_ctx.error, g_ctx.number, g_thrown)
__CPROVER_ensures(g_ctx.code == RLC_OK || g_ctx.code == RLC_ERR)
__CPROVER_ensures(pack ? (g_d2_cyc_calls == 1 && (g_d2_cyc == 0 || g_d2_cyc == 1)) : g_d2_cyc_calls == 0)
__CPROVER_ensures(len == VC_FP12W_NEED)
__CPROVER_ensures(g_d2_cal_err == 0 ==> g_ctx.code == RLC_OK)
__CPROVER_ensures((pack && g_d2_cyc == 1) ? (g_d2_wmask == 46 && g_d2_wcalls == 4 && g_d2_rcalls == 0) : (g_d2_wx == 1 && g_d2_wy == 1 && g_d2_rcalls == 2 && g_d2_wcalls == 0 && g_d2_pck_calls == 0))
;
#endif

#ifdef VC_C07X_FP12S
int fp12_test_cyc_t(const fp12_t a) VC_ASSIGNS(g_d2_cyc, g_d2_cyc_calls)
__CPROVER_ensures((__CPROVER_return_value == 0 || __CPROVER_return_value == 1) && g_d2_cyc_calls == __CPROVER_old(g_d2_cyc_calls) + 1)
__CPROVER_ensures(g_d2_cyc == ((const void *)a == g_d2_dst ? __CPROVER_return_value : 2));
/* advertised length: 8B iff compression is requested and the element (the argument itself) is unitary, else 12B */
int fp12_size_bin(fp12_t a, int pack)
__CPROVER_requires(__CPROVER_is_fresh(a, sizeof(fp12_t)) && g_d2_dst == (const void *)a && g_d2_cyc == VC_UNASKED && g_d2_cyc_calls == 0)
VC_ASSIGNS(g_d2_cyc, g_d2_cyc_calls)
__CPROVER_ensures(pack ? (g_d2_cyc_calls == 1 && (g_d2_cyc == 0 || g_d2_cyc == 1)) : g_d2_cyc_calls == 0)
__CPROVER_ensures(__CPROVER_return_value == VC_FP12_ADV(pack, g_d2_cyc))
;
#endif
#include "vc_spec_pop.h"
