/* Fixed-size prime-field layer (src/low/easy/relic_fp_add_low.c, relic_fp_shift_low.c): value contracts with a SYMBOLIC modulus
   (property C02).  fp_prime_get() is replaced by a contract returning the ghost digits g_p; every claim holds for every modulus
   p admitted by VC_P_OK (odd, > 2, of the configured digit length), not for one prime per build. */
#pragma once
#include "vc_prelude.h"
_Static_assert(2 * RLC_FP_DIGS <= 16, "fp_old_gen.h covers 16 digits");
typedef unsigned __CPROVER_bitvector[RLC_DIG * (2 * RLC_FP_DIGS + 1)] vc_fpw;
#include "fp_old_gen.h"
#define VC_FN RLC_FP_DIGS
extern dig_t g_p[RLC_FP_DIGS];

#include "vc_spec_push.h"
static inline vc_fpw vc_fpv(const dig_t *p, size_t n) {
	vc_fpw v = 0;
	for (size_t i = 0; i < 2 * RLC_FP_DIGS; i++) {
		if (i < n) v |= ((vc_fpw)p[i]) << (RLC_DIG * i);
	}
	return v;
}
#define VC_P        vc_fpv(g_p, VC_FN)
#define VC_P_OK     ((g_p[0] & 1) == 1 && VC_P > 2)
#define VC_BN1      (((vc_fpw)1) << (RLC_DIG * VC_FN))          /* B^n */
#define VC_FPFRESH(p, n)   __CPROVER_is_fresh(p, (n) * sizeof(dig_t))

/* alias shapes, as in bn_low.h: -DVC_FSHAPE=<shape> in an enforcing unit */
#define VC_F_GEN 0
#define VC_F_NONE 1
#define VC_F_CA 2
#define VC_F_CB 3
#define VC_F_CAB 4
#ifndef VC_FSHAPE
#define VC_FSHAPE VC_F_GEN
#endif
#define VC_FREQ_B(a, b, n)    (VC_FSHAPE == VC_F_NONE || VC_FSHAPE == VC_F_CA || VC_FSHAPE == VC_F_CB ? VC_FPFRESH(b, n) : \
                               VC_FSHAPE == VC_F_CAB ? VC_PTR_SAME(b, a) : (VC_PTR_SAME(b, a) || VC_FPFRESH(b, n)))
#define VC_FREQ_C3(c, a, b, n) (VC_FSHAPE == VC_F_NONE ? VC_FPFRESH(c, n) : (VC_FSHAPE == VC_F_CA || VC_FSHAPE == VC_F_CAB) ? VC_PTR_SAME(c, a) : \
                               VC_FSHAPE == VC_F_CB ? VC_PTR_SAME(c, b) : (VC_PTR_SAME(c, a) || VC_PTR_SAME(c, b) || VC_FPFRESH(c, n)))
#define VC_FREQ_C2(c, a, n)   (VC_FSHAPE == VC_F_NONE ? VC_FPFRESH(c, n) : VC_FSHAPE == VC_F_CA ? VC_PTR_SAME(c, a) : (VC_PTR_SAME(c, a) || VC_FPFRESH(c, n)))

const dig_t *fp_prime_get(void)
VC_ASSIGNS_NONE
__CPROVER_ensures(__CPROVER_return_value == g_p)
;

/* ---- plain n-digit adders / subtractors ---------------------------------------------------------------------------- */
dig_t fp_addn_low(dig_t *c, const dig_t *a, const dig_t *b)
__CPROVER_requires(VC_FPFRESH(a, VC_FN)) __CPROVER_requires(VC_FREQ_B(a, b, VC_FN)) __CPROVER_requires(VC_FREQ_C3(c, a, b, VC_FN))
VC_ASSIGNS(__CPROVER_object_upto(c, VC_FN * sizeof(dig_t)))
__CPROVER_ensures(__CPROVER_return_value <= 1)
__CPROVER_ensures(vc_fpv(c, VC_FN) + (vc_fpw)__CPROVER_return_value * VC_BN1 == VC_FPV_OLD(a, VC_FN) + VC_FPV_OLD(b, VC_FN))
;
dig_t fp_subn_low(dig_t *c, const dig_t *a, const dig_t *b)
__CPROVER_requires(VC_FPFRESH(a, VC_FN)) __CPROVER_requires(VC_FREQ_B(a, b, VC_FN)) __CPROVER_requires(VC_FREQ_C3(c, a, b, VC_FN))
VC_ASSIGNS(__CPROVER_object_upto(c, VC_FN * sizeof(dig_t)))
__CPROVER_ensures(__CPROVER_return_value <= 1)
__CPROVER_ensures(vc_fpv(c, VC_FN) + VC_FPV_OLD(b, VC_FN) == VC_FPV_OLD(a, VC_FN) + (vc_fpw)__CPROVER_return_value * VC_BN1)
;
dig_t fp_add1_low(dig_t *c, const dig_t *a, dig_t digit)
__CPROVER_requires(VC_FPFRESH(a, VC_FN)) __CPROVER_requires(VC_FREQ_C2(c, a, VC_FN))
VC_ASSIGNS(__CPROVER_object_upto(c, VC_FN * sizeof(dig_t)))
__CPROVER_ensures(__CPROVER_return_value <= 1)
__CPROVER_ensures(vc_fpv(c, VC_FN) + (vc_fpw)__CPROVER_return_value * VC_BN1 == VC_FPV_OLD(a, VC_FN) + (vc_fpw)digit)
;
dig_t fp_sub1_low(dig_t *c, const dig_t *a, dig_t digit)
__CPROVER_requires(VC_FPFRESH(a, VC_FN)) __CPROVER_requires(VC_FREQ_C2(c, a, VC_FN))
VC_ASSIGNS(__CPROVER_object_upto(c, VC_FN * sizeof(dig_t)))
__CPROVER_ensures(__CPROVER_return_value <= 1)
__CPROVER_ensures(vc_fpv(c, VC_FN) + (vc_fpw)digit == VC_FPV_OLD(a, VC_FN) + (vc_fpw)__CPROVER_return_value * VC_BN1)
;
dig_t fp_dbln_low(dig_t *c, const dig_t *a)
__CPROVER_requires(VC_FPFRESH(a, VC_FN)) __CPROVER_requires(VC_FREQ_C2(c, a, VC_FN))
VC_ASSIGNS(__CPROVER_object_upto(c, VC_FN * sizeof(dig_t)))
__CPROVER_ensures(__CPROVER_return_value <= 1)
__CPROVER_ensures(vc_fpv(c, VC_FN) + (vc_fpw)__CPROVER_return_value * VC_BN1 == VC_FPV_OLD(a, VC_FN) + VC_FPV_OLD(a, VC_FN))
;
/* ---- modular forms: canonical result in [0, p) --------------------------------------------------------------------- */
void fp_addm_low(dig_t *c, const dig_t *a, const dig_t *b)
__CPROVER_requires(VC_FPFRESH(a, VC_FN)) __CPROVER_requires(VC_FREQ_B(a, b, VC_FN)) __CPROVER_requires(VC_FREQ_C3(c, a, b, VC_FN))
__CPROVER_requires(VC_P_OK && vc_fpv(a, VC_FN) < VC_P && vc_fpv(b, VC_FN) < VC_P)
VC_ASSIGNS(__CPROVER_object_upto(c, VC_FN * sizeof(dig_t)))
__CPROVER_ensures(vc_fpv(c, VC_FN) < VC_P)
__CPROVER_ensures(vc_fpv(c, VC_FN) == (VC_FPV_OLD(a, VC_FN) + VC_FPV_OLD(b, VC_FN) >= VC_P ? VC_FPV_OLD(a, VC_FN) + VC_FPV_OLD(b, VC_FN) - VC_P : VC_FPV_OLD(a, VC_FN) + VC_FPV_OLD(b, VC_FN)))
;
void fp_subm_low(dig_t *c, const dig_t *a, const dig_t *b)
__CPROVER_requires(VC_FPFRESH(a, VC_FN)) __CPROVER_requires(VC_FREQ_B(a, b, VC_FN)) __CPROVER_requires(VC_FREQ_C3(c, a, b, VC_FN))
__CPROVER_requires(VC_P_OK && vc_fpv(a, VC_FN) < VC_P && vc_fpv(b, VC_FN) < VC_P)
VC_ASSIGNS(__CPROVER_object_upto(c, VC_FN * sizeof(dig_t)))
__CPROVER_ensures(vc_fpv(c, VC_FN) < VC_P)
__CPROVER_ensures(vc_fpv(c, VC_FN) == (VC_FPV_OLD(a, VC_FN) >= VC_FPV_OLD(b, VC_FN) ? VC_FPV_OLD(a, VC_FN) - VC_FPV_OLD(b, VC_FN) : VC_FPV_OLD(a, VC_FN) + VC_P - VC_FPV_OLD(b, VC_FN)))
;
void fp_negm_low(dig_t *c, const dig_t *a)
__CPROVER_requires(VC_FPFRESH(a, VC_FN)) __CPROVER_requires(VC_FREQ_C2(c, a, VC_FN))
__CPROVER_requires(VC_P_OK && vc_fpv(a, VC_FN) < VC_P)
VC_ASSIGNS(__CPROVER_object_upto(c, VC_FN * sizeof(dig_t)), g_ctx.code, g_ctx.last, g_ctx.error, g_ctx.number, g_thrown)
__CPROVER_ensures(vc_fpv(c, VC_FN) < VC_P)
__CPROVER_ensures(vc_fpv(c, VC_FN) == (VC_FPV_OLD(a, VC_FN) == 0 ? (vc_fpw)0 : VC_P - VC_FPV_OLD(a, VC_FN)))
;
void fp_dblm_low(dig_t *c, const dig_t *a)
__CPROVER_requires(VC_FPFRESH(a, VC_FN)) __CPROVER_requires(VC_FREQ_C2(c, a, VC_FN))
__CPROVER_requires(VC_P_OK && vc_fpv(a, VC_FN) < VC_P)
VC_ASSIGNS(__CPROVER_object_upto(c, VC_FN * sizeof(dig_t)))
__CPROVER_ensures(vc_fpv(c, VC_FN) < VC_P)
__CPROVER_ensures(vc_fpv(c, VC_FN) == (2 * VC_FPV_OLD(a, VC_FN) >= VC_P ? 2 * VC_FPV_OLD(a, VC_FN) - VC_P : 2 * VC_FPV_OLD(a, VC_FN)))
;
/* c = a / 2 mod p:  2c = a or a + p, c < p */
void fp_hlvm_low(dig_t *c, const dig_t *a)
__CPROVER_requires(VC_FPFRESH(a, VC_FN)) __CPROVER_requires(VC_FREQ_C2(c, a, VC_FN))
__CPROVER_requires(VC_P_OK && vc_fpv(a, VC_FN) < VC_P)
VC_ASSIGNS(__CPROVER_object_upto(c, VC_FN * sizeof(dig_t)))
__CPROVER_ensures(vc_fpv(c, VC_FN) < VC_P)
__CPROVER_ensures(2 * vc_fpv(c, VC_FN) == ((VC_FPV_OLD(a, VC_FN) & 1) ? VC_FPV_OLD(a, VC_FN) + VC_P : VC_FPV_OLD(a, VC_FN)))
;
/* ---- double-length (lazy reduction) forms ---------------------------------------------------------------------------- */
dig_t fp_addd_low(dig_t *c, const dig_t *a, const dig_t *b)
__CPROVER_requires(VC_FPFRESH(a, 2 * VC_FN)) __CPROVER_requires(VC_FREQ_B(a, b, 2 * VC_FN)) __CPROVER_requires(VC_FREQ_C3(c, a, b, 2 * VC_FN))
VC_ASSIGNS(__CPROVER_object_upto(c, 2 * VC_FN * sizeof(dig_t)))
__CPROVER_ensures(__CPROVER_return_value <= 1)
__CPROVER_ensures(vc_fpv(c, 2 * VC_FN) + (((vc_fpw)__CPROVER_return_value) << (2 * RLC_DIG * VC_FN)) == VC_FPV_OLD(a, 2 * VC_FN) + VC_FPV_OLD(b, 2 * VC_FN))
;
dig_t fp_subd_low(dig_t *c, const dig_t *a, const dig_t *b)
__CPROVER_requires(VC_FPFRESH(a, 2 * VC_FN)) __CPROVER_requires(VC_FREQ_B(a, b, 2 * VC_FN)) __CPROVER_requires(VC_FREQ_C3(c, a, b, 2 * VC_FN))
VC_ASSIGNS(__CPROVER_object_upto(c, 2 * VC_FN * sizeof(dig_t)))
__CPROVER_ensures(__CPROVER_return_value <= 1)
__CPROVER_ensures(vc_fpv(c, 2 * VC_FN) + VC_FPV_OLD(b, 2 * VC_FN) == VC_FPV_OLD(a, 2 * VC_FN) + (((vc_fpw)__CPROVER_return_value) << (2 * RLC_DIG * VC_FN)))
;
/* a, b < p*B^n  ==>  c = a + b or a + b - p*B^n, c < p*B^n */
void fp_addc_low(dig_t *c, const dig_t *a, const dig_t *b)
__CPROVER_requires(VC_FPFRESH(a, 2 * VC_FN)) __CPROVER_requires(VC_FREQ_B(a, b, 2 * VC_FN)) __CPROVER_requires(VC_FREQ_C3(c, a, b, 2 * VC_FN))
__CPROVER_requires(VC_P_OK && vc_fpv(a, 2 * VC_FN) < VC_P * VC_BN1 && vc_fpv(b, 2 * VC_FN) < VC_P * VC_BN1)
VC_ASSIGNS(__CPROVER_object_upto(c, 2 * VC_FN * sizeof(dig_t)))
__CPROVER_ensures(vc_fpv(c, 2 * VC_FN) < VC_P * VC_BN1)
__CPROVER_ensures(vc_fpv(c, 2 * VC_FN) == VC_FPV_OLD(a, 2 * VC_FN) + VC_FPV_OLD(b, 2 * VC_FN) || vc_fpv(c, 2 * VC_FN) + VC_P * VC_BN1 == VC_FPV_OLD(a, 2 * VC_FN) + VC_FPV_OLD(b, 2 * VC_FN))
;
void fp_subc_low(dig_t *c, const dig_t *a, const dig_t *b)
__CPROVER_requires(VC_FPFRESH(a, 2 * VC_FN)) __CPROVER_requires(VC_FREQ_B(a, b, 2 * VC_FN)) __CPROVER_requires(VC_FREQ_C3(c, a, b, 2 * VC_FN))
__CPROVER_requires(VC_P_OK && vc_fpv(a, 2 * VC_FN) < VC_P * VC_BN1 && vc_fpv(b, 2 * VC_FN) < VC_P * VC_BN1)
VC_ASSIGNS(__CPROVER_object_upto(c, 2 * VC_FN * sizeof(dig_t)))
__CPROVER_ensures(vc_fpv(c, 2 * VC_FN) < VC_P * VC_BN1)
__CPROVER_ensures(vc_fpv(c, 2 * VC_FN) + VC_FPV_OLD(b, 2 * VC_FN) == VC_FPV_OLD(a, 2 * VC_FN) || vc_fpv(c, 2 * VC_FN) + VC_FPV_OLD(b, 2 * VC_FN) == VC_FPV_OLD(a, 2 * VC_FN) + VC_P * VC_BN1)
;
/* ---- shifts -------------------------------------------------------------------------------------------------------------- */
dig_t fp_lsh1_low(dig_t *c, const dig_t *a)
__CPROVER_requires(VC_FPFRESH(a, VC_FN)) __CPROVER_requires(VC_FREQ_C2(c, a, VC_FN))
VC_ASSIGNS(__CPROVER_object_upto(c, VC_FN * sizeof(dig_t)))
__CPROVER_ensures(__CPROVER_return_value <= 1 && vc_fpv(c, VC_FN) + (vc_fpw)__CPROVER_return_value * VC_BN1 == (VC_FPV_OLD(a, VC_FN) << 1))
;
dig_t fp_rsh1_low(dig_t *c, const dig_t *a)
__CPROVER_requires(VC_FPFRESH(a, VC_FN)) __CPROVER_requires(VC_FREQ_C2(c, a, VC_FN))
VC_ASSIGNS(__CPROVER_object_upto(c, VC_FN * sizeof(dig_t)))
__CPROVER_ensures(__CPROVER_return_value == (dig_t)(VC_FPV_OLD(a, VC_FN) & 1) && vc_fpv(c, VC_FN) == (VC_FPV_OLD(a, VC_FN) >> 1))
;
dig_t fp_lshb_low(dig_t *c, const dig_t *a, uint_t bits)
__CPROVER_requires(bits > 0 && bits < RLC_DIG)
__CPROVER_requires(VC_FPFRESH(a, VC_FN)) __CPROVER_requires(VC_FREQ_C2(c, a, VC_FN))
VC_ASSIGNS(__CPROVER_object_upto(c, VC_FN * sizeof(dig_t)))
__CPROVER_ensures(vc_fpv(c, VC_FN) + (vc_fpw)__CPROVER_return_value * VC_BN1 == (VC_FPV_OLD(a, VC_FN) << bits))
;
dig_t fp_rshb_low(dig_t *c, const dig_t *a, uint_t bits)
__CPROVER_requires(bits > 0 && bits < RLC_DIG)
__CPROVER_requires(VC_FPFRESH(a, VC_FN)) __CPROVER_requires(VC_FREQ_C2(c, a, VC_FN))
VC_ASSIGNS(__CPROVER_object_upto(c, VC_FN * sizeof(dig_t)))
__CPROVER_ensures((vc_fpw)__CPROVER_return_value == (VC_FPV_OLD(a, VC_FN) & ((((vc_fpw)1) << bits) - 1)) && vc_fpv(c, VC_FN) == (VC_FPV_OLD(a, VC_FN) >> bits))
;
#include "vc_spec_pop.h"
