/* Constant-time primitives (property C20): masked copy / swap / comparison.
   Branch events come from `goto-instrument --branch ct_branch` (every goto-level branch of the code from /repo calls
   ct_branch("taken" | "not-taken")).  The ghost PUBLIC-TRACE MONITOR below accepts an event sequence only if the k-th event
   equals CT_EXPECT(k), an expression over PUBLIC ghost inputs only (g_pub0 = the length argument); the secrets (data, the
   selection bit) are unconstrained, so "g_ct_bad == 0 and g_ct_n == public count" for all of them says the branch sequence
   is a function of public data.  The functional contract (masked-select semantics) is proved in the same unit. */
#pragma once
#include "vc_prelude.h"

extern size_t g_ct_n;        /* events seen while the monitor is on */
extern int g_ct_bad;         /* some event differed from the public expectation */
extern int g_ct_on;
extern size_t g_pub0;        /* public input: the length */
extern dig_t g_dig1;
extern size_t g_wit; extern int g_has;     /* ghost witness of a difference (comparison functions) */

/* one loop over i < g_pub0: g_pub0 "condition holds" events, then one "exit" event */
#define CT_TAKEN 1
#define CT_EXIT  0
#define CT_EXPECT_LOOP(k)  ((k) < g_pub0 ? CT_TAKEN : CT_EXIT)

#include "vc_spec_push.h"
void dv_copy_sec(dig_t *c, const dig_t *a, size_t digits, dig_t bit)
__CPROVER_requires(digits <= VC_MAXN && bit <= 1 && g_pub0 == digits && g_ct_on == 1 && g_ct_n == 0 && g_ct_bad == 0)
__CPROVER_requires(VC_DIGS_FRESH(a, digits) && VC_DIGS_FRESH(c, digits))
__CPROVER_requires(gk < digits ==> (a[gk] == g_dig0 && c[gk] == g_dig1))
VC_ASSIGNS(__CPROVER_object_upto(c, digits * sizeof(dig_t)), g_ct_n, g_ct_bad)
__CPROVER_ensures(gk < digits ==> c[gk] == (bit ? g_dig0 : g_dig1))
__CPROVER_ensures(g_ct_bad == 0 && g_ct_n == digits + 1)
;
void dv_swap_sec(dig_t *c, dig_t *a, size_t digits, dig_t bit)
__CPROVER_requires(digits <= VC_MAXN && bit <= 1 && g_pub0 == digits && g_ct_on == 1 && g_ct_n == 0 && g_ct_bad == 0)
__CPROVER_requires(VC_DIGS_FRESH(a, digits) && VC_DIGS_FRESH(c, digits))
__CPROVER_requires(gk < digits ==> (a[gk] == g_dig0 && c[gk] == g_dig1))
VC_ASSIGNS(__CPROVER_object_upto(c, digits * sizeof(dig_t)), __CPROVER_object_upto(a, digits * sizeof(dig_t)), g_ct_n, g_ct_bad)
__CPROVER_ensures(gk < digits ==> (c[gk] == (bit ? g_dig0 : g_dig1) && a[gk] == (bit ? g_dig1 : g_dig0)))
__CPROVER_ensures(g_ct_bad == 0 && g_ct_n == digits + 1)
;
int dv_cmp_sec(const dig_t *a, const dig_t *b, size_t size)
__CPROVER_requires(size <= VC_MAXN && g_pub0 == size && g_ct_on == 1 && g_ct_n == 0 && g_ct_bad == 0 && g_has == 0)
__CPROVER_requires(VC_DIGS_FRESH(a, size) && VC_DIGS_FRESH(b, size))
VC_ASSIGNS(g_ct_n, g_ct_bad, g_wit, g_has)
__CPROVER_ensures(__CPROVER_return_value == RLC_EQ || __CPROVER_return_value == RLC_NE)
__CPROVER_ensures((gk < size && a[gk] != b[gk]) ==> __CPROVER_return_value == RLC_NE)
__CPROVER_ensures(__CPROVER_return_value == RLC_NE ==> (g_wit < size && a[g_wit] != b[g_wit]))
__CPROVER_ensures(g_ct_bad == 0 && g_ct_n == size + 1)
;
int util_cmp_sec(const void *a, const void *b, size_t size)
__CPROVER_requires(size <= VC_MAXN && g_pub0 == size && g_ct_on == 1 && g_ct_n == 0 && g_ct_bad == 0 && g_has == 0)
__CPROVER_requires(__CPROVER_is_fresh(a, size) && __CPROVER_is_fresh(b, size))
VC_ASSIGNS(g_ct_n, g_ct_bad, g_wit, g_has)
__CPROVER_ensures(__CPROVER_return_value == RLC_EQ || __CPROVER_return_value == RLC_NE)
__CPROVER_ensures((gk < size && ((const uint8_t *)a)[gk] != ((const uint8_t *)b)[gk]) ==> __CPROVER_return_value == RLC_NE)
__CPROVER_ensures(__CPROVER_return_value == RLC_NE ==> (g_wit < size && ((const uint8_t *)a)[g_wit] != ((const uint8_t *)b)[g_wit]))
__CPROVER_ensures(g_ct_bad == 0 && g_ct_n == size + 1)
;
#include "vc_spec_pop.h"

/* ---- loop contracts (woven) ------------------------------------------------------------------------------------------ */
#define VC_LOOP_dv_copy_sec_0 \
	__CPROVER_assigns(i, t, __CPROVER_object_upto(c, digits * sizeof(dig_t)), g_ct_n, g_ct_bad) \
	__CPROVER_loop_invariant(i <= digits && g_ct_n == i && g_ct_bad == 0) \
	__CPROVER_loop_invariant((gk < digits && gk >= i) ==> (a[gk] == g_dig0 && c[gk] == g_dig1)) \
	__CPROVER_loop_invariant(gk < i ==> c[gk] == (bit ? g_dig0 : g_dig1)) \
	__CPROVER_decreases(digits - i)
#define VC_LOOP_dv_swap_sec_0 \
	__CPROVER_assigns(i, t, __CPROVER_object_upto(c, digits * sizeof(dig_t)), __CPROVER_object_upto(a, digits * sizeof(dig_t)), g_ct_n, g_ct_bad) \
	__CPROVER_loop_invariant(i <= digits && g_ct_n == i && g_ct_bad == 0) \
	__CPROVER_loop_invariant((gk < digits && gk >= i) ==> (a[gk] == g_dig0 && c[gk] == g_dig1)) \
	__CPROVER_loop_invariant(gk < i ==> (c[gk] == (bit ? g_dig0 : g_dig1) && a[gk] == (bit ? g_dig1 : g_dig0))) \
	__CPROVER_decreases(digits - i)
#define VC_LOOP_dv_cmp_sec_0 \
	__CPROVER_assigns(i, r, g_ct_n, g_ct_bad, g_wit, g_has) \
	__CPROVER_loop_invariant(i <= size && g_ct_n == i && g_ct_bad == 0 && (g_has == 0 || g_has == 1)) \
	__CPROVER_loop_invariant((gk < i && a[gk] != b[gk]) ==> r != 0) \
	__CPROVER_loop_invariant((r != 0) == (g_has == 1)) \
	__CPROVER_loop_invariant(g_has == 1 ==> (g_wit < i && a[g_wit] != b[g_wit])) \
	__CPROVER_decreases(size - i)
#define VC_END_dv_cmp_sec_0   g_wit = (r != 0 && g_has == 0) ? i : g_wit; g_has = (r != 0);
#define VC_LOOP_util_cmp_sec_0 \
	__CPROVER_assigns(i, result, g_ct_n, g_ct_bad, g_wit, g_has) \
	__CPROVER_loop_invariant(i >= 0 && (size_t)i <= size && g_ct_n == (size_t)i && g_ct_bad == 0 && (g_has == 0 || g_has == 1)) \
	__CPROVER_loop_invariant((gk < (size_t)i && _a[gk] != _b[gk]) ==> result != 0) \
	__CPROVER_loop_invariant((result != 0) == (g_has == 1)) \
	__CPROVER_loop_invariant(g_has == 1 ==> (g_wit < (size_t)i && _a[g_wit] != _b[g_wit])) \
	__CPROVER_decreases(size - (size_t)i)
#define VC_END_util_cmp_sec_0   g_wit = (result != 0 && g_has == 0) ? (size_t)i : g_wit; g_has = (result != 0);
