/* g2_mul_sec = ep2_mul_lwreg -> ep2_mul_reg_gls (property C20, second half; the path taken on the pairing-friendly curves of the shipped
   configuration).  Same scheme as contracts/ct_reg.h: every callee is abstract (exact frame, arbitrary result, one GROUP-LEVEL event); the
   monitor compares event number k with X2_EXPECT(k), an expression over k and PUBLIC inputs only: g_pub_bits (bit length of the group order)
   and g_pub_ubits (bit length of the curve parameter u).  The subscalars, their signs, the recoded columns (results of the abstract bn_rec_frb /
   bn_rec_sac) and the parity are unconstrained.
       frb-rec norm frb^3 (neg csel)^4 copy add^7 sac [norms] csel^(co*8) neg csel ( dbl csel^(co*8) neg csel add )^(L-1) sub csel^3 norm
   The recoding length L is what the CONTRACT of bn_rec_sac promises here: max(ceil(bits(n)/4) + 1, bits(u) + 1), a function of public data.
   The real bn_rec_sac does NOT keep that promise on curves with cofactor 1 (BN): it also takes the maximum with bits(subscalar_i) + 1 - see
   the report (finding on bn_rec_sac / g2_mul_sec / gt_exp_sec).  This unit therefore shows that ep2_mul_reg_gls adds no other dependence.
   Pre: k != 0, p != infinity.  Callees are trusted to be constant-time as units. */
#pragma once
#include "vc_prelude.h"
#ifndef VC_MAXBITS
#define VC_MAXBITS (RLC_FP_BITS + 1)
#endif
extern size_t g_ev_n; extern int g_ev_bad; extern size_t g_pub_bits, g_pub_ubits; extern int g_endom;
#define X2_REC 1
#define X2_NORM 2
#define X2_FRB 3
#define X2_NEG 4
#define X2_CSEL 5
#define X2_COPY 6
#define X2_ADD 7
#define X2_SAC 8
#define X2_NORMS 9
#define X2_DBL 10
#define X2_SUB 11
#if defined(EP_MIXED)
#define X2_CO 2
#define X2_NS 1
#else
#define X2_CO 3
#define X2_NS 0
#endif
#define X2_MAX(a, b) ((a) > (b) ? (a) : (b))
#define X2_L X2_MAX((g_pub_bits - 1) / 4 + 2, g_pub_ubits + 1)        /* recoding length promised by bn_rec_sac (c = 1, m = 4) */
#define X2_SCAN (X2_CO * 8)
#define X2_PRE (22 + X2_NS + X2_SCAN + 2)
#define X2_STEP (1 + X2_SCAN + 3)
#define X2_TAIL (X2_PRE + X2_STEP * (X2_L - 1))
#define X2_J(k) (((k) - X2_PRE) % X2_STEP)
#define X2_EXPECT(k) ((k) == 0 ? X2_REC : (k) == 1 ? X2_NORM : (k) <= 4 ? X2_FRB : (k) <= 12 ? ((((k) - 5) & 1) == 0 ? X2_NEG : X2_CSEL) : (k) == 13 ? X2_COPY : (k) <= 20 ? X2_ADD : \
	(k) == 21 ? X2_SAC : (k) < 22 + X2_NS ? X2_NORMS : (k) < 22 + X2_NS + X2_SCAN ? X2_CSEL : (k) == X2_PRE - 2 ? X2_NEG : (k) == X2_PRE - 1 ? X2_CSEL : \
	(k) < X2_TAIL ? (X2_J(k) == 0 ? X2_DBL : X2_J(k) <= X2_SCAN ? X2_CSEL : X2_J(k) == X2_SCAN + 1 ? X2_NEG : X2_J(k) == X2_SCAN + 2 ? X2_CSEL : X2_ADD) : \
	(k) == X2_TAIL ? X2_SUB : (k) <= X2_TAIL + 3 ? X2_CSEL : (k) == X2_TAIL + 4 ? X2_NORM : 0)
#define X2_TOTAL (X2_TAIL + 5)
#define X2_LOGGED(ev) (g_ev_n == __CPROVER_old(g_ev_n) + 1 && g_ev_bad == (__CPROVER_old(g_ev_bad) | (X2_EXPECT(__CPROVER_old(g_ev_n)) != (ev))))
#define VC_EP2(p) __CPROVER_object_upto(p, sizeof(ep2_st))
#define VC_BNF(a) (a)->used, (a)->sign, __CPROVER_object_upto((a)->dp, sizeof((a)->dp))
#define VC_FP2V(c) __CPROVER_object_upto(c, sizeof(fp2_t))

#include "vc_spec_push.h"
void bn_rec_frb_x2(bn_t *ki, int sub, const bn_t k, const bn_t x, const bn_t n, int cof)
__CPROVER_requires(sub == 4)
VC_ASSIGNS(__CPROVER_object_upto(ki, 4 * sizeof(bn_t)), g_ev_n, g_ev_bad)
__CPROVER_ensures(X2_LOGGED(X2_REC) && (ki[0]->sign == RLC_POS || ki[0]->sign == RLC_NEG) && ki[0]->used >= 1 && ki[0]->used <= RLC_BN_SIZE - 2);
void bn_rec_sac_x2(int8_t *b, size_t *len, const bn_t *k, const bn_t u, size_t c, size_t m, size_t n, int cof)
__CPROVER_requires(c == 1 && m == 4 && n == g_pub_bits && *len > X2_L && *len <= RLC_FP_BITS)
VC_ASSIGNS(__CPROVER_object_upto(b, 4 * *len), *len, g_ev_n, g_ev_bad)
__CPROVER_ensures(*len == X2_L && X2_LOGGED(X2_SAC))
/* the recoded columns are bits (their VALUES are the secret) */
__CPROVER_ensures(__CPROVER_forall { size_t vq; (vq < 4 * RLC_FP_BITS) ==> (b[vq] == 0 || b[vq] == 1) });
void ep2_norm_x2(ep2_t r, const ep2_t p) VC_ASSIGNS(VC_EP2(r), g_ev_n, g_ev_bad) __CPROVER_ensures(X2_LOGGED(X2_NORM));
void ep2_norm_sim_x2(ep2_t *r, const ep2_t *t, int n)
__CPROVER_requires(n == 7)
VC_ASSIGNS(__CPROVER_object_upto(r, 7 * sizeof(ep2_t)), g_ev_n, g_ev_bad) __CPROVER_ensures(X2_LOGGED(X2_NORMS));
void ep2_frb_x2(ep2_t r, const ep2_t p, int i) VC_ASSIGNS(VC_EP2(r), g_ev_n, g_ev_bad) __CPROVER_ensures(X2_LOGGED(X2_FRB));
void ep2_neg_x2(ep2_t r, const ep2_t p) VC_ASSIGNS(VC_EP2(r), g_ev_n, g_ev_bad) __CPROVER_ensures(X2_LOGGED(X2_NEG));
void ep2_copy_x2(ep2_t r, const ep2_t p) VC_ASSIGNS(VC_EP2(r), g_ev_n, g_ev_bad) __CPROVER_ensures(X2_LOGGED(X2_COPY));
void ep2_add_projc_x2(ep2_t r, const ep2_t p, const ep2_t q) VC_ASSIGNS(VC_EP2(r), g_ev_n, g_ev_bad) __CPROVER_ensures(X2_LOGGED(X2_ADD));
void ep2_dbl_projc_x2(ep2_t r, const ep2_t p) VC_ASSIGNS(VC_EP2(r), g_ev_n, g_ev_bad) __CPROVER_ensures(X2_LOGGED(X2_DBL));
void ep2_sub_x2(ep2_t r, const ep2_t p, const ep2_t q) VC_ASSIGNS(VC_EP2(r), g_ev_n, g_ev_bad) __CPROVER_ensures(X2_LOGGED(X2_SUB));
void fp2_copy_sec_x2(fp2_t c, const fp2_t a, dig_t bit) VC_ASSIGNS(VC_FP2V(c), g_ev_n, g_ev_bad) __CPROVER_ensures(X2_LOGGED(X2_CSEL));
/* not group-level: arbitrary results, exact frames */
void fp2_set_dig_x2(fp2_t a, const dig_t b) VC_ASSIGNS(VC_FP2V(a));
void ep2_set_infty_x2(ep2_t p) VC_ASSIGNS(VC_EP2(p));
void ep2_curve_get_ord_x2(bn_t n) VC_ASSIGNS(VC_BNF(n)) __CPROVER_ensures(n->used >= 1 && n->used <= RLC_BN_SIZE - 2);
void fp_prime_get_par_x2(bn_t x) VC_ASSIGNS(VC_BNF(x)) __CPROVER_ensures(x->used >= 1 && x->used <= RLC_BN_SIZE - 2);
void bn_mod_basic_x2(bn_t c, const bn_t a, const bn_t m) VC_ASSIGNS(VC_BNF(c)) __CPROVER_ensures(c->used >= 1 && c->used <= RLC_BN_SIZE - 2);
void bn_add_dig_x2(bn_t c, const bn_t a, dig_t b) VC_ASSIGNS(VC_BNF(c)) __CPROVER_ensures(c->used >= 1 && c->used <= RLC_BN_SIZE - 2);
int bn_sign_x2(const bn_t a) VC_ASSIGNS_NONE __CPROVER_ensures(__CPROVER_return_value == RLC_POS || __CPROVER_return_value == RLC_NEG);
int bn_is_even_x2(const bn_t a) VC_ASSIGNS_NONE __CPROVER_ensures(__CPROVER_return_value == 0 || __CPROVER_return_value == 1);
int bn_is_zero_x2(const bn_t a) VC_ASSIGNS_NONE __CPROVER_ensures(__CPROVER_return_value == 0);         /* pre: k != 0 */
int ep2_is_infty_x2(const ep2_t p) VC_ASSIGNS_NONE __CPROVER_ensures(__CPROVER_return_value == 0);    /* pre: p != infinity */
size_t bn_bits_x2(const bn_t a) VC_ASSIGNS_NONE __CPROVER_ensures(__CPROVER_return_value == g_pub_bits);
int ep_curve_is_pairf_x2(void) __CPROVER_requires(1) VC_ASSIGNS_NONE __CPROVER_ensures(1);
size_t util_bits_dig_x2(dig_t a) __CPROVER_requires(a >= 1 && a <= 7) VC_ASSIGNS_NONE __CPROVER_ensures(__CPROVER_return_value == (a < 2 ? 1 : a < 4 ? 2 : 3));
int ep_curve_is_endom_x2(void) VC_ASSIGNS(g_endom) __CPROVER_ensures(__CPROVER_return_value == 1 && g_endom == 1);   /* the curves of G_2 are pairing-friendly: endomorphism path */

#define VC_EP2_MUL(f) void f(ep2_t r, const ep2_t p, const bn_t k) \
__CPROVER_requires(__CPROVER_is_fresh(r, sizeof(ep2_st)) && __CPROVER_is_fresh(p, sizeof(ep2_st)) && __CPROVER_is_fresh(k, sizeof(bn_st))) \
__CPROVER_requires(g_pub_bits >= 1 && g_pub_bits <= RLC_FP_BITS + 1 && g_pub_bits <= VC_MAXBITS && g_pub_ubits >= 1 && g_pub_ubits <= RLC_FP_BITS / 2 && g_pub_ubits <= VC_MAXBITS) \
__CPROVER_requires(g_ev_n == 0 && g_ev_bad == 0) \
VC_ASSIGNS(VC_EP2(r), g_endom, g_ev_n, g_ev_bad, g_ctx.code, g_ctx.last, g_ctx.caught, g_ctx.error, g_ctx.number, g_thrown) \
__CPROVER_ensures(g_ev_bad == 0 && g_ev_n == X2_TOTAL) \
__CPROVER_ensures(g_ctx.last == __CPROVER_old(g_ctx.last))
static VC_EP2_MUL(ep2_mul_reg_gls);
VC_EP2_MUL(ep2_mul_lwreg);
#include "vc_spec_pop.h"

/* ep2_mul_reg_gls: loop 6 is the column loop; every other loop has a constant bound and is unwound before the contracts are applied */
#define X2_BASE (X2_PRE + X2_STEP * (l - 2 - (size_t)j))
#define VC_LOOP_ep2_mul_reg_gls_6 \
	__CPROVER_assigns(j, col, __CPROVER_object_whole(r), __CPROVER_object_whole(q), g_ev_n, g_ev_bad) \
	__CPROVER_loop_invariant(j >= -1 && j <= (int)l - 2 && l == X2_L && l >= 2 && l <= RLC_FP_BITS && g_ev_bad == 0 && g_ev_n == X2_PRE + X2_STEP * (l - 2 - (size_t)j)) \
	__CPROVER_decreases(j + 1)
#define VC_PRE_ep2_mul_reg_gls_6 __CPROVER_assert(g_ev_bad == 0 && g_ev_n == X2_PRE && l == X2_L, "C20 public trace: set-up of ep2_mul_reg_gls");
#define VC_END_ep2_mul_reg_gls_6 __CPROVER_assert(g_ev_bad == 0 && g_ev_n == X2_BASE + X2_STEP, "C20 public trace: one column of ep2_mul_reg_gls = dbl csel^(co*8) neg csel add");
