/* Regular recoding bn_rec_reg (property C20): the recoding feeds every regular scalar multiplication / exponentiation, so its own
   control flow and the lengths it hands to its callees must not depend on the VALUE of the scalar.  Two ghost PUBLIC-TRACE MONITORS:
   (1) branch events from `goto-instrument --branch c20x_branch` (every goto-level branch of bn_rec_reg): event number j must equal
       BR_EXPECT(j), an expression over the public inputs n, w only;
   (2) call events logged by the abstract callee contracts (memset, dv_zero, dv_copy, bn_rsh1_low / bn_rshb_low): kind AND length
       arguments of call number j must equal CL_KIND(j) / CL_ARG(j), expressions over the public inputs n, w, *len, k->used only.
   Public: n (bit length of the order), w (window width), *len (buffer length), k->used (the DIGIT COUNT of the scalar's representation -
   a length; the copy into the scratch buffer is as long as it).  Secret: every digit of k (unconstrained), hence every recoded digit.
   Pre: the non-error path (*len > l, k->used <= d); the error exits are decided by the public lengths alone (contracts/bn_conv.h). */
#pragma once
#include "vc_prelude.h"
#ifndef VC_MAXBITS
#define VC_MAXBITS (RLC_DIG * RLC_DV_DIGS - 8)      /* the scratch copy fits a temporary vector: dv_zero reports a precision error beyond */
#endif
extern size_t g_ct_n; extern int g_ct_bad; extern int g_ct_on;            /* branch monitor */
extern size_t g_ev_n; extern int g_ev_bad;                                 /* call monitor */
extern size_t g_pub_n, g_pub_w, g_pub_len, g_pub_used;                      /* public inputs */
extern const void *__CPROVER_alloca_object;

#define XR_L   (((g_pub_n) - 1) / (g_pub_w - 1) + 1)                       /* digits before the final one */
#define XR_D   ((XR_L * (g_pub_w - 1) - 1) / RLC_DIG + 1)                  /* digits of the scratch copy */
/* branch events: 1 = the source condition of an `if` / of a loop head held, 0 = it did not.
   t == NULL: no; *len <= l: no; k->used > d: no; w == 2: by w (public); l loop iterations; one exit */
#define BR_EXPECT(j) ((j) < 3 ? 0 : (j) == 3 ? (g_pub_w == 2 ? 1 : 0) : (j) < 4 + XR_L ? 1 : 0)
#define BR_TOTAL (5 + XR_L)
/* call events */
#define CL_MEMSET 1
#define CL_ZERO 2
#define CL_COPY 3
#define CL_RSH1 4
#define CL_RSHB 5
#define CL_KIND(j) ((j) == 0 ? CL_MEMSET : (j) == 1 ? CL_ZERO : (j) == 2 ? CL_COPY : (j) < 3 + XR_L ? (g_pub_w == 2 ? CL_RSH1 : CL_RSHB) : 0)
#define CL_ARG(j)  ((j) == 0 ? g_pub_len : (j) == 1 ? XR_D : (j) == 2 ? g_pub_used : XR_D)
#define CL_ARG2(j) ((j) >= 3 && g_pub_w != 2 ? g_pub_w - 1 : 0)
#define CL_TOTAL (3 + XR_L)
#define CL_LOGGED(kind, arg, arg2) (g_ev_n == __CPROVER_old(g_ev_n) + 1 && g_ev_bad == (__CPROVER_old(g_ev_bad) | \
	(CL_KIND(__CPROVER_old(g_ev_n)) != (kind)) | (CL_ARG(__CPROVER_old(g_ev_n)) != (arg)) | (CL_ARG2(__CPROVER_old(g_ev_n)) != (arg2))))

#include "vc_spec_push.h"
/* abstract callees: exact frame, arbitrary data, one call event carrying the length arguments */
void *memset_xr(void *s, int c, size_t n)
VC_ASSIGNS(__CPROVER_object_upto(s, n), g_ev_n, g_ev_bad) __CPROVER_ensures(CL_LOGGED(CL_MEMSET, n, 0));
void dv_zero_xr(dig_t *a, size_t digits)
__CPROVER_requires(digits <= RLC_DV_DIGS)
VC_ASSIGNS(__CPROVER_object_upto(a, digits * sizeof(dig_t)), g_ev_n, g_ev_bad) __CPROVER_ensures(CL_LOGGED(CL_ZERO, digits, 0));
void dv_copy_xr(dig_t *c, const dig_t *a, size_t digits)
VC_ASSIGNS(__CPROVER_object_upto(c, digits * sizeof(dig_t)), g_ev_n, g_ev_bad) __CPROVER_ensures(CL_LOGGED(CL_COPY, digits, 0));
dig_t bn_rsh1_low_xr(dig_t *c, const dig_t *a, size_t size)
VC_ASSIGNS(__CPROVER_object_upto(c, size * sizeof(dig_t)), g_ev_n, g_ev_bad) __CPROVER_ensures(CL_LOGGED(CL_RSH1, size, 0));
dig_t bn_rshb_low_xr(dig_t *c, const dig_t *a, size_t size, uint_t bits)
__CPROVER_requires(bits > 0 && bits < RLC_DIG)
VC_ASSIGNS(__CPROVER_object_upto(c, size * sizeof(dig_t)), g_ev_n, g_ev_bad) __CPROVER_ensures(CL_LOGGED(CL_RSHB, size, bits));

void bn_rec_reg(int8_t *naf, size_t *len, const bn_t k, size_t n, size_t w)
__CPROVER_requires(w >= 2 && w <= 8 && n >= 1 && n <= VC_MAXBITS)
__CPROVER_requires(VC_BN_FRESH(k) && k->used >= 1 && k->used <= RLC_BN_SIZE)
__CPROVER_requires(__CPROVER_is_fresh(len, sizeof(size_t)) && *len <= VC_MAXBITS + 2)
__CPROVER_requires(__CPROVER_is_fresh(naf, *len))
__CPROVER_requires(g_pub_n == n && g_pub_w == w && g_pub_len == *len && g_pub_used == (size_t)k->used)
/* the non-error path: the buffer holds l + 1 digits and k fits the scratch copy (implied by k < 2^n) */
__CPROVER_requires(*len > XR_L && (size_t)k->used <= XR_D)
__CPROVER_requires(g_ct_on == 1 && g_ct_n == 0 && g_ct_bad == 0 && g_ev_n == 0 && g_ev_bad == 0)
/* no error state is written: the frame excludes g_ctx */
VC_ASSIGNS(__CPROVER_alloca_object, __CPROVER_object_whole(naf), *len, g_ct_n, g_ct_bad, g_ev_n, g_ev_bad)
__CPROVER_ensures(g_ct_bad == 0 && g_ct_n == BR_TOTAL)
__CPROVER_ensures(g_ev_bad == 0 && g_ev_n == CL_TOTAL)
__CPROVER_ensures(*len == XR_L + 1)
;
#include "vc_spec_pop.h"

/* loop 0: w == 2; loop 1: general w */
#define XR_INV \
	__CPROVER_loop_invariant(i <= l && l == XR_L && d == XR_D && w == g_pub_w && g_ct_bad == 0 && g_ct_n == 4 + i && g_ev_bad == 0 && g_ev_n == 3 + i) \
	__CPROVER_loop_invariant(*len == g_pub_len && l < *len) \
	__CPROVER_decreases(l - i)
#define VC_LOOP_bn_rec_reg_0 \
	__CPROVER_assigns(i, u_i, __CPROVER_object_whole(t), __CPROVER_object_whole(naf), g_ct_n, g_ct_bad, g_ev_n, g_ev_bad) XR_INV
#define VC_LOOP_bn_rec_reg_1 \
	__CPROVER_assigns(i, u_i, __CPROVER_object_whole(t), __CPROVER_object_whole(naf), g_ct_n, g_ct_bad, g_ev_n, g_ev_bad) XR_INV
/* the same facts as ghost assertions at the loop (woven): a deviation in the set-up or inside one digit step is reported as a function-level
   obligation of bn_rec_reg itself, not only as a broken invariant */
#define XR_PRE __CPROVER_assert(g_ct_bad == 0 && g_ct_n == 4 && g_ev_bad == 0 && g_ev_n == 3, "C20 public trace: the set-up of bn_rec_reg (branches, callee lengths) is a function of n, w, *len, k->used");
#define XR_END __CPROVER_assert(g_ct_bad == 0 && g_ct_n == 5 + i && g_ev_bad == 0 && g_ev_n == 4 + i, "C20 public trace: one digit of bn_rec_reg = one loop-head branch and one shift of d digits");
#define VC_PRE_bn_rec_reg_0 XR_PRE
#define VC_PRE_bn_rec_reg_1 XR_PRE
#define VC_END_bn_rec_reg_0 XR_END
#define VC_END_bn_rec_reg_1 XR_END
