/* Value-level contracts of the digit-vector layer (src/low/easy/relic_bn_*_low.c, src/dv) for sizes up to the configured
   precision.  These are the contracts callers are verified against. */
#pragma once
#include "vc_prelude.h"

#define VC_DIGS_FRESH(p, n)  __CPROVER_is_fresh(p, (n) * sizeof(dig_t))
#define VC_PTR_SAME(p, q)    __CPROVER_pointer_equals(p, q)
#define VC_CARRY(r, n)       (((vc_wide)(r)) << (RLC_DIG * (n)))

#include "vc_spec_push.h"

dig_t bn_addn_low(dig_t *c, const dig_t *a, const dig_t *b, size_t size)
__CPROVER_requires(size <= RLC_BN_SIZE)
__CPROVER_requires(VC_DIGS_FRESH(a, size))
__CPROVER_requires(VC_PTR_SAME(b, a) || VC_DIGS_FRESH(b, size))
__CPROVER_requires(VC_PTR_SAME(c, a) || VC_PTR_SAME(c, b) || VC_DIGS_FRESH(c, size))
__CPROVER_assigns(__CPROVER_object_upto(c, size * sizeof(dig_t)))
__CPROVER_ensures(__CPROVER_return_value <= 1)
__CPROVER_ensures(vc_val(c, size) + VC_CARRY(__CPROVER_return_value, size) == VC_VAL_OLD(a, size) + VC_VAL_OLD(b, size))
;

dig_t bn_add1_low(dig_t *c, const dig_t *a, dig_t digit, size_t size)
__CPROVER_requires(size <= RLC_BN_SIZE)
__CPROVER_requires(VC_DIGS_FRESH(a, size))
__CPROVER_requires(VC_PTR_SAME(c, a) || VC_DIGS_FRESH(c, size))
__CPROVER_assigns(__CPROVER_object_upto(c, size * sizeof(dig_t)))
__CPROVER_ensures(size > 0 ==> __CPROVER_return_value <= 1)
__CPROVER_ensures(size == 0 ==> __CPROVER_return_value == digit)
__CPROVER_ensures(vc_val(c, size) + VC_CARRY(__CPROVER_return_value, size) == VC_VAL_OLD(a, size) + (vc_wide)digit)
;

dig_t bn_subn_low(dig_t *c, const dig_t *a, const dig_t *b, size_t size)
__CPROVER_requires(size <= RLC_BN_SIZE)
__CPROVER_requires(VC_DIGS_FRESH(a, size))
__CPROVER_requires(VC_PTR_SAME(b, a) || VC_DIGS_FRESH(b, size))
__CPROVER_requires(VC_PTR_SAME(c, a) || VC_PTR_SAME(c, b) || VC_DIGS_FRESH(c, size))
__CPROVER_assigns(__CPROVER_object_upto(c, size * sizeof(dig_t)))
__CPROVER_ensures(__CPROVER_return_value <= 1)
__CPROVER_ensures(vc_val(c, size) + VC_VAL_OLD(b, size) == VC_VAL_OLD(a, size) + VC_CARRY(__CPROVER_return_value, size))
;

dig_t bn_sub1_low(dig_t *c, const dig_t *a, dig_t digit, size_t size)
__CPROVER_requires(size <= RLC_BN_SIZE)
__CPROVER_requires(VC_DIGS_FRESH(a, size))
__CPROVER_requires(VC_PTR_SAME(c, a) || VC_DIGS_FRESH(c, size))
__CPROVER_assigns(__CPROVER_object_upto(c, size * sizeof(dig_t)))
__CPROVER_ensures(size > 0 ==> __CPROVER_return_value <= 1)
__CPROVER_ensures(size == 0 ==> __CPROVER_return_value == digit)
__CPROVER_ensures(vc_val(c, size) + (vc_wide)digit == VC_VAL_OLD(a, size) + VC_CARRY(__CPROVER_return_value, size))
;

int dv_cmp(const dig_t *a, const dig_t *b, size_t size)
__CPROVER_requires(size <= RLC_BN_SIZE)
__CPROVER_requires(VC_DIGS_FRESH(a, size))
__CPROVER_requires(VC_PTR_SAME(b, a) || VC_DIGS_FRESH(b, size))
__CPROVER_assigns()
__CPROVER_ensures(__CPROVER_return_value == (vc_val(a, size) < vc_val(b, size) ? RLC_LT : vc_val(a, size) > vc_val(b, size) ? RLC_GT : RLC_EQ))
;

void dv_copy(dig_t *c, const dig_t *a, size_t digits)
__CPROVER_requires(digits <= VC_W)
__CPROVER_requires(VC_DIGS_FRESH(a, digits))
__CPROVER_requires(VC_DIGS_FRESH(c, digits))
__CPROVER_assigns(__CPROVER_object_upto(c, digits * sizeof(dig_t)))
__CPROVER_ensures(vc_val(c, digits) == vc_val(a, digits))
;

#include "vc_spec_pop.h"
