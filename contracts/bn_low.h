/* Value-level contracts of the digit-vector layer (src/low/easy/relic_bn_*_low.c, src/dv) for sizes up to the configured
   precision.  These are the contracts callers are verified against. */
#pragma once
#include "vc_prelude.h"

#define VC_CARRY(r, n)       (((vc_wide)(r)) << (RLC_DIG * (n)))


/* alias shapes of raw digit-vector arguments (same scheme as bn_api.h): an enforcing unit selects one with
   -DVC_LSHAPE_<f>=<shape>; call-site replacement checks the general disjunction */
#define VC_L_GEN  0
#define VC_L_NONE 1
#define VC_L_CA   2
#define VC_L_CB   3
#define VC_L_AB   4
#define VC_L_CAB  5
#define VC_LREQ_B(s, a, b, n)    ((s) == VC_L_NONE || (s) == VC_L_CA || (s) == VC_L_CB ? VC_DIGS_FRESH(b, n) : \
                                  (s) == VC_L_AB || (s) == VC_L_CAB ? VC_PTR_SAME(b, a) : (VC_PTR_SAME(b, a) || VC_DIGS_FRESH(b, n)))
#define VC_LREQ_C3(s, c, a, b, n) ((s) == VC_L_NONE || (s) == VC_L_AB ? VC_DIGS_FRESH(c, n) : \
                                  (s) == VC_L_CA || (s) == VC_L_CAB ? VC_PTR_SAME(c, a) : \
                                  (s) == VC_L_CB ? VC_PTR_SAME(c, b) : (VC_PTR_SAME(c, a) || VC_PTR_SAME(c, b) || VC_DIGS_FRESH(c, n)))
#define VC_LREQ_C2(s, c, a, n)   ((s) == VC_L_NONE ? VC_DIGS_FRESH(c, n) : (s) == VC_L_CA ? VC_PTR_SAME(c, a) : \
                                  (VC_PTR_SAME(c, a) || VC_DIGS_FRESH(c, n)))
#ifndef VC_LSHAPE
#define VC_LSHAPE VC_L_GEN
#endif

#include "vc_spec_push.h"

dig_t bn_addn_low(dig_t *c, const dig_t *a, const dig_t *b, size_t size)
__CPROVER_requires(size <= RLC_BN_SIZE)
__CPROVER_requires(VC_DIGS_FRESH(a, size))
__CPROVER_requires(VC_LREQ_B(VC_LSHAPE, a, b, size))
__CPROVER_requires(VC_LREQ_C3(VC_LSHAPE, c, a, b, size))
VC_ASSIGNS(__CPROVER_object_upto(c, size * sizeof(dig_t)))
__CPROVER_ensures(__CPROVER_return_value <= 1)
__CPROVER_ensures(vc_val(c, size) + VC_CARRY(__CPROVER_return_value, size) == VC_VAL_OLD(a, size) + VC_VAL_OLD(b, size))
;

dig_t bn_add1_low(dig_t *c, const dig_t *a, dig_t digit, size_t size)
__CPROVER_requires(size <= RLC_BN_SIZE)
__CPROVER_requires(VC_DIGS_FRESH(a, size))
__CPROVER_requires(VC_LREQ_C2(VC_LSHAPE, c, a, size))
VC_ASSIGNS(__CPROVER_object_upto(c, size * sizeof(dig_t)))
__CPROVER_ensures(size > 0 ==> __CPROVER_return_value <= 1)
__CPROVER_ensures(size == 0 ==> __CPROVER_return_value == digit)
__CPROVER_ensures(vc_val(c, size) + VC_CARRY(__CPROVER_return_value, size) == VC_VAL_OLD(a, size) + (vc_wide)digit)
;

dig_t bn_subn_low(dig_t *c, const dig_t *a, const dig_t *b, size_t size)
__CPROVER_requires(size <= RLC_BN_SIZE)
__CPROVER_requires(VC_DIGS_FRESH(a, size))
__CPROVER_requires(VC_LREQ_B(VC_LSHAPE, a, b, size))
__CPROVER_requires(VC_LREQ_C3(VC_LSHAPE, c, a, b, size))
VC_ASSIGNS(__CPROVER_object_upto(c, size * sizeof(dig_t)))
__CPROVER_ensures(__CPROVER_return_value <= 1)
__CPROVER_ensures(vc_val(c, size) + VC_VAL_OLD(b, size) == VC_VAL_OLD(a, size) + VC_CARRY(__CPROVER_return_value, size))
;

dig_t bn_sub1_low(dig_t *c, const dig_t *a, dig_t digit, size_t size)
__CPROVER_requires(size <= RLC_BN_SIZE)
__CPROVER_requires(VC_DIGS_FRESH(a, size))
__CPROVER_requires(VC_LREQ_C2(VC_LSHAPE, c, a, size))
VC_ASSIGNS(__CPROVER_object_upto(c, size * sizeof(dig_t)))
__CPROVER_ensures(size > 0 ==> __CPROVER_return_value <= 1)
__CPROVER_ensures(size == 0 ==> __CPROVER_return_value == digit)
__CPROVER_ensures(vc_val(c, size) + (vc_wide)digit == VC_VAL_OLD(a, size) + VC_CARRY(__CPROVER_return_value, size))
;

int dv_cmp(const dig_t *a, const dig_t *b, size_t size)
__CPROVER_requires(size <= RLC_BN_SIZE)
__CPROVER_requires(VC_DIGS_FRESH(a, size))
__CPROVER_requires(VC_LREQ_B(VC_LSHAPE, a, b, size))
VC_ASSIGNS_NONE
__CPROVER_ensures(__CPROVER_return_value == (vc_val(a, size) < vc_val(b, size) ? RLC_LT : vc_val(a, size) > vc_val(b, size) ? RLC_GT : RLC_EQ))
;

void dv_copy(dig_t *c, const dig_t *a, size_t digits)
__CPROVER_requires(digits <= VC_W)
__CPROVER_requires(VC_DIGS_FRESH(a, digits))
__CPROVER_requires(VC_LREQ_C2(VC_LSHAPE, c, a, digits))
VC_ASSIGNS(__CPROVER_object_upto(c, digits * sizeof(dig_t)))
__CPROVER_ensures(vc_val(c, digits) == VC_VAL_OLD(a, digits))
;

/* ---- shifts ------------------------------------------------------------------------------------------------------ */
dig_t bn_lsh1_low(dig_t *c, const dig_t *a, size_t size)
__CPROVER_requires(size <= RLC_BN_SIZE)
__CPROVER_requires(VC_DIGS_FRESH(a, size))
__CPROVER_requires(VC_LREQ_C2(VC_LSHAPE, c, a, size))
VC_ASSIGNS(__CPROVER_object_upto(c, size * sizeof(dig_t)))
__CPROVER_ensures(__CPROVER_return_value <= 1)
__CPROVER_ensures(vc_val(c, size) + VC_CARRY(__CPROVER_return_value, size) == (VC_VAL_OLD(a, size) << 1))
;

dig_t bn_lshb_low(dig_t *c, const dig_t *a, size_t size, uint_t bits)
__CPROVER_requires(size <= RLC_BN_SIZE && bits > 0 && bits < RLC_DIG)
__CPROVER_requires(VC_DIGS_FRESH(a, size))
__CPROVER_requires(VC_LREQ_C2(VC_LSHAPE, c, a, size))
VC_ASSIGNS(__CPROVER_object_upto(c, size * sizeof(dig_t)))
__CPROVER_ensures(size > 0 ==> ((vc_dbl)__CPROVER_return_value >> bits) == 0)
__CPROVER_ensures(vc_val(c, size) + VC_CARRY(__CPROVER_return_value, size) == (VC_VAL_OLD(a, size) << bits))
;

dig_t bn_rsh1_low(dig_t *c, const dig_t *a, size_t size)
__CPROVER_requires(size <= RLC_BN_SIZE)
__CPROVER_requires(VC_DIGS_FRESH(a, size))
__CPROVER_requires(VC_LREQ_C2(VC_LSHAPE, c, a, size))
VC_ASSIGNS(__CPROVER_object_upto(c, size * sizeof(dig_t)))
__CPROVER_ensures(__CPROVER_return_value == (dig_t)(VC_VAL_OLD(a, size) & 1))
__CPROVER_ensures(vc_val(c, size) == (VC_VAL_OLD(a, size) >> 1))
;

dig_t bn_rshb_low(dig_t *c, const dig_t *a, size_t size, uint_t bits)
__CPROVER_requires(size <= RLC_BN_SIZE && bits > 0 && bits < RLC_DIG)
__CPROVER_requires(VC_DIGS_FRESH(a, size))
__CPROVER_requires(VC_LREQ_C2(VC_LSHAPE, c, a, size))
VC_ASSIGNS(__CPROVER_object_upto(c, size * sizeof(dig_t)))
__CPROVER_ensures((vc_wide)__CPROVER_return_value == (VC_VAL_OLD(a, size) & ((((vc_wide)1) << bits) - 1)))
__CPROVER_ensures(vc_val(c, size) == (VC_VAL_OLD(a, size) >> bits))
;

/* c[digits .. size) = a[0 .. size-digits), c[0 .. digits) = 0   (size counts the digits of the RESULT) */
void dv_lshd(dig_t *c, const dig_t *a, size_t size, uint_t digits)
__CPROVER_requires(size <= RLC_BN_SIZE && digits <= size)
__CPROVER_requires(VC_DIGS_FRESH(c, size))
__CPROVER_requires(VC_LSHAPE == VC_L_NONE ? VC_DIGS_FRESH(a, size - digits) : VC_LSHAPE == VC_L_CA ? VC_PTR_SAME(a, c) : \
	(VC_PTR_SAME(a, c) || VC_DIGS_FRESH(a, size - digits)))
VC_ASSIGNS(__CPROVER_object_upto(c, size * sizeof(dig_t)))
__CPROVER_ensures(vc_val(c, size) == (VC_VAL_OLD(a, size - digits) << (RLC_DIG * digits)))
;

/* c[0 .. size-digits) = a[digits .. size), c[size-digits .. size) = 0 */
void dv_rshd(dig_t *c, const dig_t *a, size_t size, uint_t digits)
__CPROVER_requires(size <= RLC_BN_SIZE && digits <= size)
__CPROVER_requires(VC_DIGS_FRESH(a, size))
__CPROVER_requires(VC_LREQ_C2(VC_LSHAPE, c, a, size))
VC_ASSIGNS(__CPROVER_object_upto(c, size * sizeof(dig_t)))
__CPROVER_ensures(vc_val(c, size) == (VC_VAL_OLD(a, size) >> (RLC_DIG * digits)))
;

void dv_zero(dig_t *a, size_t digits)
__CPROVER_requires(digits <= RLC_DV_DIGS)       /* the precision-error exit for larger requests is exercised by a C08 unit */
__CPROVER_requires(VC_DIGS_FRESH(a, digits))
VC_ASSIGNS(__CPROVER_object_upto(a, digits * sizeof(dig_t)))
__CPROVER_ensures(digits <= VC_W ==> vc_val(a, digits) == 0)
__CPROVER_ensures(gk < digits ==> a[gk] == 0)
;

#include "vc_spec_pop.h"
