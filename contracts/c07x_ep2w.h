/* Encoders of quadratic-extension elements and of points on curves over F_p^2 (property C07, encoding half; C08).
   Same style as c07x_enc.h: every callee abstract; what is proved is the advertised length, the length test and the error exit, the
   tag byte, normalisation before use, which coefficient of which object goes to which offset with which length, zero padding /
   bytes left untouched, the frame. */
#pragma once
#include "c07x_ep2.h"

#include "vc_spec_push.h"
#ifdef VC_C07X_FP2W
/* ---- fp2_write_bin ------------------------------------------------------------------------------------------------------- */
#define VC_A2(i) ((const void *)((const fp_t *)g_d2_dst)[i])     /* coefficient i of the argument */
#define VC_P2(i) ((const void *)((const fp_t *)g_d2_tmp)[i])     /* coefficient i of the packed temporary */
#define VC_FP2W_NEED ((g_d2_pack && g_d2_cyc == 1) ? VC_B + 1 : 2 * VC_B)
int fp2_test_cyc_v(const fp2_t a) VC_ASSIGNS(g_d2_cyc, g_d2_cyc_calls)
__CPROVER_ensures((__CPROVER_return_value == 0 || __CPROVER_return_value == 1) && g_d2_cyc_calls == __CPROVER_old(g_d2_cyc_calls) + 1)
__CPROVER_ensures(g_d2_cyc == ((const void *)a == g_d2_dst ? __CPROVER_return_value : 2));
void fp2_pck_v(fp2_t c, const fp2_t a) VC_ASSIGNS(__CPROVER_object_upto(c, sizeof(fp2_t)), g_d2_pck_calls, g_d2_pck_ok, g_d2_tmp)
__CPROVER_ensures(g_d2_pck_calls == __CPROVER_old(g_d2_pck_calls) + 1 && g_d2_tmp == (const void *)c)
__CPROVER_ensures(g_d2_pck_ok == ((const void *)a == g_d2_dst && (const void *)c != g_d2_dst && __CPROVER_old(g_d2_wcalls) == 0 && __CPROVER_old(g_d2_bit_calls) == 0));
int fp_get_bit_v(const fp_t a, uint_t bit) VC_ASSIGNS(g_d2_bit, g_d2_bit_ok, g_d2_bit_calls)
__CPROVER_ensures((__CPROVER_return_value == 0 || __CPROVER_return_value == 1) && g_d2_bit == __CPROVER_return_value && g_d2_bit_calls == __CPROVER_old(g_d2_bit_calls) + 1)
__CPROVER_ensures(g_d2_bit_ok == (g_d2_pck_calls == 1 && (const void *)a == VC_P2(1) && bit == 0));
void fp_write_bin_v(uint8_t *bin, size_t len, const fp_t a)
VC_ASSIGNS(__CPROVER_object_upto(bin, len), g_d2_wx, g_d2_wy, g_d2_wcalls, g_d2_cal_err, g_d2_outx, g_d2_outy, g_ctx.code)
__CPROVER_ensures(g_d2_wcalls == __CPROVER_old(g_d2_wcalls) + 1 && VC_ERRFLOW(g_d2_cal_err))
__CPROVER_ensures(g_d2_wx == (((const void *)bin == g_d2_bin0 && len == VC_B && (g_d2_pck_calls == 1 ? (const void *)a == VC_P2(0) : (const void *)a == VC_A2(0))) ? 1 : __CPROVER_old(g_d2_wx)))
__CPROVER_ensures(g_d2_wy == (((const void *)bin == (const void *)((const uint8_t *)g_d2_bin0 + VC_B) && len == VC_B && g_d2_pck_calls == 0 && (const void *)a == VC_A2(1)) ? 1 : __CPROVER_old(g_d2_wy)))
__CPROVER_ensures(((const void *)bin == g_d2_bin0 && gk < len) ? bin[gk] == g_d2_outx : g_d2_outx == __CPROVER_old(g_d2_outx))
__CPROVER_ensures(((const void *)bin == (const void *)((const uint8_t *)g_d2_bin0 + VC_B) && gk < len) ? bin[gk] == g_d2_outy : g_d2_outy == __CPROVER_old(g_d2_outy));

/* advertised length (fp2_size_bin): B+1 if compression is requested and the element is unitary, else 2B.
   Returns normally without error ==> len >= the advertised length, and
     compressed:   the unitarity test was asked about the argument; the argument was packed once into a temporary; coefficient 0 of
                   THAT temporary was encoded at offset 0 over B bytes; byte B is bit 0 of coefficient 1 of THAT temporary; one encoding;
     otherwise:    coefficients 0 and 1 OF THE ARGUMENT encoded at offsets 0 and B, B bytes each; nothing packed; two encodings;
     the encoded ranges hold what the field encoder left there, and every byte beyond the advertised length is untouched.
   An error of its own only when len < the advertised length, before anything is written (checked in the longjmp stub). */
void fp2_write_bin(uint8_t *bin, size_t len, const fp2_t a, int pack)
__CPROVER_requires(len <= 2 * VC_B + 2 && __CPROVER_is_fresh(bin, len) && __CPROVER_is_fresh(a, sizeof(fp2_t)))
__CPROVER_requires(g_may_throw == 1 && g_ctx.code == RLC_OK && g_d2_bin0 == bin && g_d2_dst == (const void *)a && g_d2_len == len && g_d2_pack == (pack != 0) && g_d2_tmp == NULL)
__CPROVER_requires(g_d2_cyc == VC_UNASKED && g_d2_cyc_calls == 0 && g_d2_pck_calls == 0 && g_d2_pck_ok == 0 && g_d2_bit_calls == 0 && g_d2_bit_ok == 0 && g_d2_wx == 0 && g_d2_wy == 0 && g_d2_wcalls == 0 && g_d2_cal_err == 0)
__CPROVER_requires(gk < len ==> bin[gk] == g_byte0)
VC_ASSIGNS(__CPROVER_object_upto(bin, len), g_d2_cyc, g_d2_cyc_calls, g_d2_pck_calls, g_d2_pck_ok, g_d2_tmp, g_d2_bit, g_d2_bit_ok, g_d2_bit_calls, g_d2_wx, g_d2_wy, g_d2_wcalls, g_d2_cal_err, g_d2_outx, g_d2_outy, \
	g_ctx.code, g_ctx.last, g_ctx.caught, g_ctx.error, g_ctx.number, g_thrown)
__CPROVER_ensures(g_ctx.code == RLC_OK || g_ctx.code == RLC_ERR)
__CPROVER_ensures(pack ? (g_d2_cyc == 0 || g_d2_cyc == 1) && g_d2_cyc_calls == 1 : g_d2_cyc_calls == 0)
__CPROVER_ensures(len >= VC_FP2W_NEED)                     /* a return at all: the short-buffer case leaves by the error exit */
__CPROVER_ensures(g_d2_cal_err == 0 ==> g_ctx.code == RLC_OK)
__CPROVER_ensures((pack && g_d2_cyc == 1) ==> (g_d2_pck_calls == 1 && g_d2_pck_ok == 1 && g_d2_wx == 1 && g_d2_wcalls == 1 && g_d2_bit_calls == 1 && g_d2_bit_ok == 1 && bin[VC_B] == g_d2_bit))
__CPROVER_ensures(!(pack && g_d2_cyc == 1) ==> (g_d2_pck_calls == 0 && g_d2_wx == 1 && g_d2_wy == 1 && g_d2_wcalls == 2 && g_d2_bit_calls == 0 && (gk < VC_B ==> bin[VC_B + gk] == g_d2_outy)))
__CPROVER_ensures(gk < VC_B ==> bin[gk] == g_d2_outx)
__CPROVER_ensures((gk < len && gk >= VC_FP2W_NEED) ==> bin[gk] == g_byte0)
;
#endif

#if defined(VC_C07X_EP2W) || defined(VC_C07X_EP2S)
int ep2_is_infty_w(const ep2_t p) VC_ASSIGNS(g_d2_infty, g_d2_inf_calls)
__CPROVER_ensures((__CPROVER_return_value == 0 || __CPROVER_return_value == 1) && g_d2_inf_calls == __CPROVER_old(g_d2_inf_calls) + 1)
__CPROVER_ensures(g_d2_infty == ((const void *)p == g_d2_dst ? __CPROVER_return_value : __CPROVER_old(g_d2_infty)));
void ep2_norm_w(ep2_t r, const ep2_t p)
VC_ASSIGNS(__CPROVER_object_upto(r, sizeof(ep2_st)), g_d2_nrm_calls, g_d2_nrm_ok, g_d2_tmp, g_d2_cal_err, g_ctx.code)
__CPROVER_ensures(g_d2_nrm_calls == __CPROVER_old(g_d2_nrm_calls) + 1 && g_d2_tmp == (const void *)r && VC_ERRFLOW(g_d2_cal_err))
__CPROVER_ensures(g_d2_nrm_ok == ((const void *)p == g_d2_dst && (const void *)r != g_d2_dst && __CPROVER_old(g_d2_wcalls) == 0 && __CPROVER_old(g_d2_bit_calls) == 0 && __CPROVER_old(g_d2_pck_calls) == 0));

/* advertised length: 1 for the identity, else 1 + 2B (compressed) or 1 + 4B; the argument is not modified (frame); no error of its own */
size_t ep2_size_bin(const ep2_t a, int pack)
__CPROVER_requires(__CPROVER_is_fresh(a, sizeof(ep2_st)) && g_d2_dst == (const void *)a && g_d2_infty == VC_UNASKED && g_d2_inf_calls == 0 && g_d2_cal_err == 0 && g_ctx.code == RLC_OK && g_may_throw == 0)
VC_ASSIGNS(g_d2_infty, g_d2_inf_calls, g_d2_nrm_calls, g_d2_nrm_ok, g_d2_tmp, g_d2_cal_err, g_ctx.code, g_ctx.last, g_ctx.caught, g_ctx.error, g_ctx.number, g_thrown)
__CPROVER_ensures(g_d2_infty == 0 || g_d2_infty == 1)
__CPROVER_ensures(__CPROVER_return_value == (g_d2_infty == 1 ? 1 : (pack ? 1 + 2 * VC_B : 1 + 4 * VC_B)))
__CPROVER_ensures(g_d2_cal_err == 0 ==> g_ctx.code == RLC_OK)
;
#endif

#ifdef VC_C07X_EP2W
#define VC_EP2W_NEED (g_d2_infty == 1 ? 1 : (g_d2_pack ? 1 + 2 * VC_B : 1 + 4 * VC_B))
void ep2_pck_w(ep2_t r, const ep2_t p) VC_ASSIGNS(__CPROVER_object_upto(r, sizeof(ep2_st)), g_d2_pck_calls, g_d2_pck_ok, g_d2_cal_err, g_ctx.code)
__CPROVER_ensures(g_d2_pck_calls == __CPROVER_old(g_d2_pck_calls) + 1 && VC_ERRFLOW(g_d2_cal_err))
__CPROVER_ensures(g_d2_pck_ok == ((const void *)r == g_d2_tmp && (const void *)p == g_d2_tmp && g_d2_nrm_calls == 1 && __CPROVER_old(g_d2_wcalls) == 0 && __CPROVER_old(g_d2_bit_calls) == 0));
int fp_get_bit_w(const fp_t a, uint_t bit) VC_ASSIGNS(g_d2_bit, g_d2_bit_ok, g_d2_bit_calls)
__CPROVER_ensures((__CPROVER_return_value == 0 || __CPROVER_return_value == 1) && g_d2_bit == __CPROVER_return_value && g_d2_bit_calls == __CPROVER_old(g_d2_bit_calls) + 1)
__CPROVER_ensures(g_d2_bit_ok == ((const void *)a == VC_T2(y[0]) && bit == 0 && g_d2_nrm_calls == 1 && g_d2_pck_calls == 1));
void fp2_write_bin_w(uint8_t *bin, size_t len, const fp2_t a, int pack)
VC_ASSIGNS(__CPROVER_object_upto(bin, len), g_d2_wx, g_d2_wy, g_d2_wcalls, g_d2_cal_err, g_d2_outx, g_d2_outy, g_ctx.code)
__CPROVER_ensures(g_d2_wcalls == __CPROVER_old(g_d2_wcalls) + 1 && VC_ERRFLOW(g_d2_cal_err))
__CPROVER_ensures(g_d2_wx == (((const void *)bin == (const void *)((const uint8_t *)g_d2_bin0 + 1) && len == 2 * VC_B && pack == 0 && (const void *)a == VC_T2(x) && g_d2_nrm_calls == 1 && g_d2_pck_calls == (g_d2_pack ? 1 : 0)) ? 1 : __CPROVER_old(g_d2_wx)))
__CPROVER_ensures(g_d2_wy == (((const void *)bin == (const void *)((const uint8_t *)g_d2_bin0 + 1 + 2 * VC_B) && len == 2 * VC_B && pack == 0 && (const void *)a == VC_T2(y) && g_d2_nrm_calls == 1 && g_d2_pck_calls == 0) ? 1 : __CPROVER_old(g_d2_wy)))
__CPROVER_ensures(((const void *)bin == (const void *)((const uint8_t *)g_d2_bin0 + 1) && gk < len) ? bin[gk] == g_d2_outx : g_d2_outx == __CPROVER_old(g_d2_outx))
__CPROVER_ensures(((const void *)bin == (const void *)((const uint8_t *)g_d2_bin0 + 1 + 2 * VC_B) && gk < len) ? bin[gk] == g_d2_outy : g_d2_outy == __CPROVER_old(g_d2_outy));

/* point over F_p^2, same claims as ep_write_bin (c07x_enc.h) with coordinates of 2B bytes written UNCOMPRESSED (pack argument 0 of
   the F_p^2 encoder: point coordinates are not unitary elements) and the parity bit read from coefficient 0 of y. */
void ep2_write_bin(uint8_t *bin, size_t len, const ep2_t a, int pack)
__CPROVER_requires(len <= 4 * VC_B + 3 && __CPROVER_is_fresh(bin, len) && __CPROVER_is_fresh(a, sizeof(ep2_st)))
__CPROVER_requires(g_may_throw == 1 && g_ctx.code == RLC_OK && g_d2_bin0 == bin && g_d2_dst == (const void *)a && g_d2_len == len && g_d2_pack == (pack != 0))
__CPROVER_requires(g_d2_infty == VC_UNASKED && g_d2_inf_calls == 0 && g_d2_nrm_calls == 0 && g_d2_nrm_ok == 0 && g_d2_pck_calls == 0 && g_d2_pck_ok == 0 && g_d2_bit_calls == 0 && g_d2_bit_ok == 0 \
	&& g_d2_wx == 0 && g_d2_wy == 0 && g_d2_wcalls == 0 && g_d2_cal_err == 0 && g_d2_tmp == NULL)
VC_ASSIGNS(__CPROVER_object_upto(bin, len), g_d2_infty, g_d2_inf_calls, g_d2_nrm_calls, g_d2_nrm_ok, g_d2_tmp, g_d2_pck_calls, g_d2_pck_ok, g_d2_bit, g_d2_bit_ok, g_d2_bit_calls, \
	g_d2_wx, g_d2_wy, g_d2_wcalls, g_d2_cal_err, g_d2_outx, g_d2_outy, g_ctx.code, g_ctx.last, g_ctx.caught, g_ctx.error, g_ctx.number, g_thrown)
__CPROVER_ensures(g_ctx.code == RLC_OK || g_ctx.code == RLC_ERR)
__CPROVER_ensures(g_d2_infty == 0 || g_d2_infty == 1)
__CPROVER_ensures(g_ctx.code == RLC_OK ==> len >= VC_EP2W_NEED)
__CPROVER_ensures((len >= VC_EP2W_NEED && g_d2_cal_err == 0) ==> g_ctx.code == RLC_OK)
__CPROVER_ensures((g_ctx.code == RLC_OK && g_d2_infty == 1) ==> ((gk < len ==> bin[gk] == 0) && g_d2_nrm_calls == 0 && g_d2_wcalls == 0))
__CPROVER_ensures((g_ctx.code == RLC_OK && g_d2_infty == 0) ==> (g_d2_nrm_calls == 1 && g_d2_nrm_ok == 1 && g_d2_wx == 1 && ((gk < len && gk >= VC_EP2W_NEED) ==> bin[gk] == 0)))
__CPROVER_ensures((g_ctx.code == RLC_OK && g_d2_infty == 0 && pack) ==> (g_d2_pck_calls == 1 && g_d2_pck_ok == 1 && g_d2_bit_calls == 1 && g_d2_bit_ok == 1 && bin[0] == (2 | g_d2_bit) && g_d2_wcalls == 1))
__CPROVER_ensures((g_ctx.code == RLC_OK && g_d2_infty == 0 && !pack) ==> (g_d2_pck_calls == 0 && g_d2_bit_calls == 0 && bin[0] == 4 && g_d2_wy == 1 && g_d2_wcalls == 2))
__CPROVER_ensures((g_ctx.code == RLC_OK && g_d2_infty == 0 && gk < 2 * VC_B) ==> (bin[1 + gk] == g_d2_outx && (!pack ==> bin[1 + 2 * VC_B + gk] == g_d2_outy)))
__CPROVER_ensures(len < VC_EP2W_NEED ==> (g_ctx.code == RLC_ERR && g_d2_wcalls == 0))
;
#endif
#include "vc_spec_pop.h"
