/* Codecs of quadratic-extension elements and of points on curves over F_p^2 (property C07; C08 for the exact-size buffers).
   Guard/structure contracts, every callee abstract (exact frame, nondeterministic result, what it was applied to recorded in
   ghost state keyed by argument identity).  Arithmetic (conversion, square roots, curve equation, normalisation) not covered. */
#pragma once
#include "vc_prelude.h"
#define VC_UNASKED (-9)
#define VC_B RLC_FP_BYTES
extern const void *g_d2_dst, *g_d2_bin0, *g_d2_tmp;
extern size_t g_d2_len;
extern int g_d2_tagbit, g_d2_pack;
extern int g_d2_rx, g_d2_ry, g_d2_rcalls, g_d2_yz, g_d2_ybit, g_d2_upk_calls, g_d2_upk_ok, g_d2_upk_ret, g_d2_onc, g_d2_onc_ok, g_d2_onc_calls,
	g_d2_wcnt, g_d2_onc_wcnt, g_d2_cal_err, g_d2_inf_calls, g_d2_inf_ok, g_d2_z1, g_d2_bitok, g_d2_bitval;
extern int g_d2_infty, g_d2_nrm_calls, g_d2_nrm_ok, g_d2_pck_calls, g_d2_pck_ok, g_d2_bit, g_d2_bit_ok, g_d2_bit_calls, g_d2_wx, g_d2_wy, g_d2_wcalls, g_d2_cyc, g_d2_cyc_calls;
extern unsigned char g_d2_outx, g_d2_outy;
extern int g_d2_upk_wcnt, g_d2_rd_wcnt;     /* value of the write counter right after the decompression / the last coordinate decoding */
#define VC_D2(m) ((const void *)((const ep2_st *)g_d2_dst)->m)
#define VC_T2(m) ((const void *)((const ep2_st *)g_d2_tmp)->m)
#define VC_ERRFLOW(flag) ((g_ctx.code == __CPROVER_old(g_ctx.code) && flag == __CPROVER_old(flag)) || (g_ctx.code == RLC_ERR && flag == 1))

#include "vc_spec_push.h"
#ifdef VC_C07X_FP2R
/* ---- fp2_read_bin -------------------------------------------------------------------------------------------------------- */
#define VC_Q(i) ((const void *)((const fp_t *)g_d2_dst)[i])
void fp_read_bin_q(fp_t a, const uint8_t *bin, size_t len)
__CPROVER_requires(__CPROVER_is_fresh(bin, len) && len == VC_B)
VC_ASSIGNS(__CPROVER_object_upto(a, sizeof(fp_t)), g_d2_rx, g_d2_ry, g_d2_rcalls, g_d2_cal_err, g_ctx.code)
__CPROVER_ensures(g_d2_rcalls == __CPROVER_old(g_d2_rcalls) + 1 && VC_ERRFLOW(g_d2_cal_err))
__CPROVER_ensures(g_d2_rx == (((const void *)a == VC_Q(0) && (const void *)bin == g_d2_bin0) ? 1 : __CPROVER_old(g_d2_rx)))
__CPROVER_ensures(g_d2_ry == (((const void *)a == VC_Q(1) && (const void *)bin == (const void *)((const uint8_t *)g_d2_bin0 + VC_B)) ? 1 : __CPROVER_old(g_d2_ry)));
void fp_zero_q(fp_t a) VC_ASSIGNS(__CPROVER_object_upto(a, sizeof(fp_t)), g_d2_z1, g_d2_bitok)
__CPROVER_ensures(g_d2_z1 == ((const void *)a == VC_Q(1) ? 1 : __CPROVER_old(g_d2_z1)) && g_d2_bitok == ((const void *)a == VC_Q(1) ? 0 : __CPROVER_old(g_d2_bitok)));
void fp_set_bit_q(fp_t a, uint_t bit, int value) VC_ASSIGNS(__CPROVER_object_upto(a, sizeof(fp_t)), g_d2_bitok, g_d2_bitval)
__CPROVER_ensures(g_d2_bitok == ((const void *)a == VC_Q(1) && bit == 0 && g_d2_z1 == 1) && g_d2_bitval == value);
int fp2_upk_q(fp2_t c, const fp2_t a) VC_ASSIGNS(__CPROVER_object_upto(c, sizeof(fp2_t)), g_d2_upk_calls, g_d2_upk_ok, g_d2_upk_ret, g_d2_cal_err, g_ctx.code)
__CPROVER_ensures((__CPROVER_return_value == 0 || __CPROVER_return_value == 1) && g_d2_upk_ret == __CPROVER_return_value && g_d2_upk_calls == __CPROVER_old(g_d2_upk_calls) + 1 && VC_ERRFLOW(g_d2_cal_err))
__CPROVER_ensures(g_d2_upk_ok == ((const void *)c == g_d2_dst && (const void *)a == g_d2_dst && g_d2_rx == 1 && g_d2_rcalls == 1 && g_d2_bitok == 1));

/* quadratic-extension element: 2B bytes = both coefficients through the validating field decoder at offsets 0 and B; B+1 bytes
   (compressed unitary element) = the sign byte (byte B) must be 0 or 1, else error before anything is decoded and the output is
   untouched; first coefficient through the validating decoder, second coefficient := the bit taken from byte B, then decompressed in
   place exactly once; no error reported ==> the decompression reported success (fp2_upk returned 1); any other length: error,
   output untouched.  No error of its own otherwise. */
void fp2_read_bin(fp2_t a, const uint8_t *bin, size_t len)
__CPROVER_requires(len <= 2 * VC_B + 2 && __CPROVER_is_fresh(a, sizeof(fp2_t)) && __CPROVER_is_fresh(bin, len))
__CPROVER_requires(g_may_throw == 1 && g_ctx.code == RLC_OK && g_d2_bin0 == bin && g_d2_dst == (const void *)a && g_d2_rx == 0 && g_d2_ry == 0 && g_d2_rcalls == 0 && g_d2_z1 == 0 && g_d2_bitok == 0 \
	&& g_d2_upk_calls == 0 && g_d2_upk_ok == 0 && g_d2_cal_err == 0 && g_d2_upk_ret == VC_UNASKED)
__CPROVER_requires(gk < 2 * RLC_FP_DIGS ==> ((const dig_t *)a)[gk] == g_dig0)
VC_ASSIGNS(__CPROVER_object_upto(a, sizeof(fp2_t)), g_d2_rx, g_d2_ry, g_d2_rcalls, g_d2_z1, g_d2_bitok, g_d2_bitval, g_d2_upk_calls, g_d2_upk_ok, g_d2_upk_ret, g_d2_cal_err, \
	g_ctx.code, g_ctx.last, g_ctx.caught, g_ctx.error, g_ctx.number, g_thrown)
__CPROVER_ensures(g_ctx.code == RLC_OK || g_ctx.code == RLC_ERR)
__CPROVER_ensures(((len != VC_B + 1 && len != 2 * VC_B) || (len == VC_B + 1 && bin[VC_B] > 1)) ==> (g_ctx.code == RLC_ERR && g_d2_rcalls == 0 && g_d2_upk_calls == 0 && (gk < 2 * RLC_FP_DIGS ==> ((const dig_t *)a)[gk] == g_dig0)))
__CPROVER_ensures(len == 2 * VC_B ==> (g_d2_rx == 1 && g_d2_ry == 1 && g_d2_rcalls == 2 && g_d2_upk_calls == 0))
__CPROVER_ensures((len == VC_B + 1 && bin[VC_B] <= 1) ==> (g_d2_rx == 1 && g_d2_rcalls == 1 && g_d2_upk_calls == 1 && g_d2_upk_ok == 1 && g_d2_bitval == bin[VC_B]))
/* the property's clauses: accepted compressed input has a canonical sign byte and did decompress */
__CPROVER_ensures((g_ctx.code == RLC_OK && len == VC_B + 1) ==> (bin[VC_B] <= 1 && g_d2_upk_ret == 1))
__CPROVER_ensures((len == 2 * VC_B && g_d2_cal_err == 0) ==> g_ctx.code == RLC_OK)
__CPROVER_ensures((len == VC_B + 1 && bin[VC_B] <= 1 && g_d2_cal_err == 0 && g_d2_upk_ret == 1) ==> g_ctx.code == RLC_OK)
;
#endif

#ifdef VC_C07X_EP2R
/* ---- ep2_read_bin -------------------------------------------------------------------------------------------------------- */
void ep2_set_infty_r(ep2_t p) VC_ASSIGNS(__CPROVER_object_upto(p, sizeof(ep2_st)), g_d2_inf_calls, g_d2_inf_ok)
__CPROVER_ensures(g_d2_inf_calls == __CPROVER_old(g_d2_inf_calls) + 1 && g_d2_inf_ok == ((const void *)p == g_d2_dst));
void fp2_set_dig_r(fp2_t a, const dig_t b) VC_ASSIGNS(__CPROVER_object_upto(a, sizeof(fp2_t)), g_d2_wcnt) __CPROVER_ensures(g_d2_wcnt == __CPROVER_old(g_d2_wcnt) + 1);
void fp2_read_bin_r(fp2_t a, const uint8_t *bin, size_t len)
__CPROVER_requires(__CPROVER_is_fresh(bin, len) && len == 2 * VC_B)
VC_ASSIGNS(__CPROVER_object_upto(a, sizeof(fp2_t)), g_d2_rx, g_d2_ry, g_d2_rcalls, g_d2_wcnt, g_d2_rd_wcnt, g_d2_cal_err, g_ctx.code)
__CPROVER_ensures(g_d2_rcalls == __CPROVER_old(g_d2_rcalls) + 1 && g_d2_wcnt == __CPROVER_old(g_d2_wcnt) + 1 && g_d2_rd_wcnt == g_d2_wcnt && VC_ERRFLOW(g_d2_cal_err))
__CPROVER_ensures(g_d2_rx == (((const void *)a == VC_D2(x) && (const void *)bin == (const void *)((const uint8_t *)g_d2_bin0 + 1)) ? 1 : __CPROVER_old(g_d2_rx)))
__CPROVER_ensures(g_d2_ry == (((const void *)a == VC_D2(y) && (const void *)bin == (const void *)((const uint8_t *)g_d2_bin0 + 1 + 2 * VC_B)) ? 1 : __CPROVER_old(g_d2_ry)));
void fp2_zero_r(fp2_t a) VC_ASSIGNS(__CPROVER_object_upto(a, sizeof(fp2_t)), g_d2_yz, g_d2_ybit, g_d2_wcnt)
__CPROVER_ensures(g_d2_wcnt == __CPROVER_old(g_d2_wcnt) + 1 && g_d2_yz == ((const void *)a == VC_D2(y) ? 1 : __CPROVER_old(g_d2_yz)) && g_d2_ybit == ((const void *)a == VC_D2(y) ? 0 : __CPROVER_old(g_d2_ybit)));
void fp_set_bit_r(fp_t a, uint_t bit, int value) VC_ASSIGNS(__CPROVER_object_upto(a, sizeof(fp_t)), g_d2_ybit, g_d2_wcnt)
__CPROVER_ensures(g_d2_wcnt == __CPROVER_old(g_d2_wcnt) + 1 && g_d2_ybit == ((const void *)a == VC_D2(y[0]) ? ((bit == 0 && (value == 0 || value == 1)) ? value : 2) : __CPROVER_old(g_d2_ybit)));
void fp_zero_r(fp_t a) VC_ASSIGNS(__CPROVER_object_upto(a, sizeof(fp_t)), g_d2_ybit, g_d2_wcnt)
__CPROVER_ensures(g_d2_wcnt == __CPROVER_old(g_d2_wcnt) + 1 && g_d2_ybit == ((const void *)a == VC_D2(y[0]) ? 0 : __CPROVER_old(g_d2_ybit)));
int ep2_upk_r(ep2_t r, const ep2_t p) VC_ASSIGNS(__CPROVER_object_upto(r, sizeof(ep2_st)), g_d2_upk_calls, g_d2_upk_ok, g_d2_wcnt, g_d2_upk_wcnt, g_d2_cal_err, g_ctx.code)
__CPROVER_ensures((__CPROVER_return_value == 0 || __CPROVER_return_value == 1) && g_d2_upk_wcnt == g_d2_wcnt && g_d2_upk_calls == __CPROVER_old(g_d2_upk_calls) + 1 && g_d2_wcnt == __CPROVER_old(g_d2_wcnt) + 1 && VC_ERRFLOW(g_d2_cal_err))
__CPROVER_ensures(g_d2_upk_ok == ((const void *)r == g_d2_dst && (const void *)p == g_d2_dst && g_d2_rx == 1 && g_d2_yz == 1 && g_d2_ybit == g_d2_tagbit));
int ep2_on_curve_r(const ep2_t p) VC_ASSIGNS(g_d2_onc, g_d2_onc_ok, g_d2_onc_calls, g_d2_onc_wcnt)
__CPROVER_ensures((__CPROVER_return_value == 0 || __CPROVER_return_value == 1) && g_d2_onc == __CPROVER_return_value && g_d2_onc_calls == __CPROVER_old(g_d2_onc_calls) + 1 && g_d2_onc_wcnt == g_d2_wcnt)
__CPROVER_ensures(g_d2_onc_ok == ((const void *)p == g_d2_dst && g_d2_rx == 1 && (g_d2_len == 4 * VC_B + 1 ? (g_d2_ry == 1 && g_d2_upk_calls == 0 && g_d2_rd_wcnt == g_d2_wcnt) : (g_d2_upk_calls == 1 && g_d2_upk_ok == 1 && g_d2_upk_wcnt == g_d2_wcnt))));

/* point over F_p^2: accepted only as (1 byte, tag 0) = identity, (2B+1 bytes, tag 2|3) = compressed, (4B+1 bytes, tag 4) =
   uncompressed.  No error reported ==> x went through the validating F_p^2 decoder from offset 1 over 2B bytes; uncompressed: y
   likewise from offset 1+2B, nothing decompressed; compressed: y was cleared and its parity hint set to (tag == 3) before the point
   was decompressed in place, exactly once; the curve test was asked once, about THE RESULT OBJECT, right after that (no
   callee wrote to the point in between), returned true, and no callee wrote to the point afterwards; no decoder reported an error.  Wrong lengths: error and the output is untouched. */
void ep2_read_bin(ep2_t a, const uint8_t *bin, size_t len)
__CPROVER_requires(len >= 1 && len <= 4 * VC_B + 3 && __CPROVER_is_fresh(a, sizeof(ep2_st)) && __CPROVER_is_fresh(bin, len))
__CPROVER_requires(g_may_throw == 1 && g_ctx.code == RLC_OK && g_d2_bin0 == bin && g_d2_dst == (const void *)a && g_d2_len == len && g_d2_tagbit == (bin[0] == 3))
__CPROVER_requires(g_d2_rx == 0 && g_d2_ry == 0 && g_d2_rcalls == 0 && g_d2_yz == 0 && g_d2_ybit == 0 && g_d2_upk_calls == 0 && g_d2_upk_ok == 0 && g_d2_onc == VC_UNASKED && g_d2_onc_ok == 0 && g_d2_onc_calls == 0 \
	&& g_d2_wcnt == 0 && g_d2_onc_wcnt == 0 && g_d2_cal_err == 0 && g_d2_inf_calls == 0 && g_d2_inf_ok == 0)
__CPROVER_requires(gk < 6 * RLC_FP_DIGS ==> ((const dig_t *)a)[gk] == g_dig0)
VC_ASSIGNS(__CPROVER_object_whole(a), g_d2_rx, g_d2_ry, g_d2_rcalls, g_d2_yz, g_d2_ybit, g_d2_upk_calls, g_d2_upk_ok, g_d2_onc, g_d2_onc_ok, g_d2_onc_calls, g_d2_wcnt, g_d2_onc_wcnt, g_d2_upk_wcnt, g_d2_rd_wcnt, g_d2_cal_err, g_d2_inf_calls, g_d2_inf_ok, \
	g_ctx.code, g_ctx.last, g_ctx.caught, g_ctx.error, g_ctx.number, g_thrown)
__CPROVER_ensures(g_ctx.code == RLC_OK || g_ctx.code == RLC_ERR)
__CPROVER_ensures(g_ctx.code == RLC_OK ==> ((len == 1 && bin[0] == 0) || (len == 2 * VC_B + 1 && (bin[0] == 2 || bin[0] == 3)) || (len == 4 * VC_B + 1 && bin[0] == 4)))
__CPROVER_ensures((g_ctx.code == RLC_OK && len == 1) ==> (g_d2_inf_calls == 1 && g_d2_inf_ok == 1 && g_d2_rcalls == 0 && g_d2_upk_calls == 0))
__CPROVER_ensures((g_ctx.code == RLC_OK && len > 1) ==> (g_d2_rx == 1 && g_d2_onc == 1 && g_d2_onc_calls == 1 && g_d2_onc_ok == 1 && g_d2_onc_wcnt == g_d2_wcnt && g_d2_cal_err == 0 && g_d2_inf_calls == 0))
__CPROVER_ensures((g_ctx.code == RLC_OK && len == 4 * VC_B + 1) ==> (g_d2_ry == 1 && g_d2_rcalls == 2 && g_d2_upk_calls == 0))
__CPROVER_ensures((g_ctx.code == RLC_OK && len == 2 * VC_B + 1) ==> (g_d2_upk_calls == 1 && g_d2_upk_ok == 1 && g_d2_rcalls == 1))
__CPROVER_ensures((len != 1 && len != 2 * VC_B + 1 && len != 4 * VC_B + 1) ==> (g_ctx.code == RLC_ERR && g_d2_rcalls == 0 && g_d2_wcnt == 0 && (gk < 6 * RLC_FP_DIGS ==> ((const dig_t *)a)[gk] == g_dig0)))
/* no error of its own on a well-formed header when the curve test succeeds and no callee complains */
__CPROVER_ensures(((len == 1 && bin[0] == 0) || (((len == 2 * VC_B + 1 && (bin[0] == 2 || bin[0] == 3)) || (len == 4 * VC_B + 1 && bin[0] == 4)) && g_d2_cal_err == 0 && g_d2_onc == 1)) ==> g_ctx.code == RLC_OK)
;
#endif
#include "vc_spec_pop.h"
