/* Counter-mode KDF / MGF1 (IEEE 1363 KDF2, PKCS#1 MGF1) over an ABSTRACT hash (property C14): block i of the output is
   H(in || BE32(value + i)), i = 0 .. ceil(L/h)-1, the last block truncated to L; KDF counts from 1, MGF from 0; nothing but
   key[0, L) is written.  The abstract hash checks - as a caller-side precondition - what it is fed in each call. */
#pragma once
#include "vc_prelude.h"
extern unsigned g_kc; extern const uint8_t *g_kin; extern size_t g_kinlen; extern dig_t g_kval; extern int g_valseen;
extern uint8_t g_kd[8][RLC_MD_LEN];
extern const void *__CPROVER_alloca_object;
#ifndef VC_KDF_MAXOUT
#define VC_KDF_MAXOUT 100
#endif
#ifndef VC_KDF_MAXIN
#define VC_KDF_MAXIN 20
#endif
#include "vc_spec_push.h"
void md_map_sh256_k(uint8_t *hash, const uint8_t *msg, size_t len)
__CPROVER_requires(g_kc < 8 && __CPROVER_is_fresh(hash, RLC_MD_LEN) && __CPROVER_is_fresh(msg, len))
/* what the KDF must feed: the shared input followed by the big-endian 32-bit counter value + call number */
__CPROVER_requires(len == g_kinlen + 4)
__CPROVER_requires(gk < len ==> msg[gk] == (gk < g_kinlen ? g_kin[gk < g_kinlen ? gk : 0] : (uint8_t)(((uint32_t)(g_kval + g_kc)) >> (8 * (3 - ((gk - g_kinlen) & 3))))))
VC_ASSIGNS(__CPROVER_object_upto(hash, RLC_MD_LEN), g_kc)
__CPROVER_ensures(g_kc == __CPROVER_old(g_kc) + 1 && hash[gk % RLC_MD_LEN] == g_kd[__CPROVER_old(g_kc) & 7][gk % RLC_MD_LEN])
;
#ifdef VC_KDF_STATICS
static void nist_kdf(uint8_t *key, size_t key_len, const uint8_t *in, size_t in_len, dig_t value)
__CPROVER_requires(key_len <= VC_KDF_MAXOUT && in_len <= VC_KDF_MAXIN && value <= 1)
__CPROVER_requires(__CPROVER_is_fresh(key, key_len) && __CPROVER_is_fresh(in, in_len))
__CPROVER_requires(g_kc == 0 && g_kin == in && g_kinlen == in_len && g_kval == value)
VC_ASSIGNS(__CPROVER_alloca_object, __CPROVER_object_upto(key, key_len), g_kc, g_ctx.code, g_ctx.last, g_ctx.error, g_ctx.number, g_thrown)
__CPROVER_ensures(g_ctx.code == __CPROVER_old(g_ctx.code) && g_kc == (key_len + RLC_MD_LEN - 1) / RLC_MD_LEN)
__CPROVER_ensures(gk < key_len ==> key[gk] == g_kd[(gk / RLC_MD_LEN) & 7][gk % RLC_MD_LEN])
;
#else
/* view for the two public wrappers: records the counter start value */
static void nist_kdf(uint8_t *key, size_t key_len, const uint8_t *in, size_t in_len, dig_t value)
__CPROVER_requires(__CPROVER_is_fresh(key, key_len) && __CPROVER_is_fresh(in, in_len))
VC_ASSIGNS(__CPROVER_object_upto(key, key_len), g_valseen)
__CPROVER_ensures(g_valseen == (int)value)
;
void md_kdf(uint8_t *key, size_t key_len, const uint8_t *in, size_t in_len)
__CPROVER_requires(key_len <= 4096 && in_len <= 4096 && __CPROVER_is_fresh(key, key_len) && __CPROVER_is_fresh(in, in_len))
VC_ASSIGNS(__CPROVER_object_upto(key, key_len), g_valseen) __CPROVER_ensures(g_valseen == 1);
void md_mgf(uint8_t *key, size_t key_len, const uint8_t *in, size_t in_len)
__CPROVER_requires(key_len <= 4096 && in_len <= 4096 && __CPROVER_is_fresh(key, key_len) && __CPROVER_is_fresh(in, in_len))
VC_ASSIGNS(__CPROVER_object_upto(key, key_len), g_valseen) __CPROVER_ensures(g_valseen == 0);
#endif
#include "vc_spec_pop.h"
