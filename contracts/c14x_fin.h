/* SHA-224/256 finalisation glue (property C14): SHA224_256Finalize pads exactly once with the given pad byte (FIPS 180-4 5.1.1, contract of
   SHA224_256PadMessage in sha_pad.h: the buffered bytes, the pad byte, zeros, the 64-bit length), only THEN wipes the message buffer and the
   length and marks the context computed; SHA256Result finalises at most once (a second call does not pad again), refuses a corrupted context
   without touching the digest buffer, and writes the eight state words big-endian (FIPS 180-4 6.2.2 step 4 / the digest byte order).
   Abstract: the compression function (through SHA224_256PadMessage's proved contract) resp. SHA224_256Finalize (view below). */
#pragma once
#include "sha_pad.h"
extern unsigned g_fin_calls; extern uint8_t g_fin_pad; extern size_t g_fin_ctx_o;
#include "vc_spec_push.h"
#ifdef VC_SHA_STATICS
static void SHA224_256Finalize(SHA256Context *context, uint8_t Pad_Byte)
__CPROVER_requires(__CPROVER_is_fresh(context, sizeof(SHA256Context)) && VC_SHA_OK(context) && g_blk_n == 0)
VC_ASSIGNS(__CPROVER_object_whole(context), g_blk_n, __CPROVER_object_whole(g_blk), g_obs_val, g_obs_set)
__CPROVER_ensures(g_blk_n == (__CPROVER_old(context->Message_Block_Index) < 56 ? 1u : 2u))
__CPROVER_ensures(context->Computed == 1 && context->Length_High == 0 && context->Length_Low == 0)
__CPROVER_ensures(gk < 64 ==> context->Message_Block[gk < 64 ? gk : 0] == 0)
/* what was compressed is the padded message as it was BEFORE the wipe, with the length as it was before it was cleared */
__CPROVER_ensures((gk < 64 && __CPROVER_old(context->Message_Block_Index) < 56) ==> g_blk[0][gk < 64 ? gk : 0] == \
	((int)gk < __CPROVER_old(context->Message_Block_Index) ? __CPROVER_old(context->Message_Block[gk < 64 ? gk : 0]) : \
	 (int)gk == __CPROVER_old(context->Message_Block_Index) ? Pad_Byte : gk < 56 ? (uint8_t)0 : VC_LEN_BYTE_OLD(context, gk)))
__CPROVER_ensures((gk < 64 && __CPROVER_old(context->Message_Block_Index) >= 56) ==> (g_blk[0][gk < 64 ? gk : 0] == \
	((int)gk < __CPROVER_old(context->Message_Block_Index) ? __CPROVER_old(context->Message_Block[gk < 64 ? gk : 0]) : \
	 (int)gk == __CPROVER_old(context->Message_Block_Index) ? Pad_Byte : (uint8_t)0) && \
	g_blk[1][gk < 64 ? gk : 0] == (gk < 56 ? (uint8_t)0 : VC_LEN_BYTE_OLD(context, gk))))
;
#else
/* view of SHA224_256Finalize for SHA256Result: records the call, marks the context computed, changes the chaining value arbitrarily */
void SHA224_256Finalize_v(SHA256Context *context, uint8_t Pad_Byte)
__CPROVER_requires(__CPROVER_is_fresh(context, sizeof(SHA256Context)) && g_fin_calls == 0 && context->Computed == 0 && context->Corrupted == 0 && VC_SHA_OK(context))
VC_ASSIGNS(__CPROVER_object_whole(context), g_fin_calls, g_fin_pad, g_fin_ctx_o)
__CPROVER_ensures(g_fin_calls == 1 && g_fin_pad == Pad_Byte && g_fin_ctx_o == __CPROVER_POINTER_OBJECT(context) && context->Computed == 1)
;
#define VC_DIG_BYTE(c, i)  ((uint8_t)((c)->Intermediate_Hash[((i) % 32) >> 2] >> (8 * (3 - ((i) & 3)))))
int SHA256Result(SHA256Context *context, uint8_t *Message_Digest)
__CPROVER_requires(__CPROVER_is_fresh(context, sizeof(SHA256Context)) && __CPROVER_is_fresh(Message_Digest, 32) && g_fin_calls == 0 && VC_SHA_OK(context))
__CPROVER_assigns(context->Corrupted == 0: __CPROVER_object_upto(Message_Digest, 32))
__CPROVER_assigns(context->Corrupted == 0 && context->Computed == 0: __CPROVER_object_whole(context))
VC_ASSIGNS(g_fin_calls, g_fin_pad, g_fin_ctx_o)
/* a corrupted context: its error code is returned, no padding, no digest */
__CPROVER_ensures(__CPROVER_old(context->Corrupted) != 0 ==> (__CPROVER_return_value == __CPROVER_old(context->Corrupted) && g_fin_calls == 0))
/* otherwise: padded with 0x80 exactly when the digest was not computed yet (a second Result call does not pad again) ... */
__CPROVER_ensures(__CPROVER_old(context->Corrupted) == 0 ==> (__CPROVER_return_value == shaSuccess && g_fin_calls == (__CPROVER_old(context->Computed) ? 0u : 1u) && context->Computed != 0))
__CPROVER_ensures((__CPROVER_old(context->Corrupted) == 0 && g_fin_calls == 1) ==> (g_fin_pad == 0x80 && g_fin_ctx_o == __CPROVER_POINTER_OBJECT(context)))
/* ... and the digest is H0 || ... || H7, each word big-endian */
__CPROVER_ensures(__CPROVER_old(context->Corrupted) == 0 ==> Message_Digest[gk % 32] == VC_DIG_BYTE(context, gk % 32))
;
#endif
#include "vc_spec_pop.h"
