/* Common verification prelude: RELIC headers, ghost state, wide-value helpers.  Included first by every harness. */
#pragma once
#include "relic.h"
#include "relic_bn_low.h"
#include "relic_fp_low.h"
#include "relic_dv.h"

#ifndef VC_MAXN
#define VC_MAXN 4096            /* bound on symbolic digit-vector lengths in unbounded (loop-contract) units */
#endif

/* ---- wide values: 64*VC_W-bit unsigned and signed views of digit vectors ------------------------------ */
#include "vc_val_gen.h"     /* generated per configuration: VC_W = RLC_BN_SIZE + 2 */
typedef unsigned __CPROVER_bitvector[RLC_DIG * VC_W] vc_wide;
typedef signed __CPROVER_bitvector[RLC_DIG * VC_W + 8] vc_swide;
typedef __uint128_t vc_dbl;

#include "vc_spec_push.h"
/* value of the low n (<= VC_W) digits; loop of constant bound, fully unwound by CBMC */
static inline vc_wide vc_val(const dig_t *p, size_t n) {
	vc_wide v = 0;
	for (size_t i = 0; i < VC_W; i++) {
		if (i < n) v |= ((vc_wide)p[i]) << (RLC_DIG * i);
	}
	return v;
}
/* v * d by shift-and-add over the RLC_DIG bits of d (a full-width multiplier is far more expensive for SAT) */
static inline vc_wide vc_mul_dig(vc_wide v, dig_t d) {
	vc_wide r = 0;
	for (int j = 0; j < RLC_DIG; j++) {
		if ((d >> j) & 1) r += v << j;
	}
	return r;
}
/* magnitude and signed value of a bn object (used <= RLC_BN_SIZE) */
static inline vc_wide vc_mag(const bn_st *a) { return vc_val(a->dp, a->used); }
static inline vc_swide vc_sval(const bn_st *a) {
	vc_swide m = (vc_swide)vc_mag(a);
	return a->sign == RLC_NEG ? -m : m;
}
#include "vc_spec_pop.h"
/* representation invariant of an initialised bn in the AUTO configuration */
#define VC_BN_SHAPE(a)   ((a)->alloc == RLC_BN_SIZE && (a)->used >= 1 && (a)->used <= RLC_BN_SIZE && \
	((a)->sign == RLC_POS || (a)->sign == RLC_NEG))
/* magnitude part of the normal form (sign-agnostic): what the magnitude helpers and comparisons rely on */
#define VC_BN_NFMAG(a)   ((a)->alloc == RLC_BN_SIZE && (a)->used >= 1 && (a)->used <= RLC_BN_SIZE && \
	((a)->dp[(a)->used - 1] != 0 || (a)->used == 1))
/* normal form: no leading zero digit unless the value is zero; zero has used==1 and is non-negative */
#define VC_BN_NF(a)      (VC_BN_SHAPE(a) && ((a)->dp[(a)->used - 1] != 0 || ((a)->used == 1 && (a)->sign == RLC_POS)))

/* ---- library context (substitution: core_get() returns this object, see stubs/vc_stubs.h) --------------- */
/* The object is a layout-compatible PREFIX of ctx_t holding the error-handling state only: symbolic execution of the full
   944 KB ctx_t costs ~30 s per unit.  An access through core_get() to a member outside the prefix fails a pointer check. */
struct vc_ctx_prefix { int code; sts_t *last; sts_t error; err_t number; char *reason[ERR_MAX]; int caught; };
#ifdef VC_CTX_RAND
/* the prefix, an untouched gap, and the random-generator state at its real offsets */
#include <stddef.h>
struct vc_ctx_rand {
	int code; sts_t *last; sts_t error; err_t number; char *reason[ERR_MAX]; int caught;
	unsigned char pad0[offsetof(ctx_t, rand) - (offsetof(ctx_t, caught) + sizeof(int))];
	uint8_t rand[RLC_RAND_SIZE];
	unsigned char pad1[offsetof(ctx_t, seeded) - offsetof(ctx_t, rand) - RLC_RAND_SIZE];
	int seeded;
	int counter;
};
#define VC_CTX_TYPE struct vc_ctx_rand
#endif
#ifndef VC_CTX_TYPE
#define VC_CTX_TYPE struct vc_ctx_prefix
#endif
extern VC_CTX_TYPE g_ctx;
extern sts_t g_sts;          /* an enclosing handler frame, when the harness chooses to have one */
extern int g_thrown;         /* ghost: set by the longjmp stub */
extern int g_handler;        /* ghost: harness choice "an enclosing RLC_TRY exists" */

/* ---- replay snapshots -----------------------------------------------------------------------------------------------
   When a unit fails, the engine re-runs it with -DVC_REPLAY_SNAPSHOT: ghost code woven at the entry of the function under
   contract (VC_ENTRY_<f>, generated from the function's replay signature) copies the arguments into vc_snap, so that the
   verifier's counterexample carries the complete input of the call; vc_snap then has to be assignable in every contract. */
#define VC_SNAP_BN 4
#define VC_SNAP_DV 4
#define VC_SNAP_DVLEN 80
#define VC_SNAP_SC 10
#define VC_SNAP_BYLEN 160
struct vc_snap_t {
	int taken;
	bn_st bn[VC_SNAP_BN];
	dig_t dv[VC_SNAP_DV][VC_SNAP_DVLEN];
	size_t dvlen[VC_SNAP_DV];
	unsigned long long sc[VC_SNAP_SC];
	unsigned char by[2][VC_SNAP_BYLEN];
	size_t bylen[2];
	int alias[12];          /* pairwise pointer equality of the pointer arguments, in signature order */
	int code, handler;
};
extern struct vc_snap_t vc_snap;
#ifdef VC_REPLAY_SNAPSHOT
#define VC_ASSIGNS(...)   __CPROVER_assigns(__VA_ARGS__, __CPROVER_object_whole(&vc_snap))
#define VC_ASSIGNS_NONE   __CPROVER_assigns(__CPROVER_object_whole(&vc_snap))
#else
#define VC_ASSIGNS(...)   __CPROVER_assigns(__VA_ARGS__)
#define VC_ASSIGNS_NONE   __CPROVER_assigns()
#endif
#define VC_SNAP_BNARG(i, p)     if (!vc_snap.taken) { vc_snap.bn[i] = *(p); }
#define VC_SNAP_DVARG(i, p, n)  if (!vc_snap.taken) { vc_snap.dvlen[i] = (n); \
	for (size_t vc_k = 0; vc_k < VC_SNAP_DVLEN; vc_k++) { if (vc_k < (size_t)(n)) vc_snap.dv[i][vc_k] = (p)[vc_k]; } }
#define VC_SNAP_BYARG(i, p, n)  if (!vc_snap.taken) { vc_snap.bylen[i] = (n); \
	for (size_t vc_k = 0; vc_k < VC_SNAP_BYLEN; vc_k++) { if (vc_k < (size_t)(n)) vc_snap.by[i][vc_k] = ((const unsigned char *)(p))[vc_k]; } }
#define VC_SNAP_ALIAS(k, p, q)  if (!vc_snap.taken) { vc_snap.alias[k] = ((const void *)(p) == (const void *)(q)); }
#define VC_SNAP_SCARG(i, v)     if (!vc_snap.taken) { vc_snap.sc[i] = (unsigned long long)(v); }
#define VC_SNAP_DONE            if (!vc_snap.taken) { vc_snap.code = g_ctx.code; vc_snap.handler = (g_ctx.last != NULL); vc_snap.taken = 1; }

#define VC_DIGS_FRESH(p, n)  __CPROVER_is_fresh(p, (n) * sizeof(dig_t))
#define VC_PTR_SAME(p, q)    __CPROVER_pointer_equals(p, q)

/* ---- ghost index / carries for digit-relation contracts --------------------------------------------------- */
extern size_t gk;
extern dig_t g_dig0;          /* ghost: pre-state value of the observed element (bound by a requires clause) */
extern unsigned char g_byte0;
extern dig_t g_cy[VC_MAXN + 2];

_Static_assert(RLC_BN_SIZE == VC_GEN_BN_SIZE && RLC_BN_SIZE + 2 == VC_W, "vc_val_gen.h generated for another configuration");
#define VC_SVAL_OLD(a) (__CPROVER_old((a)->sign) == RLC_NEG ? -(vc_swide)VC_MAG_OLD(a) : (vc_swide)VC_MAG_OLD(a))
#define VC_MAX(a,b) ((a) > (b) ? (a) : (b))

/* ghost: "the contract under proof admits an error exit"; checked by the longjmp stub and by VC_NO_ERR */
extern int g_may_throw;

/* alias shapes of bn_t arguments.  In an enforcing unit the harness selects one shape with -DVC_SHAPE_<f>=<shape>;
   without it (replacement at call sites) the general disjunction is checked against the caller. */
#define VC_BN_FRESH(p)      __CPROVER_is_fresh(p, sizeof(bn_st))
#define VC_BN_SAME(p, q)    __CPROVER_pointer_equals(p, q)
