/* ECIES decryption (property C08; the guard the not-applicable C06 also names): for EVERY ciphertext length - including
   lengths below the MAC size - no access outside the caller's buffers, a failed authentication is an error return and no
   plaintext is produced.  Callees abstract: exact frames, preconditions on the buffers they are given, arbitrary results. */
#pragma once
#include "vc_prelude.h"
extern int g_mac_verdict, g_dec_calls;
#define VC_UNASKED (-9)
#include "vc_spec_push.h"
size_t util_bits_dig_g(dig_t a) VC_ASSIGNS_NONE __CPROVER_ensures(__CPROVER_return_value <= RLC_DIG && (a == 0) == (__CPROVER_return_value == 0));
int ep_param_level_g(void) VC_ASSIGNS_NONE __CPROVER_ensures(__CPROVER_return_value == 112 || __CPROVER_return_value == 128 || __CPROVER_return_value == 192 || __CPROVER_return_value == 256);
void ep_mul_lwnaf_g(ep_t r, const ep_t p, const bn_t k)
__CPROVER_requires(__CPROVER_is_fresh(p, sizeof(ep_st)) && __CPROVER_is_fresh(k, sizeof(bn_st)))
VC_ASSIGNS(__CPROVER_object_upto(r, sizeof(ep_st)));
void fp_prime_back_g(bn_t c, const fp_t a)
__CPROVER_requires(__CPROVER_is_fresh(c, sizeof(bn_st)) && c->alloc == RLC_BN_SIZE)
VC_ASSIGNS(c->used, c->sign, __CPROVER_object_upto(c->dp, sizeof(c->dp)))
__CPROVER_ensures(c->used >= 1 && c->used <= RLC_FP_DIGS && c->sign == RLC_POS && (c->dp[c->used - 1] != 0 || c->used == 1));     /* a field element as an integer */
void md_kdf_g(uint8_t *key, size_t key_len, const uint8_t *in, size_t in_len)
__CPROVER_requires(key_len <= 4096 && in_len <= 4096 && __CPROVER_is_fresh(key, key_len) && __CPROVER_is_fresh(in, in_len))
VC_ASSIGNS(__CPROVER_object_upto(key, key_len));
void md_hmac_g(uint8_t *mac, const uint8_t *in, size_t in_len, const uint8_t *key, size_t key_len)
__CPROVER_requires(in_len <= 4096 && key_len <= 4096)
__CPROVER_requires(__CPROVER_is_fresh(mac, RLC_MD_LEN) && __CPROVER_is_fresh(in, in_len) && __CPROVER_is_fresh(key, key_len))
VC_ASSIGNS(__CPROVER_object_upto(mac, RLC_MD_LEN));
int util_cmp_sec_g(const void *a, const void *b, size_t size)
__CPROVER_requires(size <= 4096 && __CPROVER_is_fresh(a, size) && __CPROVER_is_fresh(b, size))
VC_ASSIGNS(g_mac_verdict)
__CPROVER_ensures((__CPROVER_return_value == RLC_EQ || __CPROVER_return_value == RLC_NE) && g_mac_verdict == __CPROVER_return_value);
int bc_aes_cbc_dec_g(uint8_t *out, size_t *out_len, const uint8_t *in, size_t in_len, const uint8_t *key, size_t key_len, const uint8_t *iv)
__CPROVER_requires(in_len <= 4096 && key_len <= 64 && __CPROVER_is_fresh(out_len, sizeof(size_t)) && *out_len <= 4096)
__CPROVER_requires(__CPROVER_is_fresh(out, *out_len) && __CPROVER_is_fresh(in, in_len) && __CPROVER_is_fresh(key, key_len) && __CPROVER_is_fresh(iv, RLC_BC_LEN))
VC_ASSIGNS(__CPROVER_object_whole(out), *out_len, g_dec_calls)
__CPROVER_ensures((__CPROVER_return_value == RLC_OK || __CPROVER_return_value == RLC_ERR) && *out_len <= __CPROVER_old(*out_len) && g_dec_calls == __CPROVER_old(g_dec_calls) + 1);

int cp_ecies_dec(uint8_t *out, size_t *out_len, const ec_t r, const uint8_t *in, size_t in_len, const bn_t d)
__CPROVER_requires(in_len <= 256 && __CPROVER_is_fresh(in, in_len))
__CPROVER_requires(__CPROVER_is_fresh(out_len, sizeof(size_t)) && *out_len <= 256 && __CPROVER_is_fresh(out, *out_len))
__CPROVER_requires(__CPROVER_is_fresh(r, sizeof(ep_st)) && __CPROVER_is_fresh(d, sizeof(bn_st)))
__CPROVER_requires(g_mac_verdict == VC_UNASKED && g_dec_calls == 0 && (gk < *out_len ==> out[gk] == g_byte0))
VC_ASSIGNS(__CPROVER_object_whole(out), *out_len, g_mac_verdict, g_dec_calls, g_ctx.code, g_ctx.last, g_ctx.caught, g_ctx.error, g_ctx.number, g_thrown)
__CPROVER_ensures(__CPROVER_return_value == RLC_OK || __CPROVER_return_value == RLC_ERR)
/* success only after the MAC was compared and found equal, and the cipher ran exactly once */
__CPROVER_ensures(__CPROVER_return_value == RLC_OK ==> (g_mac_verdict == RLC_EQ && g_dec_calls == 1))
/* no plaintext without authentication: unless the MAC compared equal, the cipher is not run and the output is untouched */
__CPROVER_ensures(g_mac_verdict != RLC_EQ ==> (__CPROVER_return_value == RLC_ERR && g_dec_calls == 0 && *out_len == __CPROVER_old(*out_len) && (gk < *out_len ==> out[gk] == g_byte0)))
__CPROVER_ensures(g_ctx.last == __CPROVER_old(g_ctx.last))
;
#include "vc_spec_pop.h"
