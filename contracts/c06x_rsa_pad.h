/* Decryption half of the RSA padding parser pad_pkcs1 of relic_cp_rsa.c (property C06: "ciphertexts with invalid padding ...
   are rejected with an error rather than returning data").

   pad_pkcs1(m, &p_len, -, k_len, RSA_DEC):
       result == RLC_OK   <==>   the k_len-byte encoded message EM = I2OSP(m, k_len) IS an encoding of the standard
   (RFC 8017 7.2.2 step 3, EME-PKCS1-v1_5:  EM = 00 | 02 | PS | 00 | M,  PS of NONZERO octets, |PS| >= 8 ["If the length of PS
    is less than 8 octets, output decryption error"], and - RELIC admits no empty plaintext: cp_rsa_enc refuses in_len == 0 -
    |M| >= 1), stated byte by byte over the ghost byte string by an independent transcription (c06x_eme_*), in BOTH directions;
   on RLC_OK additionally *p_len == k_len - |M| and m was reduced exactly once, to its low |M| bytes (the message).

   The parser observes m only through bn_rsh / bn_mod_2b / bn_is_zero and the low byte of t->dp[0]: these are the BYTE-LEVEL
   MODEL stubs of the c05x padding units (stubs/c06x_rsa_pad_state.h is a copy of stubs/c05x_rsa_pad_state.h with the ghost names
   changed) over a ghost byte string g6_em[] (the little-endian bytes of |m|):
       bn_rsh(t, x, 8j)      t denotes the bytes of x from j upwards; its lowest byte is delivered in t->dp[0]
       bn_mod_2b(t, t, 8j)   t keeps its lowest j bytes;  bn_mod_2b(m, m, 8j) is recorded (truncation of m)
       bn_is_zero(t)         1 iff every byte t denotes is 0
   They are the byte-granular corollaries of the value contracts (bn_rsh: floor(a / 2^bits), bn_mod_2b: a mod 2^b, bn_is_zero)
   proved against the real code in the C01/C09 units at 8-bit digits; ASSUMED here at the shipped width, |m| < 256^C06X_KB.
   The parser itself is the real code, all loops unwound (k_len <= C06X_KMAX: bounded route). */
#pragma once
#include "vc_prelude.h"

#ifdef C06X_RSAPD
#undef CP_RSAPD
#define CP_RSAPD C06X_RSAPD
#endif

#ifndef C06X_KB
#define C06X_KB   56          /* bytes of m modelled: |m| < 256^56 */
#endif
#ifndef C06X_KMAX
#define C06X_KMAX 48          /* k_len <= 48 */
#endif
#ifndef C06X_MINPS
#define C06X_MINPS 8          /* RFC 8017 7.2.2 step 3 */
#endif
#define C06X_RSA_DEC 2

extern const void *g6_pm_m, *g6_pm_t;    /* identity of the encoded message m / of the scratch integer that denotes a window of m */
extern uint8_t g6_em[C06X_KB];           /* little-endian bytes of |m| at entry */
extern size_t g6_t_lo, g6_t_hi;          /* the scratch integer denotes bytes [g6_t_lo, g6_t_hi) of m */
extern int g6_m_trunc_calls;             /* bn_mod_2b(m, m, .) calls */
extern size_t g6_m_trunc_bytes;

#define VC_BNP(p)    __CPROVER_is_fresh(p, sizeof(bn_st))
#define VC_BN_ANY(a) ((a)->alloc == RLC_BN_SIZE && (a)->used >= 1 && (a)->used <= RLC_BN_SIZE)
#define C06X_MIN(a, b) ((a) < (b) ? (a) : (b))

#include "vc_spec_push.h"
static inline int c06x_allzero(size_t lo, size_t hi) {
	int z = 1;
	for (size_t j = 0; j < C06X_KB; j++) {
		if (j >= lo && j < hi && g6_em[j] != 0) z = 0;
	}
	return z;
}
/* EM has k bytes, big-endian: EM[i] = g6_em[k - 1 - i].  Position (little-endian index) of the separator: the FIRST zero octet
   after EM[1], i.e. the HIGHEST index j < k - 2 with g6_em[j] == 0; k if there is none.  |M| = that index. */
static inline size_t c06x_eme_sep(size_t k) {
	size_t z = k;
	for (size_t j = 0; j < C06X_KB; j++) {
		if (j + 2 < k && g6_em[j] == 0) z = j;
	}
	return z;
}
/* EM = 00 | 02 | PS | 00 | M: leading 00 (and m has no byte beyond EM), block type 02, a separator exists, |PS| = k - 3 - sep >=
   C06X_MINPS (all octets of PS nonzero by the definition of sep), |M| = sep >= 1 */
static inline int c06x_eme_ok(size_t k) {
	size_t z = c06x_eme_sep(k);
	if (k < 11 || k > C06X_KB) return 0;
	return c06x_allzero(k - 1, C06X_KB) && g6_em[k - 2] == 0x02 && z < k && k - 3 - z >= C06X_MINPS && z >= 1;
}
/* RELIC's basic padding (no standard; comment in the source: EB = 00 | FF | D) */
static inline int c06x_basic_ok(size_t k) {
	if (k < 2 || k > C06X_KB) return 0;
	return c06x_allzero(k - 1, C06X_KB) && g6_em[k - 2] == 0xFF;
}

/* ---- byte-level model of bn_rsh / bn_mod_2b / bn_is_zero: BODIES in stubs/c06x_rsa_pad_state.h ------------------------------ */
void bn_rsh(bn_t c, const bn_t a, uint_t bits);
void bn_mod_2b(bn_t c, const bn_t a, int b);
int bn_is_zero(const bn_t a);

#define C06X_PAD_REQUIRES(m, p_len, k_len, operation, kmin) \
__CPROVER_requires(VC_BNP(m) && VC_BN_ANY(m) && __CPROVER_is_fresh(p_len, sizeof(size_t))) \
__CPROVER_requires(operation == C06X_RSA_DEC && k_len >= (kmin) && k_len <= C06X_KMAX) \
__CPROVER_requires(g6_pm_m == (const void *)m && g6_pm_t == NULL && g6_t_lo == 0 && g6_t_hi == 0 && g6_m_trunc_calls == 0 && g6_m_trunc_bytes == 0) \
VC_ASSIGNS(m->used, m->sign, __CPROVER_object_upto(m->dp, sizeof(m->dp)), *p_len, g6_pm_t, g6_t_lo, g6_t_hi, g6_m_trunc_calls, g6_m_trunc_bytes, \
	g_ctx.code, g_ctx.last, g_ctx.caught, g_ctx.error, g_ctx.number, g_thrown)

#if CP_RSAPD == PKCS1
static int pad_pkcs1(bn_t m, size_t *p_len, size_t m_len, size_t k_len, int operation)
C06X_PAD_REQUIRES(m, p_len, k_len, operation, 11)
__CPROVER_ensures(__CPROVER_return_value == RLC_OK || __CPROVER_return_value == RLC_ERR)
/* (2) accept ==> standard encoding (invalid padding is rejected) */
__CPROVER_ensures(__CPROVER_return_value == RLC_OK ==> c06x_eme_ok(k_len))
/* (3) standard encoding ==> accept (no honest ciphertext is turned down) */
__CPROVER_ensures(c06x_eme_ok(k_len) ==> __CPROVER_return_value == RLC_OK)
/* (4) what cp_rsa_dec relies on: the message is the low |M| bytes of m, reduced once, and k - *p_len is its length */
__CPROVER_ensures(__CPROVER_return_value == RLC_OK ==> (*p_len == k_len - c06x_eme_sep(k_len) && g6_m_trunc_calls == 1 && g6_m_trunc_bytes == c06x_eme_sep(k_len)))
__CPROVER_ensures(g_ctx.last == __CPROVER_old(g_ctx.last))
;
#endif
#if CP_RSAPD == BASIC
static int pad_basic(bn_t m, size_t *p_len, size_t m_len, size_t k_len, int op)
C06X_PAD_REQUIRES(m, p_len, k_len, op, 2)
__CPROVER_ensures(__CPROVER_return_value == RLC_OK || __CPROVER_return_value == RLC_ERR)
__CPROVER_ensures(__CPROVER_return_value == RLC_OK ==> c06x_basic_ok(k_len))
__CPROVER_ensures(c06x_basic_ok(k_len) ==> __CPROVER_return_value == RLC_OK)
__CPROVER_ensures(__CPROVER_return_value == RLC_OK ==> (*p_len == 2 && g6_m_trunc_calls == 1 && g6_m_trunc_bytes == k_len - 2))
__CPROVER_ensures(g_ctx.last == __CPROVER_old(g_ctx.last))
;
#endif
#include "vc_spec_pop.h"
