/* BLAKE2s (RFC 7693) buffering, counter, finalisation and parameter block around an ABSTRACT compression function (property C14).
   RFC 7693 3.3: the message is split into 64-byte blocks d[0..dd-1]; every block but the last is compressed with the byte counter
   t = 64 * (i + 1) (the offset of the END of the block) and the final-block flag clear; the LAST block - also when it is exactly
   full - is zero-padded and compressed with t = ll (total length) and the final-block flag set (f0 = 0xFFFFFFFF); the digest is the
   first nn bytes of little-endian h[0..7].  Parameter block (2.5 / 2.8): h[0] = IV[0] ^ 0x0101kknn, h[i] = IV[i] otherwise
   (fanout 1, depth 1, no key, no salt/personalisation).
   blake2s_compress is replaced by a contract that records, for the call number g2_ob (a ghost, unconstrained: so every call is
   spoken about), the block byte at the ghost offset g2_oi, the counter words and the flag words it sees in the state, and changes
   the chaining value arbitrarily.  The compression function itself (the rounds) is not covered. */
#pragma once
#include "vc_prelude.h"
#include "src/md/blake2.h"

typedef unsigned long long vc2_u64;
/* one ghost object (one assigns target: the dfcc inclusion loop is unwound once per target, DESIGN P33) */
struct vc2_ghost { unsigned n; uint8_t val; uint32_t t0, t1, f0, f1; int set; vc2_u64 src; };
extern struct vc2_ghost g2s;
#define g2_n   g2s.n                     /* compression calls so far */
extern size_t g2_ob, g2_oi;              /* observed call number, observed byte offset inside the block (ghost indices) */
#define g2_val g2s.val                   /* what the observed call saw: block byte, counter words, flag words, block address */
#define g2_t0  g2s.t0
#define g2_t1  g2s.t1
#define g2_f0  g2s.f0
#define g2_f1  g2s.f1
#define g2_set g2s.set
#define g2_src g2s.src
#define VC2_XID(p)  ((((vc2_u64)__CPROVER_POINTER_OBJECT(p)) << 40) + (vc2_u64)__CPROVER_POINTER_OFFSET(p))
#define VC2_OI      (g2_oi < 64 ? g2_oi : 0)
#ifndef VC_B2_MAXIN
#define VC_B2_MAXIN 200
#endif
#ifndef VC_B2_MININ
#define VC_B2_MININ 0
#endif
#ifndef VC_B2_MAXOUT
#define VC_B2_MAXOUT 80
#endif
/* RFC 7693 2.6 */
#define VC2_IV(i) ((uint32_t)((i) == 0 ? 0x6A09E667u : (i) == 1 ? 0xBB67AE85u : (i) == 2 ? 0x3C6EF372u : (i) == 3 ? 0xA54FF53Au : \
	(i) == 4 ? 0x510E527Fu : (i) == 5 ? 0x9B05688Cu : (i) == 6 ? 0x1F83D9ABu : 0x5BE0CD19u))

#include "vc_spec_push.h"
#ifdef VC_B2S_CORE
static void blake2s_compress(blake2s_state *S, const uint8_t in[BLAKE2S_BLOCKBYTES])
__CPROVER_requires(__CPROVER_is_fresh(S, sizeof(blake2s_state)) && __CPROVER_r_ok(in, 64) && g2_n < 1000000)
VC_ASSIGNS(__CPROVER_object_upto(S->h, 32), __CPROVER_object_whole(&g2s))
__CPROVER_ensures(g2_n == __CPROVER_old(g2_n) + 1)
__CPROVER_ensures(__CPROVER_old(g2_n) == g2_ob ?
	(g2_set == 1 && g2_val == in[VC2_OI] && g2_t0 == S->t[0] && g2_t1 == S->t[1] && g2_f0 == S->f[0] && g2_f1 == S->f[1] && g2_src == VC2_XID(in)) :
	(g2_set == __CPROVER_old(g2_set) && g2_val == __CPROVER_old(g2_val) && g2_t0 == __CPROVER_old(g2_t0) && g2_t1 == __CPROVER_old(g2_t1) &&
	 g2_f0 == __CPROVER_old(g2_f0) && g2_f1 == __CPROVER_old(g2_f1) && g2_src == __CPROVER_old(g2_src)))
;

#define VC2_T(S)        ((((vc2_u64)(S)->t[1]) << 32) | (S)->t[0])
#define VC2_T_OLD(S)    ((((vc2_u64)__CPROVER_old((S)->t[1])) << 32) | __CPROVER_old((S)->t[0]))
#define VC2_TOBS        ((((vc2_u64)g2_t1) << 32) | g2_t0)
#define VC2_L           (__CPROVER_old(S->buflen))
#define VC2_TOTAL       (VC2_L + inlen)
/* blocks compressed by update: all but the last one of the VC2_TOTAL buffered-plus-new bytes (none if nothing is appended) */
#define VC2_NB          (inlen == 0 ? (size_t)0 : (VC2_TOTAL - 1) / 64)
#define VC2_GJ          (64 * g2_ob + g2_oi)          /* observed stream position: byte g2_oi of block g2_ob */
/* stream = the bytes buffered before the call, then the input.  g_byte0 is bound to the input byte at the observed position by a requires clause */
#define VC2_STREAM      (VC2_GJ < VC2_L ? __CPROVER_old(S->buf[VC2_OI]) : g_byte0)
int blake2s_update(blake2s_state *S, const void *pin, size_t inlen)
__CPROVER_requires(inlen >= VC_B2_MININ && inlen <= VC_B2_MAXIN && __CPROVER_is_fresh(S, sizeof(blake2s_state)) && __CPROVER_is_fresh(pin, inlen) && S->buflen <= 64)
__CPROVER_requires(g2_n == 0 && g2_set == 0 && g2_oi < 64 && g2_ob < 100000)
__CPROVER_requires((VC2_GJ >= S->buflen && VC2_GJ - S->buflen < inlen) ==> ((const uint8_t *)pin)[(VC2_GJ >= S->buflen && VC2_GJ - S->buflen < inlen) ? VC2_GJ - S->buflen : 0] == g_byte0)
VC_ASSIGNS(__CPROVER_object_whole(S), __CPROVER_object_whole(&g2s))
__CPROVER_ensures(__CPROVER_return_value == 0)
/* every full block that is not the last one is compressed exactly once; the last block - even when exactly full - stays buffered */
__CPROVER_ensures(g2_n == VC2_NB && S->buflen == VC2_TOTAL - 64 * VC2_NB)
/* the byte counter has advanced by 64 per compressed block (64-bit, carry into t[1]); flags, digest length, node flag untouched */
__CPROVER_ensures(VC2_T(S) == VC2_T_OLD(S) + 64 * (vc2_u64)VC2_NB)
__CPROVER_ensures(S->f[0] == __CPROVER_old(S->f[0]) && S->f[1] == __CPROVER_old(S->f[1]) && S->outlen == __CPROVER_old(S->outlen) && S->last_node == __CPROVER_old(S->last_node))
/* in order: compression call number k saw block k of the stream, with the counter ALREADY advanced to the end of that block and the flags as they were;
   the remaining bytes sit in the buffer at their offsets */
__CPROVER_ensures(VC2_GJ < VC2_TOTAL ==> (g2_ob < VC2_NB ?
	(g2_set == 1 && g2_val == VC2_STREAM && VC2_TOBS == VC2_T_OLD(S) + 64 * ((vc2_u64)g2_ob + 1) && g2_f0 == __CPROVER_old(S->f[0]) && g2_f1 == __CPROVER_old(S->f[1])) :
	S->buf[VC2_OI] == VC2_STREAM))
;

#define VC2_REJ_OLD     (out == NULL || outlen < __CPROVER_old(S->outlen) || __CPROVER_old(S->f[0]) != 0)
#define VC2_REJ         (out == NULL || outlen < S->outlen || S->f[0] != 0)
#define VC2_HBYTE(S, j) ((uint8_t)((S)->h[((j) % 32) >> 2] >> (8 * ((j) & 3))))
int blake2s_final(blake2s_state *S, void *out, size_t outlen)
/* (outlen > 32 is outside this contract: the code copies outlen bytes out of its 32-byte temporary - reported as a finding) */
__CPROVER_requires(outlen <= VC_B2_MAXOUT && __CPROVER_is_fresh(S, sizeof(blake2s_state)) && S->buflen <= 64 && S->outlen <= 32 && (out == NULL || __CPROVER_is_fresh(out, outlen)))
__CPROVER_requires(g2_n == 0 && g2_set == 0 && g2_oi < 64 && g2_ob == 0)
__CPROVER_assigns(!VC2_REJ: __CPROVER_object_whole(S))
__CPROVER_assigns(!VC2_REJ: __CPROVER_object_upto((uint8_t *)out, outlen))
VC_ASSIGNS(__CPROVER_object_whole(&g2s))
/* no room for the digest, or already finalised: error, no compression, nothing written (frame) */
__CPROVER_ensures(VC2_REJ_OLD ==> (__CPROVER_return_value == -1 && g2_n == 0))
/* otherwise exactly one compression, of the state's own buffer: the buffered bytes followed by zeros, counter = old counter + buffered bytes, final-block flag
   set (and the last-node flag iff the state is a last node) */
__CPROVER_ensures(!VC2_REJ_OLD ==> (__CPROVER_return_value == 0 && g2_n == 1 && g2_set == 1 && g2_src == VC2_XID(S->buf) &&
	g2_val == (g2_oi < VC2_L ? __CPROVER_old(S->buf[VC2_OI]) : (uint8_t)0) &&
	VC2_TOBS == VC2_T_OLD(S) + (vc2_u64)VC2_L && VC2_T(S) == VC2_T_OLD(S) + (vc2_u64)VC2_L &&
	g2_f0 == 0xFFFFFFFFu && g2_f1 == (__CPROVER_old(S->last_node) ? 0xFFFFFFFFu : __CPROVER_old(S->f[1]))))
/* the state is marked finalised (a second call is rejected by the clause above), the digest length is kept */
__CPROVER_ensures(!VC2_REJ_OLD ==> (S->f[0] == 0xFFFFFFFFu && S->outlen == __CPROVER_old(S->outlen)))
/* digest (RFC 7693 3.3): the first nn bytes of h[0..7], each word little-endian, nn = the digest length the state was initialised with (<= outlen here);
   bytes of the caller's buffer beyond nn are not specified (the code fills all outlen bytes from h) */
__CPROVER_ensures((!VC2_REJ_OLD && gk < __CPROVER_old(S->outlen)) ==> ((uint8_t *)out)[gk < outlen ? gk : 0] == VC2_HBYTE(S, gk))
;

#define VC2_LE32(p, i)  ((uint32_t)(p)[4 * (i)] | ((uint32_t)(p)[4 * (i) + 1] << 8) | ((uint32_t)(p)[4 * (i) + 2] << 16) | ((uint32_t)(p)[4 * (i) + 3] << 24))
#define VC2_CLEAN(S)    ((S)->t[0] == 0 && (S)->t[1] == 0 && (S)->f[0] == 0 && (S)->f[1] == 0 && (S)->buflen == 0 && (S)->last_node == 0 && (S)->buf[gk % 64] == 0)
/* h = IV xor parameter block (words little-endian), everything else cleared, digest length taken from byte 0 */
int blake2s_init_param(blake2s_state *S, const blake2s_param *P)
__CPROVER_requires(__CPROVER_is_fresh(S, sizeof(blake2s_state)) && __CPROVER_is_fresh(P, 32))
VC_ASSIGNS(__CPROVER_object_whole(S))
__CPROVER_ensures(__CPROVER_return_value == 0 && VC2_CLEAN(S) && S->outlen == ((const uint8_t *)P)[0])
__CPROVER_ensures(S->h[gk % 8] == (VC2_IV(gk % 8) ^ VC2_LE32((const uint8_t *)P, gk % 8)))
;
/* sequential, unkeyed: parameter block = nn, kk = 0, fanout 1, depth 1, all else zero  =>  h[0] = IV[0] ^ 0x01010000 ^ nn */
int blake2s_init(blake2s_state *S, size_t outlen)
__CPROVER_requires(__CPROVER_is_fresh(S, sizeof(blake2s_state)))
__CPROVER_assigns(outlen >= 1 && outlen <= 32: __CPROVER_object_whole(S))
__CPROVER_ensures((outlen < 1 || outlen > 32) ==> __CPROVER_return_value == -1)
__CPROVER_ensures((outlen >= 1 && outlen <= 32) ==> (__CPROVER_return_value == 0 && VC2_CLEAN(S) && S->outlen == outlen &&
	S->h[gk % 8] == (gk % 8 == 0 ? (0x6A09E667u ^ 0x01010000u ^ (uint32_t)outlen) : VC2_IV(gk % 8))))
;
#endif
#include "vc_spec_pop.h"
