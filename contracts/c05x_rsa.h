/* RSA signature verification cp_rsa_ver (property C05, the encoding / guard half).

   ACCEPT IMPLIES: the signature has the length of the modulus, the signature representative was read from the whole signature
   buffer, was compared with the modulus and found smaller BEFORE the exponentiation, was raised to the public exponent modulo
   the public modulus exactly once, the padding checker of the configured scheme ran on that result with the operation that
   matches `hash`, with the encoded-message length of the standard, and returned RLC_OK, the 32 digest bytes left by the padding
   checker were written out over the full digest length, the reference digest was computed from the message (PSS: from
   00^8 | mHash), and the final constant-time comparison ran over the full digest length on exactly these two byte strings and
   returned "equal".  The result is 0 or 1.

   Every callee is an ABSTRACT contract: exact frame, arbitrary result, the verdict and the identity (or the content, for byte
   buffers) of its arguments recorded in ghost state.  Nothing is claimed about modular exponentiation, the hash function, or -
   in this unit - about the padding parser (pad_pkcs1 / pad_basic have their own units in c05x_rsa_pad.h).

   Configuration: the shipped library uses CP_RSAPD=PKCS2 (PSS).  -DC05X_RSAPD=PKCS1 / BASIC re-selects the cmake option
   CP_RSAPD for this translation unit (the macro is used in relic_cp_rsa.c only), i.e. the same source configured with
   -DCP_RSAPD=PKCS1 / BASIC.

   Clauses the property demands and the code (snapshot 90da709) does not implement are separate ensures/requires and can be
   switched off one by one (C05X_NO_SIGLEN, C05X_NO_RANGE, C05X_NO_EMLEN, C05X_NO_HASHLEN): the `.codeguards` units show that
   everything else holds. */
#pragma once
#include "vc_prelude.h"

#ifdef C05X_RSAPD
#undef CP_RSAPD
#define CP_RSAPD C05X_RSAPD
#endif

extern const void *__CPROVER_alloca_object;

/* ---- ghost state -------------------------------------------------------------------------------------------------------- */
extern const void *g_rx_sig, *g_rx_msg, *g_rx_n, *g_rx_e;      /* bound to the arguments by the precondition */
extern size_t g_rx_siglen, g_rx_msglen;
extern int g_rx_hash;
extern size_t g_rx_nbits;                                        /* bit length of the modulus (answer of bn_bits / bn_size_bin) */
extern const void *g_rx_eb;                                      /* the bn object that received the signature */
extern int g_rx_seq;                                             /* event counter */
extern int g_rx_rd_calls, g_rx_rd_ok, g_rx_rd_seq;
extern int g_rx_cmpn, g_rx_cmpn_seq;                             /* verdict of bn_cmp(signature representative, modulus) */
extern int g_rx_mxp_calls, g_rx_mxp_ok, g_rx_mxp_seq;
extern int g_rx_pad_calls, g_rx_pad_ok, g_rx_pad_ret, g_rx_pad_op, g_rx_pad_seq;
extern size_t g_rx_pad_k, g_rx_pad_m;
extern int g_rx_wr_calls, g_rx_wr_ok, g_rx_wr_seq;
extern size_t g_rx_wr_len;
extern int g_rx_mdmsg_calls, g_rx_mdenc_calls, g_rx_mdenc_ok;
extern int g_rx_cs_calls, g_rx_cs_ret, g_rx_cs_a_ok, g_rx_cs_b_ok, g_rx_cs_seq;
extern size_t g_rx_cs_len;
extern uint8_t g_rx_H1[RLC_MD_LEN];      /* witness: digest of the message */
extern uint8_t g_rx_H2[RLC_MD_LEN];      /* witness: digest of 00^8 | mHash (PSS) */
extern uint8_t g_rx_EMH[RLC_MD_LEN];     /* witness: the digest bytes recovered from the encoded message */
extern uint8_t g_rx_M[RLC_MD_LEN];       /* copy of the caller's digest (hash != 0, msg_len == RLC_MD_LEN), bound by the precondition: a ghost POINTER cannot be dereferenced (DESIGN P3) */

#define VC_UNASKED (-9)
#define VC_BNP(p)    __CPROVER_is_fresh(p, sizeof(bn_st))
#define VC_BN_ANY(a) ((a)->alloc == RLC_BN_SIZE && (a)->used >= 1 && (a)->used <= RLC_BN_SIZE)
#define C05X_RSA_VER       4
#define C05X_RSA_VER_HASH  8
#ifndef C05X_RSA_MINBITS
#define C05X_RSA_MINBITS 25          /* see the unit's note: below 17..24 bits the library's own length guard wraps around */
#endif
#ifndef C05X_MAXMSG
#define C05X_MAXMSG 72
#endif
/* byte length of the modulus, and the encoded-message length of the standard */
#define C05X_K          ((g_rx_nbits + 7) / 8)
#if CP_RSAPD == PKCS2
#define C05X_EMLEN      ((g_rx_nbits - 1 + 7) / 8)      /* RFC 8017 8.1.2: emLen = ceil((modBits - 1)/8) */
#define C05X_PAD_MLEN   g_rx_nbits
#define C05X_PAD_MIN    (RLC_MD_LEN + 2)                /* emLen >= hLen + sLen + 2, sLen = 0 */
#else
#define C05X_EMLEN      C05X_K                          /* RFC 8017 8.2.2: emLen = k */
#define C05X_PAD_MLEN   ((size_t)RLC_MD_LEN)
#if CP_RSAPD == PKCS1
#define C05X_PAD_MIN    11
#else
#define C05X_PAD_MIN    2
#endif
#endif

#include "vc_spec_push.h"
static inline int c05x_eq32(const uint8_t *a, const uint8_t *b) {
	int r = 1;
	for (int i = 0; i < RLC_MD_LEN; i++) {
		if (a[i] != b[i]) r = 0;
	}
	return r;
}
static inline int c05x_zero8(const uint8_t *a) {
	return a[0] == 0 && a[1] == 0 && a[2] == 0 && a[3] == 0 && a[4] == 0 && a[5] == 0 && a[6] == 0 && a[7] == 0;
}

/* ---- abstract callees --------------------------------------------------------------------------------------------------- */
/* only ever asked about the modulus: any other argument fails the precondition */
size_t bn_bits_g(const bn_t a)
__CPROVER_requires((const void *)a == g_rx_n)
VC_ASSIGNS_NONE
__CPROVER_ensures(__CPROVER_return_value == g_rx_nbits)
;
size_t bn_size_bin_g(const bn_t a)
__CPROVER_requires((const void *)a == g_rx_n)
VC_ASSIGNS_NONE
__CPROVER_ensures(__CPROVER_return_value == C05X_K)
;
/* reads the signature representative; records which object received it and whether the whole signature buffer was read */
void bn_read_bin_g(bn_t a, const uint8_t *bin, size_t len)
__CPROVER_requires(VC_BNP(a) && a->alloc == RLC_BN_SIZE && len <= RLC_BN_SIZE * (RLC_DIG / 8) && __CPROVER_is_fresh(bin, len))
VC_ASSIGNS(a->used, a->sign, __CPROVER_object_upto(a->dp, sizeof(a->dp)), g_rx_eb, g_rx_rd_calls, g_rx_rd_ok, g_rx_rd_seq, g_rx_seq)
__CPROVER_ensures(VC_BN_ANY(a) && a->sign == RLC_POS)
__CPROVER_ensures(g_rx_seq == __CPROVER_old(g_rx_seq) + 1 && g_rx_rd_seq == g_rx_seq && g_rx_rd_calls == __CPROVER_old(g_rx_rd_calls) + 1)
__CPROVER_ensures(g_rx_eb == (const void *)a && g_rx_rd_ok == ((const void *)bin == g_rx_sig && len == g_rx_siglen))
;
/* range check: the verdict counts only if it is about (signature representative, modulus) and taken before the exponentiation */
int bn_cmp_g(const bn_t a, const bn_t b)
__CPROVER_requires(VC_BNP(a) && VC_BNP(b))
VC_ASSIGNS(g_rx_cmpn, g_rx_cmpn_seq, g_rx_seq)
__CPROVER_ensures(__CPROVER_return_value == RLC_LT || __CPROVER_return_value == RLC_EQ || __CPROVER_return_value == RLC_GT)
__CPROVER_ensures(g_rx_seq == __CPROVER_old(g_rx_seq) + 1)
__CPROVER_ensures(((const void *)a == g_rx_eb && (const void *)b == g_rx_n && g_rx_rd_calls == 1 && g_rx_mxp_calls == 0) ? \
	(g_rx_cmpn == __CPROVER_return_value && g_rx_cmpn_seq == g_rx_seq) : (g_rx_cmpn == __CPROVER_old(g_rx_cmpn) && g_rx_cmpn_seq == __CPROVER_old(g_rx_cmpn_seq)))
;
void bn_mxp_slide_g(bn_t c, const bn_t a, const bn_t b, const bn_t m)
__CPROVER_requires(VC_BNP(a) && __CPROVER_pointer_equals(c, a) && VC_BNP(b) && VC_BNP(m))
VC_ASSIGNS(c->used, c->sign, __CPROVER_object_upto(c->dp, sizeof(c->dp)), g_rx_mxp_calls, g_rx_mxp_ok, g_rx_mxp_seq, g_rx_seq)
__CPROVER_ensures(VC_BN_ANY(c))
__CPROVER_ensures(g_rx_seq == __CPROVER_old(g_rx_seq) + 1 && g_rx_mxp_seq == g_rx_seq && g_rx_mxp_calls == __CPROVER_old(g_rx_mxp_calls) + 1)
__CPROVER_ensures(g_rx_mxp_ok == ((const void *)a == g_rx_eb && (const void *)b == g_rx_e && (const void *)m == g_rx_n && g_rx_rd_calls == 1))
;
/* the padding checker of the configured scheme (static in relic_cp_rsa.c): verdict arbitrary; on RLC_OK the number of padding
   bytes is k_len - RLC_MD_LEN (what is left in m is the digest).  Its precondition is the standard's: the operation is a
   verification, the encoded-message length is the one the standard prescribes for this modulus. */
int c05x_pad_g(bn_t m, size_t *p_len, size_t m_len, size_t k_len, int operation)
__CPROVER_requires(VC_BNP(m) && __CPROVER_is_fresh(p_len, sizeof(size_t)))
__CPROVER_requires(operation == C05X_RSA_VER || operation == C05X_RSA_VER_HASH)
__CPROVER_requires(m_len == C05X_PAD_MLEN)
__CPROVER_requires(k_len >= C05X_PAD_MIN && k_len <= RLC_BN_SIZE * (RLC_DIG / 8))
#ifndef C05X_NO_EMLEN
__CPROVER_requires(k_len == C05X_EMLEN)
#endif
VC_ASSIGNS(m->used, m->sign, __CPROVER_object_upto(m->dp, sizeof(m->dp)), *p_len, g_rx_pad_calls, g_rx_pad_ok, g_rx_pad_ret, g_rx_pad_op, g_rx_pad_seq, g_rx_pad_k, g_rx_pad_m, g_rx_seq)
__CPROVER_ensures(__CPROVER_return_value == RLC_OK || __CPROVER_return_value == RLC_ERR)
__CPROVER_ensures(VC_BN_ANY(m))
__CPROVER_ensures(__CPROVER_return_value == RLC_OK ==> *p_len == k_len - RLC_MD_LEN)
__CPROVER_ensures(g_rx_seq == __CPROVER_old(g_rx_seq) + 1 && g_rx_pad_seq == g_rx_seq && g_rx_pad_calls == __CPROVER_old(g_rx_pad_calls) + 1)
__CPROVER_ensures(g_rx_pad_ret == __CPROVER_return_value && g_rx_pad_op == operation && g_rx_pad_k == k_len && g_rx_pad_m == m_len)
__CPROVER_ensures(g_rx_pad_ok == ((const void *)m == g_rx_eb && g_rx_mxp_calls == 1 && g_rx_mxp_ok == 1))
;
/* writes the recovered digest: the witness bytes g_rx_EMH if (and only then) the source is the padding checker's output and the
   length is the digest length; otherwise arbitrary bytes */
void bn_write_bin_g(uint8_t *bin, size_t len, const bn_t a)
__CPROVER_requires(len <= RLC_BN_SIZE * (RLC_DIG / 8) && __CPROVER_is_fresh(bin, len) && VC_BNP(a))
VC_ASSIGNS(__CPROVER_object_upto(bin, len), g_rx_wr_calls, g_rx_wr_ok, g_rx_wr_seq, g_rx_wr_len, g_rx_seq)
__CPROVER_ensures(g_rx_seq == __CPROVER_old(g_rx_seq) + 1 && g_rx_wr_seq == g_rx_seq && g_rx_wr_calls == __CPROVER_old(g_rx_wr_calls) + 1 && g_rx_wr_len == len)
__CPROVER_ensures(g_rx_wr_ok == ((const void *)a == g_rx_eb && g_rx_pad_calls == 1 && g_rx_pad_ok == 1 && g_rx_pad_ret == RLC_OK))
__CPROVER_ensures((g_rx_wr_ok && len == RLC_MD_LEN) ==> c05x_eq32(bin, g_rx_EMH))
;
/* the hash function.  A call on (msg, msg_len) of the verifier yields the witness g_rx_H1; a call on a 40-byte string
   00^8 | mHash (mHash = g_rx_H1, or the caller's digest when `hash` is set) yields the witness g_rx_H2; any other call yields
   arbitrary bytes. */
void md_map_sh256_g(uint8_t *hash, const uint8_t *msg, size_t len)
__CPROVER_requires(__CPROVER_is_fresh(hash, RLC_MD_LEN) && len <= C05X_MAXMSG + 8 && __CPROVER_is_fresh(msg, len))
VC_ASSIGNS(__CPROVER_object_upto(hash, RLC_MD_LEN), g_rx_mdmsg_calls, g_rx_mdenc_calls, g_rx_mdenc_ok)
__CPROVER_ensures(((const void *)msg == g_rx_msg && len == g_rx_msglen) ? \
	(g_rx_mdmsg_calls == __CPROVER_old(g_rx_mdmsg_calls) + 1 && g_rx_mdenc_calls == __CPROVER_old(g_rx_mdenc_calls) && g_rx_mdenc_ok == __CPROVER_old(g_rx_mdenc_ok) && c05x_eq32(hash, g_rx_H1)) : \
	(g_rx_mdmsg_calls == __CPROVER_old(g_rx_mdmsg_calls) && g_rx_mdenc_calls == __CPROVER_old(g_rx_mdenc_calls) + 1 && \
	 g_rx_mdenc_ok == (len == RLC_MD_LEN + 8 && (g_rx_hash ? g_rx_msglen == RLC_MD_LEN : g_rx_mdmsg_calls == 1) && c05x_zero8(msg) && \
		c05x_eq32(msg + 8, g_rx_hash ? g_rx_M : g_rx_H1)) && \
	 (g_rx_mdenc_ok ==> c05x_eq32(hash, g_rx_H2))))
;
/* the final comparison (constant time; its own contract is proved under C20): verdict arbitrary; records the length and whether
   the operands are, byte for byte, the recovered digest and the reference digest */
#if CP_RSAPD == PKCS2
#define C05X_REF(i)   g_rx_H2
#define C05X_REF_OK   (g_rx_mdenc_calls == 1 && g_rx_mdenc_ok == 1)
#else
#define C05X_REF(i)   (g_rx_hash ? g_rx_M : g_rx_H1)
#define C05X_REF_OK   (g_rx_hash ? g_rx_msglen == RLC_MD_LEN : g_rx_mdmsg_calls == 1)
#endif
int util_cmp_sec_g(const void *a, const void *b, size_t n)
__CPROVER_requires(n <= C05X_MAXMSG && __CPROVER_is_fresh(a, n) && __CPROVER_is_fresh(b, n))
VC_ASSIGNS(g_rx_cs_calls, g_rx_cs_ret, g_rx_cs_a_ok, g_rx_cs_b_ok, g_rx_cs_len, g_rx_cs_seq, g_rx_seq)
__CPROVER_ensures(__CPROVER_return_value == RLC_EQ || __CPROVER_return_value == RLC_NE)
__CPROVER_ensures(g_rx_seq == __CPROVER_old(g_rx_seq) + 1 && g_rx_cs_seq == g_rx_seq && g_rx_cs_calls == __CPROVER_old(g_rx_cs_calls) + 1)
__CPROVER_ensures(g_rx_cs_ret == __CPROVER_return_value && g_rx_cs_len == n)
__CPROVER_ensures(g_rx_cs_a_ok == (n == RLC_MD_LEN && g_rx_wr_calls == 1 && g_rx_wr_ok == 1 && g_rx_wr_len == RLC_MD_LEN && c05x_eq32((const uint8_t *)a, g_rx_EMH)))
__CPROVER_ensures(g_rx_cs_b_ok == (n == RLC_MD_LEN && C05X_REF_OK && c05x_eq32((const uint8_t *)b, C05X_REF(0))))
;

/* ---- the verifier --------------------------------------------------------------------------------------------------------- */
#define C05X_PUB_N(pub) ((pub)->crt->n)
int cp_rsa_ver(uint8_t *sig, size_t sig_len, const uint8_t *msg, size_t msg_len, int hash, const rsa_t pub)
__CPROVER_requires(__CPROVER_is_fresh(pub, sizeof(_rsa_st)) && VC_BN_ANY(C05X_PUB_N(pub)) && VC_BN_ANY(pub->e))
__CPROVER_requires(sig_len <= RLC_BN_SIZE * (RLC_DIG / 8) && __CPROVER_is_fresh(sig, sig_len))
__CPROVER_requires(msg_len <= C05X_MAXMSG && __CPROVER_is_fresh(msg, msg_len))
__CPROVER_requires(g_rx_sig == sig && g_rx_siglen == sig_len && g_rx_msg == msg && g_rx_msglen == msg_len && g_rx_hash == (hash != 0) && \
	g_rx_n == (const void *)C05X_PUB_N(pub) && g_rx_e == (const void *)pub->e)
__CPROVER_requires((hash && msg_len == RLC_MD_LEN) ==> c05x_eq32(msg, g_rx_M))
#ifdef C05X_NO_HASHLEN
__CPROVER_requires(hash ==> msg_len == RLC_MD_LEN)      /* the documented reading: with the flag set, msg IS a digest */
#endif
__CPROVER_requires(g_rx_nbits >= C05X_RSA_MINBITS && g_rx_nbits <= RLC_BN_SIZE * RLC_DIG)
__CPROVER_requires(g_rx_eb == NULL && g_rx_seq == 0 && g_rx_rd_calls == 0 && g_rx_rd_ok == 0 && g_rx_rd_seq == 0 && g_rx_cmpn == VC_UNASKED && g_rx_cmpn_seq == 0 && \
	g_rx_mxp_calls == 0 && g_rx_mxp_ok == 0 && g_rx_mxp_seq == 0 && g_rx_pad_calls == 0 && g_rx_pad_ok == 0 && g_rx_pad_ret == VC_UNASKED && g_rx_pad_seq == 0 && \
	g_rx_wr_calls == 0 && g_rx_wr_ok == 0 && g_rx_wr_seq == 0 && g_rx_wr_len == 0 && g_rx_mdmsg_calls == 0 && g_rx_mdenc_calls == 0 && g_rx_mdenc_ok == 0 && \
	g_rx_cs_calls == 0 && g_rx_cs_ret == VC_UNASKED && g_rx_cs_a_ok == 0 && g_rx_cs_b_ok == 0 && g_rx_cs_len == 0 && g_rx_cs_seq == 0)
VC_ASSIGNS(__CPROVER_alloca_object, g_rx_eb, g_rx_seq, g_rx_rd_calls, g_rx_rd_ok, g_rx_rd_seq, g_rx_cmpn, g_rx_cmpn_seq, g_rx_mxp_calls, g_rx_mxp_ok, g_rx_mxp_seq, \
	g_rx_pad_calls, g_rx_pad_ok, g_rx_pad_ret, g_rx_pad_op, g_rx_pad_seq, g_rx_pad_k, g_rx_pad_m, g_rx_wr_calls, g_rx_wr_ok, g_rx_wr_seq, g_rx_wr_len, \
	g_rx_mdmsg_calls, g_rx_mdenc_calls, g_rx_mdenc_ok, g_rx_cs_calls, g_rx_cs_ret, g_rx_cs_a_ok, g_rx_cs_b_ok, g_rx_cs_len, g_rx_cs_seq, \
	g_ctx.code, g_ctx.last, g_ctx.caught, g_ctx.error, g_ctx.number, g_thrown)
__CPROVER_ensures(__CPROVER_return_value == 0 || __CPROVER_return_value == 1)
/* (1) wrong length: the signature is exactly as long as the modulus (RFC 8017 8.1.2 / 8.2.2 step 1) */
#ifndef C05X_NO_SIGLEN
__CPROVER_ensures(__CPROVER_return_value == 1 ==> sig_len == C05X_K)
#endif
/* (2) the whole signature buffer was converted, once */
__CPROVER_ensures(__CPROVER_return_value == 1 ==> (g_rx_rd_calls == 1 && g_rx_rd_ok == 1))
/* (3) range: the signature representative was compared with the modulus before the exponentiation and is smaller (RSAVP1 step 1) */
#ifndef C05X_NO_RANGE
__CPROVER_ensures(__CPROVER_return_value == 1 ==> (g_rx_cmpn == RLC_LT && g_rx_rd_seq < g_rx_cmpn_seq && g_rx_cmpn_seq < g_rx_mxp_seq))
#endif
/* (4) one exponentiation s^e mod n on the value read, with the key's exponent and modulus */
__CPROVER_ensures(__CPROVER_return_value == 1 ==> (g_rx_mxp_calls == 1 && g_rx_mxp_ok == 1 && g_rx_rd_seq < g_rx_mxp_seq))
/* (5) the padding checker ran once, on that result, as the verification operation matching `hash`, and accepted
       (that its encoded-message length is the standard's is its precondition, checked at the call) */
__CPROVER_ensures(__CPROVER_return_value == 1 ==> (g_rx_pad_calls == 1 && g_rx_pad_ok == 1 && g_rx_pad_ret == RLC_OK && g_rx_mxp_seq < g_rx_pad_seq && \
	g_rx_pad_op == (hash ? C05X_RSA_VER_HASH : C05X_RSA_VER)))
/* (6) a digest supplied by the caller has the digest length (otherwise the comparison below is over a truncated or stale string) */
#ifndef C05X_NO_HASHLEN
__CPROVER_ensures((__CPROVER_return_value == 1 && hash) ==> msg_len == RLC_MD_LEN)
#define C05X_HASHLEN_OK 1
#else
#define C05X_HASHLEN_OK 1
#endif
/* (7) the decision: constant-time comparison, once, equal, over the full digest length, of the recovered digest (written out
       once, over the digest length, from the padding checker's output) and the reference digest */
__CPROVER_ensures((__CPROVER_return_value == 1 && C05X_HASHLEN_OK) ==> (g_rx_cs_calls == 1 && g_rx_cs_ret == RLC_EQ && g_rx_cs_len == RLC_MD_LEN && g_rx_pad_seq < g_rx_wr_seq && g_rx_wr_seq < g_rx_cs_seq))
__CPROVER_ensures((__CPROVER_return_value == 1 && C05X_HASHLEN_OK) ==> (g_rx_cs_a_ok == 1 && g_rx_cs_b_ok == 1))
/* (8) the message was hashed exactly once unless pre-hashed */
__CPROVER_ensures(__CPROVER_return_value == 1 ==> g_rx_mdmsg_calls == (hash ? 0 : 1))
__CPROVER_ensures(g_ctx.last == __CPROVER_old(g_ctx.last))
;
#include "vc_spec_pop.h"
