/* Hash_DRBG (SP 800-90A, SHA-256, seedlen 440) state update and output framing (property C15).  The hash function is
   abstract: md_map_sh256 is replaced by a contract over uninterpreted functions of the message VALUE for the two lengths
   that occur in generate (55 = V, 56 = 03||V).  Values are stated in bit-vectors of the state width. */
#pragma once
#ifndef VC_CTX_RAND
#error "units of rand.h must be compiled with -DVC_CTX_RAND (context object with the generator state)"
#endif
#include <limits.h>
#include "vc_prelude.h"
#include <stddef.h>
_Static_assert(offsetof(struct vc_ctx_rand, rand) == offsetof(ctx_t, rand) && offsetof(struct vc_ctx_rand, seeded) == offsetof(ctx_t, seeded) &&
	offsetof(struct vc_ctx_rand, counter) == offsetof(ctx_t, counter), "context layout");

#define VC_SEEDLEN ((RLC_RAND_SIZE - 1) / 2)            /* 55 bytes = 440 bits */
typedef unsigned __CPROVER_bitvector[8 * (VC_SEEDLEN + 2)] vc_st;   /* state values with room for carries */
#define VC_ST_MASK ((((vc_st)1) << (8 * VC_SEEDLEN)) - 1)

#include "rand_old_gen.h"
#include "vc_spec_push.h"
/* big-endian value of n <= VC_SEEDLEN+1 bytes */
static inline vc_st vc_bev(const uint8_t *p, size_t n) {
	vc_st v = 0;
	for (size_t i = 0; i < VC_SEEDLEN + 1; i++) {
		if (i < n) v = (v << 8) | (vc_st)p[i];
	}
	return v;
}
#define VC_V   vc_bev(g_ctx.rand + 1, VC_SEEDLEN)
#define VC_C   vc_bev(g_ctx.rand + 1 + VC_SEEDLEN, VC_SEEDLEN)

typedef unsigned __CPROVER_bitvector[256] vc_h256;
vc_h256 __CPROVER_uninterpreted_sha256_55(vc_st v);        /* SHA-256 of the 55-byte string with value v  */
vc_h256 __CPROVER_uninterpreted_sha256_56(vc_st v);        /* SHA-256 of the 56-byte string with value v  */
static inline vc_h256 vc_h32(const uint8_t *p) {
	vc_h256 v = 0;
	for (size_t i = 0; i < 32; i++) v = (v << 8) | (vc_h256)p[i];
	return v;
}

/* abstract hash: only the two message lengths of the generate path have a functional contract */
void md_map_sh256(uint8_t *hash, const uint8_t *msg, size_t len)
__CPROVER_requires(len == VC_SEEDLEN || len == VC_SEEDLEN + 1)
__CPROVER_requires(__CPROVER_is_fresh(hash, RLC_MD_LEN))
__CPROVER_requires(__CPROVER_is_fresh(msg, len))
VC_ASSIGNS(__CPROVER_object_upto(hash, RLC_MD_LEN))
__CPROVER_ensures(vc_h32(hash) == (len == VC_SEEDLEN ? __CPROVER_uninterpreted_sha256_55(vc_bev(msg, len)) : __CPROVER_uninterpreted_sha256_56(vc_bev(msg, len))))
;

/* frame view of the hash for the hash_df paths (arbitrary message length): writes the 32-byte digest only */
void md_map_sh256_frame(uint8_t *hash, const uint8_t *msg, size_t len)
__CPROVER_requires(len <= 4096)
__CPROVER_requires(__CPROVER_is_fresh(hash, RLC_MD_LEN))
__CPROVER_requires(__CPROVER_is_fresh(msg, len))
VC_ASSIGNS(__CPROVER_object_upto(hash, RLC_MD_LEN))
;
#ifndef VC_SEED_MAX
#define VC_SEED_MAX 40
#endif
extern const void *__CPROVER_alloca_object;     /* CBMC's model of alloca() records the last stack allocation here */
/* (re)seed: an empty seed is refused and the state is untouched; otherwise the state is re-derived (hash_df, abstract here),
   the prefix byte is 0, and the reseed counter restarts at 1 - also on a RESEED */
void rand_seed(uint8_t *buf, size_t size)
__CPROVER_requires(size <= VC_SEED_MAX && (g_ctx.seeded == 0 || g_ctx.seeded == 1))
__CPROVER_requires(__CPROVER_is_fresh(buf, size))
__CPROVER_requires(size > 0 || g_may_throw)
VC_ASSIGNS(__CPROVER_alloca_object, __CPROVER_object_upto(g_ctx.rand, sizeof(g_ctx.rand)), g_ctx.counter, g_ctx.seeded, g_ctx.code, g_ctx.last, g_ctx.error, g_ctx.number, g_thrown)
__CPROVER_ensures(size == 0 ==> (g_ctx.code == RLC_ERR && g_ctx.counter == __CPROVER_old(g_ctx.counter) && g_ctx.seeded == __CPROVER_old(g_ctx.seeded) && VC_V == VC_V_OLD && VC_C == VC_C_OLD))
__CPROVER_ensures(size > 0 ==> (g_ctx.code == __CPROVER_old(g_ctx.code) && g_ctx.counter == 1 && g_ctx.seeded == 1 && g_ctx.rand[0] == 0))
;
#ifndef VC_GEN_MAX
#define VC_GEN_MAX (1 << 16)
#endif
#ifdef VC_RAND_STATICS
#ifndef VC_RAND_N
#define VC_RAND_N VC_SEEDLEN
#endif
/* data = data + digit (big-endian, mod 256^size), returns the carry out: for EVERY non-negative digit */
static int rand_inc(uint8_t *data, size_t size, int digit)
__CPROVER_requires(size == VC_RAND_N && digit >= 0 && digit <= INT_MAX - 255)
__CPROVER_requires(__CPROVER_is_fresh(data, VC_RAND_N))
VC_ASSIGNS(__CPROVER_object_upto(data, VC_RAND_N))
__CPROVER_ensures(__CPROVER_return_value >= 0)
__CPROVER_ensures(vc_bev(data, size) + (((vc_st)__CPROVER_return_value) << (8 * VC_RAND_N)) == VC_BEV_OLD(data) + (vc_st)digit)
;
static int rand_add(uint8_t *state, uint8_t *hash, size_t size)
__CPROVER_requires(size == VC_RAND_N)
__CPROVER_requires(__CPROVER_is_fresh(state, VC_RAND_N))
__CPROVER_requires(__CPROVER_is_fresh(hash, VC_RAND_N))
VC_ASSIGNS(__CPROVER_object_upto(state, VC_RAND_N))
__CPROVER_ensures(__CPROVER_return_value == 0 || __CPROVER_return_value == 1)
__CPROVER_ensures(vc_bev(state, size) + (((vc_st)__CPROVER_return_value) << (8 * VC_RAND_N)) == VC_BEV_OLD(state) + vc_bev(hash, size))
;
/* output framing: block j of the output is Hash(V + j) (truncated at out_len); nothing but out[0, out_len) is written */
static void rand_gen(uint8_t *out, size_t out_len)
__CPROVER_requires(out_len <= VC_GEN_MAX)
__CPROVER_requires(__CPROVER_is_fresh(out, out_len))
VC_ASSIGNS(__CPROVER_object_upto(out, out_len))
__CPROVER_ensures((gk < out_len) ==> out[gk] == (uint8_t)(__CPROVER_uninterpreted_sha256_55((VC_V + (vc_st)(gk / RLC_MD_LEN)) & VC_ST_MASK) >> (8 * (RLC_MD_LEN - 1 - gk % RLC_MD_LEN))))
;
#endif

/* generate: refuses more than 2^16 bytes without touching the state; otherwise
   V' = (V + Hash(03 || V) + C + reseed_counter) mod 2^440,  C' = C,  reseed_counter' = reseed_counter + 1 */
void rand_bytes(uint8_t *buf, size_t size)
__CPROVER_requires(size <= (1 << 16) + 8)
__CPROVER_requires(size <= (1 << 16) ? __CPROVER_is_fresh(buf, size) : 1)
__CPROVER_requires(g_ctx.counter >= 1 && g_ctx.counter < INT_MAX - 256)
__CPROVER_requires(size <= (1 << 16) || g_may_throw)
VC_ASSIGNS(size <= (1 << 16): __CPROVER_object_upto(buf, size); __CPROVER_object_whole(g_ctx.rand), g_ctx.counter, g_ctx.code, g_ctx.last, g_ctx.error, g_ctx.number, g_thrown)
__CPROVER_ensures(size > (1 << 16) ==> (g_ctx.code == RLC_ERR && VC_V == VC_V_OLD && VC_C == VC_C_OLD && g_ctx.counter == __CPROVER_old(g_ctx.counter)))
__CPROVER_ensures(size <= (1 << 16) ==> (g_ctx.code == __CPROVER_old(g_ctx.code) && VC_C == VC_C_OLD && g_ctx.counter == __CPROVER_old(g_ctx.counter) + 1 && \
	VC_V == ((VC_V_OLD + (vc_st)__CPROVER_uninterpreted_sha256_56((((vc_st)3) << (8 * VC_SEEDLEN)) | VC_V_OLD) + VC_C_OLD + (vc_st)__CPROVER_old(g_ctx.counter)) & VC_ST_MASK)))
;
#include "vc_spec_pop.h"
