/* Montgomery ladder ep_mul_monty (property C20, second half): the sequence of GROUP-LEVEL operations (normalisations,
   doublings, additions, blindings, masked swaps) is a function of the public bit length of the group order only.
   Every callee is abstract: exact frame, arbitrary result, and one event appended to a ghost log; the monitor compares
   event number k with EV_EXPECT(k), an expression over k and the public g_pub_bits only.  The scalar bits (results of the
   abstract bn_get_bit) are unconstrained, so acceptance for all of them is the claim.  Pre: k != 0 and p != infinity (the
   early exit on those is outside "fixed bit length").  The callees themselves are trusted to be constant-time as units. */
#pragma once
#include "vc_prelude.h"
#ifndef VC_MAXBITS
#define VC_MAXBITS 1024
#endif
extern size_t g_ev_n; extern int g_ev_bad; extern size_t g_pub_bits;
#define EV_NORM 1
#define EV_DBL 2
#define EV_ADD 3
#define EV_BLIND 4
#define EV_SWAP 5
/* swap(l,n) norm dbl blind blind ( swap^3 add dbl swap^3 )^bits norm */
#define EV_EXPECT(k) ((k) == 0 ? EV_SWAP : (k) == 1 ? EV_NORM : (k) == 2 ? EV_DBL : (k) <= 4 ? EV_BLIND : \
	(k) < 5 + 8 * g_pub_bits ? ((((k) - 5) % 8) == 3 ? EV_ADD : (((k) - 5) % 8) == 4 ? EV_DBL : EV_SWAP) : \
	(k) == 5 + 8 * g_pub_bits ? EV_NORM : 0)
#define EV_LOGGED(ev) (g_ev_n == __CPROVER_old(g_ev_n) + 1 && g_ev_bad == (__CPROVER_old(g_ev_bad) | (EV_EXPECT(__CPROVER_old(g_ev_n)) != (ev))))
#define VC_EP(p) __CPROVER_object_upto(p, sizeof(ep_st))
#define VC_BNF(a) (a)->used, (a)->sign, __CPROVER_object_upto((a)->dp, sizeof((a)->dp))

#include "vc_spec_push.h"
void dv_swap_sec_ev(dig_t *c, dig_t *a, size_t digits, dig_t bit)
__CPROVER_requires(digits <= RLC_BN_SIZE)
VC_ASSIGNS(__CPROVER_object_upto(c, digits * sizeof(dig_t)), __CPROVER_object_upto(a, digits * sizeof(dig_t)), g_ev_n, g_ev_bad)
__CPROVER_ensures(EV_LOGGED(EV_SWAP))
;
void ep_norm_ev(ep_t r, const ep_t p) VC_ASSIGNS(VC_EP(r), g_ev_n, g_ev_bad) __CPROVER_ensures(EV_LOGGED(EV_NORM));
void ep_dbl_projc_ev(ep_t r, const ep_t p) VC_ASSIGNS(VC_EP(r), g_ev_n, g_ev_bad) __CPROVER_ensures(EV_LOGGED(EV_DBL));
void ep_add_projc_ev(ep_t r, const ep_t p, const ep_t q) VC_ASSIGNS(VC_EP(r), g_ev_n, g_ev_bad) __CPROVER_ensures(EV_LOGGED(EV_ADD));
void ep_blind_ev(ep_t r, const ep_t p) VC_ASSIGNS(VC_EP(r), g_ev_n, g_ev_bad) __CPROVER_ensures(EV_LOGGED(EV_BLIND));
/* not group-level: arbitrary results, exact frames */
int bn_get_bit_a(const bn_t a, uint_t bit) VC_ASSIGNS_NONE __CPROVER_ensures(__CPROVER_return_value == 0 || __CPROVER_return_value == 1);
int bn_is_zero_a(const bn_t a) VC_ASSIGNS_NONE __CPROVER_ensures(__CPROVER_return_value == 0);         /* pre: k != 0 */
int ep_is_infty_a(const ep_t p) VC_ASSIGNS_NONE __CPROVER_ensures(__CPROVER_return_value == 0);      /* pre: p != infinity */
size_t bn_bits_a(const bn_t a) VC_ASSIGNS_NONE __CPROVER_ensures(__CPROVER_return_value == g_pub_bits);
void ep_curve_get_ord_a(bn_t n) VC_ASSIGNS(VC_BNF(n)) __CPROVER_ensures(n->used >= 1 && n->used <= RLC_BN_SIZE - 2);
void bn_mod_basic_a(bn_t c, const bn_t a, const bn_t m) VC_ASSIGNS(VC_BNF(c)) __CPROVER_ensures(c->used >= 1 && c->used <= RLC_BN_SIZE - 2);
void bn_abs_a(bn_t c, const bn_t a) VC_ASSIGNS(VC_BNF(c)) __CPROVER_ensures(c->used >= 1 && c->used <= RLC_BN_SIZE - 2);
void bn_add_a(bn_t c, const bn_t a, const bn_t b) VC_ASSIGNS(VC_BNF(c)) __CPROVER_ensures(c->used >= 1 && c->used <= RLC_BN_SIZE);

void ep_mul_monty(ep_t r, const ep_t p, const bn_t k)
__CPROVER_requires(__CPROVER_is_fresh(r, sizeof(ep_st)) && __CPROVER_is_fresh(p, sizeof(ep_st)) && __CPROVER_is_fresh(k, sizeof(bn_st)))
__CPROVER_requires(g_pub_bits >= 1 && g_pub_bits <= VC_MAXBITS && g_ev_n == 0 && g_ev_bad == 0)
VC_ASSIGNS(VC_EP(r), g_ev_n, g_ev_bad, g_ctx.code, g_ctx.last, g_ctx.caught, g_ctx.error, g_ctx.number, g_thrown)
__CPROVER_ensures(g_ev_bad == 0 && g_ev_n == 6 + 8 * g_pub_bits)
__CPROVER_ensures(g_ctx.last == __CPROVER_old(g_ctx.last))
;
#include "vc_spec_pop.h"

#define VC_LOOP_ep_mul_monty_0 \
	__CPROVER_assigns(i, __CPROVER_object_whole(t), g_ev_n, g_ev_bad) \
	__CPROVER_loop_invariant(i >= -1 && i <= (int)bits - 1 && bits == g_pub_bits && g_ev_bad == 0 && g_ev_n == 5 + 8 * (bits - 1 - (size_t)i)) \
	__CPROVER_decreases(i + 1)
