/* Byte / digit-vector conversions of integers (properties C07, C08) and window recodings (C08, C09). */
#pragma once
#include "vc_prelude.h"
#include "bn_api.h"

#define VC_MAXBYTES ((RLC_BN_SIZE + 2) * (RLC_DIG / 8))     /* decoder inputs up to two digits beyond the precision */

/* Byte buffers of symbolic length: an enforcing unit may define VC_FIXED_BYTEBUF to allocate the buffer with its maximal
   size (symbolic-size objects make the write loops of the encoders blow up in the SAT back end); the frame clause
   object_upto(buf, len) still confines every write to the first len bytes, only reads in [len, max) go unnoticed. */
#ifdef VC_FIXED_BYTEBUF
#define VC_BYTES_FRESH(p, n)  __CPROVER_is_fresh(p, VC_MAXBYTES)
#else
#define VC_BYTES_FRESH(p, n)  __CPROVER_is_fresh(p, n)
#endif

#include "vc_spec_push.h"
/* big-endian value of the len (<= VC_W*RLC_DIG/8) bytes at bin */
static inline vc_wide vc_be(const uint8_t *bin, size_t len) {
	vc_wide v = 0;
	for (size_t i = 0; i < VC_W * (RLC_DIG / 8); i++) {
		if (i < len) v = (v << 8) | (vc_wide)bin[i];
	}
	return v;
}

size_t bn_size_bin(const bn_t a)
__CPROVER_requires(VC_BN_FRESH(a) && VC_BN_NF(a))
VC_ASSIGNS_NONE
__CPROVER_ensures(__CPROVER_return_value <= RLC_BN_SIZE * (RLC_DIG / 8))
__CPROVER_ensures((vc_mag(a) >> (8 * __CPROVER_return_value)) == 0)
__CPROVER_ensures(__CPROVER_return_value == 0 || (vc_mag(a) >> (8 * (__CPROVER_return_value - 1))) != 0)
;

/* decode: every byte string whose digit count fits is accepted and yields exactly its big-endian value, normalised and
   non-negative; a longer one is reported as a precision error and nothing outside *a and the context is written */
void bn_read_bin(bn_t a, const uint8_t *bin, size_t len)
__CPROVER_requires(len <= VC_MAXBYTES)
__CPROVER_requires(VC_BN_FRESH(a) && VC_BN_OUT(a))
__CPROVER_requires(__CPROVER_is_fresh(bin, len))
__CPROVER_requires((len + RLC_DIG / 8 - 1) / (RLC_DIG / 8) <= RLC_BN_SIZE || g_may_throw)
VC_ASSIGNS(__CPROVER_object_whole(a), g_ctx.code, g_ctx.last, g_ctx.caught, g_ctx.error, g_ctx.number, g_thrown)
__CPROVER_ensures((len + RLC_DIG / 8 - 1) / (RLC_DIG / 8) <= RLC_BN_SIZE ==> \
	(VC_BN_NF(a) && a->sign == RLC_POS && vc_mag(a) == vc_be(bin, len) && g_ctx.code == __CPROVER_old(g_ctx.code)))
__CPROVER_ensures((len + RLC_DIG / 8 - 1) / (RLC_DIG / 8) > RLC_BN_SIZE ==> g_ctx.code == RLC_ERR)
;

/* encode: big-endian magnitude, left-padded with zeros to exactly len bytes; too short a buffer is an error and the buffer
   is left untouched */
void bn_write_bin(uint8_t *bin, size_t len, const bn_t a)
__CPROVER_requires(len <= VC_MAXBYTES)
__CPROVER_requires(VC_BN_FRESH(a) && VC_BN_NF(a))
__CPROVER_requires(VC_BYTES_FRESH(bin, len))
__CPROVER_requires((vc_mag(a) >> (8 * len)) == 0 || g_may_throw)
__CPROVER_requires(gk < len ==> bin[gk] == g_byte0)
VC_ASSIGNS(__CPROVER_object_upto(bin, len), g_ctx.code, g_ctx.last, g_ctx.error, g_ctx.number, g_thrown)
__CPROVER_ensures(((vc_mag(a) >> (8 * len)) == 0) ==> (g_ctx.code == __CPROVER_old(g_ctx.code) && \
	(gk < len ==> bin[len - 1 - gk] == (uint8_t)(vc_mag(a) >> (8 * gk)))))   /* byte gk of the magnitude, zero above it */
__CPROVER_ensures(((vc_mag(a) >> (8 * len)) != 0) ==> (g_ctx.code == RLC_ERR && (gk < len ==> bin[gk] == g_byte0)))
;

size_t bn_size_raw(const bn_t a)
__CPROVER_requires(VC_BN_FRESH(a))
VC_ASSIGNS_NONE
__CPROVER_ensures(__CPROVER_return_value == a->used)
;

void bn_read_raw(bn_t a, const dig_t *raw, size_t len)
__CPROVER_requires(len <= RLC_BN_SIZE + 2)
__CPROVER_requires(VC_BN_FRESH(a) && VC_BN_OUT(a))
__CPROVER_requires(__CPROVER_is_fresh(raw, len * sizeof(dig_t)))
__CPROVER_requires(len <= RLC_BN_SIZE || g_may_throw)
VC_ASSIGNS(__CPROVER_object_whole(a), g_ctx.code, g_ctx.last, g_ctx.caught, g_ctx.error, g_ctx.number, g_thrown)
__CPROVER_ensures(VC_BN_NF(a) && a->sign == RLC_POS && vc_mag(a) == vc_val(raw, len) && g_ctx.code == __CPROVER_old(g_ctx.code))
;

void bn_write_raw(dig_t *raw, size_t len, const bn_t a)
__CPROVER_requires(len <= RLC_BN_SIZE + 2)
__CPROVER_requires(VC_BN_FRESH(a) && VC_BN_NF(a))
__CPROVER_requires(__CPROVER_is_fresh(raw, len * sizeof(dig_t)))
__CPROVER_requires(len >= a->used || g_may_throw)
__CPROVER_requires(gk < len ==> raw[gk] == g_dig0)
VC_ASSIGNS(__CPROVER_object_upto(raw, len * sizeof(dig_t)), g_ctx.code, g_ctx.last, g_ctx.error, g_ctx.number, g_thrown)
__CPROVER_ensures(len >= a->used ==> (vc_val(raw, len) == vc_mag(a) && g_ctx.code == __CPROVER_old(g_ctx.code)))
__CPROVER_ensures(len < a->used ==> (g_ctx.code == RLC_ERR && (gk < len ==> raw[gk] == g_dig0)))
;

/* ---- fixed-window recoding: win[j] are the w-bit windows of |k|, least significant first ----------------------------- */
void bn_rec_win(uint8_t *win, size_t *len, const bn_t k, size_t w)
__CPROVER_requires(w >= 1 && w <= 8)
__CPROVER_requires(VC_BN_FRESH(k) && VC_BN_NF(k))
__CPROVER_requires(__CPROVER_is_fresh(len, sizeof(size_t)) && *len <= RLC_BN_SIZE * RLC_DIG + 1)
__CPROVER_requires(__CPROVER_is_fresh(win, *len))
__CPROVER_requires(((vc_mag(k) >> (*len * w)) == 0) || g_may_throw)
VC_ASSIGNS(__CPROVER_object_whole(win), *len, g_ctx.code, g_ctx.last, g_ctx.error, g_ctx.number, g_thrown)
__CPROVER_ensures(((vc_mag(k) >> (__CPROVER_old(*len) * w)) != 0) ==> (g_ctx.code == RLC_ERR && *len == 0))
__CPROVER_ensures(((vc_mag(k) >> (__CPROVER_old(*len) * w)) == 0) ==> (g_ctx.code == __CPROVER_old(g_ctx.code) && \
	*len <= __CPROVER_old(*len) && (vc_mag(k) >> (*len * w)) == 0 && (*len == 0 || (vc_mag(k) >> ((*len - 1) * w)) != 0) && \
	(gk < *len ==> (vc_wide)win[gk] == ((vc_mag(k) >> (gk * w)) & ((((vc_wide)1) << w) - 1)))))
;
#include "vc_spec_pop.h"

/* ---- width-w NAF recoding: sum naf[j] 2^j == |k|, digits zero or odd with |d| < 2^(w-1), length <= bits(k) + 1 -------- */
#ifndef VC_NAF_MAXBITS
#define VC_NAF_MAXBITS (RLC_BN_SIZE * RLC_DIG - 2 * RLC_DIG)
#endif
#include "vc_spec_push.h"
static inline vc_swide vc_naf_val(const int8_t *naf, size_t len) {
	vc_swide v = 0;
	for (size_t j = 0; j < VC_NAF_MAXBITS + 2; j++) {
		if (j < len) v += ((vc_swide)naf[j]) << j;
	}
	return v;
}
void bn_rec_naf(int8_t *naf, size_t *len, const bn_t k, size_t w)
__CPROVER_requires(w >= 2 && w <= 8)
__CPROVER_requires(VC_BN_FRESH(k) && VC_BN_NF(k) && (vc_mag(k) >> VC_NAF_MAXBITS) == 0)
__CPROVER_requires(__CPROVER_is_fresh(len, sizeof(size_t)) && *len <= VC_NAF_MAXBITS + 2)
__CPROVER_requires(__CPROVER_is_fresh(naf, *len))
__CPROVER_requires((*len >= 1 && (vc_mag(k) >> (*len - 1)) == 0) || g_may_throw)      /* the NAF of k has at most bits(k) + 1 digits */
VC_ASSIGNS(__CPROVER_object_whole(naf), *len, g_ctx.code, g_ctx.last, g_ctx.caught, g_ctx.error, g_ctx.number, g_thrown)
__CPROVER_ensures(g_ctx.code == RLC_ERR || (*len <= __CPROVER_old(*len) && (vc_swide)vc_mag(k) == vc_naf_val(naf, *len)))
__CPROVER_ensures(g_ctx.code == RLC_ERR || (gk < *len ==> (naf[gk] == 0 || ((naf[gk] & 1) == 1 && naf[gk] < (1 << (w - 1)) && naf[gk] > -(1 << (w - 1))))))
__CPROVER_ensures(g_ctx.code == RLC_ERR || (vc_mag(k) != 0 ==> (*len >= 1 && naf[*len - 1] != 0)))
;
#include "vc_spec_pop.h"

/* ---- regular (signed, fixed-length) recoding (C08/C09): frame, length and error behaviour ---------------------------------
   l = ceil(n/(w-1)) digits plus a final one are produced; the scratch copy of k has d = ceil(l(w-1)/RLC_DIG) digits.  The documented
   interface does not restrict k to n bits, so the contract does not either: a k that does not fit the scratch (k->used > d) must be
   REPORTED, not copied past it.  (An earlier version of this contract assumed k < 2^n as a precondition - taken from what the callers
   "obviously" pass, not from the interface - and thereby hid finding F11, DESIGN 9.)  The digit VALUES are not claimed (the value
   contract exhausted memory, DESIGN 9 "withdrawn"). */
#ifndef VC_REG_MAXN
#define VC_REG_MAXN 24
#endif
#define VC_REG_L(n, w) (((n) + (w) - 2) / ((w) - 1))
#define VC_REG_D(n, w) ((VC_REG_L(n, w) * ((w) - 1) + RLC_DIG - 1) / RLC_DIG)
extern const void *__CPROVER_alloca_object;
#include "vc_spec_push.h"
void bn_rec_reg(int8_t *naf, size_t *len, const bn_t k, size_t n, size_t w)
__CPROVER_requires(w >= 2 && w <= 8 && n >= 1 && n <= VC_REG_MAXN)
__CPROVER_requires(VC_BN_FRESH(k) && VC_BN_NF(k))
__CPROVER_requires(__CPROVER_is_fresh(len, sizeof(size_t)) && *len <= VC_REG_MAXN + 4)
__CPROVER_requires(__CPROVER_is_fresh(naf, *len))
/* an error exit is admitted exactly when the buffer is too short or k does not fit */
__CPROVER_requires((*len > VC_REG_L(n, w) && (size_t)k->used <= VC_REG_D(n, w)) || g_may_throw)
VC_ASSIGNS(__CPROVER_alloca_object, __CPROVER_object_whole(naf), *len, g_ctx.code, g_ctx.last, g_ctx.error, g_ctx.number, g_thrown)
/* buffer too short: reported */
__CPROVER_ensures(__CPROVER_old(*len) <= VC_REG_L(n, w) ==> (g_ctx.code == RLC_ERR && *len == 0))
/* k fits the scratch: success, exactly l + 1 digits */
__CPROVER_ensures((__CPROVER_old(*len) > VC_REG_L(n, w) && (size_t)k->used <= VC_REG_D(n, w)) ==> (g_ctx.code == __CPROVER_old(g_ctx.code) && *len == VC_REG_L(n, w) + 1))
/* k does not fit: reported, nothing recoded */
__CPROVER_ensures((__CPROVER_old(*len) > VC_REG_L(n, w) && (size_t)k->used > VC_REG_D(n, w)) ==> (g_ctx.code == RLC_ERR && *len == 0))
/* k unchanged: by the frame (k is not in the assigns clause) */
;
#include "vc_spec_pop.h"
