/* RFC 9380 5.3.1 expand_message_xmd over an ABSTRACT streaming hash (property C14), generic in the hash: select with
   -DVC_XMD_H=224|384|512 (256 is the unit md_xmd_sh256 of c14x_xmd.h).  Sizes from RFC 9380 5.3.1 / FIPS 180-4, NOT from sha.h:
     H        b_in_bytes (digest)   s_in_bytes (input block)
     SHA-224  28                    64
     SHA-384  48                    128
     SHA-512  64                    128
     ell      = ceil(len_in_bytes / b_in_bytes);  ABORT if ell > 255 or len(DST) > 255 (len_in_bytes < 0: not a length, rejected too)
     DST'     = DST || I2OSP(len(DST), 1)
     b_0      = H(Z_pad(s_in_bytes zero bytes) || msg || I2OSP(len_in_bytes, 2) || I2OSP(0, 1) || DST')
     b_1      = H(b_0 || I2OSP(1, 1) || DST')
     b_i      = H((b_0 xor b_(i-1)) || I2OSP(i, 1) || DST')          i = 2 .. ell
     output   = first len_in_bytes bytes of b_1 || ... || b_ell
   <H>Reset / <H>Input / <H>Result are replaced by contracts over ghost state: hash computation number k (k = 0 is
   b_0, k = i is b_i) records how many bytes it was fed (g_xlen[k]) and - at the ghost index gk - the byte at stream position
   gk of the concatenation of everything it was fed (g_xobs[k]); Result returns the ghost digest g_xd[k] (b_in_bytes bytes).  gk is
   unconstrained, so the postcondition speaks about every byte of every hash input and of the output.  Each abstract call
   returns a nondeterministic verdict; a failure is recorded in g_xfail and forbids any further call.  The abstract calls also
   check that they are given the context object the computation was opened on.  The hash itself is not covered. */
#pragma once
#include "vc_prelude.h"
#include "src/md/sha.h"
#ifndef VC_XMD_H
#error "VC_XMD_H must be 224, 384 or 512"
#endif
#if VC_XMD_H == 224
#define VC_XB 28
#define VC_XS 64
#define VC_XCTX SHA224Context
#define VC_XFX(n) SHA224##n##_x
#define VC_XNAME md_xmd_sh224
#define VC_XMAP md_map_sh224
#elif VC_XMD_H == 384
#define VC_XB 48
#define VC_XS 128
#define VC_XCTX SHA384Context
#define VC_XFX(n) SHA384##n##_x
#define VC_XNAME md_xmd_sh384
#define VC_XMAP md_map_sh384
#elif VC_XMD_H == 512
#define VC_XB 64
#define VC_XS 128
#define VC_XCTX SHA512Context
#define VC_XFX(n) SHA512##n##_x
#define VC_XNAME md_xmd_sh512
#define VC_XMAP md_map_sh512
#else
#error "VC_XMD_H must be 224, 384 or 512"
#endif
#define VC_XNH 8
#ifndef VC_XMD_MAXELL
#define VC_XMD_MAXELL 3
#endif
#ifndef VC_XMD_MAXIN
#define VC_XMD_MAXIN 1000
#endif
#define VC_XMD_MAXDST 300
extern unsigned g_xn;              /* hash computations completed so far */
extern int g_xopen;                /* a computation is open: Reset seen, Result not yet */
extern const void *g_xctx;         /* the context object it was opened on */
extern size_t g_xlen[VC_XNH];      /* bytes fed to computation k */
extern uint8_t g_xobs[VC_XNH];     /* byte number gk of what computation k was fed */
extern int g_xset[VC_XNH];         /* ... has been seen */
extern uint8_t g_xd[VC_XNH][VC_XB];   /* the digests the abstract hash returns */
extern int g_xfail;                /* an abstract call reported an error */
extern unsigned g_xcalls;          /* abstract calls made */

#include "vc_spec_push.h"
int VC_XFX(Reset)(VC_XCTX *c)
__CPROVER_requires(g_xfail == 0 && g_xopen == 0 && g_xn < VC_XNH && g_xcalls < 100000 && __CPROVER_is_fresh(c, sizeof(VC_XCTX)))
VC_ASSIGNS(__CPROVER_object_whole(c), g_xopen, g_xctx, g_xlen[g_xn], g_xset[g_xn], g_xfail, g_xcalls)
__CPROVER_ensures(g_xcalls == __CPROVER_old(g_xcalls) + 1)
__CPROVER_ensures(__CPROVER_return_value == shaSuccess ?
	(g_xfail == 0 && g_xopen == 1 && g_xctx == (const void *)c && g_xlen[g_xn] == 0 && g_xset[g_xn] == 0) :
	(g_xfail == 1 && g_xopen == 0))
;
int VC_XFX(Input)(VC_XCTX *c, const uint8_t *m, unsigned int n)
__CPROVER_requires(g_xfail == 0 && g_xopen == 1 && g_xctx == (const void *)c && g_xn < VC_XNH && g_xcalls < 100000 && n <= 100000 && g_xlen[g_xn] <= 10000000)
__CPROVER_requires(__CPROVER_is_fresh(c, sizeof(VC_XCTX)) && __CPROVER_is_fresh(m, n))
VC_ASSIGNS(__CPROVER_object_whole(c), g_xlen[g_xn], g_xobs[g_xn], g_xset[g_xn], g_xfail, g_xcalls)
__CPROVER_ensures(g_xcalls == __CPROVER_old(g_xcalls) + 1)
__CPROVER_ensures(__CPROVER_return_value == shaSuccess ?
	(g_xfail == 0 && g_xlen[g_xn] == __CPROVER_old(g_xlen[g_xn]) + n &&
	 ((gk >= __CPROVER_old(g_xlen[g_xn]) && gk - __CPROVER_old(g_xlen[g_xn]) < n) ?
	  (g_xset[g_xn] == 1 && g_xobs[g_xn] == m[(gk >= __CPROVER_old(g_xlen[g_xn]) && gk - __CPROVER_old(g_xlen[g_xn]) < n) ? gk - __CPROVER_old(g_xlen[g_xn]) : 0]) :
	  (g_xset[g_xn] == __CPROVER_old(g_xset[g_xn]) && g_xobs[g_xn] == __CPROVER_old(g_xobs[g_xn])))) :
	g_xfail == 1)
;
int VC_XFX(Result)(VC_XCTX *c, uint8_t *d)
__CPROVER_requires(g_xfail == 0 && g_xopen == 1 && g_xctx == (const void *)c && g_xn < VC_XNH && g_xcalls < 100000)
__CPROVER_requires(__CPROVER_is_fresh(c, sizeof(VC_XCTX)) && __CPROVER_is_fresh(d, VC_XB))
VC_ASSIGNS(__CPROVER_object_whole(c), __CPROVER_object_upto(d, VC_XB), g_xn, g_xopen, g_xfail, g_xcalls)
__CPROVER_ensures(g_xcalls == __CPROVER_old(g_xcalls) + 1)
__CPROVER_ensures(__CPROVER_return_value == shaSuccess ?
	(g_xfail == 0 && g_xopen == 0 && g_xn == __CPROVER_old(g_xn) + 1 && d[gk % VC_XB] == g_xd[__CPROVER_old(g_xn) % VC_XNH][gk % VC_XB]) :
	g_xfail == 1)
;

#define VC_XELL       ((unsigned)(((long long)buf_len + (VC_XB - 1)) / VC_XB))
#define VC_XREJ       (buf_len < 0 || VC_XELL > 255 || dst_len > 255)
#define VC_XDSTP(j)   ((j) < (size_t)dst_len ? dst[(j) < (size_t)dst_len ? (j) : 0] : (uint8_t)dst_len)      /* byte j of DST' */
/* byte j of msg' = Z_pad || msg || I2OSP(len, 2) || 0 || DST' */
#define VC_XB0(j)     ((j) < VC_XS ? (uint8_t)0 : (j) - VC_XS < (size_t)in_len ? in[((j) >= VC_XS && (j) - VC_XS < (size_t)in_len) ? (j) - VC_XS : 0] : \
	(j) == VC_XS + (size_t)in_len ? (uint8_t)(buf_len >> 8) : (j) == VC_XS + 1 + (size_t)in_len ? (uint8_t)(buf_len & 0xff) : (j) == VC_XS + 2 + (size_t)in_len ? (uint8_t)0 : \
	VC_XDSTP((j) - (VC_XS + 3) - (size_t)in_len))
/* byte j of (b_0 xor b_(i-1)) || i || DST'   (b_0 alone for i = 1) */
#define VC_XBI(i, j)  ((j) < VC_XB ? (uint8_t)((i) == 1 ? g_xd[0][(j) % VC_XB] : (g_xd[0][(j) % VC_XB] ^ g_xd[(i) - 1][(j) % VC_XB])) : (j) == VC_XB ? (uint8_t)(i) : VC_XDSTP((j) - (VC_XB + 1)))
#define VC_XBI_OK(i)  ((i) <= VC_XELL ==> (g_xlen[i] == VC_XB + 2 + (size_t)dst_len && (gk < VC_XB + 2 + (size_t)dst_len ==> (g_xset[i] == 1 && g_xobs[i] == VC_XBI(i, gk)))))

void VC_XNAME(uint8_t *buf, int buf_len, const uint8_t *in, int in_len, const uint8_t *dst, int dst_len)
/* every int is admitted for the requested length: lengths up to MAXELL blocks are expanded, every other one is outside the
   unit's bound unless the function has to reject it (negative, or more than 255 blocks) */
/* (lengths above INT_MAX - b_in_bytes excluded: the computation of ell overflows a signed int there - reported as an observation) */
__CPROVER_requires((buf_len >= 0 && buf_len <= VC_XB * VC_XMD_MAXELL) || buf_len < 0 || (buf_len > 255 * VC_XB && buf_len <= 0x7fffffff - VC_XB))
__CPROVER_requires(in_len >= 0 && in_len <= VC_XMD_MAXIN && dst_len >= 0 && dst_len <= VC_XMD_MAXDST)
__CPROVER_requires(__CPROVER_is_fresh(buf, buf_len < 0 ? 0 : (size_t)buf_len) && __CPROVER_is_fresh(in, in_len) && __CPROVER_is_fresh(dst, dst_len))
__CPROVER_requires(g_xn == 0 && g_xopen == 0 && g_xfail == 0 && g_xcalls == 0 && g_may_throw == 1)
__CPROVER_assigns(!VC_XREJ: __CPROVER_object_upto(buf, (size_t)buf_len))
VC_ASSIGNS(g_xn, g_xopen, g_xctx, __CPROVER_object_whole(g_xlen), __CPROVER_object_whole(g_xobs), __CPROVER_object_whole(g_xset), g_xfail, g_xcalls,
	g_ctx.code, g_ctx.last, g_ctx.error, g_ctx.number, g_thrown)
/* ABORT cases: error reported, the hash is never started, the output buffer is not in the frame */
__CPROVER_ensures(VC_XREJ ==> (g_ctx.code == RLC_ERR && g_xcalls == 0))
/* a failing hash call ends the function with an error, no further hash call is made (caller-side preconditions) */
__CPROVER_ensures((!VC_XREJ && g_xfail) ==> g_ctx.code == RLC_ERR)
/* otherwise: no error, ell + 1 hash computations, 6 + 5 ell hash calls ... */
__CPROVER_ensures((!VC_XREJ && !g_xfail) ==> (g_ctx.code == __CPROVER_old(g_ctx.code) && g_xn == VC_XELL + 1 && g_xopen == 0 && g_xcalls == 7 + 5 * VC_XELL))
/* ... b_0 is the hash of msg' ... */
__CPROVER_ensures((!VC_XREJ && !g_xfail) ==> (g_xlen[0] == VC_XS + (size_t)in_len + 3 + (size_t)dst_len + 1 &&
	(gk < VC_XS + (size_t)in_len + 3 + (size_t)dst_len + 1 ==> (g_xset[0] == 1 && g_xobs[0] == VC_XB0(gk)))))
/* ... b_i is the hash of (b_0 xor b_(i-1)) || i || DST' ... */
__CPROVER_ensures((!VC_XREJ && !g_xfail) ==> (VC_XBI_OK(1) && VC_XBI_OK(2) && VC_XBI_OK(3) && VC_XBI_OK(4) && VC_XBI_OK(5) && VC_XBI_OK(6)))
/* ... and the output is the first len_in_bytes bytes of b_1 || b_2 || ... */
__CPROVER_ensures((!VC_XREJ && !g_xfail && gk < (size_t)buf_len) ==> buf[gk] == g_xd[(1 + gk / VC_XB) % VC_XNH][gk % VC_XB])
;
_Static_assert(VC_XMD_MAXELL <= 6, "the b_i clauses are written out for i <= 6");
#include "vc_spec_pop.h"
