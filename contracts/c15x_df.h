/* Hash_DRBG derivation function Hash_df (SP 800-90A 10.3.1) and the instantiate / reseed algorithms built on it (property C15).
     Hash_df(input, n bytes):  temp = H(01 || BE32(8 n) || input) || H(02 || BE32(8 n) || input) || ...  (ceil(n / 32) blocks);  leftmost n bytes
     Instantiate(entropy):     V = Hash_df(entropy, 55);                C = Hash_df(00 || V, 55);  reseed_counter = 1
     Reseed(entropy):          V = Hash_df(01 || V || entropy, 55);     C = Hash_df(00 || V, 55);  reseed_counter = 1
   The hash is abstract: md_map_sh256 is replaced by the view md_map_sh256_df that appends one record to a ghost transcript per call -
   the message length, the first five message bytes (counter, bits_to_return), the message byte at the ghost position 5 + g15_j (g15_j is
   nondeterministic and never written: every position of the input string) - and returns the ghost digest g15_ho[k] of call k (never written:
   arbitrary).  rand_hash is proved against a contract over that transcript (units c15x.rand_hash.v55 / .ctx: the two calls rand_seed makes), rand_seed
   against the same transcript with the REAL rand_hash inlined (unit c15x.rand_seed.df; replacing rand_hash by its contract there ran out of memory:
   the replaced call havocs a slice of the 944 KB context object through a non-constant pointer). */
#pragma once
#include "rand.h"       /* needs -DVC_CTX_RAND; gives g_ctx with the generator state, vc_h256, vc_h32 */

#define VC15_NH 6                       /* transcript slots */
#ifndef VC15_INMAX
#define VC15_INMAX (1 + VC_SEEDLEN + VC_SEED_MAX)      /* longest hash_df input string: 01 || V || entropy */
#endif
extern unsigned g15_hc;                 /* hash computations so far */
extern size_t g15_hlen[VC15_NH];        /* message length of call k */
extern uint8_t g15_hb[VC15_NH][5];      /* message bytes 0..4 of call k */
extern uint8_t g15_hat[VC15_NH];        /* message byte 5 + g15_j of call k (when inside the message) */
extern vc_h256 g15_ho[VC15_NH];         /* digest returned by call k */
extern size_t g15_j;                    /* ghost position in the hash_df input string */

#include "vc_spec_push.h"
#define VC15_DIG(k, i)   ((uint8_t)(g15_ho[(k) % VC15_NH] >> (8 * (RLC_MD_LEN - 1 - (i)))))      /* byte i of the digest of call k */
#define VC15_K0          (__CPROVER_old(g15_hc) % VC15_NH)
void md_map_sh256_df(uint8_t *hash, const uint8_t *msg, size_t len)
__CPROVER_requires(g15_hc < VC15_NH && len >= 5 && len <= 5 + VC15_INMAX)
__CPROVER_requires(__CPROVER_is_fresh(hash, RLC_MD_LEN))
__CPROVER_requires(__CPROVER_is_fresh(msg, len))
VC_ASSIGNS(__CPROVER_object_upto(hash, RLC_MD_LEN), g15_hc, g15_hlen[g15_hc], __CPROVER_object_upto(g15_hb[g15_hc], 5), g15_hat[g15_hc])
__CPROVER_ensures(g15_hc == __CPROVER_old(g15_hc) + 1 && g15_hlen[VC15_K0] == len)
__CPROVER_ensures(g15_hb[VC15_K0][0] == msg[0] && g15_hb[VC15_K0][1] == msg[1] && g15_hb[VC15_K0][2] == msg[2] && g15_hb[VC15_K0][3] == msg[3] && g15_hb[VC15_K0][4] == msg[4])
__CPROVER_ensures((g15_j < len - 5) ==> g15_hat[VC15_K0] == msg[5 + (g15_j < len - 5 ? g15_j : 0)])
__CPROVER_ensures(vc_h32(hash) == g15_ho[VC15_K0])
;

/* ---- rand_hash = Hash_df ---------------------------------------------------------------------------------------------------------- */
/* record k of the transcript is block number ctr of Hash_df(<string of inlen bytes>, outlen bytes) */
#define VC15_BITS(outlen)            ((uint32_t)(8 * (outlen)))
#define VC15_DFREC(k, ctr, inlen, outlen) (g15_hlen[k] == 5 + (inlen) && g15_hb[k][0] == (ctr) && g15_hb[k][1] == (uint8_t)(VC15_BITS(outlen) >> 24) && \
	g15_hb[k][2] == (uint8_t)(VC15_BITS(outlen) >> 16) && g15_hb[k][3] == (uint8_t)(VC15_BITS(outlen) >> 8) && g15_hb[k][4] == (uint8_t)VC15_BITS(outlen))
/* The enforcing units fix the number of blocks VC_DF_NB (1, 2, 3: output lengths 1..32, 33..64, 65..96) or the output length itself (VC_DF_OUTLEN = 55,
   the only length rand_seed asks for: then every frame in this contract has a constant size, which is what the replaced call in rand_seed uses). */
#ifndef VC_DF_NB
#error "c15x_df.h: define VC_DF_NB (number of hash blocks of the hash_df calls of this unit)"
#endif
#ifdef VC_DF_OUTLEN
_Static_assert((VC_DF_OUTLEN + RLC_MD_LEN - 1) / RLC_MD_LEN == VC_DF_NB, "block count of the fixed output length");
#define VC15_DF_OUTOK(n)  ((n) == VC_DF_OUTLEN)
#define VC15_DF_OUTSZ(n)  ((size_t)VC_DF_OUTLEN)
#else
#define VC15_DF_OUTOK(n)  ((n) >= RLC_MD_LEN * (VC_DF_NB - 1) + 1 && (n) <= RLC_MD_LEN * VC_DF_NB)
#define VC15_DF_OUTSZ(n)  (n)
#endif
#define VC15_SLOT(b)   g15_hlen[g15_hc + (b)], __CPROVER_object_upto(g15_hb[g15_hc + (b)], 5), g15_hat[g15_hc + (b)]
#if VC_DF_NB == 1
#define VC15_SLOTS     VC15_SLOT(0)
#define VC15_RECS(inlen, outlen)  VC15_DFREC(VC15_K0, 1, inlen, outlen)
#define VC15_ATS(x)    (g15_hat[VC15_K0] == (x))
#elif VC_DF_NB == 2
#define VC15_SLOTS     VC15_SLOT(0), VC15_SLOT(1)
#define VC15_RECS(inlen, outlen)  (VC15_DFREC(VC15_K0, 1, inlen, outlen) && VC15_DFREC((VC15_K0 + 1) % VC15_NH, 2, inlen, outlen))
#define VC15_ATS(x)    (g15_hat[VC15_K0] == (x) && g15_hat[(VC15_K0 + 1) % VC15_NH] == (x))
#elif VC_DF_NB == 3
#define VC15_SLOTS     VC15_SLOT(0), VC15_SLOT(1), VC15_SLOT(2)
#define VC15_RECS(inlen, outlen)  (VC15_DFREC(VC15_K0, 1, inlen, outlen) && VC15_DFREC((VC15_K0 + 1) % VC15_NH, 2, inlen, outlen) && VC15_DFREC((VC15_K0 + 2) % VC15_NH, 3, inlen, outlen))
#define VC15_ATS(x)    (g15_hat[VC15_K0] == (x) && g15_hat[(VC15_K0 + 1) % VC15_NH] == (x) && g15_hat[(VC15_K0 + 2) % VC15_NH] == (x))
#else
#error "VC_DF_NB in 1..3"
#endif
/* argument shapes (one enforcing unit each): SEP - output and input string in different objects (V from the entropy / from the scratch string);
   CTX - the output follows the input string in the same object (C = Hash_df(00 || V) inside the context: in = rand, out = rand + 56).
   Without a shape (replacement at the call sites of rand_seed): either of the two, checked against the caller. */
#if defined(VC_DF_SHAPE_SEP)
#define VC15_DF_ARGS   (__CPROVER_is_fresh(out, VC15_DF_OUTSZ(out_len)) && __CPROVER_is_fresh(in, in_len))
#elif defined(VC_DF_SHAPE_CTX)
#define VC15_DF_ARGS   (in_len == VC_SEEDLEN + 1 && __CPROVER_is_fresh(in, VC_SEEDLEN + 1 + VC15_DF_OUTSZ(out_len)) && __CPROVER_pointer_equals(out, in + VC_SEEDLEN + 1))
#else
#define VC15_DF_ARGS   (__CPROVER_w_ok(out, VC15_DF_OUTSZ(out_len)) && __CPROVER_r_ok(in, in_len) && \
	(!__CPROVER_same_object(out, in) || (in_len == VC_SEEDLEN + 1 && __CPROVER_POINTER_OFFSET(out) == __CPROVER_POINTER_OFFSET(in) + VC_SEEDLEN + 1)))
#endif
static void rand_hash(uint8_t *out, size_t out_len, uint8_t *in, size_t in_len)
__CPROVER_requires(VC15_DF_OUTOK(out_len) && in_len <= VC15_INMAX && g15_hc <= VC15_NH - VC_DF_NB)
__CPROVER_requires(VC15_DF_ARGS)
/* exactly the requested bytes are written; the input string is not (it is outside the frame) */
VC_ASSIGNS(__CPROVER_alloca_object, __CPROVER_object_upto(out, VC15_DF_OUTSZ(out_len)), g15_hc, VC15_SLOTS)
/* ceil(out_len / 32) hash computations; computation b hashes a message of 1 + 4 + in_len bytes: counter b + 1, the requested BIT length in big-endian
   order, then the input string (every position: ghost index g15_j) */
__CPROVER_ensures(g15_hc == __CPROVER_old(g15_hc) + VC_DF_NB && VC15_RECS(in_len, out_len))
__CPROVER_ensures((g15_j < in_len) ==> VC15_ATS(in[g15_j < in_len ? g15_j : 0]))
/* the output is the concatenation of the digests, cut at out_len */
__CPROVER_ensures((gk < out_len) ==> out[gk] == VC15_DIG(__CPROVER_old(g15_hc) + gk / RLC_MD_LEN, gk % RLC_MD_LEN))
;

/* ---- rand_seed = Instantiate / Reseed ----------------------------------------------------------------------------------------------- */
#define VC15_FIRST     (__CPROVER_old(g_ctx.seeded) == 0)
#define VC15_SEEDIN    (VC15_FIRST ? size : 1 + VC_SEEDLEN + size)              /* length of the input string of the V derivation */
#define VC15_AT2(a, b, x)  (g15_hat[a] == (x) && g15_hat[b] == (x))
void rand_seed_df(uint8_t *buf, size_t size)
__CPROVER_requires(size <= VC_SEED_MAX && (g_ctx.seeded == 0 || g_ctx.seeded == 1) && g15_hc == 0)
__CPROVER_requires(__CPROVER_is_fresh(buf, size))
__CPROVER_requires(size > 0 || g_may_throw)
VC_ASSIGNS(__CPROVER_alloca_object, __CPROVER_object_upto(g_ctx.rand, sizeof(g_ctx.rand)), g_ctx.counter, g_ctx.seeded, g_ctx.code, g_ctx.last, g_ctx.error, g_ctx.number, g_thrown,
	g15_hc, __CPROVER_object_whole(g15_hlen), __CPROVER_object_whole(g15_hb), __CPROVER_object_whole(g15_hat))
/* an empty seed is refused: no hash computation, state untouched */
__CPROVER_ensures(size == 0 ==> (g_ctx.code == RLC_ERR && g15_hc == 0 && g_ctx.counter == __CPROVER_old(g_ctx.counter) && g_ctx.seeded == __CPROVER_old(g_ctx.seeded) && VC_V == VC_V_OLD && VC_C == VC_C_OLD))
/* otherwise: four hash computations = two Hash_df calls of two blocks (440 bits) each; reseed counter 1 - also on a reseed */
__CPROVER_ensures(size > 0 ==> (g_ctx.code == __CPROVER_old(g_ctx.code) && g_ctx.counter == 1 && g_ctx.seeded == 1 && g_ctx.rand[0] == 0 && g15_hc == 4))
/* V' = Hash_df(seed_material, 55): blocks 1, 2 over a string of the right length ... */
__CPROVER_ensures(size > 0 ==> (VC15_DFREC(0, 1, VC15_SEEDIN, VC_SEEDLEN) && VC15_DFREC(1, 2, VC15_SEEDIN, VC_SEEDLEN)))
/* ... which is the entropy input on the first seed ... */
__CPROVER_ensures((size > 0 && VC15_FIRST && g15_j < size) ==> VC15_AT2(0, 1, buf[g15_j < size ? g15_j : 0]))
/* ... and 01 || V || entropy input on a reseed */
__CPROVER_ensures((size > 0 && !VC15_FIRST && g15_j == 0) ==> VC15_AT2(0, 1, 1))
__CPROVER_ensures((size > 0 && !VC15_FIRST && g15_j >= 1 && g15_j <= VC_SEEDLEN) ==> VC15_AT2(0, 1, __CPROVER_old(g_ctx.rand[g15_j >= 1 && g15_j <= VC_SEEDLEN ? g15_j : 0])))
__CPROVER_ensures((size > 0 && !VC15_FIRST && g15_j > VC_SEEDLEN && g15_j < 1 + VC_SEEDLEN + size) ==> VC15_AT2(0, 1, buf[g15_j > VC_SEEDLEN && g15_j < 1 + VC_SEEDLEN + size ? g15_j - 1 - VC_SEEDLEN : 0]))
__CPROVER_ensures((size > 0 && gk < VC_SEEDLEN) ==> g_ctx.rand[1 + (gk < VC_SEEDLEN ? gk : 0)] == VC15_DIG(gk / RLC_MD_LEN, gk % RLC_MD_LEN))
/* C' = Hash_df(00 || V', 55): blocks 1, 2 over the 56-byte string 00 || (the NEW V) */
__CPROVER_ensures(size > 0 ==> (VC15_DFREC(2, 1, 1 + VC_SEEDLEN, VC_SEEDLEN) && VC15_DFREC(3, 2, 1 + VC_SEEDLEN, VC_SEEDLEN)))
__CPROVER_ensures((size > 0 && g15_j <= VC_SEEDLEN) ==> VC15_AT2(2, 3, g15_j == 0 ? 0 : g_ctx.rand[g15_j <= VC_SEEDLEN ? g15_j : 0]))
__CPROVER_ensures((size > 0 && gk < VC_SEEDLEN) ==> g_ctx.rand[1 + VC_SEEDLEN + (gk < VC_SEEDLEN ? gk : 0)] == VC15_DIG(2 + gk / RLC_MD_LEN, gk % RLC_MD_LEN))
;
#include "vc_spec_pop.h"
