/* SHA-384/512 finalisation glue and the bit-granular final call of SHA-256 / SHA-512 (property C14).
   * SHA384_512Finalize pads exactly once with the given pad byte (FIPS 180-4 5.1.2, proved contract of SHA384_512PadMessage in sha512_pad.h:
     the buffered bytes, the pad byte, zeros, the 128-bit length) using the buffer and the length as they were BEFORE the wipe, only THEN
     wipes the 128-byte message buffer and the two length words and marks the context computed.
   * SHA512Result / SHA384Result (through SHA384_512ResultN) finalise at most once with pad 0x80 (a second call does not pad again), refuse a
     corrupted context without touching the digest buffer, and write H0 || H1 || ... big-endian (FIPS 180-4 6.4.2 / 6.5: 64 bytes resp. the
     leftmost 48 bytes); a NULL argument yields shaNull and nothing is touched.
   * SHA256FinalBits / SHA512FinalBits (FIPS 180-4 5.1: the message, here its last n < 8 bits, is followed by a '1' bit): the byte handed to
     the finalisation is (top n bits of message_bits) | (0x80 >> n), and the bit length has grown by n when the finalisation sees it.
   Abstract: the compression function (through SHA384_512PadMessage's proved contract) resp. the finalisation (views below). */
#pragma once
#include "sha_pad.h"
#include "sha512_pad.h"
extern unsigned g5f_calls; extern uint8_t g5f_pad; extern size_t g5f_ctx_o; extern uint64_t g5f_len_hi, g5f_len_lo;

#define VC_LEN5_BYTE_OLD(c, j) ((uint8_t)((j) < 120 ? (__CPROVER_old((c)->Length_High) >> (8 * (119 - (j)))) : (__CPROVER_old((c)->Length_Low) >> (8 * (127 - (j))))))
/* FIPS 180-4 5.1 written out per bit count n: the n message bits are the TOP n bits of the byte; the appended '1' is the next bit below */
#define VC_TOPBITS(n)  ((n) == 0 ? 0x00 : (n) == 1 ? 0x80 : (n) == 2 ? 0xC0 : (n) == 3 ? 0xE0 : (n) == 4 ? 0xF0 : (n) == 5 ? 0xF8 : (n) == 6 ? 0xFC : 0xFE)
#define VC_ONEBIT(n)   (0x80 >> (n))
#define VC_FINAL_BYTE(bits, n)  ((uint8_t)(((bits) & VC_TOPBITS(n)) | VC_ONEBIT(n)))

#include "vc_spec_push.h"
#ifdef VC_SHA5_STATICS
static void SHA384_512Finalize(SHA512Context *context, uint8_t Pad_Byte)
__CPROVER_requires(__CPROVER_is_fresh(context, sizeof(SHA512Context)) && VC_SHA5_OK(context) && g5_blk_n == 0)
VC_ASSIGNS(__CPROVER_object_whole(context), g5_blk_n, __CPROVER_object_whole(g5_blk), g_obs_val, g_obs_set)
__CPROVER_ensures(g5_blk_n == (__CPROVER_old(context->Message_Block_Index) < 112 ? 1u : 2u))
__CPROVER_ensures(context->Computed == 1 && context->Length_High == 0 && context->Length_Low == 0)
__CPROVER_ensures(gk < 128 ==> context->Message_Block[gk < 128 ? gk : 0] == 0)
/* what was compressed is the padded message as it was BEFORE the wipe, with the length as it was before it was cleared */
__CPROVER_ensures((gk < 128 && __CPROVER_old(context->Message_Block_Index) < 112) ==> g5_blk[0][gk < 128 ? gk : 0] == \
	((int)gk < __CPROVER_old(context->Message_Block_Index) ? __CPROVER_old(context->Message_Block[gk < 128 ? gk : 0]) : \
	 (int)gk == __CPROVER_old(context->Message_Block_Index) ? Pad_Byte : gk < 112 ? (uint8_t)0 : VC_LEN5_BYTE_OLD(context, gk)))
__CPROVER_ensures((gk < 128 && __CPROVER_old(context->Message_Block_Index) >= 112) ==> (g5_blk[0][gk < 128 ? gk : 0] == \
	((int)gk < __CPROVER_old(context->Message_Block_Index) ? __CPROVER_old(context->Message_Block[gk < 128 ? gk : 0]) : \
	 (int)gk == __CPROVER_old(context->Message_Block_Index) ? Pad_Byte : (uint8_t)0) && \
	g5_blk[1][gk < 128 ? gk : 0] == (gk < 112 ? (uint8_t)0 : VC_LEN5_BYTE_OLD(context, gk))))
;
#else
/* views of the finalisation: record the call, the pad byte, the context (object number) and the bit length the finalisation SEES; mark the
   context computed; change everything else in the context (chaining value included) arbitrarily */
void SHA384_512Finalize_v(SHA512Context *context, uint8_t Pad_Byte)
__CPROVER_requires(__CPROVER_is_fresh(context, sizeof(SHA512Context)) && g5f_calls == 0 && context->Computed == 0 && context->Corrupted == 0 && VC_SHA5_OK(context))
VC_ASSIGNS(__CPROVER_object_whole(context), g5f_calls, g5f_pad, g5f_ctx_o, g5f_len_hi, g5f_len_lo)
__CPROVER_ensures(g5f_calls == 1 && g5f_pad == Pad_Byte && g5f_ctx_o == __CPROVER_POINTER_OBJECT(context) && context->Computed == 1)
__CPROVER_ensures(g5f_len_hi == __CPROVER_old(context->Length_High) && g5f_len_lo == __CPROVER_old(context->Length_Low))
;
void SHA224_256Finalize_w(SHA256Context *context, uint8_t Pad_Byte)
__CPROVER_requires(__CPROVER_is_fresh(context, sizeof(SHA256Context)) && g5f_calls == 0 && context->Computed == 0 && context->Corrupted == 0 && VC_SHA_OK(context))
VC_ASSIGNS(__CPROVER_object_whole(context), g5f_calls, g5f_pad, g5f_ctx_o, g5f_len_hi, g5f_len_lo)
__CPROVER_ensures(g5f_calls == 1 && g5f_pad == Pad_Byte && g5f_ctx_o == __CPROVER_POINTER_OBJECT(context) && context->Computed == 1)
__CPROVER_ensures(g5f_len_hi == __CPROVER_old(context->Length_High) && g5f_len_lo == __CPROVER_old(context->Length_Low))
;

/* digest word number w, read big-endian from the digest bytes */
#define VC_BE64(d, w) (((uint64_t)(d)[8 * (w)] << 56) | ((uint64_t)(d)[8 * (w) + 1] << 48) | ((uint64_t)(d)[8 * (w) + 2] << 40) | ((uint64_t)(d)[8 * (w) + 3] << 32) | \
	((uint64_t)(d)[8 * (w) + 4] << 24) | ((uint64_t)(d)[8 * (w) + 5] << 16) | ((uint64_t)(d)[8 * (w) + 6] << 8) | (uint64_t)(d)[8 * (w) + 7])

#ifdef VC_FIN5_NULLCASE
/* a NULL argument: shaNull, nothing is finalised, nothing is written (empty frame) */
#define VC_RESULT5(f, T, HS) \
int f(T *context, uint8_t *Message_Digest) \
__CPROVER_requires((context == NULL || (__CPROVER_is_fresh(context, sizeof(SHA512Context)) && VC_SHA5_OK(context))) && (Message_Digest == NULL || __CPROVER_is_fresh(Message_Digest, HS))) \
__CPROVER_requires((context == NULL || Message_Digest == NULL) && g5f_calls == 0) \
VC_ASSIGNS(g5f_calls, g5f_pad, g5f_ctx_o, g5f_len_hi, g5f_len_lo) \
__CPROVER_ensures(__CPROVER_return_value == shaNull && g5f_calls == 0) \
;
#else
#define VC_RESULT5(f, T, HS) \
int f(T *context, uint8_t *Message_Digest) \
__CPROVER_requires(__CPROVER_is_fresh(context, sizeof(SHA512Context)) && __CPROVER_is_fresh(Message_Digest, HS) && g5f_calls == 0 && VC_SHA5_OK(context)) \
__CPROVER_assigns(context->Corrupted == 0: __CPROVER_object_upto(Message_Digest, HS)) \
__CPROVER_assigns(context->Corrupted == 0 && context->Computed == 0: __CPROVER_object_whole(context)) \
VC_ASSIGNS(g5f_calls, g5f_pad, g5f_ctx_o, g5f_len_hi, g5f_len_lo) \
/* a corrupted context: its error code is returned, no padding, no digest (the frame above leaves the buffer untouched) */ \
__CPROVER_ensures(__CPROVER_old(context->Corrupted) != 0 ==> (__CPROVER_return_value == __CPROVER_old(context->Corrupted) && g5f_calls == 0)) \
/* otherwise: padded with 0x80 exactly when the digest was not computed yet (a second Result call does not pad again) ... */ \
__CPROVER_ensures(__CPROVER_old(context->Corrupted) == 0 ==> (__CPROVER_return_value == shaSuccess && g5f_calls == (__CPROVER_old(context->Computed) ? 0u : 1u) && context->Computed != 0)) \
__CPROVER_ensures((__CPROVER_old(context->Corrupted) == 0 && g5f_calls == 1) ==> (g5f_pad == 0x80 && g5f_ctx_o == __CPROVER_POINTER_OBJECT(context))) \
/* ... and the digest is H0 || H1 || ... (the leftmost HS bytes), each 64-bit word big-endian */ \
__CPROVER_ensures(__CPROVER_old(context->Corrupted) == 0 ==> VC_BE64(Message_Digest, gk % (HS / 8)) == context->Intermediate_Hash[gk % (HS / 8)]) \
;
#endif
VC_RESULT5(SHA512Result, SHA512Context, 64)
VC_RESULT5(SHA384Result, SHA384Context, 48)

/* FinalBits.  Domain: the message stays inside the length range of the standard (fewer than 2^64 resp. 2^128 bits after the n bits are added) */
#ifdef VC_FIN5_NULLCASE
/* no context: shaNull unless there are no bits to add (then success: nothing to do), nothing written */
#define VC_FINALBITS(f, T, OK, max, view_len_ok) \
int f(T *context, const uint8_t message_bits, unsigned int length) \
__CPROVER_requires(context == NULL && g5f_calls == 0) \
VC_ASSIGNS(g5f_calls, g5f_pad, g5f_ctx_o, g5f_len_hi, g5f_len_lo) \
__CPROVER_ensures(__CPROVER_return_value == (length == 0 ? shaSuccess : shaNull) && g5f_calls == 0) \
;
#else
#define VC_FB_OLDLEN_OK(c, max)  (!((c)->Length_High == (max) && (c)->Length_Low > (max) - 8))
#define VC_FINALBITS(f, T, OK, max, view_len_ok) \
int f(T *context, const uint8_t message_bits, unsigned int length) \
__CPROVER_requires(__CPROVER_is_fresh(context, sizeof(T)) && OK(context) && g5f_calls == 0 && VC_FB_OLDLEN_OK(context, max)) \
__CPROVER_assigns(length != 0 && (context->Computed != 0 || length >= 8): context->Corrupted) \
__CPROVER_assigns(length != 0 && length < 8 && context->Computed == 0 && context->Corrupted == 0: __CPROVER_object_whole(context)) \
VC_ASSIGNS(g5f_calls, g5f_pad, g5f_ctx_o, g5f_len_hi, g5f_len_lo) \
/* no bits: success, nothing happens (frame: the context is untouched) */ \
__CPROVER_ensures(length == 0 ==> (__CPROVER_return_value == shaSuccess && g5f_calls == 0)) \
/* already finalised, or not a bit count below 8: state error, recorded in the context, no finalisation */ \
__CPROVER_ensures((length != 0 && (__CPROVER_old(context->Computed) != 0 || length >= 8)) ==> \
	(__CPROVER_return_value == shaStateError && context->Corrupted == shaStateError && g5f_calls == 0)) \
/* a corrupted context: its code, no finalisation */ \
__CPROVER_ensures((length != 0 && length < 8 && __CPROVER_old(context->Computed) == 0 && __CPROVER_old(context->Corrupted) != 0) ==> \
	(__CPROVER_return_value == __CPROVER_old(context->Corrupted) && g5f_calls == 0)) \
/* otherwise: finalised exactly once, on this context, with the last bits followed by the '1' bit, after the length has grown by n */ \
__CPROVER_ensures((length != 0 && length < 8 && __CPROVER_old(context->Computed) == 0 && __CPROVER_old(context->Corrupted) == 0) ==> \
	(__CPROVER_return_value == shaSuccess && g5f_calls == 1 && g5f_ctx_o == __CPROVER_POINTER_OBJECT(context) && context->Computed == 1 && \
	 g5f_pad == VC_FINAL_BYTE(message_bits, length) && (view_len_ok))) \
;
#endif
#define VC_U128(hi, lo)  ((((unsigned __int128)(hi)) << 64) | (lo))
VC_FINALBITS(SHA512FinalBits, SHA512Context, VC_SHA5_OK, 0xFFFFFFFFFFFFFFFFull,
	VC_U128(g5f_len_hi, g5f_len_lo) == VC_LEN128_OLD(context) + length)
VC_FINALBITS(SHA256FinalBits, SHA256Context, VC_SHA_OK, 0xFFFFFFFFu,
	g5f_len_hi <= 0xFFFFFFFFu && g5f_len_lo <= 0xFFFFFFFFu && ((g5f_len_hi << 32) | g5f_len_lo) == VC_LEN64_OLD(context) + length)
#endif
#include "vc_spec_pop.h"
