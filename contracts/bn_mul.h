/* Multiplication of the integer layer with the DIGIT PRODUCT ABSTRACT (property C01, multiplication rows and the schoolbook
   product).  No installed back end decides even 8x8-bit digit products (DESIGN 2 P7, P21), so in these units RLC_MUL_DIG is
   mapped to a pair of uninterpreted functions (mulhi, mullo) and the specification is phrased over the SAME terms:
   VC_PROD(x, y) = mulhi(x,y) * B + mullo(x,y).  What is proved: the carry propagation, accumulation, column placement,
   lengths, signs, normalisation and frames of the real code - i.e. result = sum_k PROD(a_k, d) * B^k (row) resp.
   sum_{i,j} PROD(b_j, a_i) * B^(i+j) (schoolbook) - for every interpretation of the digit product that satisfies the one
   range fact the code relies on: PROD(x,y) <= (B-1)^2, i.e. mulhi <= B-2 and mulhi == B-2 implies mullo <= 1 (stated as an
   assumption inside the abstracted macro).  ASSUMED (listed in the evidence): RLC_MUL_DIG is the exact double-digit product. */
#pragma once
#include "bn_low.h"
dig_t __CPROVER_uninterpreted_mulhi(dig_t a, dig_t b);
dig_t __CPROVER_uninterpreted_mullo(dig_t a, dig_t b);
#undef RLC_MUL_DIG
#define VC_DMAX ((dig_t)(((vc_dbl)1 << RLC_DIG) - 1))
#define RLC_MUL_DIG(H, L, A, B)  H = __CPROVER_uninterpreted_mulhi(A, B); L = __CPROVER_uninterpreted_mullo(A, B); \
	__CPROVER_assume((H) <= (dig_t)(VC_DMAX - 1) && ((H) < (dig_t)(VC_DMAX - 1) || (L) <= 1));   /* PROD <= (B-1)^2 */
#define VC_PROD(x, y) ((((vc_wide)__CPROVER_uninterpreted_mulhi(x, y)) << RLC_DIG) | (vc_wide)__CPROVER_uninterpreted_mullo(x, y))

#ifdef VC_FIXED_DIGBUF
#define VC_MDIGS(p, n) __CPROVER_is_fresh(p, RLC_BN_SIZE * sizeof(dig_t))
#else
#define VC_MDIGS(p, n) __CPROVER_is_fresh(p, (n) * sizeof(dig_t))
#endif

#include "vc_spec_push.h"
dig_t bn_mul1_low(dig_t *c, const dig_t *a, dig_t digit, size_t size)
__CPROVER_requires(size <= RLC_BN_SIZE)
__CPROVER_requires(VC_MDIGS(a, size))
__CPROVER_requires(VC_LSHAPE == VC_L_NONE ? VC_MDIGS(c, size) : VC_LSHAPE == VC_L_CA ? VC_PTR_SAME(c, a) : (VC_PTR_SAME(c, a) || VC_MDIGS(c, size)))
VC_ASSIGNS(__CPROVER_object_upto(c, size * sizeof(dig_t)))
__CPROVER_ensures(vc_val(c, size) + VC_CARRY(__CPROVER_return_value, size) == VC_ROW_OLD(a, size, digit))
;
dig_t bn_mula_low(dig_t *c, const dig_t *a, dig_t digit, size_t size)
__CPROVER_requires(size <= RLC_BN_SIZE)
__CPROVER_requires(VC_MDIGS(a, size) && VC_MDIGS(c, size))
VC_ASSIGNS(__CPROVER_object_upto(c, size * sizeof(dig_t)))
__CPROVER_ensures(vc_val(c, size) + VC_CARRY(__CPROVER_return_value, size) == VC_VAL_OLD(c, size) + VC_ROW(a, size, digit))
;
#ifndef VC_COMBA_MAX
#define VC_COMBA_MAX RLC_BN_SIZE
#endif
/* Comba (product scanning): c[0 .. 2n) resp. c[0 .. sa+sb) = sum_{j,k} PROD(a_j, b_k) B^(j+k) */
void bn_muln_low(dig_t *c, const dig_t *a, const dig_t *b, size_t size)
__CPROVER_requires(size >= 1 && size <= VC_COMBA_MAX / 2)
__CPROVER_requires(VC_MDIGS(a, size) && (VC_LSHAPE == VC_L_AB ? VC_PTR_SAME(b, a) : VC_LSHAPE == VC_L_NONE ? VC_MDIGS(b, size) : (VC_PTR_SAME(b, a) || VC_MDIGS(b, size))))
__CPROVER_requires(VC_MDIGS(c, 2 * size))
VC_ASSIGNS(__CPROVER_object_upto(c, 2 * size * sizeof(dig_t)))
__CPROVER_ensures(vc_val(c, 2 * size) == VC_PRODSUM2(a, size, b, size))
;
void bn_muld_low(dig_t *c, const dig_t *a, size_t sa, const dig_t *b, size_t sb, uint_t l, uint_t h)
__CPROVER_requires(sb >= 1 && sa > sb && sa <= VC_COMBA_MAX && sb <= VC_COMBA_MAX && sa + sb <= VC_COMBA_MAX && l == 0 && h == sa + sb)
__CPROVER_requires(VC_MDIGS(a, sa) && VC_MDIGS(b, sb) && VC_MDIGS(c, sa + sb))
VC_ASSIGNS(__CPROVER_object_upto(c, (sa + sb) * sizeof(dig_t)))
__CPROVER_ensures(vc_val(c, sa + sb) == VC_PRODSUM2(a, sa, b, sb))
;
#include "vc_spec_pop.h"
#include "bn_api.h"
#include "vc_spec_push.h"
#ifndef VC_SHAPE_bn_mul_dig
#define VC_SHAPE_bn_mul_dig VC_S2_GEN
#endif
/* c = a * b for a single digit b: |c| = sum_k PROD(a_k, b) B^k, sign of a (zero is non-negative) */
void bn_mul_dig(bn_t c, const bn_t a, dig_t b)
__CPROVER_requires(VC_BN_FRESH(a))
__CPROVER_requires(VC_REQ2_C(VC_SHAPE_bn_mul_dig, c, a))
__CPROVER_requires(VC_BN_NF(a) && VC_BN_OUT(c))
__CPROVER_requires(a->used + 1 <= RLC_BN_SIZE || g_may_throw)
VC_ASSIGNS(__CPROVER_object_whole(c), g_ctx.code, g_ctx.last, g_ctx.caught, g_ctx.error, g_ctx.number, g_thrown)
__CPROVER_ensures(g_ctx.code == __CPROVER_old(g_ctx.code) && g_ctx.last == __CPROVER_old(g_ctx.last))
__CPROVER_ensures(VC_BN_NF(c) && vc_mag(c) == VC_MAGROW_OLD(a, b) && (c->sign == __CPROVER_old(a->sign) || vc_mag(c) == 0))
;
#ifndef VC_SHAPE_bn_mul_basic
#define VC_SHAPE_bn_mul_basic VC_S3_GEN
#endif
/* schoolbook product: |c| = sum_{i,j} PROD(b_j, a_i) B^(i+j), sign = sign(a) xor sign(b) (zero is non-negative) */
void bn_mul_basic(bn_t c, const bn_t a, const bn_t b)
__CPROVER_requires(VC_BN_FRESH(a))
__CPROVER_requires(VC_REQ3_B(VC_SHAPE_bn_mul_basic, a, b))
__CPROVER_requires(VC_REQ3_C(VC_SHAPE_bn_mul_basic, c, a, b))
__CPROVER_requires(VC_BN_NF(a) && VC_BN_NF(b) && VC_BN_OUT(c))
__CPROVER_requires(a->used + b->used <= RLC_BN_SIZE || g_may_throw)
VC_ASSIGNS(__CPROVER_object_whole(c), g_ctx.code, g_ctx.last, g_ctx.caught, g_ctx.error, g_ctx.number, g_thrown)
__CPROVER_ensures(g_ctx.code == __CPROVER_old(g_ctx.code) && g_ctx.last == __CPROVER_old(g_ctx.last))
__CPROVER_ensures(VC_BN_NF(c) && vc_mag(c) == VC_PRODSUM_OLD(a, b) && (c->sign == (__CPROVER_old(a->sign) ^ __CPROVER_old(b->sign)) || vc_mag(c) == 0))
;
#ifndef VC_SHAPE_bn_mul_comba
#define VC_SHAPE_bn_mul_comba VC_S3_GEN
#endif
/* Comba product: the longer operand supplies the first argument of the digit product */
void bn_mul_comba(bn_t c, const bn_t a, const bn_t b)
__CPROVER_requires(VC_BN_FRESH(a))
__CPROVER_requires(VC_REQ3_B(VC_SHAPE_bn_mul_comba, a, b))
__CPROVER_requires(VC_REQ3_C(VC_SHAPE_bn_mul_comba, c, a, b))
__CPROVER_requires(VC_BN_NF(a) && VC_BN_NF(b) && VC_BN_OUT(c))
__CPROVER_requires(a->used + b->used <= VC_COMBA_MAX)      /* bounded: the product-scanning kernels are discharged up to this total length only */
VC_ASSIGNS(__CPROVER_object_whole(c), g_ctx.code, g_ctx.last, g_ctx.caught, g_ctx.error, g_ctx.number, g_thrown)
__CPROVER_ensures(g_ctx.code == __CPROVER_old(g_ctx.code) && g_ctx.last == __CPROVER_old(g_ctx.last))
__CPROVER_ensures(VC_BN_NF(c) && (c->sign == (__CPROVER_old(a->sign) ^ __CPROVER_old(b->sign)) || vc_mag(c) == 0))
__CPROVER_ensures(vc_mag(c) == (__CPROVER_old(a->used) >= __CPROVER_old(b->used) ? VC_PRODSUM_OLD(b, a) : VC_PRODSUM_OLD(a, b)))
;
#include "vc_spec_pop.h"
