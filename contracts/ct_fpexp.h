/* Montgomery-ladder field exponentiation fp_exp_monty (property C20): the sequence of field-level operations (masked swaps,
   multiplications, squarings) depends only on the public bit length of the exponent.  Same scheme as ct_mxp.h: callees abstract, each
   appends one event; the monitor compares event k with FX_EXPECT(k), an expression over k and the public g_xbits.  Pre: b > 0 (the
   early exit for b == 0 and the final inversion for negative exponents are outside "fixed bit length": both are decided by zero-ness
   and sign, and are stated as preconditions).  The bits of the exponent (abstract bn_get_bit) are unconstrained. */
#pragma once
#include "vc_prelude.h"
#ifndef VC_MAXBITS
#define VC_MAXBITS 4096
#endif
extern size_t g_xn; extern int g_xbad; extern size_t g_xbits;
#define FX_SWAP 1
#define FX_MUL 2
#define FX_SQR 3
/* ( swap mul sqr swap )^bits */
#define FX_EXPECT(k) ((k) < 4 * g_xbits ? (((k) % 4) == 0 || ((k) % 4) == 3 ? FX_SWAP : ((k) % 4) == 1 ? FX_MUL : FX_SQR) : 0)
#define FX_LOGGED(ev) (g_xn == __CPROVER_old(g_xn) + 1 && g_xbad == (__CPROVER_old(g_xbad) | (FX_EXPECT(__CPROVER_old(g_xn)) != (ev))))
#define VC_FPOBJ(c) __CPROVER_object_upto(c, RLC_FP_DIGS * sizeof(dig_t))
#include "vc_spec_push.h"
void dv_swap_sec_fx(dig_t *c, dig_t *a, size_t digits, dig_t bit)
__CPROVER_requires(digits == RLC_FP_DIGS && bit <= 1)
VC_ASSIGNS(VC_FPOBJ(c), VC_FPOBJ(a), g_xn, g_xbad) __CPROVER_ensures(FX_LOGGED(FX_SWAP));
void fp_mul_integ_fx(fp_t c, const fp_t a, const fp_t b) VC_ASSIGNS(VC_FPOBJ(c), g_xn, g_xbad) __CPROVER_ensures(FX_LOGGED(FX_MUL));
void fp_sqr_integ_fx(fp_t c, const fp_t a) VC_ASSIGNS(VC_FPOBJ(c), g_xn, g_xbad) __CPROVER_ensures(FX_LOGGED(FX_SQR));
int bn_get_bit_fx(const bn_t a, uint_t bit) VC_ASSIGNS_NONE __CPROVER_ensures(__CPROVER_return_value == 0 || __CPROVER_return_value == 1);
int bn_is_zero_fx(const bn_t a) VC_ASSIGNS_NONE __CPROVER_ensures(__CPROVER_return_value == 0);                     /* pre: b != 0 */
int bn_sign_fx(const bn_t a) VC_ASSIGNS_NONE __CPROVER_ensures(__CPROVER_return_value == RLC_POS);                   /* pre: b > 0 */
size_t bn_bits_fx(const bn_t a) VC_ASSIGNS_NONE __CPROVER_ensures(__CPROVER_return_value == g_xbits);
void fp_set_dig_fx(fp_t c, dig_t a) VC_ASSIGNS(VC_FPOBJ(c));
void fp_copy_fx(fp_t c, const fp_t a) VC_ASSIGNS(VC_FPOBJ(c));
void fp_inv_fx(fp_t c, const fp_t a) VC_ASSIGNS(VC_FPOBJ(c));

void fp_exp_monty(fp_t c, const fp_t a, const bn_t b)
__CPROVER_requires(__CPROVER_is_fresh(c, RLC_FP_DIGS * sizeof(dig_t)) && __CPROVER_is_fresh(a, RLC_FP_DIGS * sizeof(dig_t)) && __CPROVER_is_fresh(b, sizeof(bn_st)))
__CPROVER_requires(g_xbits >= 1 && g_xbits <= VC_MAXBITS && g_xn == 0 && g_xbad == 0)
VC_ASSIGNS(VC_FPOBJ(c), g_xn, g_xbad, g_ctx.code, g_ctx.last, g_ctx.caught, g_ctx.error, g_ctx.number, g_thrown)
__CPROVER_ensures(g_xbad == 0 && g_xn == 4 * g_xbits)
__CPROVER_ensures(g_ctx.last == __CPROVER_old(g_ctx.last))
;
#include "vc_spec_pop.h"
#define VC_LOOP_fp_exp_monty_0 \
	__CPROVER_assigns(i, __CPROVER_object_whole(t), g_xn, g_xbad) \
	__CPROVER_loop_invariant(i >= -1 && (size_t)((long)i + 1) <= g_xbits && g_xbad == 0 && g_xn == 4 * (g_xbits - 1 - (size_t)i)) \
	__CPROVER_decreases((long)i + 1)
