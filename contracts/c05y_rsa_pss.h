/* RSASSA-PSS encoding check of relic_cp_rsa.c: pad_pkcs2(m, &p_len, modBits, k_len, RSA_VER / RSA_VER_HASH)  (property C05: "verification accepts only
   well-formed inputs ... RSA verdicts agree with an independent implementation of the standard on arbitrary inputs").
       result == RLC_OK  <==>  EM = I2OSP(m, k_len) is consistent in the sense of RFC 8017 9.1.2 steps 4-10 with sLen = 0 (RELIC signs without salt):
         EM = maskedDB | H | BC,  the leftmost 8 emLen - emBits bits of maskedDB are zero (emBits = modBits - 1),
         DB = maskedDB xor MGF1(H, emLen - hLen - 1) with those bits cleared  ==  00 .. 00 | 01
   in BOTH directions, c05y_pss() below being an independent transcription of the RFC over the bytes of m at entry; on RLC_OK additionally
   *p_len == k_len - hLen and m is left equal to H (what cp_rsa_ver compares).  MGF1 itself is ABSTRACT: md_mgf delivers a ghost byte string g_mask[] and
   records its seed, which the contract demands to be H.
   The parser works on the DIGITS of m (m->dp[i] ^= t->dp[i]); the integer callees it uses are therefore digit-level MODEL bodies (stubs/c05y_rsa_pss_state.h:
   bn_mod_2b, bn_rsh by whole bytes, bn_write_bin, bn_read_bin: corollaries of their value contracts, ASSUMED here; digits at and above `used` are left
   ARBITRARY by every model, as the real functions promise nothing about them); bn_get_bit, bn_set_bit, bn_is_zero, bn_trim, bn_new/bn_free are the REAL code.
   BOUNDED: 34 <= k_len <= C05Y_KMAX bytes, m < 256^k_len (cp_rsa_ver guarantees m < n).
   NOT re-examined here (recorded findings): modBits = 8j + 1 (emLen = k_len - 1) is excluded by the precondition; C05Y_TOPFROM_MODBITS selects the reading
   "top-bit test from bit modBits" instead of the standard's emBits. */
#pragma once
#include "vc_prelude.h"
#ifndef C05Y_KD
#define C05Y_KD 6                      /* digits of m modelled */
#endif
#define C05Y_KB (8 * C05Y_KD)
#ifndef C05Y_KMAX
#define C05Y_KMAX 48
#endif
#ifndef C05Y_OP
#define C05Y_OP 4                      /* RSA_VER; 8 = RSA_VER_HASH */
#endif
extern const void *__CPROVER_alloca_object;
extern dig_t g_m0[C05Y_KD];            /* digits of m at entry, zero-extended */
extern uint8_t g_mask[C05Y_KB];        /* output of the abstract MGF1, big-endian as written into the buffer */
extern uint8_t g_seed[RLC_MD_LEN];     /* seed the MGF was called with */
extern int g_mgf_calls; extern size_t g_mgf_len, g_mgf_inlen;

#include "vc_spec_push.h"
#define C05Y_B(j) ((uint8_t)(g_m0[(j) / 8] >> (8 * ((j) % 8))))       /* byte j of m at entry, little-endian: EM[k - 1 - j] */
#define C05Y_DIG(a, i) ((i) < (a)->used ? (a)->dp[i] : (dig_t)0)
static inline int c05y_below(size_t k) {                               /* m < 256^k */
	int z = 1;
	for (size_t j = 0; j < C05Y_KB; j++) { if (j >= k && C05Y_B(j) != 0) z = 0; }
	return z;
}
static inline int c05y_pss(size_t k, size_t modbits) {
#ifdef C05Y_TOPFROM_MODBITS
	size_t top = modbits;
#else
	size_t top = modbits - 1;                                          /* emBits */
#endif
	size_t keep = top - 8 * (k - 1);                                   /* bits of the leftmost octet that may be set: 1..8 */
	uint8_t topmask = (uint8_t)((1u << keep) - 1);
	int ok = 1;
	if (C05Y_B(0) != 0xBC) ok = 0;                                     /* step 4: trailer */
	if ((C05Y_B(k - 1) & (uint8_t)~topmask) != 0) ok = 0;              /* step 6: leftmost bits of maskedDB */
	for (size_t j = 0; j + 34 <= C05Y_KB; j++) {                       /* DB byte j (little-endian), j = 0 .. k - 34 */
		if (j + 34 <= k) {
			uint8_t db = C05Y_B(33 + j) ^ g_mask[k - 34 - j];          /* step 8 */
			if (j + 34 == k) db &= topmask;                            /* step 9 */
			if (db != (j == 0 ? 0x01 : 0x00)) ok = 0;                  /* step 10, sLen = 0: DB = PS | 01 */
		}
	}
	return ok;
}
static inline int c05y_seed_is_h(void) {                               /* step 7: the MGF seed is H = EM[k - 33 .. k - 2] */
	int ok = 1;
	for (size_t i = 0; i < RLC_MD_LEN; i++) { if (g_seed[i] != C05Y_B(32 - i)) ok = 0; }
	return ok;
}
#define C05Y_HDIG(i) ((g_m0[i] >> 8) | (g_m0[(i) + 1] << 56))          /* digit i of H = (m >> 8) mod 2^256 */

static int pad_pkcs2(bn_t m, size_t *p_len, size_t m_len, size_t k_len, int operation)
__CPROVER_requires(__CPROVER_is_fresh(m, sizeof(bn_st)) && m->alloc == RLC_BN_SIZE && m->used >= 1 && m->used <= C05Y_KD && m->sign == RLC_POS && __CPROVER_is_fresh(p_len, sizeof(size_t)))
__CPROVER_requires(operation == C05Y_OP && k_len >= 34 && k_len <= C05Y_KMAX && m_len >= 8 * (k_len - 1) + 2 && m_len <= 8 * k_len)
__CPROVER_requires(g_m0[0] == C05Y_DIG(m, 0) && g_m0[1] == C05Y_DIG(m, 1) && g_m0[2] == C05Y_DIG(m, 2) && g_m0[3] == C05Y_DIG(m, 3) && g_m0[4] == C05Y_DIG(m, 4)
#if C05Y_KD >= 6
	&& g_m0[5] == C05Y_DIG(m, 5)
#endif
)
__CPROVER_requires(c05y_below(k_len) && g_mgf_calls == 0)
VC_ASSIGNS(m->used, m->sign, __CPROVER_object_upto(m->dp, sizeof(m->dp)), *p_len, g_mgf_calls, g_mgf_len, g_mgf_inlen, __CPROVER_object_whole(g_seed), __CPROVER_alloca_object,
	g_ctx.code, g_ctx.last, g_ctx.caught, g_ctx.error, g_ctx.number, g_thrown)
__CPROVER_ensures(__CPROVER_return_value == RLC_OK || __CPROVER_return_value == RLC_ERR)
/* accept ==> consistent encoding (soundness) */
__CPROVER_ensures(__CPROVER_return_value == RLC_OK ==> c05y_pss(k_len, m_len))
/* consistent encoding ==> accept */
__CPROVER_ensures(c05y_pss(k_len, m_len) ==> __CPROVER_return_value == RLC_OK)
/* the mask was derived from H, once, in the standard's length */
__CPROVER_ensures(__CPROVER_return_value == RLC_OK ==> (g_mgf_calls == 1 && g_mgf_len == k_len - RLC_MD_LEN - 1 && g_mgf_inlen == RLC_MD_LEN && c05y_seed_is_h()))
/* what the caller relies on: m is H, *p_len as documented */
__CPROVER_ensures(__CPROVER_return_value == RLC_OK ==> (*p_len == k_len - RLC_MD_LEN && m->used <= 4 && C05Y_DIG(m, 0) == C05Y_HDIG(0) && C05Y_DIG(m, 1) == C05Y_HDIG(1) && \
	C05Y_DIG(m, 2) == C05Y_HDIG(2) && C05Y_DIG(m, 3) == C05Y_HDIG(3)))
__CPROVER_ensures(g_ctx.last == __CPROVER_old(g_ctx.last))
;
#include "vc_spec_pop.h"
