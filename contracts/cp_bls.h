/* BLS verification (property C05, guard half): accept implies the pairing product was tested to be the identity of GT AND the
   public key was tested to be a valid G2 element (on the twist, in the order-r subgroup, not the identity); the pairing
   product was evaluated exactly once, over two pairs.  Every callee abstract (frame + verdict). */
#pragma once
#include "vc_prelude.h"
extern const void *g_blsq;
extern int g_unity, g_valid_q, g_pair_calls, g_pair_m, g_map_calls;
#define VC_UNASKED (-9)
#include "vc_spec_push.h"
void ep_map_sswum_g(ep_t p, const uint8_t *msg, size_t len)
__CPROVER_requires(__CPROVER_is_fresh(msg, len))
VC_ASSIGNS(__CPROVER_object_upto(p, sizeof(ep_st)), g_map_calls) __CPROVER_ensures(g_map_calls == __CPROVER_old(g_map_calls) + 1);
void ep_copy_g(ep_t r, const ep_t p) VC_ASSIGNS(__CPROVER_object_upto(r, sizeof(ep_st)));
void ep2_copy_g(ep2_t r, const ep2_t p) VC_ASSIGNS(__CPROVER_object_upto(r, sizeof(ep2_st)));
void ep2_curve_get_gen_g(ep2_t g) VC_ASSIGNS(__CPROVER_object_upto(g, sizeof(ep2_st)));
void ep2_neg_g(ep2_t r, const ep2_t p) VC_ASSIGNS(__CPROVER_object_upto(r, sizeof(ep2_st)));
void pp_map_sim_oatep_k12_g(fp12_t r, const ep_t *p, const ep2_t *q, int m)
VC_ASSIGNS(__CPROVER_object_upto(r, sizeof(fp12_t)), g_pair_calls, g_pair_m)
__CPROVER_ensures(g_pair_calls == __CPROVER_old(g_pair_calls) + 1 && g_pair_m == m);
int fp12_cmp_dig_g(const fp12_t a, dig_t b)
VC_ASSIGNS(g_unity)
__CPROVER_ensures((__CPROVER_return_value == RLC_EQ || __CPROVER_return_value == RLC_NE) && g_unity == (b == 1 ? __CPROVER_return_value : VC_UNASKED));
int g2_is_valid_g(const g2_t a)
VC_ASSIGNS(g_valid_q)
__CPROVER_ensures((__CPROVER_return_value == 0 || __CPROVER_return_value == 1) && g_valid_q == ((const void *)a == g_blsq ? __CPROVER_return_value : __CPROVER_old(g_valid_q)));

/* callees the shipped code does not use; abstract (arbitrary verdict, nothing recorded) so that a version that substitutes a
   weaker test for g2_is_valid fails the postcondition below rather than the "undefined function" assertion */
int ep2_on_curve_g(const ep2_t p) VC_ASSIGNS_NONE __CPROVER_ensures(__CPROVER_return_value == 0 || __CPROVER_return_value == 1);
int ep2_is_infty_g(const ep2_t p) VC_ASSIGNS_NONE __CPROVER_ensures(__CPROVER_return_value == 0 || __CPROVER_return_value == 1);
int ep_on_curve_g(const ep_t p) VC_ASSIGNS_NONE __CPROVER_ensures(__CPROVER_return_value == 0 || __CPROVER_return_value == 1);
int ep_is_infty_g(const ep_t p) VC_ASSIGNS_NONE __CPROVER_ensures(__CPROVER_return_value == 0 || __CPROVER_return_value == 1);

int cp_bls_ver(const g1_t s, const uint8_t *msg, size_t len, const g2_t q)
__CPROVER_requires(__CPROVER_is_fresh(s, sizeof(ep_st)) && __CPROVER_is_fresh(q, sizeof(ep2_st)) && len <= 128 && __CPROVER_is_fresh(msg, len))
__CPROVER_requires(g_blsq == q && g_unity == VC_UNASKED && g_valid_q == VC_UNASKED && g_pair_calls == 0 && g_map_calls == 0)
VC_ASSIGNS(g_unity, g_valid_q, g_pair_calls, g_pair_m, g_map_calls, g_ctx.code, g_ctx.last, g_ctx.caught, g_ctx.error, g_ctx.number, g_thrown)
__CPROVER_ensures(__CPROVER_return_value == 0 || __CPROVER_return_value == 1)
__CPROVER_ensures(__CPROVER_return_value == 1 ==> (g_unity == RLC_EQ && g_valid_q == 1 && g_pair_calls == 1 && g_pair_m == 2 && g_map_calls == 1))
__CPROVER_ensures(g_ctx.last == __CPROVER_old(g_ctx.last))
;
#include "vc_spec_pop.h"
