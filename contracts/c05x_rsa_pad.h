/* RSA signature padding parsers of relic_cp_rsa.c in their verification operations (property C05: "verification accepts only
   well-formed inputs ... RSA verdicts agree with an independent implementation of the standard on arbitrary inputs").

   pad_pkcs1(m, &p_len, -, k_len, RSA_VER / RSA_VER_HASH), pad_basic(..., RSA_VER / RSA_VER_HASH):
       result == RLC_OK   <==>   the k_len-byte encoded message EM = I2OSP(m, k_len) IS the encoding of the standard
   (RFC 8017 9.2 EMSA-PKCS1-v1_5:  EM = 00 | 01 | PS | 00 | T,  PS = FF..FF of length k_len - |T| - 3 >= 8,
    T = DigestInfo prefix of SHA-256 (19 bytes) | 32 digest bytes; RSA_VER_HASH is RELIC's variant without the DigestInfo prefix),
   stated as ONE comparison of every byte of m against the expected encoding (c05x_emsa, an independent transcription), in BOTH
   directions; on RLC_OK additionally: m was reduced to its low 32 bytes (the digest) exactly once and *p_len == k_len - 32.

   The parsers observe m only through bn_rsh / bn_mod_2b / bn_is_zero and the low byte of t->dp[0].  These callees are
   replaced by BYTE-LEVEL MODEL contracts over a ghost byte string g_em[] (the little-endian bytes of |m|):
       bn_rsh(t, x, 8j)      t denotes the bytes of x from j upwards; its lowest byte is delivered in t->dp[0]
       bn_mod_2b(t, t, 8j)   t keeps its lowest j bytes;  bn_mod_2b(m, m, 8j) is recorded (truncation of m)
       bn_is_zero(t)         1 iff every byte t denotes is 0
   (stub bodies, stubs/c05x_rsa_pad_state.h).  They are the byte-granular corollaries of the value contracts  bn_rsh: c = floor(a / 2^bits),  bn_mod_2b: c = a mod 2^b,
   bn_is_zero: a == 0  that are proved against the real code in the C01/C09 units (contracts/bn_api.h, 8-bit digits); here they
   are ASSUMED at the shipped width, for |m| < 256^C05X_KB.  The parser itself is the real code, all loops unwound
   (k_len <= C05X_KMAX: bounded route). */
#pragma once
#include "vc_prelude.h"

#ifdef C05X_RSAPD
#undef CP_RSAPD
#define CP_RSAPD C05X_RSAPD
#endif

#ifndef C05X_KB
#define C05X_KB   80          /* bytes of m modelled: |m| < 256^80 */
#endif
#ifndef C05X_KMAX
#define C05X_KMAX 72          /* k_len <= 72: PS of up to 18 (with DigestInfo) resp. 37 (without) bytes */
#endif
#ifndef C05X_MINPS
#define C05X_MINPS 8          /* RFC 8017 9.2 step 3/4: PS has at least 8 octets (emLen >= tLen + 11) */
#endif
#define C05X_RSA_VER       4
#define C05X_RSA_VER_HASH  8
#ifndef C05X_OP
#define C05X_OP C05X_RSA_VER
#endif

extern const void *g_pm_m, *g_pm_t;      /* identity of the encoded message m / of the scratch integer that denotes a window of m */
extern uint8_t g_em[C05X_KB];            /* little-endian bytes of |m| at entry */
extern size_t g_t_lo, g_t_hi;            /* the scratch integer denotes bytes [g_t_lo, g_t_hi) of m (0 if empty) */
extern int g_m_trunc_calls;              /* bn_mod_2b(m, m, .) calls */
extern size_t g_m_trunc_bytes;

#define VC_BNP(p)    __CPROVER_is_fresh(p, sizeof(bn_st))
#define VC_BN_ANY(a) ((a)->alloc == RLC_BN_SIZE && (a)->used >= 1 && (a)->used <= RLC_BN_SIZE)
#define C05X_MIN(a, b) ((a) < (b) ? (a) : (b))

#include "vc_spec_push.h"
/* DigestInfo prefix for SHA-256, RFC 8017 section 9.2 note 1 (transcribed from the RFC, not from the library) */
static const uint8_t c05x_di_sha256[19] = { 0x30, 0x31, 0x30, 0x0d, 0x06, 0x09, 0x60, 0x86, 0x48, 0x01, 0x65, 0x03, 0x04, 0x02, 0x01, 0x05, 0x00, 0x04, 0x20 };

/* EM (k bytes, big-endian: EM[i] = g_em[k - 1 - i]) is  00 | 01 | FF^(k - tl - 3) | 00 | T  with |T| = tl, at least C05X_MINPS
   padding bytes, and m has no byte beyond EM.  with_id: T = DigestInfo | H, else T = H (|H| = 32, not constrained). */
static inline int c05x_emsa(size_t k, int with_id) {
	size_t tl = with_id ? (size_t)(19 + RLC_MD_LEN) : (size_t)RLC_MD_LEN;
	int ok = 1;
	if (k < tl + 3 + C05X_MINPS || k > C05X_KB) {
		return 0;
	}
	for (size_t j = 0; j < C05X_KB; j++) {
		uint8_t b = g_em[j];
		if (j >= k - 1) {
			if (b != 0x00) ok = 0;                                       /* leading 00 (and nothing beyond the k bytes) */
		} else if (j == k - 2) {
			if (b != 0x01) ok = 0;                                       /* block type 01 */
		} else if (j > tl) {
			if (b != 0xFF) ok = 0;                                       /* PS */
		} else if (j == tl) {
			if (b != 0x00) ok = 0;                                       /* separator */
		} else if (with_id && j >= RLC_MD_LEN) {
			if (b != c05x_di_sha256[18 - (j - RLC_MD_LEN)]) ok = 0;      /* DigestInfo prefix, every byte */
		}
	}
	return ok;
}
/* basic padding (RELIC's own, no standard): EM = 00 | 00* | FF | D */
static inline int c05x_allzero(size_t lo, size_t hi) {
	int z = 1;
	for (size_t j = 0; j < C05X_KB; j++) {
		if (j >= lo && j < hi && g_em[j] != 0) z = 0;
	}
	return z;
}

/* ---- byte-level model of bn_rsh / bn_mod_2b / bn_is_zero: BODIES in stubs/c05x_rsa_pad_state.h ------------------------------
   (stub bodies rather than replaced contracts: 70 unwound iterations with one contract replacement each exhaust the verifier's
   object table and 12 GB; a stub costs nothing.  Their preconditions are assertions "model precondition: ...".) */
void bn_rsh(bn_t c, const bn_t a, uint_t bits);
void bn_mod_2b(bn_t c, const bn_t a, int b);
int bn_is_zero(const bn_t a);

/* ---- the parsers ------------------------------------------------------------------------------------------------------------ */
#define C05X_PAD_REQUIRES(m, p_len, k_len, operation, kmin) \
__CPROVER_requires(VC_BNP(m) && VC_BN_ANY(m) && __CPROVER_is_fresh(p_len, sizeof(size_t))) \
__CPROVER_requires(operation == C05X_OP && k_len >= (kmin) && k_len <= C05X_KMAX) \
__CPROVER_requires(g_pm_m == (const void *)m && g_pm_t == NULL && g_t_lo == 0 && g_t_hi == 0 && g_m_trunc_calls == 0 && g_m_trunc_bytes == 0) \
VC_ASSIGNS(m->used, m->sign, __CPROVER_object_upto(m->dp, sizeof(m->dp)), *p_len, g_pm_t, g_t_lo, g_t_hi, g_m_trunc_calls, g_m_trunc_bytes, \
	g_ctx.code, g_ctx.last, g_ctx.caught, g_ctx.error, g_ctx.number, g_thrown)

#if CP_RSAPD == PKCS1
static int pad_pkcs1(bn_t m, size_t *p_len, size_t m_len, size_t k_len, int operation)
C05X_PAD_REQUIRES(m, p_len, k_len, operation, 11)
__CPROVER_ensures(__CPROVER_return_value == RLC_OK || __CPROVER_return_value == RLC_ERR)
/* accept ==> standard encoding (soundness of the parser) */
__CPROVER_ensures(__CPROVER_return_value == RLC_OK ==> c05x_emsa(k_len, operation == C05X_RSA_VER))
/* standard encoding ==> accept (no valid encoding is turned down) */
__CPROVER_ensures(c05x_emsa(k_len, operation == C05X_RSA_VER) ==> __CPROVER_return_value == RLC_OK)
/* what the caller relies on: the digest is what is left of m, and the pad length */
__CPROVER_ensures(__CPROVER_return_value == RLC_OK ==> (g_m_trunc_calls == 1 && g_m_trunc_bytes == RLC_MD_LEN && *p_len == k_len - RLC_MD_LEN))
__CPROVER_ensures(g_ctx.last == __CPROVER_old(g_ctx.last))
;
#endif
#if CP_RSAPD == BASIC
/* RELIC's basic padding  EM = 00 | FF | D  (comment in the source); the verifier needs |D| = RLC_MD_LEN */
static int pad_basic(bn_t m, size_t *p_len, size_t m_len, size_t k_len, int op)
C05X_PAD_REQUIRES(m, p_len, k_len, op, 2)
__CPROVER_ensures(__CPROVER_return_value == RLC_OK || __CPROVER_return_value == RLC_ERR)
/* accept ==> 00 | FF | D as documented, nothing beyond k_len bytes */
__CPROVER_ensures(__CPROVER_return_value == RLC_OK ==> (c05x_allzero(k_len - 1, C05X_KB) && g_em[k_len - 2] == 0xFF))
/* what cp_rsa_ver relies on when it writes size - pad_len bytes into a digest-sized buffer */
__CPROVER_ensures(__CPROVER_return_value == RLC_OK ==> (g_m_trunc_calls == 1 && g_m_trunc_bytes == k_len - *p_len))
#ifndef C05X_NO_BASICLEN
__CPROVER_ensures(__CPROVER_return_value == RLC_OK ==> *p_len == k_len - RLC_MD_LEN)
#endif
__CPROVER_ensures(g_ctx.last == __CPROVER_old(g_ctx.last))
;
#endif
#include "vc_spec_pop.h"
