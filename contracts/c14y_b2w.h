/* The one-shot BLAKE2s entry points (property C14): blake2s() = init with the requested digest length, ONE update with the whole message, ONE
   final into the caller's buffer with the same length, on one state object, in that order, error when the arguments are not a valid request or
   when the finalisation fails; md_map_b2s160 / md_map_b2s256 = blake2s() with digest length 20 / 32, the caller's buffers, no key.
   blake2s_init / blake2s_init_key / blake2s_update / blake2s_final (unit blake2s) resp. blake2s (units md_map_b2s*) are replaced by ABSTRACT
   VIEWS that record their arguments (object identities as integers, DESIGN P34) and the call order, and return the verdicts of the proved
   contracts in c14y_b2s.h (init: -1 iff the length is outside 1..32; update: 0; final: -1 iff no room / already finalised). */
#pragma once
#include "vc_prelude.h"
#include "src/md/blake2.h"
typedef unsigned long long vc2_u64;
#define VC2_XID(p)  ((((vc2_u64)__CPROVER_POINTER_OBJECT(p)) << 40) + (vc2_u64)__CPROVER_POINTER_OFFSET(p))
struct vc2w_ghost { unsigned calls; int keyed; vc2_u64 S, in, out, key; size_t outlen, inlen, finlen, keylen; int initret, finret; };
extern struct vc2w_ghost g2w;
extern uint8_t g2w_dig[32];          /* the digest the abstract finalisation / abstract blake2s() returns */
#define VC2W_MAXIN 100000

#include "vc_spec_push.h"
#ifdef VC_B2S_WRAP
#define VC2W_INIT_POST \
	(g2w.calls == 1 && g2w.S == VC2_XID(S) && g2w.outlen == outlen && g2w.initret == __CPROVER_return_value && \
	 __CPROVER_return_value == ((outlen >= 1 && outlen <= 32) ? 0 : -1) && \
	 (__CPROVER_return_value == 0 ==> (S->outlen == outlen && S->f[0] == 0 && S->buflen == 0)))
int blake2s_init_v(blake2s_state *S, size_t outlen)
__CPROVER_requires(g2w.calls == 0 && __CPROVER_is_fresh(S, sizeof(blake2s_state)))
VC_ASSIGNS(__CPROVER_object_whole(S), __CPROVER_object_whole(&g2w))
__CPROVER_ensures(VC2W_INIT_POST && g2w.keyed == 0)
;
int blake2s_init_key_v(blake2s_state *S, size_t outlen, const void *key, size_t keylen)
__CPROVER_requires(g2w.calls == 0 && __CPROVER_is_fresh(S, sizeof(blake2s_state)) && keylen >= 1 && keylen <= 32 && __CPROVER_r_ok(key, keylen))
VC_ASSIGNS(__CPROVER_object_whole(S), __CPROVER_object_whole(&g2w))
__CPROVER_ensures(VC2W_INIT_POST && g2w.keyed == 1 && g2w.key == VC2_XID(key) && g2w.keylen == keylen)
;
int blake2s_update_v(blake2s_state *S, const void *in, size_t inlen)
__CPROVER_requires(g2w.calls == 1 && g2w.initret == 0 && __CPROVER_is_fresh(S, sizeof(blake2s_state)) && g2w.S == VC2_XID(S) && (inlen == 0 || __CPROVER_r_ok(in, inlen)))
VC_ASSIGNS(__CPROVER_object_whole(S), __CPROVER_object_whole(&g2w))
__CPROVER_ensures(g2w.calls == 2 && g2w.in == VC2_XID(in) && g2w.inlen == inlen && __CPROVER_return_value == 0)
__CPROVER_ensures(S->outlen == __CPROVER_old(S->outlen) && S->f[0] == __CPROVER_old(S->f[0]) && S->buflen <= 64)
__CPROVER_ensures(g2w.S == __CPROVER_old(g2w.S) && g2w.outlen == __CPROVER_old(g2w.outlen) && g2w.keyed == __CPROVER_old(g2w.keyed) && g2w.key == __CPROVER_old(g2w.key) && g2w.keylen == __CPROVER_old(g2w.keylen) && g2w.initret == 0)
;
int blake2s_final_v(blake2s_state *S, void *out, size_t outlen)
__CPROVER_requires(g2w.calls == 2 && __CPROVER_is_fresh(S, sizeof(blake2s_state)) && g2w.S == VC2_XID(S) && outlen <= 32 && __CPROVER_is_fresh(out, outlen))
VC_ASSIGNS(__CPROVER_object_whole(S), __CPROVER_object_upto((uint8_t *)out, outlen), __CPROVER_object_whole(&g2w))
__CPROVER_ensures(g2w.calls == 3 && g2w.out == VC2_XID(out) && g2w.finlen == outlen && g2w.finret == __CPROVER_return_value)
__CPROVER_ensures(__CPROVER_return_value == ((outlen < __CPROVER_old(S->outlen) || __CPROVER_old(S->f[0]) != 0) ? -1 : 0))
__CPROVER_ensures((__CPROVER_return_value == 0 && outlen >= 1 && outlen <= 32) ==> ((uint8_t *)out)[gk % (outlen ? outlen : 1)] == g2w_dig[gk % (outlen ? outlen : 1)])
__CPROVER_ensures(g2w.S == __CPROVER_old(g2w.S) && g2w.outlen == __CPROVER_old(g2w.outlen) && g2w.keyed == __CPROVER_old(g2w.keyed) && g2w.key == __CPROVER_old(g2w.key) && g2w.keylen == __CPROVER_old(g2w.keylen) && g2w.initret == 0 && g2w.in == __CPROVER_old(g2w.in) && g2w.inlen == __CPROVER_old(g2w.inlen))
;
#define VC2W_REJ ((in == NULL && inlen > 0) || out == NULL || (key == NULL && keylen > 0) || outlen == 0 || outlen > 32 || keylen > 32)
int blake2s(void *out, size_t outlen, const void *in, size_t inlen, const void *key, size_t keylen)
__CPROVER_requires(inlen <= VC2W_MAXIN && keylen <= 40 && g2w.calls == 0)
/* out: NULL or a buffer of EXACTLY min(outlen, 32) bytes; in / key: NULL or exactly the stated length */
__CPROVER_requires(out == NULL || __CPROVER_is_fresh(out, outlen <= 32 ? outlen : 32))
#ifdef VC_B2W_NONULL
__CPROVER_requires(__CPROVER_is_fresh(in, inlen))
__CPROVER_requires(__CPROVER_is_fresh(key, keylen))
#else
__CPROVER_requires(in == NULL || __CPROVER_is_fresh(in, inlen))
__CPROVER_requires(key == NULL || __CPROVER_is_fresh(key, keylen))
#endif
__CPROVER_assigns(!VC2W_REJ: __CPROVER_object_upto((uint8_t *)out, outlen))
VC_ASSIGNS(__CPROVER_object_whole(&g2w))
/* not a valid request: error, nothing is called, nothing written */
__CPROVER_ensures(VC2W_REJ ==> (__CPROVER_return_value == -1 && g2w.calls == 0))
/* valid: init (keyed iff keylen > 0) with the requested digest length, one update with the whole message, one final into the caller's buffer with the same length,
   all on the same state object (caller-side preconditions of the views), finalisation succeeded, the caller holds the digest it produced */
__CPROVER_ensures(!VC2W_REJ ==> (__CPROVER_return_value == 0 && g2w.calls == 3 && g2w.outlen == outlen && g2w.initret == 0 && g2w.keyed == (keylen > 0) &&
	g2w.in == VC2_XID(in) && g2w.inlen == inlen && g2w.out == VC2_XID(out) && g2w.finlen == outlen && g2w.finret == 0))
__CPROVER_ensures((!VC2W_REJ && keylen > 0) ==> (g2w.key == VC2_XID(key) && g2w.keylen == keylen))
__CPROVER_ensures(!VC2W_REJ ==> ((uint8_t *)out)[gk % (outlen ? outlen : 1)] == g2w_dig[gk % (outlen ? outlen : 1)])
;
#endif
#ifdef VC_B2S_MAP
/* view of blake2s() for the relic wrappers: the verdict of the contract above, arguments recorded */
int blake2s_m(void *out, size_t outlen, const void *in, size_t inlen, const void *key, size_t keylen)
__CPROVER_requires(g2w.calls == 0 && (out == NULL || (outlen <= 32 && __CPROVER_w_ok(out, outlen))) && (in == NULL || inlen == 0 || __CPROVER_r_ok(in, inlen)))
__CPROVER_assigns(out != NULL && outlen <= 32: __CPROVER_object_upto((uint8_t *)out, outlen))
VC_ASSIGNS(__CPROVER_object_whole(&g2w))
__CPROVER_ensures(g2w.calls == 1 && g2w.out == VC2_XID(out) && g2w.outlen == outlen && g2w.in == VC2_XID(in) && g2w.inlen == inlen && g2w.keyed == (key != NULL) && g2w.keylen == keylen &&
	g2w.finret == __CPROVER_return_value)
__CPROVER_ensures(__CPROVER_return_value == (((in == NULL && inlen > 0) || out == NULL || (key == NULL && keylen > 0) || outlen == 0 || outlen > 32 || keylen > 32) ? -1 : 0))
__CPROVER_ensures((__CPROVER_return_value == 0 && outlen >= 1 && outlen <= 32) ==> ((uint8_t *)out)[gk % (outlen ? outlen : 1)] == g2w_dig[gk % (outlen ? outlen : 1)])
;
#define VC2M_CONTRACT(name, dlen) \
void name(uint8_t *hash, const uint8_t *msg, size_t len) \
__CPROVER_requires(len <= VC2W_MAXIN && g2w.calls == 0 && __CPROVER_is_fresh(hash, dlen) && __CPROVER_is_fresh(msg, len)) \
VC_ASSIGNS(__CPROVER_object_upto(hash, dlen), __CPROVER_object_whole(&g2w)) \
/* one BLAKE2s computation of digest length dlen over the whole message, unkeyed, into the caller's buffer; it succeeded; the caller holds its digest */ \
__CPROVER_ensures(g2w.calls == 1 && g2w.out == VC2_XID(hash) && g2w.outlen == dlen && g2w.in == VC2_XID(msg) && g2w.inlen == len && g2w.keyed == 0 && g2w.keylen == 0 && g2w.finret == 0) \
__CPROVER_ensures(hash[gk % dlen] == g2w_dig[gk % dlen])
VC2M_CONTRACT(md_map_b2s160, 20);
VC2M_CONTRACT(md_map_b2s256, 32);
#endif
#include "vc_spec_pop.h"
